package main

// E2: tracking of one error value along the paths on which it has a given kind
// (non-nil; or "neither nil nor io.EOF").

import (
	"go/token"
	"go/types"

	"golang.org/x/tools/go/ssa"
)

type ErrKind int

const (
	KindNonNil     ErrKind = iota // paths on which the error is not nil
	KindOtherError                // paths on which the error is neither nil nor io.EOF
	KindSuccess                   // paths on which the error is nil
)

type ErrTrack struct {
	p        *Program
	fn       *ssa.Function
	call     ssa.CallInstruction
	kind     ErrKind
	tr       *TypeRole // receiver role, for own-method sticky forwarding (may be nil)
	Carriers map[ssa.Value]bool
	Reach    map[*ssa.BasicBlock]bool // blocks reachable from the call on paths consistent with kind
	slots    []slotDef
}

type slotDef struct {
	root ssa.Value
	sel  string
	from ssa.Instruction
}

func isSentinel(v ssa.Value, pkg, name string) bool {
	g := globalLoad(v)
	return g != nil && g.Pkg != nil && g.Pkg.Pkg.Path() == pkg && g.Name() == name
}

// contradicts: does fact f (holding on an edge) contradict the tracked kind for a carrier?
func (t *ErrTrack) contradicts(f Fact) bool {
	if f.Y == nil {
		return false
	}
	var c, other ssa.Value
	if t.Carriers[f.X] {
		c, other = f.X, f.Y
	} else if t.Carriers[f.Y] {
		c, other = f.Y, f.X
	} else {
		return false
	}
	_ = c
	switch t.kind {
	case KindNonNil:
		return f.Op == token.EQL && isNil(other)
	case KindSuccess:
		return f.Op == token.NEQ && isNil(other)
	case KindOtherError:
		if f.Op != token.EQL {
			return false
		}
		// bufio.ErrBufferFull is not exempt: the inflater and the container readers only Peek sizes below bufio's
		// minimum buffer (R11.1, R08.3, R04.5), so that value can only be the source's own error (defect #22)
		return isNil(other) || isSentinel(other, "io", "EOF")
	}
	return false
}

func (t *ErrTrack) EdgeOK(from, to *ssa.BasicBlock) bool {
	br, ok := edgeCond(from, to)
	if !ok {
		return true
	}
	f, ok := branchFact(br)
	if !ok {
		return true
	}
	return !t.contradicts(f)
}

func (t *ErrTrack) computeReach() {
	t.Reach = map[*ssa.BasicBlock]bool{}
	start := t.call.Block()
	// the tail of the call's own block is reachable; successors follow
	work := []*ssa.BasicBlock{}
	for _, s := range start.Succs {
		if t.EdgeOK(start, s) {
			work = append(work, s)
		}
	}
	for len(work) > 0 {
		b := work[len(work)-1]
		work = work[:len(work)-1]
		if t.Reach[b] {
			continue
		}
		t.Reach[b] = true
		for _, s := range b.Succs {
			if t.EdgeOK(b, s) && !t.Reach[s] {
				work = append(work, s)
			}
		}
	}
}

// isSlotWriter: may instruction x overwrite slot s?
func (t *ErrTrack) isSlotWriter(x ssa.Instruction, s slotDef) bool {
	if x == s.from {
		return false
	}
	if st, ok := x.(*ssa.Store); ok {
		r2, s2 := accessPath(st.Addr)
		return r2 == s.root && s2 == s.sel
	}
	if cc, ok := x.(ssa.CallInstruction); ok {
		if _, isAlloc := s.root.(*ssa.Alloc); isAlloc {
			return false
		}
		// a method of the same receiver object may rewrite its fields
		com := cc.Common()
		if f := com.StaticCallee(); f != nil && f.Signature.Recv() != nil && len(com.Args) > 0 && com.Args[0] == s.root {
			return true
		}
	}
	return false
}

func NewErrTrack(p *Program, fn *ssa.Function, call ssa.CallInstruction, kind ErrKind, tr *TypeRole) *ErrTrack {
	t := &ErrTrack{p: p, fn: fn, call: call, kind: kind, tr: tr, Carriers: map[ssa.Value]bool{}}
	for _, ev := range errorResults(call) {
		t.Carriers[ev] = true
	}
	// a call to a method of the same receiver records its failures in the sticky field
	if tr != nil && tr.Sticky != "" && len(fn.Params) > 0 {
		com := call.Common()
		if f := com.StaticCallee(); f != nil && f.Signature.Recv() != nil && len(com.Args) > 0 && com.Args[0] == ssa.Value(fn.Params[0]) && derefNamed(f.Signature.Recv().Type()) == tr.Named {
			t.slots = append(t.slots, slotDef{fn.Params[0], "." + tr.Sticky, call})
		}
	}
	for iter := 0; iter < 12; iter++ {
		t.computeReach()
		before := len(t.Carriers) + len(t.slots)
		t.propagate()
		if len(t.Carriers)+len(t.slots) == before {
			break
		}
	}
	t.computeReach()
	return t
}

func (t *ErrTrack) inReach(in ssa.Instruction) bool {
	if in.Block() == t.call.Block() && instrIndex(in) > instrIndex(t.call) {
		return true
	}
	return t.Reach[in.Block()]
}

func (t *ErrTrack) hasSlot(root ssa.Value, sel string, from ssa.Instruction) bool {
	for _, s := range t.slots {
		if s.root == root && s.sel == sel && s.from == from {
			return true
		}
	}
	return false
}

func (t *ErrTrack) propagate() {
	changed := true
	for changed {
		changed = false
		add := func(v ssa.Value) {
			if v != nil && !t.Carriers[v] {
				t.Carriers[v] = true
				changed = true
			}
		}
		for v := range t.Carriers {
			refs := v.Referrers()
			if refs == nil {
				continue
			}
			for _, in := range *refs {
				switch x := in.(type) {
				case *ssa.Phi:
					// a phi carries the tracked error when every incoming edge that lies on a path of the
					// tracked kind brings a carrier: if another value can arrive on such a path (the error
					// replaced under a condition that is not a test of the error itself), whatever is
					// done with the phi is not known to be done with the source's error
					feasible, all := 0, true
					for i, e := range x.Edges {
						pred := x.Block().Preds[i]
						predOK := t.Reach[pred] || pred == t.call.Block()
						if !predOK || !t.EdgeOK(pred, x.Block()) {
							continue
						}
						if e == ssa.Value(x) {
							continue
						}
						feasible++
						if !t.Carriers[e] {
							all = false
						}
					}
					if feasible > 0 && all {
						add(x)
					}
				case *ssa.MakeInterface:
					add(x)
				case *ssa.ChangeInterface:
					add(x)
				case *ssa.ChangeType:
					add(x)
				case *ssa.Extract:
					if isErrorType(x.Type()) {
						add(x)
					}
				case *ssa.Store:
					if x.Val == v {
						root, sel := accessPath(x.Addr)
						if _, isAlloc := root.(*ssa.Alloc); isAlloc || sel != "" {
							if !t.hasSlot(root, sel, x) {
								t.slots = append(t.slots, slotDef{root, sel, x})
								changed = true
							}
						}
					}
				case *ssa.Call:
					com := x.Common()
					if f := com.StaticCallee(); f != nil && f.Blocks != nil && t.p.InRepo(f) {
						for i, a := range com.Args {
							if a == v && t.p.returnsParam(f, i) {
								add(x)
							}
						}
					}
				}
			}
		}
		// store -> load forwarding
		for _, s := range t.slots {
			for _, b := range t.fn.Blocks {
				for _, in := range b.Instrs {
					ld, ok := in.(*ssa.UnOp)
					if !ok || ld.Op != token.MUL || t.Carriers[ld] {
						continue
					}
					root, sel := accessPath(ld.X)
					if root != s.root || sel != s.sel {
						continue
					}
					isLd := func(x ssa.Instruction) bool { return x == ssa.Instruction(ld) }
					// reachable from the defining store on kind-consistent paths?
					reach, _, _ := PathQuery{Start: s.from, Target: isLd, EdgeOK: t.EdgeOK}.Find(t.fn)
					if !reach {
						continue
					}
					// every kind-consistent path from the call to the load passes through the store
					if s.from != ssa.Instruction(t.call) {
						avoid, _, _ := PathQuery{Start: t.call, Target: isLd, Barrier: func(x ssa.Instruction) bool { return x == s.from }, EdgeOK: t.EdgeOK}.Find(t.fn)
						if avoid {
							continue
						}
					}
					// no other writer of the slot between the store and the load
					w := func(x ssa.Instruction) bool { return t.isSlotWriter(x, s) }
					if interveningWriter(t.fn, s.from, ld, w, t.EdgeOK) {
						continue
					}
					t.Carriers[ld] = true
					changed = true
				}
			}
		}
	}
}

// Find runs a path query from the call over kind-consistent edges.
func (t *ErrTrack) Find(target, barrier func(ssa.Instruction) bool) (bool, ssa.Instruction, []int) {
	return PathQuery{Start: t.call, Target: target, Barrier: barrier, EdgeOK: t.EdgeOK}.Find(t.fn)
}

// StoredToField: is a carrier stored to root.sel anywhere on the tracked paths?
func (t *ErrTrack) StoredTo(root ssa.Value, sel string) bool {
	for _, s := range t.slots {
		if s.root == root && s.sel == sel {
			if _, ok := s.from.(*ssa.Store); ok {
				return true
			}
		}
	}
	return false
}

func errFieldOf(t types.Type) string {
	st := derefStruct(t)
	if st == nil {
		return ""
	}
	f := structFields(st, isErrorType)
	if len(f) == 1 {
		return f[0]
	}
	return ""
}

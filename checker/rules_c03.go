package main

// C03 - malformed input is rejected: structural clauses R03.1 - R03.4.

import (
	"go/token"
	"go/types"
	"strings"

	"golang.org/x/tools/go/ssa"
)

const flateRel = "compress/flate"

func init() {
	register(&PropSpec{
		ID: "C03",
		Rules: []Rule{
			{ID: "R03.1", Configs: "all", Run: ruleR03_1},
			{ID: "R03.2", Configs: "all", Run: ruleR03_2},
			{ID: "R03.3", Configs: "asm", Run: ruleR03_3},
			{ID: "R03.4", Configs: "all", Run: ruleR03_4},
			{ID: "R03.5", Configs: "asm", Run: func(p *Program, r *Report) { asmRuleR03_5(p, r) }},
			{ID: "R03.6", Configs: "all", Run: ruleR03_6},
			{ID: "R03.7", Configs: "all", Run: ruleR03_7},
			{ID: "R03.8", Configs: "all", Run: ruleR03_8},
		},
		Explanation: "Decides four structural necessary conditions of 'malformed input is rejected with the standard errors': (R03.1) every lookup-table builder clears what it does not assign - the whole short table on the no-codes return, the copied prefix before the first copy-forward, each long-table group before it is filled - so an unassigned code of an incomplete Huffman code can only decode to an invalid (zero-length) entry, never to what an earlier block left there; " +
			"(R03.2) every internal sentinel that the decode path can return is one that isError/step classify; (R03.3) at ArchLevel>=3 every assembly outcome other than success/end-of-input reaches a return with a non-nil error before any fallback; the constants the assembly can store in errno are among the Go errorNo* values (R03.5); " +
			"(R03.4) step returns only nil, io.EOF, io.ErrUnexpectedEOF (under err==errEndInput on the eof edge), a CorruptInputError, or the unchanged error of a source call - internal sentinels never escape; (R03.6) the over-subscription tests compare against 1<<15 in arithmetic at least 32 bits wide (a 16-bit Kraft sum wraps for a code over-subscribed by exactly two); (R03.7) in the Go decode loop the distance lookup is reached only under symbol <= maxLitLenSym, so the invalid-entry marker of the long table cannot be taken for a match length.",
		NotDecided: []string{
			"termination and freedom from index panics of the decode loops (runtime arithmetic)",
			"the accept/reject decision itself (header checks, over-subscription arithmetic)",
			"that every byte handed out before an error is genuine, beyond table clearing and the assembly rollback clauses",
		},
	})
}

func tableFields(st *types.Struct) (short, long string) {
	for i := 0; i < st.NumFields(); i++ {
		n := strings.ToLower(st.Field(i).Name())
		if _, isArr := st.Field(i).Type().Underlying().(*types.Array); !isArr {
			continue
		}
		if strings.HasPrefix(n, "short") {
			short = st.Field(i).Name()
		}
		if strings.HasPrefix(n, "long") {
			long = st.Field(i).Name()
		}
	}
	return
}

// elemStoreTo: is `in` a store into an element of recv.<field>? returns the stored value.
func elemStoreTo(in ssa.Instruction, recv ssa.Value, field string) (ssa.Value, bool) {
	st, ok := in.(*ssa.Store)
	if !ok {
		return nil, false
	}
	root, sel := accessPath(st.Addr)
	if root == recv && sel == "."+field+"[*]" {
		return st.Val, true
	}
	return nil, false
}

func isZeroConst(v ssa.Value) bool {
	k, ok := constInt(v)
	return ok && k == 0
}

// wholeFieldZero: is `in` a store of the zero value to the whole array field recv.<field>?
func wholeFieldZero(in ssa.Instruction, recv ssa.Value, field string) bool {
	st, ok := in.(*ssa.Store)
	if !ok {
		return false
	}
	root, sel := accessPath(st.Addr)
	if root != recv || sel != "."+field {
		return false
	}
	c, ok := st.Val.(*ssa.Const)
	return ok && c.Value == nil
}

func ruleR03_1(p *Program, r *Report) {
	r.Expect("R03.1", 9)
	nb := 0
	for _, tn := range []string{"largeHuffCodeTable", "smallHuffCodeTable"} {
		n := p.Named(flateRel, tn)
		if n == nil {
			r.Undecided("R03.1", tn, "-", "table type exists", "not found")
			continue
		}
		st := n.Underlying().(*types.Struct)
		short, long := tableFields(st)
		if short == "" || long == "" {
			r.Undecided("R03.1", tn+"|fields", p.Pos(n.Obj().Pos()), "short and long lookup arrays found", "not found")
			continue
		}
		for _, fn := range p.Funcs() {
			if fn.Signature.Recv() == nil || derefNamed(fn.Signature.Recv().Type()) != n {
				continue
			}
			recv := fn.Params[0]
			zeroShort := func(in ssa.Instruction) bool {
				if wholeFieldZero(in, recv, short) {
					return true
				}
				v, ok := elemStoreTo(in, recv, short)
				return ok && isZeroConst(v)
			}
			zeroLong := func(in ssa.Instruction) bool {
				if wholeFieldZero(in, recv, long) {
					return true
				}
				v, ok := elemStoreTo(in, recv, long)
				return ok && isZeroConst(v)
			}
			// copy-forward calls: copy(short[x:], short[:x])
			var copies []ssa.CallInstruction
			for _, c := range allCalls(fn) {
				bi, ok := c.Common().Value.(*ssa.Builtin)
				if !ok || bi.Name() != "copy" {
					continue
				}
				r0, s0 := accessPath(c.Common().Args[0])
				r1, s1 := accessPath(c.Common().Args[1])
				if r0 == recv && r1 == recv && s0 == "."+short && s1 == "."+short {
					copies = append(copies, c)
				}
			}
			if len(copies) > 0 {
				nb++
				first := copies[0]
				// (b) the copied prefix is cleared before the first copy-forward
				found, _, path := PathQuery{Target: func(x ssa.Instruction) bool { return x == ssa.Instruction(first) }, Barrier: loopAware(fn, zeroShort)}.Find(fn)
				why := ""
				if found {
					why = "the copy-forward at " + p.InstrPos(first) + " is reachable (blocks " + fmtInts(path) + ") without clearing the prefix it copies: entries of the previous block are replicated over the whole table"
				} else {
					// the cleared range is the initial copy prefix (or the whole table)
					if msg := clearedRangeMatches(fn, recv, short, first); msg != "" {
						why = msg
					}
				}
				r.Check(why == "", "R03.1", shortFn(fn)+"|(b) prefix cleared before copy-forward", p.InstrPos(first), "the short table prefix that the copy-forward replicates is cleared first", why)
				// (a) early returns (before any copy-forward) clear the whole short table
				for _, b := range fn.Blocks {
					for _, in := range b.Instrs {
						ret, ok := in.(*ssa.Return)
						if !ok {
							continue
						}
						viaCopy, _, _ := PathQuery{Start: first, Target: func(x ssa.Instruction) bool { return x == ssa.Instruction(ret) }}.Find(fn)
						if viaCopy {
							continue
						}
						f2, _, _ := PathQuery{Target: func(x ssa.Instruction) bool { return x == ssa.Instruction(ret) }, Barrier: loopAware(fn, zeroShort)}.Find(fn)
						w2 := ""
						if f2 {
							w2 = "the early return at " + p.InstrPos(ret) + " leaves the previous block's table in place: with no codes assigned every lookup must hit an invalid entry"
						} else if !wholeTableCleared(fn, recv, short, ret) {
							w2 = "the clearing loop before the early return does not range over the whole table"
						}
						r.Check(w2 == "", "R03.1", shortFn(fn)+"|(a) no-codes return clears the table", p.InstrPos(ret), "the no-codes early return clears the whole short table", w2)
					}
				}
			}
			// (c) long-table fills are preceded by a clear of the group
			var fills []ssa.Instruction
			for _, b := range fn.Blocks {
				for _, in := range b.Instrs {
					if v, ok := elemStoreTo(in, recv, long); ok && !isZeroConst(v) {
						fills = append(fills, in)
					}
				}
			}
			if len(fills) > 0 {
				bad := ""
				for _, s := range fills {
					found, _, path := PathQuery{Target: func(x ssa.Instruction) bool { return x == s }, Barrier: loopAware(fn, zeroLong)}.Find(fn)
					if found {
						bad = "the fill at " + p.InstrPos(s) + " is reachable (blocks " + fmtInts(path) + ") without clearing the group: slots of unassigned long codes keep the previous block's symbols"
					}
				}
				// per group: the clear must sit inside the loop that allocates groups, i.e. between the loop header and the fill
				if bad == "" {
					bad = clearInsideGroupLoop(fn, fills, zeroLong)
				}
				r.Check(bad == "", "R03.1", shortFn(fn)+"|(c) long-table group cleared before fill", p.InstrPos(fills[0]), "each long-table group is cleared before its assigned slots are filled", bad)
			}
		}
	}
	if nb < 3 {
		r.Undecided("R03.1", "builders", "-", "three table builders with a copy-forward loop (genForLitLen, genForDists, GenerateForHeader)", "found "+itoa(nb))
	}
}

// clearedRangeMatches: the clearing loop before `first` ranges over short[:k] where k is the initial value of
// the size used by the copy (or over the whole table).
func clearedRangeMatches(fn *ssa.Function, recv ssa.Value, short string, first ssa.CallInstruction) string {
	// size used by the copy: High of args[1] slice
	sl, ok := first.Common().Args[1].(*ssa.Slice)
	if !ok || sl.High == nil {
		return ""
	}
	inits := map[ssa.Value]bool{}
	if phi, ok := sl.High.(*ssa.Phi); ok {
		for _, e := range phi.Edges {
			inits[e] = true
		}
	} else {
		inits[sl.High] = true
	}
	// find zero stores dominating-ish: their index comes from a range over a slice short[:h]
	okRange := false
	seenLoop := false
	for _, b := range fn.Blocks {
		for _, in := range b.Instrs {
			if wholeFieldZero(in, recv, short) {
				if f, _, _ := (PathQuery{Start: in, Target: func(x ssa.Instruction) bool { return x == ssa.Instruction(first) }}).Find(fn); f {
					return ""
				}
			}
			v, isSt := elemStoreTo(in, recv, short)
			if !isSt || !isZeroConst(v) {
				continue
			}
			if f, _, _ := (PathQuery{Start: in, Target: func(x ssa.Instruction) bool { return x == ssa.Instruction(first) }}).Find(fn); !f {
				continue
			}
			seenLoop = true
			st := in.(*ssa.Store)
			ia, ok := st.Addr.(*ssa.IndexAddr)
			if !ok {
				continue
			}
			// bound of the loop index: look for a comparison idx < len(x) where x is a slice short[:h]
			if refs := ia.Index.Referrers(); refs != nil || true {
				for _, bb := range fn.Blocks {
					for _, i2 := range bb.Instrs {
						bo, ok := i2.(*ssa.BinOp)
						if !ok || bo.Op != token.LSS {
							continue
						}
						if !valueMayBe(ia.Index, bo.X, map[ssa.Value]bool{}) && !derivesFrom(ia.Index, bo.X) {
							continue
						}
						if c, ok := bo.Y.(*ssa.Call); ok {
							if bi, ok := c.Common().Value.(*ssa.Builtin); ok && bi.Name() == "len" {
								if s2, ok := c.Common().Args[0].(*ssa.Slice); ok {
									if s2.High == nil || inits[s2.High] {
										okRange = true
									}
								} else {
									okRange = true // len of the whole array
								}
							}
						}
						if k, ok := constInt(bo.Y); ok && k > 0 {
							okRange = true // fixed-size array range
						}
						if inits[bo.Y] || inits[stripConv(bo.Y)] {
							okRange = true // for i := 0; i < copySize; i++
						}
					}
				}
			}
		}
	}
	if seenLoop && !okRange {
		return "the cleared range is not the initial copy prefix (expected a loop over " + short + "[:copySize])"
	}
	return ""
}

func derivesFrom(v, from ssa.Value) bool {
	seen := map[ssa.Value]bool{}
	var walk func(x ssa.Value) bool
	walk = func(x ssa.Value) bool {
		if x == from {
			return true
		}
		if x == nil || seen[x] {
			return false
		}
		seen[x] = true
		switch y := x.(type) {
		case *ssa.Phi:
			for _, e := range y.Edges {
				if walk(e) {
					return true
				}
			}
		case *ssa.BinOp:
			return walk(y.X) || walk(y.Y)
		case *ssa.Convert:
			return walk(y.X)
		}
		return false
	}
	return walk(v) || func() bool {
		// from may derive from v (loop counter incremented): i' = i + 1
		seen = map[ssa.Value]bool{}
		tmp := from
		from = v
		return walk(tmp)
	}()
}

// wholeTableCleared: some zero store reaching ret is in a loop bounded by the full array length.
func wholeTableCleared(fn *ssa.Function, recv ssa.Value, short string, ret ssa.Instruction) bool {
	for _, b := range fn.Blocks {
		for _, in := range b.Instrs {
			if wholeFieldZero(in, recv, short) {
				if f, _, _ := (PathQuery{Start: in, Target: func(x ssa.Instruction) bool { return x == ret }}).Find(fn); f {
					return true
				}
			}
			v, isSt := elemStoreTo(in, recv, short)
			if !isSt || !isZeroConst(v) {
				continue
			}
			if f, _, _ := (PathQuery{Start: in, Target: func(x ssa.Instruction) bool { return x == ret }}).Find(fn); !f {
				continue
			}
			ia, ok := in.(*ssa.Store).Addr.(*ssa.IndexAddr)
			if !ok {
				continue
			}
			// index compared against a constant equal to the array length, or len(whole array/slice of it)
			for _, bb := range fn.Blocks {
				for _, i2 := range bb.Instrs {
					bo, ok := i2.(*ssa.BinOp)
					if !ok || bo.Op != token.LSS || !derivesFrom(ia.Index, bo.X) {
						continue
					}
					if k, ok := constInt(bo.Y); ok {
						if arr, isArr := derefArray(ia.X.Type()); isArr && k == arr.Len() {
							return true
						}
						if _, isSl := ia.X.Type().Underlying().(*types.Slice); isSl && k > 0 {
							return true
						}
					}
					if c, ok := bo.Y.(*ssa.Call); ok {
						if bi, ok := c.Common().Value.(*ssa.Builtin); ok && bi.Name() == "len" {
							a := c.Common().Args[0]
							if s2, ok := a.(*ssa.Slice); ok {
								if s2.High == nil && s2.Low == nil {
									return true
								}
							} else {
								return true
							}
						}
					}
				}
			}
		}
	}
	return false
}

// clearInsideGroupLoop: the zeroing of the long table must lie in the same loop nest iteration as the fills:
// a path from the zero store's loop... Approximation that is exact for deletion/hoisting: the innermost loop header
// that dominates both a fill and reaches itself again (the group loop) must also dominate a zero store.
func clearInsideGroupLoop(fn *ssa.Function, fills []ssa.Instruction, zero func(ssa.Instruction) bool) string {
	loopHeaders := func(b *ssa.BasicBlock) []*ssa.BasicBlock {
		var hs []*ssa.BasicBlock
		for _, h := range fn.Blocks {
			if !h.Dominates(b) {
				continue
			}
			for _, pr := range h.Preds {
				if h.Dominates(pr) {
					// b inside the loop: b reaches the back edge source
					if f, _, _ := (PathQuery{Target: func(x ssa.Instruction) bool { return x.Block() == pr }}).findFromBlock(fn, b); f || b == pr {
						hs = append(hs, h)
					}
					break
				}
			}
		}
		return hs
	}
	for _, s := range fills {
		hs := loopHeaders(s.Block())
		if len(hs) < 2 {
			continue // not in a nested loop: nothing more to require
		}
		// outermost loop containing the fill = the group loop
		outer := hs[0]
		for _, h := range hs {
			if h.Dominates(outer) {
				outer = h
			}
		}
		ok := false
		for _, b := range fn.Blocks {
			for _, in := range b.Instrs {
				if zero(in) {
					for _, h := range loopHeaders(b) {
						if h == outer {
							ok = true
						}
					}
				}
			}
		}
		if !ok {
			return "the clearing of the long table is outside the loop that allocates groups (fill at block " + itoa(s.Block().Index) + ")"
		}
	}
	return ""
}

func ruleR03_2(p *Program, r *Report) {
	r.Expect("R03.2", 4)
	start := p.Method(flateRel, "decompressor", "decomperss")
	isErr := p.Func(flateRel, "isError")
	if start == nil || isErr == nil {
		r.Undecided("R03.2", "anchors", "-", "decompressor.decomperss and isError exist", "not found")
		return
	}
	classified := map[*ssa.Global]bool{}
	for _, b := range isErr.Blocks {
		for _, in := range b.Instrs {
			if bo, ok := in.(*ssa.BinOp); ok && bo.Op == token.EQL {
				for _, v := range []ssa.Value{bo.X, bo.Y} {
					if g := globalLoad(v); g != nil {
						classified[g] = true
					}
				}
			}
		}
	}
	benign := map[string]bool{"errEndInput": true, "errOutputOverflow": true}
	// reachable functions
	seen := map[*ssa.Function]bool{}
	var order []*ssa.Function
	var visit func(f *ssa.Function)
	visit = func(f *ssa.Function) {
		if f == nil || seen[f] || f.Blocks == nil {
			return
		}
		seen[f] = true
		order = append(order, f)
		for _, c := range allCalls(f) {
			cs, _ := p.Callees(c)
			for _, g := range cs {
				visit(g)
			}
		}
	}
	visit(start)
	returned := map[*ssa.Global][]string{}
	for _, f := range order {
		for _, b := range f.Blocks {
			for _, in := range b.Instrs {
				ret, ok := in.(*ssa.Return)
				if !ok {
					continue
				}
				e := returnErr(ret)
				if e == nil {
					continue
				}
				for _, leaf := range p.valueSources(e) {
					if g := globalLoad(leaf); g != nil && p.InRepo(&ssa.Function{Pkg: g.Pkg}) {
						returned[g] = append(returned[g], shortFn(f))
					}
				}
			}
		}
	}
	r.Note("R03.2: %d functions reachable from decomperss, %d sentinels returned, %d classified by isError", len(order), len(returned), len(classified))
	for g, where := range returned {
		ok := classified[g] || benign[g.Name()]
		r.Check(ok, "R03.2", "sentinel "+g.Name(), p.Pos(g.Pos()), "internal outcome "+g.Name()+" (returned by "+summarize(where)+") is classified by isError or is one of the two continue-outcomes", "not classified: step would treat it as 'no error' and go on decoding")
	}
	for g := range classified {
		if _, ok := returned[g]; !ok {
			r.Note("R03.2: isError tests %s which no decode function returns", g.Name())
		}
	}
}

func ruleR03_3(p *Program, r *Report) {
	r.Expect("R03.3", 1)
	fn := p.Func(flateRel, "decodeHuffman")
	if fn == nil {
		r.Undecided("R03.3", "anchor:decodeHuffman", "-", "dispatch function exists", "not found")
		return
	}
	var asmCall *ssa.Call
	for _, c := range allCalls(fn) {
		if f := c.Common().StaticCallee(); f != nil && f.Blocks == nil && p.InRepo(f) {
			asmCall, _ = c.(*ssa.Call)
		}
	}
	if asmCall == nil {
		r.Undecided("R03.3", "anchor:asm call", p.Pos(fn.Pos()), "decodeHuffman calls the assembly loop", "not found")
		return
	}
	var errno ssa.Value
	for _, u := range *asmCall.Referrers() {
		if ex, ok := u.(*ssa.Extract); ok && ex.Index == 1 {
			errno = ex
		}
	}
	endInput, _ := constOf(p, flateRel, "errorNoEndInput")
	edgeOK := func(a, b *ssa.BasicBlock) bool {
		br, ok := edgeCond(a, b)
		if !ok {
			return true
		}
		f, ok := branchFact(br)
		if !ok || f.Y == nil || f.X != errno {
			return true
		}
		k, isK := constInt(f.Y)
		if !isK {
			return true
		}
		// we follow the outcomes that are neither success (0) nor end-of-input
		if f.Op == token.EQL && (k == 0 || k == endInput) {
			return false
		}
		return true
	}
	// a mapping helper: a call-free function of the package whose every return is a non-nil error (the errno
	// switch extracted into a function)
	mapping := func(v ssa.Value) bool {
		c, ok := v.(*ssa.Call)
		if !ok {
			return false
		}
		h := c.Common().StaticCallee()
		if h == nil || h.Blocks == nil || h.Pkg != fn.Pkg || len(allCalls(h)) != 0 {
			return false
		}
		n := 0
		for _, b := range h.Blocks {
			for _, in := range b.Instrs {
				if ret, ok := in.(*ssa.Return); ok {
					e := returnErr(ret)
					if e == nil || p.mayBeNil(h, e, ret) {
						return false
					}
					n++
				}
			}
		}
		return n > 0
	}
	bad := func(in ssa.Instruction) bool {
		switch x := in.(type) {
		case *ssa.Return:
			e := returnErr(x)
			if e != nil && mapping(e) {
				return false
			}
			return e == nil || p.mayBeNilPhiAware(fn, e, x, edgeOK, asmCall)
		case ssa.CallInstruction:
			if v, ok := x.(ssa.Value); ok && mapping(v) {
				return false
			}
			return x != ssa.CallInstruction(asmCall)
		}
		return false
	}
	good := func(in ssa.Instruction) bool {
		ret, ok := in.(*ssa.Return)
		if !ok {
			return false
		}
		e := returnErr(ret)
		if e != nil && mapping(e) {
			return true
		}
		return e != nil && !p.mayBeNilPhiAware(fn, e, ret, edgeOK, asmCall)
	}
	// the path must first establish errno != 0 and != endInput: require that the search is meaningful
	found, hit, path := PathQuery{Start: asmCall, Target: bad, Barrier: good, EdgeOK: edgeOK}.Find(fn)
	why := ""
	if found {
		why = "for an outcome other than 0/end-of-input, " + describeInstr(p, hit) + " is reached (blocks " + fmtInts(path) + ") without a non-nil error: the assembly loop's verdict is dropped and decoding goes on"
	}
	r.Check(!found, "R03.3", "decodeHuffman|errno mapping total", p.InstrPos(asmCall), "every assembly outcome other than success and end-of-input is returned as a non-nil error before anything else happens", why)
}

// mayBeNilPhiAware: like mayBeNil, but a phi only takes values from predecessors reachable from `from` over allowed edges.
func (p *Program) mayBeNilPhiAware(fn *ssa.Function, v ssa.Value, at ssa.Instruction, edgeOK func(a, b *ssa.BasicBlock) bool, from ssa.Instruction) bool {
	reach := map[*ssa.BasicBlock]bool{}
	work := []*ssa.BasicBlock{}
	for _, s := range from.Block().Succs {
		if edgeOK(from.Block(), s) {
			work = append(work, s)
		}
	}
	for len(work) > 0 {
		b := work[len(work)-1]
		work = work[:len(work)-1]
		if reach[b] {
			continue
		}
		reach[b] = true
		for _, s := range b.Succs {
			if edgeOK(b, s) {
				work = append(work, s)
			}
		}
	}
	seen := map[ssa.Value]bool{}
	var may func(v ssa.Value) bool
	may = func(v ssa.Value) bool {
		if seen[v] {
			return false
		}
		seen[v] = true
		if phi, ok := v.(*ssa.Phi); ok {
			for i, e := range phi.Edges {
				pr := phi.Block().Preds[i]
				if !(reach[pr] || pr == from.Block()) || !edgeOK(pr, phi.Block()) {
					continue
				}
				if may(e) {
					return true
				}
			}
			return false
		}
		return p.mayBeNil(fn, v, at)
	}
	return may(v)
}

func ruleR03_4(p *Program, r *Report) {
	r.Expect("R03.4", 5)
	fn := p.Method(flateRel, "decompressor", "step")
	if fn == nil {
		r.Undecided("R03.4", "anchor:step", "-", "decompressor.step exists", "not found")
		return
	}
	// classify one leaf of a returned error; a call into a repository helper is classified by the
	// helper's own returns (so extracting a few statements of step into a method changes nothing)
	var classify func(leaf ssa.Value, depth int) string
	classify = func(leaf ssa.Value, depth int) string {
		switch {
		case isSentinel(leaf, "io", "EOF"):
			return ""
		case isSentinel(leaf, "io", "ErrUnexpectedEOF"):
			// only on the end-of-input-at-eof path
			inst, _ := leaf.(ssa.Instruction)
			if inst != nil {
				for _, f := range dominatingFacts(inst) {
					if f.Op == token.EQL && f.Y != nil {
						for _, v := range []ssa.Value{f.X, f.Y} {
							if g := globalLoad(v); g != nil && g.Name() == "errEndInput" {
								return ""
							}
						}
					}
				}
			}
			return "io.ErrUnexpectedEOF is produced outside the err == errEndInput branch"
		}
		if mi, ok := leaf.(*ssa.MakeInterface); ok && isNamedType(mi.X.Type(), stdFlate, "CorruptInputError") {
			return ""
		}
		var call *ssa.Call
		idx := 0
		if ex, ok := leaf.(*ssa.Extract); ok {
			call, _ = ex.Tuple.(*ssa.Call)
			idx = ex.Index
		} else if c, ok := leaf.(*ssa.Call); ok {
			call = c
		}
		if call != nil {
			if d, _ := srcDirect(callInfo(call)); d {
				return ""
			}
			if g := call.Common().StaticCallee(); g != nil && g.Blocks != nil && g != fn && depth < 3 && p.IsRepoFunc(g) {
				for _, gb := range g.Blocks {
					for _, gin := range gb.Instrs {
						gret, ok := gin.(*ssa.Return)
						if !ok || idx >= len(gret.Results) {
							continue
						}
						for _, l2 := range eofLeaves(p, g, gret.Results[idx]) {
							if w := classify(l2, depth+1); w != "" {
								return "through " + shortFn(g) + ": " + w
							}
						}
					}
				}
				return ""
			}
		}
		return "can return " + describeValue(leaf) + ": not nil, io.EOF, io.ErrUnexpectedEOF, a CorruptInputError or a source error"
	}
	lab := newLabeler()
	for _, b := range fn.Blocks {
		for _, in := range b.Instrs {
			ret, ok := in.(*ssa.Return)
			if !ok {
				continue
			}
			e := returnErr(ret)
			key := shortFn(fn) + "|" + lab.get("return "+retLabel(p, e))
			why := ""
			for _, leaf := range eofLeaves(p, fn, e) {
				if w := classify(leaf, 0); w != "" {
					why = w
				}
			}
			r.Check(why == "", "R03.4", key, p.InstrPos(ret), "step returns only nil, io.EOF, io.ErrUnexpectedEOF, CorruptInputError or the source's own error", why)
		}
	}
}

// R03.6: the Kraft-sum comparison against 1<<maxHuffTreeDepth is done in >= 32-bit arithmetic.
// kraftSite: a code-space (Kraft) sum of the inflater and the comparisons that decide on it. The sum is the
// left operand of a comparison with 1<<maxHuffTreeDepth; when that operand is a parameter of a helper
// (completeCode(kraft, ...)), the sums are the arguments at the helper's call sites and all of the helper's
// comparisons on that parameter apply to each of them.
type kraftSite struct {
	fn   *ssa.Function
	sum  ssa.Value
	at   ssa.Instruction
	cmps []*ssa.BinOp
}

func kraftSites(p *Program) []kraftSite {
	sp := p.Pkg(flateRel)
	var out []kraftSite
	byParam := map[*ssa.Parameter][]*ssa.BinOp{}
	direct := map[ssa.Value]*kraftSite{}
	var order []ssa.Value
	for _, fn := range p.Funcs() {
		if fn.Pkg != sp {
			continue
		}
		for _, b := range fn.Blocks {
			for _, in := range b.Instrs {
				bo, ok := in.(*ssa.BinOp)
				if !ok {
					continue
				}
				switch bo.Op {
				case token.GTR, token.GEQ, token.LSS, token.LEQ, token.EQL, token.NEQ:
				default:
					continue
				}
				x := bo.X
				k, isK := constInt(bo.Y)
				if !isK {
					k, isK = constInt(bo.X)
					x = bo.Y
				}
				if !isK || k != 1<<15 {
					continue
				}
				if prm, ok := stripConv(x).(*ssa.Parameter); ok {
					byParam[prm] = append(byParam[prm], bo)
					continue
				}
				if direct[x] == nil {
					direct[x] = &kraftSite{fn: fn, sum: x, at: bo}
					order = append(order, x)
				}
				direct[x].cmps = append(direct[x].cmps, bo)
			}
		}
	}
	for _, x := range order {
		out = append(out, *direct[x])
	}
	for _, fn := range p.Funcs() {
		for _, c := range allCalls(fn) {
			g := c.Common().StaticCallee()
			if g == nil {
				continue
			}
			for i, prm := range g.Params {
				if cmps := byParam[prm]; len(cmps) > 0 && i < len(c.Common().Args) {
					out = append(out, kraftSite{fn: fn, sum: c.Common().Args[i], at: c, cmps: cmps})
				}
			}
		}
	}
	return out
}

func ruleR03_6(p *Program, r *Report) {
	r.Expect("R03.6", 2)
	sites := kraftSites(p)
	labs := map[*ssa.Function]*labeler{}
	for _, ks := range sites {
		if labs[ks.fn] == nil {
			labs[ks.fn] = newLabeler()
		}
		key := shortFn(ks.fn) + "|" + labs[ks.fn].get("over-subscription test")
		// every value in the additive slice of the sum must be at least 32 bits wide
		narrow := ""
		seen := map[ssa.Value]bool{}
		var walk func(v ssa.Value)
		walk = func(v ssa.Value) {
			if v == nil || seen[v] || narrow != "" {
				return
			}
			seen[v] = true
			if bt, ok := v.Type().Underlying().(*types.Basic); ok && bt.Info()&types.IsInteger != 0 {
				if p.Sizes.Sizeof(v.Type()) < 4 {
					if _, isConv := v.(*ssa.Convert); !isConv {
						narrow = v.String() + " is " + v.Type().String()
						return
					}
				}
			}
			switch x := v.(type) {
			case *ssa.BinOp:
				if x.Op == token.ADD || x.Op == token.SHL || x.Op == token.SUB {
					walk(x.X)
					if x.Op != token.SHL {
						walk(x.Y)
					}
				}
			case *ssa.Phi:
				for _, e := range x.Edges {
					walk(e)
				}
			case *ssa.UnOp:
				// a load from the accumulator array: its element type counts
			case *ssa.Convert:
				// widening conversion of a count is fine; of an element of a local accumulator array it is not:
				// the wrap has already happened in the array
				if ld, ok := x.X.(*ssa.UnOp); ok && ld.Op == token.MUL {
					if ia, ok := ld.X.(*ssa.IndexAddr); ok {
						if al, ok := ia.X.(*ssa.Alloc); ok {
							if arr, ok := derefArray(al.Type()); ok && p.Sizes.Sizeof(arr.Elem()) < 4 && isAccumulator(al) {
								narrow = "local accumulator array of " + arr.Elem().String()
							}
						}
					}
				}
			}
		}
		walk(ks.sum)
		r.Check(narrow == "", "R03.6", key, p.InstrPos(ks.at), "the code-space sum compared with 1<<15 is accumulated in at least 32 bits", "accumulated in a narrower type ("+narrow+"): a code over-subscribed by exactly a factor of two wraps to 0 and is accepted")
	}
	if len(sites) < 2 {
		r.Undecided("R03.6", "sites", "-", "two over-subscription tests (setCodes, setAndExpandLitLenHuffCode)", "found "+itoa(len(sites)))
	}
}

// R03.8: a set of code lengths is accepted only if it is complete: each code-space sum is tested for equality
// with 1<<15 (or from both sides), not merely for "not larger". compress/flate and zlib reject an incomplete
// code in the header; accepting one ends in io.EOF on a stream the reference inflater calls corrupt.
func ruleR03_8(p *Program, r *Report) {
	r.Expect("R03.8", 2)
	labs := map[*ssa.Function]*labeler{}
	for _, ks := range kraftSites(p) {
		if labs[ks.fn] == nil {
			labs[ks.fn] = newLabeler()
		}
		key := shortFn(ks.fn) + "|" + labs[ks.fn].get("completeness test")
		eq, above, below := false, false, false
		for _, bo := range ks.cmps {
			sumLeft := true
			if _, isK := constInt(bo.X); isK {
				sumLeft = false
			}
			switch bo.Op {
			case token.EQL, token.NEQ:
				eq = true
			case token.GTR, token.GEQ:
				if sumLeft {
					above = true
				} else {
					below = true
				}
			case token.LSS, token.LEQ:
				if sumLeft {
					below = true
				} else {
					above = true
				}
			}
		}
		ok := eq || (above && below)
		r.Check(ok, "R03.8", key, p.InstrPos(ks.at), "a Huffman code described in a block header is accepted only if its code space is exactly used (or it is empty / the single 1-bit code)", "the code-space sum is only tested for being too large: an incomplete code is accepted, and a stream that compress/flate rejects as corrupt can end in io.EOF")
	}
}

// R03.7: the distance-table lookup of the Go decode loop is dominated by symbol <= maxLitLenSym.
func ruleR03_7(p *Program, r *Report) {
	r.Expect("R03.7", 1)
	fn := p.Func(flateRel, "decodeHuffmanLargeLoop")
	if fn == nil {
		r.Undecided("R03.7", "anchor", "-", "decodeHuffmanLargeLoop exists", "not found")
		return
	}
	maxSym, _ := constOf(p, flateRel, "maxLitLenSym")
	n := 0
	for _, b := range fn.Blocks {
		for _, in := range b.Instrs {
			u, ok := in.(*ssa.UnOp)
			if !ok || u.Op != token.MUL {
				continue
			}
			_, sel := accessPath(u.X)
			if !strings.HasSuffix(sel, ".distTable.ShortCodeLookup[*]") {
				continue
			}
			n++
			good := false
			facts := dominatingFacts(u)
			// the symbol: the value that was just found not to be the end-of-block code (256)
			var syms []ssa.Value
			for _, f := range facts {
				if f.Y != nil && f.Op == token.NEQ {
					if k, isK := constInt(f.Y); isK && k == 256 {
						syms = append(syms, f.X)
					}
				}
			}
			for _, f := range facts {
				if f.Y == nil {
					continue
				}
				isSym := false
				for _, sv := range syms {
					if sv == f.X {
						isSym = true
					}
				}
				if !isSym {
					continue
				}
				if k, isK := constInt(f.Y); isK {
					if (f.Op == token.LEQ && k <= maxSym) || (f.Op == token.LSS && k <= maxSym+1) {
						good = true
					}
				}
			}
			r.Check(good, "R03.7", "decodeHuffmanLargeLoop|distance lookup#"+itoa(n), p.InstrPos(u), "a distance is looked up only for a literal/length symbol <= maxLitLenSym", "the match branch is not bounded from above: the long table's invalid-entry marker would be decoded as a match length")
		}
	}
	if n == 0 {
		r.Undecided("R03.7", "decodeHuffmanLargeLoop|distance lookup", p.Pos(fn.Pos()), "the loop reads the distance table", "not found")
	}
}

// isAccumulator: elements of the local array are stored with sums/shifts (running totals), not plain copies.
func isAccumulator(al *ssa.Alloc) bool {
	if al.Referrers() == nil {
		return false
	}
	for _, u := range *al.Referrers() {
		ia, ok := u.(*ssa.IndexAddr)
		if !ok || ia.Referrers() == nil {
			continue
		}
		for _, u2 := range *ia.Referrers() {
			if st, ok := u2.(*ssa.Store); ok {
				if bo, ok := st.Val.(*ssa.BinOp); ok && (bo.Op == token.ADD || bo.Op == token.SHL) {
					return true
				}
			}
		}
	}
	return false
}

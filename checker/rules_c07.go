package main

// C07 - no success without a verified checksum; C08 - concatenated gzip members.

import (
	"go/token"
	"go/types"
	"sort"

	"golang.org/x/tools/go/ssa"
)

func init() {
	register(&PropSpec{
		ID: "C07",
		Rules: []Rule{
			{ID: "R07.1", Configs: "all", Run: ruleR07_1},
			{ID: "R07.2", Configs: "all", Run: ruleR07_2},
			{ID: "R07.3", Configs: "all", Run: ruleR07_3},
			{ID: "R07.4", Configs: "all", Run: ruleR07_4},
		},
		Explanation: "Decides on every path of gzip.Reader.Read and zlib.reader.Read: (R07.1) a return whose error may be io.EOF is either the replay of the stored error at entry, or dominated by the equal-edges of comparisons of ALL trailer words with the running digest/size - the compared words must tile the whole trailer buffer, so deleting or bypassing one comparison is seen; " +
			"(R07.2) the count returned is 0 or the count of the inner inflater Read of this call, never a trailer byte count; (R07.3) digest and size are updated with exactly p[:n] of that inner Read before any return; " +
			"(R07.4) the error of every source read inside a member (header fields after the first read, trailer, zlib header) cannot reach a return as io.EOF (noEOF or the explicit rewrite intervene). " +
			"Decided from SSA value flow, dominating branch facts and constant slice bounds.",
		NotDecided: []string{
			"that CRC-32/Adler-32 detect a particular corruption (probabilistic, and arithmetic)",
			"that the inflater hands out a prefix of the true payload (C02/C03)",
		},
	})
	register(&PropSpec{
		ID: "C08",
		Rules: []Rule{
			{ID: "R08.1", Configs: "all", Run: ruleR08_1},
			{ID: "R08.2", Configs: "all", Run: ruleR08_2},
		},
		Explanation: "Decides the structural part of member sequencing in gzip.Reader: (R08.1) header parser, inflater and trailer reader all read from one and the same field, which is assigned only in Reset (so bytes buffered by one are seen by the next); " +
			"(R08.2) the next member's header is read only after the trailer verification succeeded and only in multistream mode; with Multistream(false) Read returns io.EOF without touching the source again; digest and size restart at zero before the next header. " +
			"Exact positioning of the inflater at the member end, on which the behaviour also depends, is C05.",
		NotDecided: []string{
			"the inflater stops at the exact byte where the member's DEFLATE stream ends (C05, runtime arithmetic)",
			"payload equality per member",
		},
	})
}

type readerCtx struct {
	tr      *TypeRole
	fn      *ssa.Function // Read
	recv    ssa.Value
	inner   *ssa.Call // inner inflater Read
	trailer *ssa.Call // io.ReadFull of the trailer
	bufSel  string    // selector of the buffer field read into
	bufLen  int64
	words   []trailerWord
	eofa    *eofAnalysis
	// the function in which the trailer is read and compared: Read itself, or a same-package helper that Read calls
	// on its receiver (vcall) and whose nil result stands for "verified"
	vfn   *ssa.Function
	vrecv ssa.Value
	vcall *ssa.Call
	p     *Program
}

type trailerWord struct {
	call     *ssa.Call
	lo, hi   int64
	cmp      *ssa.BinOp
	other    ssa.Value // what it is compared with
	otherSel string    // receiver field the other side comes from (digest / size)
}

func sliceBounds(v ssa.Value) (base ssa.Value, sel string, lo, hi int64, ok bool) {
	sl, isSl := v.(*ssa.Slice)
	if !isSl {
		return nil, "", 0, 0, false
	}
	root, s := accessPath(sl.X)
	lo = 0
	if sl.Low != nil {
		l, k := constInt(sl.Low)
		if !k {
			return nil, "", 0, 0, false
		}
		lo = l
	}
	if sl.High == nil {
		if arr, isArr := derefArray(sl.X.Type()); isArr {
			hi = arr.Len()
		} else {
			return nil, "", 0, 0, false
		}
	} else {
		h, k := constInt(sl.High)
		if !k {
			return nil, "", 0, 0, false
		}
		hi = h
	}
	return root, s, lo, hi, true
}

func derefArray(t types.Type) (*types.Array, bool) {
	if p, ok := t.Underlying().(*types.Pointer); ok {
		t = p.Elem()
	}
	a, ok := t.Underlying().(*types.Array)
	return a, ok
}

// containerReaders: gzip.Reader and zlib.reader Read methods with their anchors.
func (p *Program) containerReaders(r *Report, rule string) []*readerCtx {
	var out []*readerCtx
	for _, tr := range p.ReaderTypes() {
		if tr.Rel != "compress/gzip" && tr.Rel != "compress/zlib" {
			continue
		}
		fn := tr.Ops["Read"]
		ctx := &readerCtx{tr: tr, fn: fn, recv: fn.Params[0], eofa: newEOFAnalysis(p)}
		for _, c := range allCalls(fn) {
			call, ok := c.(*ssa.Call)
			if !ok {
				continue
			}
			ci := callInfo(call)
			if ci.IfaceM != nil && ci.IfaceM.Name() == "Read" {
				if root, _, ok := fieldLoad(ci.Recv); ok && root == ctx.recv {
					ctx.inner = call
				}
			}
			if isFunc(ci.Static, "io", "ReadFull") && ctx.trailer == nil {
				if root, sel, lo, hi, ok := sliceBounds(call.Common().Args[1]); ok && root == ctx.recv && lo == 0 {
					ctx.trailer = call
					ctx.bufSel = sel
					ctx.bufLen = hi
				}
			}
		}
		ctx.vfn, ctx.vrecv, ctx.p = fn, ctx.recv, p
		if ctx.inner != nil && ctx.trailer == nil {
			// the trailer check may have been extracted into a helper method that returns an error
			for _, c := range allCalls(fn) {
				call, ok := c.(*ssa.Call)
				h := c.Common().StaticCallee()
				if !ok || h == nil || h.Blocks == nil || h.Pkg != fn.Pkg || len(h.Params) == 0 || len(call.Common().Args) == 0 || call.Common().Args[0] != ctx.recv {
					continue
				}
				if res := h.Signature.Results(); res.Len() != 1 || !isErrorType(res.At(0).Type()) {
					continue
				}
				for _, hc := range allCalls(h) {
					hcall, ok := hc.(*ssa.Call)
					if !ok || !isFunc(callInfo(hcall).Static, "io", "ReadFull") || ctx.trailer != nil {
						continue
					}
					if root, sel, lo, hi, ok := sliceBounds(hcall.Common().Args[1]); ok && root == ssa.Value(h.Params[0]) && lo == 0 {
						ctx.trailer, ctx.bufSel, ctx.bufLen = hcall, sel, hi
						ctx.vfn, ctx.vrecv, ctx.vcall = h, h.Params[0], call
					}
				}
			}
		}
		if ctx.inner == nil || ctx.trailer == nil {
			r.Undecided(rule, shortFn(fn)+"|anchors", p.Pos(fn.Pos()), "Read has an inner inflater Read call and a trailer io.ReadFull into a receiver buffer", "anchor not found")
			continue
		}
		// trailer words: Uint32 over slices of the same buffer, dominated by the trailer read
		for _, c := range allCalls(ctx.vfn) {
			call, ok := c.(*ssa.Call)
			if !ok {
				continue
			}
			f := call.Common().StaticCallee()
			if f == nil || f.Name() != "Uint32" || f.Pkg == nil || f.Pkg.Pkg.Path() != "encoding/binary" {
				continue
			}
			args := call.Common().Args
			root, sel, lo, hi, ok := sliceBounds(args[len(args)-1])
			if !ok || root != ctx.vrecv || sel != ctx.bufSel || !dominatesInstr(ctx.trailer, call) {
				continue
			}
			w := trailerWord{call: call, lo: lo, hi: lo + 4}
			if hi < w.hi {
				w.hi = hi
			}
			// comparison using the word
			if refs := call.Referrers(); refs != nil {
				for _, u := range *refs {
					if bo, ok := u.(*ssa.BinOp); ok && (bo.Op == token.NEQ || bo.Op == token.EQL) {
						w.cmp = bo
						w.other = bo.Y
						if bo.Y == ssa.Value(call) {
							w.other = bo.X
						}
					}
				}
			}
			if w.other != nil {
				if root, sel, ok := fieldLoad(w.other); ok && root == ctx.vrecv {
					w.otherSel = sel
				} else if oc, ok := w.other.(*ssa.Call); ok && oc.Common().IsInvoke() {
					if root, sel, ok := fieldLoad(oc.Common().Value); ok && root == ctx.vrecv {
						w.otherSel = sel
					}
				}
			}
			ctx.words = append(ctx.words, w)
		}
		sort.Slice(ctx.words, func(i, j int) bool { return ctx.words[i].lo < ctx.words[j].lo })
		out = append(out, ctx)
	}
	return out
}

// verifiedAt: is instruction `at` dominated by the equal-edge of every trailer word comparison?
func (ctx *readerCtx) verifiedAt(at ssa.Instruction) (bool, string) {
	if ctx.vcall != nil && at.Parent() == ctx.fn {
		// in Read: behind the nil result of the verifying helper, every nil-capable return of which is verified
		behind := false
		for _, f := range dominatingFacts(at) {
			if f.Op == token.EQL && f.Y != nil && ((f.X == ssa.Value(ctx.vcall) && isNil(f.Y)) || (f.Y == ssa.Value(ctx.vcall) && isNil(f.X))) {
				behind = true
			}
		}
		if !behind {
			return false, "not dominated by the nil result of " + shortFn(ctx.vfn) + ", which reads and compares the trailer"
		}
		for _, b := range ctx.vfn.Blocks {
			for _, in := range b.Instrs {
				ret, ok := in.(*ssa.Return)
				if !ok {
					continue
				}
				e := returnErr(ret)
				if e == nil || !ctx.p.mayBeNil(ctx.vfn, e, ret) {
					continue
				}
				if ok, why := ctx.verifiedAt(ret); !ok {
					return false, "the helper " + shortFn(ctx.vfn) + " can return nil at " + ctx.p.InstrPos(ret) + " where it is " + why
				}
			}
		}
		return true, ""
	}
	facts := dominatingFacts(at)
	for _, w := range ctx.words {
		if w.cmp == nil {
			return false, "trailer word [" + itoa(int(w.lo)) + ":" + itoa(int(w.hi)) + "] is never compared"
		}
		ok := false
		for _, f := range facts {
			if f.Op == token.EQL && f.Y != nil && ((f.X == w.cmp.X && f.Y == w.cmp.Y) || (f.X == w.cmp.Y && f.Y == w.cmp.X)) {
				ok = true
			}
		}
		if !ok {
			return false, "not dominated by the equal edge of the comparison of trailer word [" + itoa(int(w.lo)) + ":" + itoa(int(w.hi)) + "] with " + w.otherSel
		}
	}
	return true, ""
}

func ruleR07_1(p *Program, r *Report) {
	r.Expect("R07.1", 8)
	for _, ctx := range p.containerReaders(r, "R07.1") {
		fn := ctx.fn
		base := shortFn(fn)
		// coverage of the trailer buffer
		pos := int64(0)
		covered := true
		for _, w := range ctx.words {
			if w.lo != pos || w.cmp == nil || w.otherSel == "" {
				covered = false
			}
			pos = w.hi
		}
		if pos != ctx.bufLen {
			covered = false
		}
		r.Check(covered, "R07.1", base+"|trailer-coverage", p.InstrPos(ctx.trailer), "the words compared with the running digest/size tile the "+itoa(int(ctx.bufLen))+"-byte trailer read into "+ctx.bufSel, "compared ranges "+wordRanges(ctx.words)+" do not cover [0:"+itoa(int(ctx.bufLen))+"] or a word is not compared with a receiver field")
		// every return
		lab := newLabeler()
		for _, b := range fn.Blocks {
			for _, in := range b.Instrs {
				ret, ok := in.(*ssa.Return)
				if !ok {
					continue
				}
				e := returnErr(ret)
				key := base + "|" + lab.get("return "+retLabel(p, e))
				if e == nil {
					continue
				}
				if !ctx.eofa.MayBeEOF(fn, e, ret) {
					r.OK("R07.1", key, p.InstrPos(ret), "return cannot carry io.EOF")
					continue
				}
				// replay at entry: sticky load, no source call on any path from the entry
				if isStickyLoad(e, ctx.recv, ctx.tr.Sticky) {
					reachedViaSrc := false
					for _, c := range allCalls(fn) {
						if d, _ := p.isSrcCall(c); d {
							if f, _, _ := (PathQuery{Start: c, Target: func(x ssa.Instruction) bool { return x == ssa.Instruction(ret) }}).Find(fn); f {
								reachedViaSrc = true
							}
						}
					}
					if !reachedViaSrc {
						r.OK("R07.1", key, p.InstrPos(ret), "replay of the stored error before any source access")
						continue
					}
				}
				ok2, why := ctx.verifiedAt(ret)
				if ok2 {
					// where may that io.EOF come from? only from the next member's header read (file ends between
					// members) or from the literal io.EOF of single-member mode
					for _, leaf := range eofLeaves(p, fn, e) {
						if c, ok := leaf.(*ssa.Call); ok {
							if f := c.Common().StaticCallee(); f != nil && f.Name() == "readHeader" {
								continue
							}
						}
						if ex, ok := leaf.(*ssa.Extract); ok {
							if c, ok := ex.Tuple.(*ssa.Call); ok {
								if f := c.Common().StaticCallee(); f != nil && f.Name() == "readHeader" {
									continue
								}
							}
						}
						if isSentinel(leaf, "io", "EOF") {
							inst, _ := leaf.(ssa.Instruction)
							single := false
							if inst != nil {
								for _, f := range dominatingFacts(inst) {
									if f.Y == nil && f.Op == token.NEQ {
										if root, _, ok := fieldLoad(f.X); ok && root == ctx.recv && isBoolType(f.X.Type()) {
											single = true
										}
									}
								}
							}
							if single || ctx.tr.Rel == "compress/zlib" {
								continue
							}
						}
						ok2 = false
						why = "after the verification an io.EOF can come from " + describeValue(leaf) + ", which is neither the next header read nor single-member mode: a damaged later member could end the stream cleanly"
					}
				}
				r.Check(ok2, "R07.1", key, p.InstrPos(ret), "a return that may carry io.EOF happens only after the trailer has been verified, and the EOF is the end of the file", why)
			}
		}
		// mismatch edge stores a non-EOF error in the sticky field
		for _, w := range ctx.words {
			if w.cmp == nil {
				continue
			}
			key := base + "|mismatch [" + itoa(int(w.lo)) + ":" + itoa(int(w.hi)) + "]"
			good := false
			if refs := w.cmp.Referrers(); refs != nil {
				for _, u := range *refs {
					iff, ok := u.(*ssa.If)
					if !ok {
						continue
					}
					blk := iff.Block()
					mis := blk.Succs[0]
					if w.cmp.Op == token.EQL {
						mis = blk.Succs[1]
					}
					// when the comparison lives in a verifying helper that hands its verdict to Read, and Read records every
					// non-nil verdict, returning a non-nil sentinel from the mismatch edge is as good as recording it there
					callerRecords := false
					if ctx.vcall != nil {
						callerRecords = NewErrTrack(p, ctx.fn, ctx.vcall, KindNonNil, ctx.tr).StoredTo(ctx.recv, "."+ctx.tr.Sticky)
					}
					// from the mismatch edge every path stores a non-nil, non-EOF sentinel to the sticky field before returning
					sentinelRet := func(x ssa.Instruction) bool {
						ret, isRet := x.(*ssa.Return)
						if !isRet || !callerRecords {
							return false
						}
						if e := returnErr(ret); e != nil {
							if g := globalLoad(e); g != nil && p.InRepo(&ssa.Function{Pkg: g.Pkg}) && p.initOnlyNonNil(g) {
								return true
							}
						}
						return false
					}
					found, _, _ := PathQuery{Target: func(x ssa.Instruction) bool { _, ok := x.(*ssa.Return); return ok && !sentinelRet(x) }, Barrier: func(x ssa.Instruction) bool {
						if sentinelRet(x) {
							return true
						}
						st, ok := x.(*ssa.Store)
						if !ok || !isStickyStore(st, ctx.vrecv, ctx.tr.Sticky) {
							return false
						}
						g := globalLoad(st.Val)
						return g != nil && p.InRepo(&ssa.Function{Pkg: g.Pkg}) && p.initOnlyNonNil(g)
					}, EdgeOK: func(a, b *ssa.BasicBlock) bool {
						// stay on mismatch side: do not pass through the equal edge of a later word comparison
						if br, ok := edgeCond(a, b); ok {
							if f, ok := branchFact(br); ok && f.Op == token.EQL && f.Y != nil {
								for _, w2 := range ctx.words {
									if w2.cmp != nil && ((f.X == w2.cmp.X && f.Y == w2.cmp.Y) || (f.X == w2.cmp.Y && f.Y == w2.cmp.X)) {
										return false
									}
								}
							}
						}
						return true
					}}.findFromBlock(ctx.vfn, mis)
					good = !found
				}
			}
			r.Check(good, "R07.1", key, p.InstrPos(w.cmp), "a mismatch of trailer word ["+itoa(int(w.lo))+":"+itoa(int(w.hi))+"] records a checksum error in ."+ctx.tr.Sticky+" before returning", "a return is reachable on the mismatch edge without recording an error")
		}
	}
}

func wordRanges(ws []trailerWord) string {
	s := ""
	for _, w := range ws {
		s += "[" + itoa(int(w.lo)) + ":" + itoa(int(w.hi)) + "]"
	}
	if s == "" {
		return "(none)"
	}
	return s
}

func retLabel(p *Program, e ssa.Value) string {
	if e == nil {
		return "-"
	}
	if isNil(e) {
		return "nil"
	}
	if g := globalLoad(e); g != nil {
		return g.Name()
	}
	if _, sel, ok := fieldLoad(e); ok {
		return sel
	}
	if c, ok := e.(*ssa.Call); ok {
		return calleeLabel(c)
	}
	return "value"
}

func ruleR07_2(p *Program, r *Report) {
	r.Expect("R07.2", 6)
	for _, ctx := range p.containerReaders(r, "R07.2") {
		fn := ctx.fn
		var cnt ssa.Value
		if refs := ctx.inner.Referrers(); refs != nil {
			for _, u := range *refs {
				if ex, ok := u.(*ssa.Extract); ok && ex.Index == 0 {
					cnt = ex
				}
			}
		}
		lab := newLabeler()
		for _, b := range fn.Blocks {
			for _, in := range b.Instrs {
				ret, ok := in.(*ssa.Return)
				if !ok || len(ret.Results) < 2 {
					continue
				}
				key := shortFn(fn) + "|" + lab.get("return "+retLabel(p, returnErr(ret)))
				good := true
				why := ""
				for _, leaf := range p.valueSources(ret.Results[0]) {
					if k, ok := constInt(leaf); ok && k == 0 {
						continue
					}
					if leaf == cnt {
						continue
					}
					good = false
					why = "the count operand can be " + describeValue(leaf) + ", which is not the inner Read's count"
				}
				r.Check(good, "R07.2", key, p.InstrPos(ret), "the count returned is 0 or the count of this call's inner inflater Read", why)
			}
		}
	}
}

func ruleR07_3(p *Program, r *Report) {
	r.Expect("R07.3", 3)
	for _, ctx := range p.containerReaders(r, "R07.3") {
		fn := ctx.fn
		var cnt ssa.Value
		if refs := ctx.inner.Referrers(); refs != nil {
			for _, u := range *refs {
				if ex, ok := u.(*ssa.Extract); ok && ex.Index == 0 {
					cnt = ex
				}
			}
		}
		buf := ctx.inner.Common().Args[0]
		// which receiver fields take part in the verification?
		fields := map[string]bool{}
		for _, w := range ctx.words {
			if w.otherSel != "" {
				fields[w.otherSel] = true
			}
		}
		for _, sel := range sortedKeys(fields) {
			key := shortFn(fn) + "|update " + sel
			// an update: a store to recv.sel or an invoke on recv.sel whose operands depend on p[:cnt] / cnt
			isUpdate := func(in ssa.Instruction) bool {
				dependsOnCount := func(v ssa.Value) bool {
					seen := map[ssa.Value]bool{}
					var dep func(v ssa.Value) bool
					dep = func(v ssa.Value) bool {
						if v == nil || seen[v] {
							return false
						}
						seen[v] = true
						if v == cnt {
							return true
						}
						if sl, ok := v.(*ssa.Slice); ok {
							lowOK := sl.Low == nil
							if !lowOK {
								if k, ok := constInt(sl.Low); ok && k == 0 {
									lowOK = true
								}
							}
							return sl.X == buf && sl.High == cnt && lowOK
						}
						if in, ok := v.(ssa.Instruction); ok {
							if _, isSl := v.(*ssa.Slice); !isSl {
								for _, op := range in.Operands(nil) {
									if *op != nil && dep(*op) {
										return true
									}
								}
							}
						}
						return false
					}
					return dep(v)
				}
				switch x := in.(type) {
				case *ssa.Store:
					root, s := accessPath(x.Addr)
					return root == ctx.recv && s == sel && dependsOnCount(x.Val)
				case *ssa.Call:
					if x.Common().IsInvoke() {
						if root, s, ok := fieldLoad(x.Common().Value); ok && root == ctx.recv && s == sel {
							for _, a := range x.Common().Args {
								if dependsOnCount(a) {
									return true
								}
							}
						}
					}
				}
				return false
			}
			found, hit, path := PathQuery{Start: ctx.inner, Target: func(x ssa.Instruction) bool { _, ok := x.(*ssa.Return); return ok }, Barrier: isUpdate}.Find(fn)
			if found {
				r.Fail("R07.3", key, p.InstrPos(ctx.inner), "the running "+sel+" is updated with exactly p[:n] of the inner Read before any return", "return at "+p.InstrPos(hit)+" reachable without the update (blocks "+fmtInts(path)+")")
			} else {
				r.OK("R07.3", key, p.InstrPos(ctx.inner), "the running "+sel+" is updated with exactly p[:n] of the inner Read before any return")
			}
		}
		if len(fields) == 0 {
			r.Undecided("R07.3", shortFn(fn)+"|fields", p.Pos(fn.Pos()), "verification fields found", "no receiver field is compared with the trailer")
		}
	}
}

func ruleR07_4(p *Program, r *Report) {
	r.Expect("R07.4", 8)
	eofa := newEOFAnalysis(p)
	type target struct{ rel, typ, name string }
	for _, t := range []target{{"compress/gzip", "Reader", "readHeader"}, {"compress/gzip", "Reader", "Read"}, {"compress/zlib", "reader", "Reset"}, {"compress/zlib", "reader", "Read"}} {
		fn := p.Method(t.rel, t.typ, t.name)
		if fn == nil {
			r.Undecided("R07.4", t.rel+"."+t.typ+"."+t.name, "-", "anchor function exists", "not found")
			continue
		}
		var roleTr *TypeRole
		for _, tr := range p.ReaderTypes() {
			if tr.Named == p.Named(t.rel, t.typ) {
				roleTr = tr
			}
		}
		var srcCalls []ssa.CallInstruction
		for _, c := range allCalls(fn) {
			if d, _ := p.isSrcCall(c); d {
				srcCalls = append(srcCalls, c)
			}
		}
		lab := newLabeler()
		for _, c := range srcCalls {
			key := shortFn(fn) + "|" + lab.get(calleeLabel(c))
			ci := callInfo(c)
			// exempt: the inner inflater Read (its EOF is the end-of-stream signal, R07.1) and readHeader (EOF between members is legal)
			if ci.IfaceM != nil && ci.IfaceM.Name() == "Read" {
				continue
			}
			if ci.Static != nil && ci.Static.Name() == "readHeader" {
				continue
			}
			// gzip: the very first read of a member may end the file cleanly
			if t.rel == "compress/gzip" && t.name == "readHeader" {
				first := true
				for _, o := range srcCalls {
					if o != c {
						if f, _, _ := (PathQuery{Start: o, Target: func(x ssa.Instruction) bool { return x == ssa.Instruction(c) }}).Find(fn); f {
							first = false
						}
					}
				}
				if first {
					r.OK("R07.4", key, p.InstrPos(c), "first read of a member: io.EOF here means the file ended between members")
					continue
				}
			}
			if _, has := hasErrorResult(c); !has {
				continue
			}
			tk := NewErrTrack(p, fn, c, KindNonNil, roleTr)
			bad := false
			for _, b := range fn.Blocks {
				for _, in := range b.Instrs {
					ret, ok := in.(*ssa.Return)
					if !ok || !tk.inReach(ret) {
						continue
					}
					e := returnErr(ret)
					if e == nil || !tk.Carriers[e] {
						continue
					}
					if eofa.MayBeEOF(fn, e, ret) {
						bad = true
						r.Fail("R07.4", key, p.InstrPos(c), "an io.EOF from a read inside a member is turned into io.ErrUnexpectedEOF before it is returned", "the return at "+p.InstrPos(ret)+" can hand this read's io.EOF to the caller: a truncated member would look like a clean end")
					}
				}
			}
			if !bad {
				r.OK("R07.4", key, p.InstrPos(c), "an io.EOF from a read inside a member is turned into io.ErrUnexpectedEOF before it is returned")
			}
		}
	}
}

// ---------- C08 ----------

func ruleR08_1(p *Program, r *Report) {
	r.Expect("R08.1", 6)
	gz := p.Named("compress/gzip", "Reader")
	if gz == nil {
		r.Undecided("R08.1", "anchor:gzip.Reader", "-", "type exists", "not found")
		return
	}
	// source field: the field of type *bufio.Reader
	st := gz.Underlying().(*types.Struct)
	srcField := ""
	for i := 0; i < st.NumFields(); i++ {
		if isNamedType(st.Field(i).Type(), "bufio", "Reader") {
			srcField = st.Field(i).Name()
		}
	}
	if srcField == "" {
		r.Undecided("R08.1", "anchor:source-field", "-", "gzip.Reader has a *bufio.Reader field", "not found")
		return
	}
	for _, fn := range p.Funcs() {
		if fn.Signature.Recv() == nil || derefNamed(fn.Signature.Recv().Type()) != gz {
			continue
		}
		recv := fn.Params[0]
		lab := newLabeler()
		for _, c := range allCalls(fn) {
			ci := callInfo(c)
			var rd ssa.Value
			what := ""
			if ok, w := srcDirect(ci); ok && ci.Static != nil {
				rd = c.Common().Args[0]
				what = w
			}
			if isFunc(ci.Static, modPath+"/compress/flate", "NewReader") {
				rd = c.Common().Args[0]
				what = "flate.NewReader"
			}
			if ci.IfaceM != nil && ci.IfaceM.Name() == "Reset" && len(c.Common().Args) >= 1 {
				rd = c.Common().Args[0]
				what = "Resetter.Reset"
			}
			if rd == nil {
				continue
			}
			key := shortFn(fn) + "|" + lab.get(what)
			good := false
			for _, leaf := range p.valueSources(rd) {
				for {
					if mi, ok := leaf.(*ssa.MakeInterface); ok {
						leaf = mi.X
						continue
					}
					break
				}
				if root, sel, ok := fieldLoad(leaf); ok && root == recv && sel == "."+srcField {
					good = true
				} else {
					good = false
					break
				}
			}
			r.Check(good, "R08.1", key, p.InstrPos(c), what+" reads from the one source field ."+srcField, "reads from "+describeValue(rd)+": bytes buffered by one reader would be lost to the other")
		}
		// stores to the source field only in Reset
		for _, b := range fn.Blocks {
			for _, in := range b.Instrs {
				st, ok := in.(*ssa.Store)
				if !ok {
					continue
				}
				root, sel := accessPath(st.Addr)
				if root == recv && sel == "."+srcField {
					r.Check(fn.Name() == "Reset", "R08.1", shortFn(fn)+"|store ."+srcField, p.InstrPos(st), "the source field is assigned only by Reset", "assigned in "+fn.Name())
				}
			}
		}
	}
}

func ruleR08_2(p *Program, r *Report) {
	r.Expect("R08.2", 4)
	for _, ctx := range p.containerReaders(r, "R08.2") {
		if ctx.tr.Rel != "compress/gzip" {
			continue
		}
		fn := ctx.fn
		base := shortFn(fn)
		var hdrCalls []ssa.CallInstruction
		for _, c := range allCalls(fn) {
			if f := c.Common().StaticCallee(); f != nil && f.Name() == "readHeader" {
				hdrCalls = append(hdrCalls, c)
			}
		}
		if len(hdrCalls) == 0 {
			r.Undecided("R08.2", base+"|readHeader", p.Pos(fn.Pos()), "Read calls readHeader for the next member", "no call")
			continue
		}
		// multistream field: the bool field tested in Read
		msSel := ""
		for _, c := range hdrCalls {
			ok, why := ctx.verifiedAt(c)
			r.Check(ok, "R08.2", base+"|readHeader after verification", p.InstrPos(c), "the next member's header is read only after the trailer was verified", why)
			ms := false
			for _, f := range dominatingFacts(c) {
				if f.Y == nil && f.Op == token.EQL {
					if root, sel, ok := fieldLoad(f.X); ok && root == ctx.recv && isBoolType(f.X.Type()) {
						ms = true
						msSel = sel
					}
				}
			}
			r.Check(ms, "R08.2", base+"|readHeader under multistream", p.InstrPos(c), "the next member's header is read only in multistream mode", "not dominated by the true edge of a boolean mode field")
			// digest/size zeroed on every path from the verification to the next header
			for _, w := range ctx.words {
				if w.otherSel == "" || w.cmp == nil {
					continue
				}
				sel := w.otherSel
				zero := func(x ssa.Instruction) bool {
					st, ok := x.(*ssa.Store)
					if !ok {
						return false
					}
					root, s := accessPath(st.Addr)
					k, isK := constInt(st.Val)
					return root == ctx.recv && s == sel && isK && k == 0
				}
				found, _, path := false, ssa.Instruction(nil), []int(nil)
				if ctx.vcall == nil {
					found, _, path = PathQuery{Start: w.cmp, Target: func(x ssa.Instruction) bool { return x == ssa.Instruction(c) }, Barrier: zero}.Find(fn)
				} else {
					// the comparison lives in the verifying helper: zeroed there before a nil return, or in Read between the helper call and the header
					zeroH := func(x ssa.Instruction) bool {
						st, ok := x.(*ssa.Store)
						if !ok {
							return false
						}
						root, s := accessPath(st.Addr)
						k, isK := constInt(st.Val)
						return root == ctx.vrecv && s == sel && isK && k == 0
					}
					inHelper, _, _ := PathQuery{Start: w.cmp, Target: func(x ssa.Instruction) bool {
						ret, ok := x.(*ssa.Return)
						if !ok {
							return false
						}
						e := returnErr(ret)
						return e != nil && p.mayBeNil(ctx.vfn, e, ret)
					}, Barrier: zeroH}.Find(ctx.vfn)
					if inHelper {
						found, _, path = PathQuery{Start: ctx.vcall, Target: func(x ssa.Instruction) bool { return x == ssa.Instruction(c) }, Barrier: zero}.Find(fn)
					}
				}
				if found {
					r.Fail("R08.2", base+"|restart "+sel, p.InstrPos(c), "running "+sel+" restarts at zero before the next member", "next header reachable without zeroing (blocks "+fmtInts(path)+")")
				} else {
					r.OK("R08.2", base+"|restart "+sel, p.InstrPos(c), "running "+sel+" restarts at zero before the next member")
				}
			}
		}
		// single-member mode: the false edge returns io.EOF without a source call
		if msSel != "" {
			done := false
			for _, b := range fn.Blocks {
				for k, s := range b.Succs {
					br, ok := edgeCond(b, s)
					if !ok {
						continue
					}
					f, ok := branchFact(br)
					if !ok || f.Y != nil || f.Op != token.NEQ {
						continue
					}
					if root, sel, ok := fieldLoad(f.X); !ok || root != ctx.recv || sel != msSel {
						continue
					}
					_ = k
					done = true
					touch, hit, _ := PathQuery{Target: func(x ssa.Instruction) bool {
						if cc, ok := x.(ssa.CallInstruction); ok {
							d, _ := p.isSrcCall(cc)
							return d
						}
						return false
					}}.findFromBlock(fn, s)
					eofRet := false
					for _, in := range s.Instrs {
						if ret, ok := in.(*ssa.Return); ok {
							if e := returnErr(ret); e != nil && isSentinel(e, "io", "EOF") {
								eofRet = true
							}
						}
					}
					why := ""
					if touch {
						why = "source call at " + p.InstrPos(hit) + " reachable in single-member mode"
					} else if !eofRet {
						why = "the single-member edge does not return io.EOF"
					}
					r.Check(!touch && eofRet, "R08.2", base+"|single-member returns EOF", p.Pos(fn.Pos()), "with Multistream(false) Read returns io.EOF after the verified trailer without touching the source again", why)
				}
			}
			if !done {
				r.Undecided("R08.2", base+"|single-member returns EOF", p.Pos(fn.Pos()), "a branch on the mode field exists", "not found")
			}
		}
	}
}

// eofLeaves: the sources of error value e (through phis, pass-through helpers and the unique reaching store of a field load).
func eofLeaves(p *Program, fn *ssa.Function, e ssa.Value) []ssa.Value {
	var out []ssa.Value
	seen := map[ssa.Value]bool{}
	var walk func(v ssa.Value)
	walk = func(v ssa.Value) {
		if seen[v] {
			return
		}
		seen[v] = true
		for _, leaf := range p.valueSources(v) {
			if ld, ok := leaf.(*ssa.UnOp); ok && ld.Op == token.MUL {
				if _, isG := ld.X.(*ssa.Global); !isG {
					if st := reachingStore(fn, ld); st != nil {
						walk(st.Val)
						continue
					}
				}
			}
			if !isNil(leaf) {
				out = append(out, leaf)
			}
		}
	}
	walk(e)
	return out
}

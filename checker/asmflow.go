package main

// E6 (cont.): register dataflow over an assembly TEXT and resolution of memory operands against Go types.

import (
	"fmt"
	"go/types"
	"sort"
	"strings"
)

type AKind int

const (
	AUninit AKind = iota
	ATop
	AConst
	AArg    // loaded from an FP argument slot (Arg/ArgOff), plus constant displacement Disp and optional scaled index
	AGlobal // address of a global symbol
	AEntry  // whatever the caller left in the register
)

type AVal struct {
	Kind       AKind
	Consts     []int64
	Arg        string
	ArgOff     int64
	Disp       int64
	ExtraScale int64 // != 0: an index register scaled by this was added (LEAQ)
	Sym        string
	MayEntry   bool // the register may still hold what the caller left in it (never written on some path)
	FromArg    bool // value may be derived from an argument (pointer arithmetic / loads through it)
	FromGlobal bool // value may be derived from the address of a global symbol
}

func (a AVal) eq(b AVal) bool {
	if a.MayEntry != b.MayEntry || a.Kind != b.Kind || a.Arg != b.Arg || a.ArgOff != b.ArgOff || a.Disp != b.Disp || a.ExtraScale != b.ExtraScale || a.Sym != b.Sym || a.FromArg != b.FromArg || a.FromGlobal != b.FromGlobal || len(a.Consts) != len(b.Consts) {
		return false
	}
	for i := range a.Consts {
		if a.Consts[i] != b.Consts[i] {
			return false
		}
	}
	return true
}

func joinVal(a, b AVal) AVal {
	if a.Kind == AUninit {
		return b
	}
	if b.Kind == AUninit {
		return a
	}
	if a.eq(b) {
		return a
	}
	out := AVal{Kind: ATop, FromArg: a.FromArg || b.FromArg, FromGlobal: a.FromGlobal || b.FromGlobal, MayEntry: a.MayEntry || b.MayEntry}
	// an entry value joined with constants: keep the constants, remember the entry possibility
	if a.Kind == AEntry && b.Kind == AConst {
		o := b
		o.MayEntry = true
		return o
	}
	if b.Kind == AEntry && a.Kind == AConst {
		o := a
		o.MayEntry = true
		return o
	}
	if a.Kind == AConst && b.Kind == AConst {
		m := map[int64]bool{}
		for _, c := range a.Consts {
			m[c] = true
		}
		for _, c := range b.Consts {
			m[c] = true
		}
		if len(m) <= 16 {
			out.Kind = AConst
			for c := range m {
				out.Consts = append(out.Consts, c)
			}
			sort.Slice(out.Consts, func(i, j int) bool { return out.Consts[i] < out.Consts[j] })
		}
	}
	return out
}

type regState map[string]AVal

func (s regState) clone() regState {
	o := regState{}
	for k, v := range s {
		o[k] = v
	}
	return o
}

func isGPR(r string) bool {
	switch baseReg(r) {
	case "AX", "BX", "CX", "DX", "SI", "DI", "BP", "R8", "R9", "R10", "R11", "R12", "R13", "R14", "R15":
		return true
	}
	return false
}

func derived(vals ...AVal) AVal {
	o := AVal{Kind: ATop}
	for _, v := range vals {
		if v.Kind == AArg || v.FromArg {
			o.FromArg = true
		}
		if v.Kind == AGlobal || v.FromGlobal {
			o.FromGlobal = true
		}
	}
	return o
}

func (s regState) valOf(op Operand) AVal {
	switch op.Kind {
	case OpImm:
		return AVal{Kind: AConst, Consts: []int64{op.Imm}}
	case OpReg:
		if v, ok := s[baseReg(op.Reg)]; ok {
			return v
		}
		return AVal{Kind: ATop}
	case OpFP:
		return AVal{Kind: AArg, Arg: op.Name, ArgOff: op.Off}
	case OpSym:
		return AVal{Kind: ATop} // data loaded from a global symbol (the repository's globals hold numbers, not addresses)
	case OpMem:
		// a value loaded through a pointer: if the pointer came from an argument, the loaded value may itself be a
		// pointer into the caller's data (slice headers inside structs); data loaded from a global table is a number
		b := s[op.Base]
		return AVal{Kind: ATop, FromArg: b.Kind == AArg || b.FromArg}
	}
	return AVal{Kind: ATop}
}

// AsmFlow holds the register state before each instruction.
type AsmFlow struct {
	T      *AsmText
	Before []regState
	Reach  []bool
	Succs  [][]int
}

func analyseText(t *AsmText) (*AsmFlow, error) {
	n := len(t.Instrs)
	fl := &AsmFlow{T: t, Before: make([]regState, n), Reach: make([]bool, n), Succs: make([][]int, n)}
	for i, in := range t.Instrs {
		if !asmKnown[in.Mnem] {
			return nil, fmt.Errorf("%s:%d: mnemonic %s is not in the front end's table", t.File, in.Line, in.Mnem)
		}
		sc, err := t.succs(i)
		if err != nil {
			return nil, err
		}
		fl.Succs[i] = sc
	}
	if n == 0 {
		return fl, nil
	}
	fl.Before[0] = regState{}
	for _, rg := range []string{"AX", "BX", "CX", "DX", "SI", "DI", "BP", "R8", "R9", "R10", "R11", "R12", "R13", "R14", "R15"} {
		fl.Before[0][rg] = AVal{Kind: AEntry, MayEntry: true}
	}
	fl.Reach[0] = true
	work := []int{0}
	for len(work) > 0 {
		i := work[len(work)-1]
		work = work[:len(work)-1]
		out := transfer(t.Instrs[i], fl.Before[i])
		for _, s := range fl.Succs[i] {
			changed := false
			if !fl.Reach[s] {
				fl.Reach[s] = true
				fl.Before[s] = out.clone()
				changed = true
			} else {
				for r, v := range out {
					old, has := fl.Before[s][r]
					var j AVal
					if has {
						j = joinVal(old, v)
					} else {
						j = joinVal(AVal{Kind: ATop}, v)
					}
					if !has || !j.eq(old) {
						fl.Before[s][r] = j
						changed = true
					}
				}
				for r, old := range fl.Before[s] {
					if _, has := out[r]; !has {
						j := joinVal(old, AVal{Kind: ATop})
						if !j.eq(old) {
							fl.Before[s][r] = j
							changed = true
						}
					}
				}
			}
			if changed {
				work = append(work, s)
			}
		}
	}
	return fl, nil
}

func transfer(in *AsmInstr, st regState) regState {
	out := st.clone()
	d := in.dest()
	if in.Mnem == "CPUID" {
		for _, r := range []string{"AX", "BX", "CX", "DX"} {
			out[r] = AVal{Kind: ATop}
		}
		return out
	}
	if d < 0 {
		return out
	}
	dst := in.Ops[d]
	if dst.Kind != OpReg || !isGPR(dst.Reg) {
		return out // memory / vector / mask destination: no general register changes
	}
	reg := baseReg(dst.Reg)
	m := in.Mnem
	switch {
	case strings.HasPrefix(m, "MOV") && len(in.Ops) == 2:
		v := st.valOf(in.Ops[0])
		if in.Ops[0].Kind == OpMem || in.Ops[0].Kind == OpSym {
			// loaded from memory: unknown value, possibly a pointer into argument data
		}
		out[reg] = v
	case m == "LEAQ" && len(in.Ops) == 2:
		src := in.Ops[0]
		switch src.Kind {
		case OpSym:
			out[reg] = AVal{Kind: AGlobal, Sym: src.Name, Disp: src.Off, FromGlobal: true}
		case OpMem:
			b := st[src.Base]
			idx := AVal{}
			if src.Index != "" {
				idx = st[src.Index]
			}
			if b.Kind == AArg && b.ExtraScale == 0 && (src.Index == "" || true) {
				nv := b
				nv.Disp += src.Off
				if src.Index != "" {
					nv.ExtraScale = src.Scale
					if idx.Kind == AArg || idx.FromArg {
						nv.FromArg = true
					}
					if idx.Kind == AGlobal || idx.FromGlobal {
						nv.FromGlobal = true
					}
				}
				out[reg] = nv
			} else {
				out[reg] = derived(b, idx)
			}
		default:
			out[reg] = AVal{Kind: ATop}
		}
	case (m == "XORQ" || m == "XORL") && len(in.Ops) == 2 && in.Ops[0].Kind == OpReg && baseReg(in.Ops[0].Reg) == reg:
		out[reg] = AVal{Kind: AConst, Consts: []int64{0}}
	case strings.HasPrefix(m, "CMOV") && len(in.Ops) == 2:
		out[reg] = joinVal(st[reg], st.valOf(in.Ops[0]))
	default:
		// arithmetic / bit manipulation: the result is not a known constant; it stays tainted by its inputs
		vals := []AVal{}
		for i, op := range in.Ops {
			if i == d && len(in.Ops) >= 3 {
				continue // three-operand forms do not read the destination
			}
			vals = append(vals, st.valOf(op))
		}
		out[reg] = derived(vals...)
	}
	return out
}

// ---------- Go frame layout ----------

type frameSlot struct {
	Name string // parameter / result name
	Off  int64
	Type types.Type // type of the word at this slot: for pointer params the pointer type; for slice components a marker
	Comp string     // "", "base", "len", "cap"
	Res  bool
}

func frameLayout(sig *types.Signature, sizes types.Sizes) []frameSlot {
	var slots []frameSlot
	off := int64(0)
	add := func(v *types.Var, res bool, idx int) {
		t := v.Type()
		al := sizes.Alignof(t)
		off = (off + al - 1) / al * al
		name := v.Name()
		if name == "" || name == "_" {
			if res {
				name = "ret"
				if sig.Results().Len() > 1 {
					name = fmt.Sprintf("ret%d", idx)
				}
			}
		}
		switch u := t.Underlying().(type) {
		case *types.Slice:
			slots = append(slots, frameSlot{name + "_base", off, types.NewPointer(u.Elem()), "base", res},
				frameSlot{name + "_len", off + 8, types.Typ[types.Int], "len", res}, frameSlot{name + "_cap", off + 16, types.Typ[types.Int], "cap", res})
		default:
			slots = append(slots, frameSlot{name, off, t, "", res})
		}
		off += sizes.Sizeof(t)
	}
	for i := 0; i < sig.Params().Len(); i++ {
		add(sig.Params().At(i), false, i)
	}
	off = (off + 7) / 8 * 8
	for i := 0; i < sig.Results().Len(); i++ {
		add(sig.Results().At(i), true, i)
	}
	return slots
}

// ---------- offset resolution ----------

type resolved struct {
	Path     string // field path with array indexes of constant part, e.g. hist.literalCodes[254]
	FieldSet string // field path without indexes, e.g. hist.literalCodes
	Leaf     types.Type
	LeafSize int64
	InArray  bool
	ElemSize int64 // element size of the innermost array
	Index    int64 // constant element index in the innermost array
}

func resolveOffset(sizes types.Sizes, t types.Type, off int64) (resolved, error) {
	var r resolved
	var segs, fsegs []string
	for depth := 0; depth < 16; depth++ {
		switch u := t.Underlying().(type) {
		case *types.Struct:
			fields := make([]*types.Var, u.NumFields())
			for i := range fields {
				fields[i] = u.Field(i)
			}
			offs := sizes.Offsetsof(fields)
			found := false
			for i, f := range fields {
				sz := sizes.Sizeof(f.Type())
				if off >= offs[i] && off < offs[i]+sz {
					segs = append(segs, f.Name())
					fsegs = append(fsegs, f.Name())
					t = f.Type()
					off -= offs[i]
					found = true
					break
				}
			}
			if !found {
				return r, fmt.Errorf("offset lands in padding or beyond the struct")
			}
		case *types.Array:
			es := sizes.Sizeof(u.Elem())
			idx := off / es
			if idx >= u.Len() {
				return r, fmt.Errorf("offset beyond the array")
			}
			segs[len(segs)-1] += fmt.Sprintf("[%d]", idx)
			r.InArray, r.ElemSize, r.Index = true, es, idx
			t = u.Elem()
			off = off % es
		case *types.Slice:
			names := []string{"ptr", "len", "cap"}
			if off%8 != 0 || off >= 24 {
				return r, fmt.Errorf("misaligned access into a slice header")
			}
			segs = append(segs, names[off/8])
			fsegs = append(fsegs, names[off/8])
			r.Leaf, r.LeafSize = types.Typ[types.Uintptr], 8
			r.Path, r.FieldSet = strings.Join(segs, "."), strings.Join(fsegs, ".")
			return r, nil
		default:
			if off != 0 {
				return r, fmt.Errorf("offset %d into a %s: not at an element boundary", off, t)
			}
			r.Leaf, r.LeafSize = t, sizes.Sizeof(t)
			r.Path, r.FieldSet = strings.Join(segs, "."), strings.Join(fsegs, ".")
			return r, nil
		}
	}
	return r, fmt.Errorf("type too deep")
}

package main

// C16 - any call sequence is safe (closed state, idempotent Close, constructors mirror std).

import (
	"go/constant"
	"go/token"
	"go/types"
	"strings"

	"golang.org/x/tools/go/ssa"
)

func init() {
	register(&PropSpec{
		ID: "C16",
		Rules: []Rule{
			{ID: "R16.1", Configs: "all", Run: ruleR16_1},
			{ID: "R16.2", Configs: "all", Run: ruleR16_2},
			{ID: "R16.3", Configs: "all", Run: ruleR16_3},
			{ID: "R16.4", Configs: "all", Run: ruleR16_4},
		},
		Explanation: "Decides the closed-state discipline behind C16 on every path: (R16.1) deflate.Writer.Close stores a provably non-nil marker in the sticky field on every success path of the accelerated branch, and every call on the level compressor in Write/Flush/Close is dominated by the nil edge of a test of that field, so Write/Flush after Close cannot reach the compressor; " +
			"(R16.2) in deflate.Writer.Close and gzip.Writer.Close every destination call is dominated by the not-closed edge of a closed test, the closed edge returns nil without touching the destination, and the closed marker is set on every success path; " +
			"(R16.3) level constants equal compress/flate's, accelerated case labels lie in [-2,9], the non-accelerated arm passes the caller's level to compress/flate unchanged, gzip/zlib reject exactly levels outside [HuffmanOnly, BestCompression]; " +
			"(R16.4) a compressor whose Close drops its destination is unreachable afterwards (follows from R16.1). zlib.Writer.Close is deliberately not required to be idempotent: compress/zlib's own second Close re-emits the trailer and C16's oracle is the standard library.",
		NotDecided: []string{
			"freedom from panics in general (index arithmetic)",
			"each call returns an error exactly when compress/flate does, beyond the closed-state and level-range clauses",
			"bytes emitted up to the first Close form a valid stream (C01)",
		},
	})
}

// initOnlyNonNil: global error variable whose only store is in a package initialiser and stores the
// result of errors.New / fmt.Errorf (never nil).
func (p *Program) initOnlyNonNil(g *ssa.Global) bool {
	if g == nil {
		return false
	}
	n := 0
	ok := true
	for _, fn := range p.Funcs() {
		for _, b := range fn.Blocks {
			for _, in := range b.Instrs {
				st, isSt := in.(*ssa.Store)
				if !isSt || st.Addr != ssa.Value(g) {
					continue
				}
				n++
				if fn.Name() != "init" || fn.Parent() != nil {
					ok = false
				}
				c, isCall := st.Val.(*ssa.Call)
				if !isCall {
					ok = false
					continue
				}
				f := c.Common().StaticCallee()
				if !(isFunc(f, "errors", "New") || isFunc(f, "fmt", "Errorf")) {
					ok = false
				}
			}
		}
	}
	// globals of other packages (io.EOF ...) have no visible store: they are std sentinels, never nil
	if n == 0 && g.Pkg != nil && !p.InRepo(&ssa.Function{Pkg: g.Pkg}) {
		return true
	}
	return ok && n == 1
}

// sameLocationLoad: a and b are loads of the same access path and no store to that path can
// execute between a and b.
func sameLocationLoad(fn *ssa.Function, a, b ssa.Value) bool {
	if a == b {
		return true
	}
	ra, sa, oka := fieldLoad(a)
	rb, sb, okb := fieldLoad(b)
	if !oka || !okb || ra != rb || sa != sb {
		return false
	}
	ia, _ := a.(ssa.Instruction)
	ib, _ := b.(ssa.Instruction)
	if ia == nil || ib == nil || !dominatesInstr(ia, ib) {
		return false
	}
	writer := func(x ssa.Instruction) bool {
		if st, ok := x.(*ssa.Store); ok {
			r2, s2 := accessPath(st.Addr)
			return r2 == ra && s2 == sa
		}
		if c, ok := x.(ssa.CallInstruction); ok {
			// a call that receives the root may write it; a repository callee is judged by its effect summary
			for i, arg := range c.Common().Args {
				if arg == ra {
					if g := c.Common().StaticCallee(); g != nil && g.Blocks != nil && activeProg != nil && activeProg.InRepo(g) {
						writes := false
						for _, w := range activeProg.Effects().ParamWrites(g, i) {
							if w == sa || strings.HasPrefix(sa, w+".") || strings.HasPrefix(w, sa+".") || w == "*" {
								writes = true
							}
						}
						if _, unk := activeProg.Effects().Unknown[g]; unk {
							writes = true
						}
						if !writes {
							continue
						}
					}
					return true
				}
			}
			if c.Common().IsInvoke() && c.Common().Value == ra {
				return true
			}
		}
		return false
	}
	return !interveningWriter(fn, ia, ib, writer, nil)
}

// mayBeNil: may error value v be nil when instruction `at` executes?
func (p *Program) mayBeNil(fn *ssa.Function, v ssa.Value, at ssa.Instruction) bool {
	facts := dominatingFacts(at)
	// a dominating test of this very value
	for _, f := range facts {
		if f.Op == token.NEQ && f.Y != nil && ((f.X == v && isNil(f.Y)) || (f.Y == v && isNil(f.X))) {
			return false
		}
	}
	for _, leaf := range p.valueSources(v) {
		if isNil(leaf) {
			return true
		}
		// a field or local slot: judge the value that was last stored there
		if ld, ok := leaf.(*ssa.UnOp); ok && ld.Op == token.MUL {
			if _, isG := ld.X.(*ssa.Global); !isG {
				if st := reachingStore(fn, ld); st != nil && st.Val != v {
					if !p.mayBeNil(fn, st.Val, st) {
						continue
					}
				} else if st == nil && !p.loadMayBeNilOnSomePath(fn, ld) {
					continue
				}
			}
		}
		if g := globalLoad(leaf); g != nil && isErrorType(g.Type().(*types.Pointer).Elem()) && p.initOnlyNonNil(g) {
			continue
		}
		if mi, ok := leaf.(*ssa.MakeInterface); ok {
			if _, isPtr := mi.X.Type().Underlying().(*types.Pointer); !isPtr {
				continue
			}
		}
		nonNil := false
		for _, f := range facts {
			if f.Op != token.NEQ || f.Y == nil {
				continue
			}
			var other ssa.Value
			if isNil(f.Y) {
				other = f.X
			} else if isNil(f.X) {
				other = f.Y
			} else {
				continue
			}
			if sameLocationLoad(fn, other, leaf) || p.nonNilSince(fn, other, leaf) {
				nonNil = true
				break
			}
			// the fact may be about a phi/value of which leaf is the only source
			src := p.valueSources(other)
			if len(src) == 1 && (src[0] == leaf || sameLocationLoad(fn, src[0], leaf)) {
				nonNil = true
				break
			}
		}
		if !nonNil {
			return true
		}
	}
	return false
}

// returnErr: the error operand of a Return (last result of type error), or nil.
func returnErr(ret *ssa.Return) ssa.Value {
	for i := len(ret.Results) - 1; i >= 0; i-- {
		if isErrorType(ret.Results[i].Type()) {
			return ret.Results[i]
		}
	}
	return nil
}

// deflateWriterRole: the Writer type that owns a LevelCompressor-typed field.
func (p *Program) acceleratedWriter() (*TypeRole, string) {
	ln := p.Named("compress/flate/internal/deflate", "LevelCompressor")
	if ln == nil {
		return nil, ""
	}
	for _, tr := range p.WriterTypes() {
		for i := 0; i < tr.Struct.NumFields(); i++ {
			if types.Identical(tr.Struct.Field(i).Type(), ln) {
				return tr, tr.Struct.Field(i).Name()
			}
		}
	}
	return nil, ""
}

func ruleR16_1(p *Program, r *Report) {
	r.Expect("R16.1", 5)
	tr, lcField := p.acceleratedWriter()
	if tr == nil || tr.Sticky == "" {
		r.Undecided("R16.1", "anchor:deflate.Writer", "-", "a Writer type with a LevelCompressor field and a unique error field", "not found")
		return
	}
	// (b) every invoke on the compressor field in Write/Flush/Close is behind the sticky-nil edge
	for _, opn := range []string{"Write", "Flush", "Close"} {
		fn := tr.Ops[opn]
		recv := fn.Params[0]
		lab := newLabeler()
		for _, rc := range p.regionCalls(fn) {
			c := rc.call
			com := c.Common()
			if !com.IsInvoke() {
				continue
			}
			root, sel, ok := fieldLoad(com.Value)
			if !ok && rc.in == fn {
				// w.active().Flush(): the compressor is among the objects the selector helper hands back
				if sels, isSel := selectorHelperFields(com.Value, recv); isSel {
					for _, s2 := range sels {
						if s2 == "."+lcField {
							root, sel, ok = recv, s2, true
						}
					}
				}
			}
			if !ok || sel != "."+lcField || !(root == recv || (rc.in != fn && len(rc.in.Params) > 0 && root == ssa.Value(rc.in.Params[0]) && boundTo(root, recv, rc.bind))) {
				continue
			}
			key := shortFn(fn) + "|" + lab.get("invoke."+lcField+"."+com.Method.Name())
			guarded := false
			at := ssa.Instruction(c)
			if rc.via != nil {
				at = rc.via // a call inside a helper is guarded where the operation calls the helper
			}
			for _, f := range dominatingFacts(at) {
				if f.Op == token.EQL && f.Y != nil && ((isStickyLoad(f.X, recv, tr.Sticky) && isNil(f.Y)) || (isStickyLoad(f.Y, recv, tr.Sticky) && isNil(f.X))) {
					guarded = true
				}
			}
			r.Check(guarded, "R16.1", key, p.InstrPos(c), "compressor call is dominated by the nil edge of a test of ."+tr.Sticky+" (closed or failed writers never reach the compressor)", "unguarded compressor call: Write/Flush after Close would emit bytes")
		}
	}
	// (a) Close marks the writer closed on every success path after closing the compressor
	fn := tr.Ops["Close"]
	recv := fn.Params[0]
	var closeCall ssa.CallInstruction
	for _, c := range allCalls(fn) {
		com := c.Common()
		if com.IsInvoke() && com.Method.Name() == "Close" {
			if root, sel, ok := fieldLoad(com.Value); ok && root == recv && sel == "."+lcField {
				closeCall = c
			} else if sels, ok := selectorHelperFields(com.Value, recv); ok {
				// w.active().Close(): the compressor is among the objects the selector helper hands back
				for _, s2 := range sels {
					if s2 == "."+lcField {
						closeCall = c
					}
				}
			}
		}
	}
	key := shortFn(fn) + "|closed-marker"
	if closeCall == nil {
		r.Undecided("R16.1", key, p.Pos(fn.Pos()), "Close calls the compressor's Close", "call not found")
		return
	}
	t := NewErrTrack(p, fn, closeCall, KindSuccess, tr)
	marker := func(in ssa.Instruction) bool {
		if !isStickyStore(in, recv, tr.Sticky) {
			return false
		}
		g := globalLoad(in.(*ssa.Store).Val)
		return g != nil && p.initOnlyNonNil(g)
	}
	found, hit, path := t.Find(func(in ssa.Instruction) bool { _, ok := in.(*ssa.Return); return ok }, marker)
	if found {
		r.Fail("R16.1", key, p.InstrPos(closeCall), "every success path of Close stores a non-nil closed marker in ."+tr.Sticky, "return at "+p.InstrPos(hit)+" reachable without the marker via blocks "+fmtInts(path)+": a later Write/Flush/Close would run the compressor again")
	} else {
		r.OK("R16.1", key, p.InstrPos(closeCall), "every success path of Close stores a non-nil closed marker in ."+tr.Sticky)
	}
}

// closedTest describes how a Close method recognises the closed state.
type closedTest struct {
	iff        *ssa.If
	closedSucc *ssa.BasicBlock
	openSucc   *ssa.BasicBlock
	field      string
	markerG    *ssa.Global // nil for boolean flags
}

func (p *Program) findClosedTests(fn *ssa.Function, recv ssa.Value) []closedTest {
	var out []closedTest
	for _, b := range fn.Blocks {
		if len(b.Instrs) == 0 {
			continue
		}
		iff, ok := b.Instrs[len(b.Instrs)-1].(*ssa.If)
		if !ok {
			continue
		}
		for k, succ := range b.Succs {
			br, ok := edgeCond(b, succ)
			if !ok {
				continue
			}
			f, ok := branchFact(br)
			if !ok {
				continue
			}
			other := b.Succs[1-k]
			if f.Y == nil && f.Op == token.EQL {
				// boolean flag true
				if root, sel, ok := fieldLoad(f.X); ok && root == recv && isBoolType(f.X.Type()) {
					out = append(out, closedTest{iff, succ, other, sel[1:], nil})
				}
			} else if f.Y != nil && f.Op == token.EQL {
				for _, pair := range [][2]ssa.Value{{f.X, f.Y}, {f.Y, f.X}} {
					root, sel, ok := fieldLoad(pair[0])
					g := globalLoad(pair[1])
					if ok && root == recv && g != nil && p.initOnlyNonNil(g) && p.InRepo(&ssa.Function{Pkg: g.Pkg}) {
						out = append(out, closedTest{iff, succ, other, sel[1:], g})
					}
				}
			}
		}
	}
	return out
}

func isBoolType(t types.Type) bool {
	b, ok := t.Underlying().(*types.Basic)
	return ok && b.Kind() == types.Bool
}

func ruleR16_2(p *Program, r *Report) {
	r.Expect("R16.2", 3)
	var targets []*TypeRole
	for _, tr := range p.WriterTypes() {
		targets = append(targets, tr)
	}
	for _, tr := range targets {
		fn := tr.Ops["Close"]
		recv := fn.Params[0]
		key := shortFn(fn) + "|idempotent"
		tests := p.findClosedTests(fn, recv)
		var dst []ssa.CallInstruction
		for _, c := range allCalls(fn) {
			if ok, _ := p.isDstCall(c); ok {
				dst = append(dst, c)
			}
		}
		if len(dst) == 0 {
			r.Undecided("R16.2", key, p.Pos(fn.Pos()), "Close reaches the destination", "no destination call found")
			continue
		}
		good := false
		why := "no test of a closed marker (boolean flag or sentinel in a receiver field) found in Close"
		for _, ct := range tests {
			why = ""
			// 1. every destination call is dominated by the open edge
			for _, c := range dst {
				if !(len(ct.openSucc.Preds) == 1 && ct.openSucc.Dominates(c.Block())) {
					why = "destination call " + calleeLabel(c) + " at " + p.InstrPos(c) + " is not dominated by the not-closed edge"
				}
			}
			// 2. the closed edge returns nil without destination calls
			if why == "" {
				first := ct.closedSucc.Instrs[0]
				touch, hit, _ := PathQuery{Start: nil, Target: func(in ssa.Instruction) bool {
					if cc, ok := in.(ssa.CallInstruction); ok {
						d, _ := p.isDstCall(cc)
						return d
					}
					return false
				}}.findFromBlock(fn, ct.closedSucc)
				_ = first
				if touch {
					why = "destination call at " + p.InstrPos(hit) + " reachable on the closed edge"
				}
				retNil := false
				for _, in := range ct.closedSucc.Instrs {
					if ret, ok := in.(*ssa.Return); ok {
						if e := returnErr(ret); e != nil && isNil(e) {
							retNil = true
						}
					}
				}
				if why == "" && !retNil {
					why = "the closed edge does not return nil"
				}
			}
			// 3. marker set on every success path from the open edge to a return
			if why == "" {
				setMarker := func(in ssa.Instruction) bool {
					if cc, ok := in.(ssa.CallInstruction); ok && isStdFlateWriterCall(cc) {
						return true // delegation: compress/flate.Writer keeps its own closed state
					}
					st, ok := in.(*ssa.Store)
					if !ok {
						return false
					}
					root, sel := accessPath(st.Addr)
					if root != recv || sel != "."+ct.field {
						return false
					}
					if ct.markerG == nil {
						b, ok := constBool(st.Val)
						return ok && b
					}
					return globalLoad(st.Val) == ct.markerG
				}
				// success return: error operand may be nil
				succRet := func(in ssa.Instruction) bool {
					ret, ok := in.(*ssa.Return)
					if !ok {
						return false
					}
					e := returnErr(ret)
					return e != nil && p.mayBeNil(fn, e, ret)
				}
				found, hit, path := PathQuery{Target: succRet, Barrier: setMarker}.findFromBlock(fn, ct.openSucc)
				if found {
					why = "success return at " + p.InstrPos(hit) + " reachable without setting the closed marker ." + ct.field + " (blocks " + fmtInts(path) + "): a second Close would emit the stream end again"
				}
			}
			if why == "" {
				good = true
				break
			}
		}
		r.Check(good, "R16.2", key, p.Pos(fn.Pos()), "Close is idempotent: closed test guards every destination call, closed edge returns nil, marker set on every success path", why)
	}
}

// findFromBlock runs the query starting at the first instruction of block b.
func (q PathQuery) findFromBlock(fn *ssa.Function, b *ssa.BasicBlock) (bool, ssa.Instruction, []int) {
	// emulate: start "before" the block by using a synthetic search
	type item struct {
		b    *ssa.BasicBlock
		prev *item
	}
	visited := map[*ssa.BasicBlock]bool{}
	work := []*item{{b: b}}
	for len(work) > 0 {
		it := work[len(work)-1]
		work = work[:len(work)-1]
		if visited[it.b] {
			continue
		}
		visited[it.b] = true
		stopped := false
		for _, in := range it.b.Instrs {
			if q.Target != nil && q.Target(in) {
				var path []int
				for x := it; x != nil; x = x.prev {
					path = append([]int{x.b.Index}, path...)
				}
				return true, in, path
			}
			if q.Barrier != nil && q.Barrier(in) {
				stopped = true
				break
			}
		}
		if stopped {
			continue
		}
		for _, s := range it.b.Succs {
			if q.EdgeOK != nil && !q.EdgeOK(it.b, s) {
				continue
			}
			if !visited[s] {
				work = append(work, &item{b: s, prev: it})
			}
		}
	}
	return false, nil, nil
}

func constOf(p *Program, rel, name string) (int64, bool) {
	tp := p.TPkg(rel)
	if tp == nil {
		return 0, false
	}
	c, ok := tp.Scope().Lookup(name).(*types.Const)
	if !ok {
		return 0, false
	}
	return constant.Int64Val(c.Val())
}

func ruleR16_3(p *Program, r *Report) {
	r.Expect("R16.3", 20)
	want := map[string]int64{"NoCompression": 0, "BestSpeed": 1, "BestCompression": 9, "DefaultCompression": -1, "HuffmanOnly": -2}
	for _, rel := range []string{"compress/flate", "compress/flate/internal/deflate", "compress/gzip", "compress/zlib"} {
		for name, w := range want {
			v, ok := constOf(p, rel, name)
			key := rel + "." + name
			if !ok {
				r.Undecided("R16.3", key, "-", "level constant exists", "not found")
				continue
			}
			r.Check(v == w, "R16.3", key, "-", "level constant equals compress/flate's ("+itoa(int(w))+")", "value is "+itoa(int(v)))
		}
	}
	// NewWriter: case labels within [-2,9]; std delegation passes the caller's level unchanged
	for _, ctor := range []string{"NewWriter", "NewWriterwWith4KWindow"} {
		fn := p.Func("compress/flate/internal/deflate", ctor)
		if fn == nil {
			r.Undecided("R16.3", "deflate."+ctor, "-", "constructor exists", "not found")
			continue
		}
		level := fn.Params[1]
		derived := func(v ssa.Value) bool {
			for _, s := range p.valueSources(v) {
				if s == ssa.Value(level) {
					continue
				}
				if _, ok := constInt(s); ok {
					continue
				}
				return false
			}
			return true
		}
		for _, b := range fn.Blocks {
			for _, in := range b.Instrs {
				bo, ok := in.(*ssa.BinOp)
				if !ok || bo.Op != token.EQL {
					continue
				}
				var cv ssa.Value
				if derived(bo.X) && !isConst(bo.X) {
					cv = bo.Y
				} else if derived(bo.Y) && !isConst(bo.Y) {
					cv = bo.X
				} else {
					continue
				}
				k, ok := constInt(cv)
				if !ok {
					continue
				}
				r.Check(k >= -2 && k <= 9, "R16.3", "deflate."+ctor+"|case "+itoa(int(k)), p.InstrPos(in), "accelerated case label lies within compress/flate's level range [-2,9]", "label outside the range std accepts")
			}
		}
		for _, c := range allCalls(fn) {
			f := c.Common().StaticCallee()
			if isFunc(f, stdFlate, "NewWriter") || isFunc(f, stdFlate, "NewWriterDict") {
				args := c.Common().Args
				okLevel := true
				for _, s := range p.valueSources(args[1]) {
					if s == ssa.Value(level) {
						continue
					}
					// the DefaultCompression->2 rewrite only happens for level == -1, which never reaches the std arm unchanged
					if k, ok := constInt(s); ok && k == 2 {
						continue
					}
					okLevel = false
				}
				r.Check(okLevel && args[0] == ssa.Value(fn.Params[0]), "R16.3", "deflate."+ctor+"|"+f.Name(), p.InstrPos(c), "non-accelerated levels are delegated to compress/flate with the caller's writer and level", "arguments are not the caller's")
			}
		}
	}
	if fn := p.Func("compress/flate/internal/deflate", "NewWriterDict"); fn != nil {
		n := 0
		for _, c := range allCalls(fn) {
			f := c.Common().StaticCallee()
			if isFunc(f, stdFlate, "NewWriterDict") {
				a := c.Common().Args
				n++
				r.Check(a[0] == ssa.Value(fn.Params[0]) && a[1] == ssa.Value(fn.Params[1]) && a[2] == ssa.Value(fn.Params[2]), "R16.3", "deflate.NewWriterDict|std", p.InstrPos(c), "dictionary writers are delegated to compress/flate with unchanged arguments", "arguments differ")
			}
		}
		if n == 0 {
			r.Fail("R16.3", "deflate.NewWriterDict|std", p.Pos(fn.Pos()), "dictionary writers are delegated to compress/flate", "no call of flate.NewWriterDict")
		}
	}
	// gzip / zlib range tests
	for _, t := range [][2]string{{"compress/gzip", "NewWriterLevel"}, {"compress/zlib", "NewWriterLevelDict"}} {
		fn := p.Func(t[0], t[1])
		key := t[0] + "." + t[1] + "|range"
		if fn == nil {
			r.Undecided("R16.3", key, "-", "constructor exists", "not found")
			continue
		}
		level := fn.Params[1]
		lo, hi := false, false
		var bad []string
		for _, b := range fn.Blocks {
			for _, in := range b.Instrs {
				bo, ok := in.(*ssa.BinOp)
				if !ok {
					continue
				}
				if bo.X != ssa.Value(level) {
					continue
				}
				k, ok := constInt(bo.Y)
				if !ok {
					continue
				}
				// the true edge must lead to an error return
				errEdge := false
				if refs := bo.Referrers(); refs != nil {
					for _, u := range *refs {
						if iff, ok := u.(*ssa.If); ok {
							succ := iff.Block().Succs[0]
							found, _, _ := PathQuery{Target: func(x ssa.Instruction) bool {
								ret, ok := x.(*ssa.Return)
								if !ok {
									return false
								}
								e := returnErr(ret)
								return e != nil && !isNil(e)
							}, Barrier: func(x ssa.Instruction) bool { _, ok := x.(*ssa.If); return ok }}.findFromBlock(fn, succ)
							errEdge = found
						}
					}
				}
				switch {
				case bo.Op == token.LSS && k == -2 && errEdge:
					lo = true
				case bo.Op == token.GTR && k == 9 && errEdge:
					hi = true
				default:
					bad = append(bad, bo.String())
				}
			}
		}
		r.Check(lo && hi && len(bad) == 0, "R16.3", key, p.Pos(fn.Pos()), "rejects exactly level < HuffmanOnly(-2) and level > BestCompression(9), like the standard library", "range test differs: lo="+boolStr(lo)+" hi="+boolStr(hi)+" other="+itoa(len(bad)))
	}
}

func boolStr(b bool) string {
	if b {
		return "true"
	}
	return "false"
}

func isConst(v ssa.Value) bool { _, ok := v.(*ssa.Const); return ok }

func ruleR16_4(p *Program, r *Report) {
	r.Expect("R16.4", 1)
	n := 0
	for _, tr := range p.CompressorTypes() {
		fn := tr.Ops["Close"]
		if fn == nil {
			continue
		}
		recv := fn.Params[0]
		for _, b := range fn.Blocks {
			for _, in := range b.Instrs {
				st, ok := in.(*ssa.Store)
				if !ok || !isNil(st.Val) {
					continue
				}
				root, sel := accessPath(st.Addr)
				if root != recv {
					continue
				}
				n++
				// the field is dereferenced by the compressor's methods; safe only if the Writer never calls them after Close
				wtr, _ := p.acceleratedWriter()
				ok2 := wtr != nil
				r.Check(ok2, "R16.4", shortFn(fn)+"|nil"+sel, p.InstrPos(st), "Close drops "+sel+"; the compressor is unreachable after a successful Close because every compressor call is guarded by the sticky field (R16.1) which Close leaves non-nil", "no guarded owner found")
			}
		}
	}
	if n == 0 {
		r.OK("R16.4", "no-nil-store", "-", "no compressor Close drops a destination field")
	}
}

// nonNilSince: `tested` is a load of the same location as `leaf`, it was found non-nil, and every write
// to the location that can execute between the test and leaf stores a non-nil value.
func (p *Program) nonNilSince(fn *ssa.Function, tested, leaf ssa.Value) bool {
	ra, sa, oka := fieldLoad(tested)
	rb, sb, okb := fieldLoad(leaf)
	if !oka || !okb || ra != rb || sa != sb {
		return false
	}
	ia, _ := tested.(ssa.Instruction)
	ib, _ := leaf.(ssa.Instruction)
	if ia == nil || ib == nil || !dominatesInstr(ia, ib) {
		return false
	}
	isTo := func(x ssa.Instruction) bool { return x == ib }
	for _, b := range fn.Blocks {
		for _, w := range b.Instrs {
			if w == ia || w == ib {
				continue
			}
			var val ssa.Value
			if st, ok := w.(*ssa.Store); ok {
				r2, s2 := accessPath(st.Addr)
				if r2 != ra || s2 != sa {
					continue
				}
				val = st.Val
			} else if c, ok := w.(ssa.CallInstruction); ok {
				com := c.Common()
				f := com.StaticCallee()
				if !(f != nil && f.Signature.Recv() != nil && len(com.Args) > 0 && com.Args[0] == ra) {
					continue
				}
			} else {
				continue
			}
			w := w
			f1, _, _ := PathQuery{Start: ia, Target: func(x ssa.Instruction) bool { return x == w }, Barrier: isTo}.Find(fn)
			if !f1 {
				continue
			}
			f2, _, _ := PathQuery{Start: w, Target: isTo}.Find(fn)
			if !f2 {
				continue
			}
			if val == nil || p.mayBeNil(fn, val, w) {
				return false
			}
		}
	}
	return true
}

// loadMayBeNilOnSomePath: path-sensitive judgement of a load of a field or local slot that several stores (or the
// value the function was entered with) can reach: walking backwards from the load, every path must meet either a
// store of a value that is non-nil there (by the facts dominating the store, or by a branch on that very value
// passed on the way), or a branch edge asserting that the location is non-nil with no store after it.
func (p *Program) loadMayBeNilOnSomePath(fn *ssa.Function, ld *ssa.UnOp) bool {
	root, sel := accessPath(ld.X)
	if sel == "" {
		if _, ok := root.(*ssa.Alloc); !ok {
			return true
		}
	}
	sameLoc := func(v ssa.Value) bool {
		u, ok := v.(*ssa.UnOp)
		if !ok || u.Op != token.MUL {
			return false
		}
		r2, s2 := accessPath(u.X)
		return r2 == root && s2 == sel
	}
	if len(fn.Blocks) > 96 {
		return true
	}
	budget := 4000
	var walk func(b *ssa.BasicBlock, from int, nonNil map[ssa.Value]bool, onPath map[*ssa.BasicBlock]bool) bool
	walk = func(b *ssa.BasicBlock, from int, nonNil map[ssa.Value]bool, onPath map[*ssa.BasicBlock]bool) bool {
		budget--
		if budget < 0 {
			return true
		}
		for i := from; i >= 0; i-- {
			switch x := b.Instrs[i].(type) {
			case *ssa.Store:
				r2, s2 := accessPath(x.Addr)
				if r2 == root && s2 == sel {
					if nonNil[x.Val] || !p.mayBeNil(fn, x.Val, x) {
						return false
					}
					return true
				}
			case ssa.CallInstruction:
				if _, isAlloc := root.(*ssa.Alloc); !isAlloc {
					com := x.Common()
					if f := com.StaticCallee(); f != nil && f.Signature.Recv() != nil && len(com.Args) > 0 && com.Args[0] == root && f.Blocks != nil {
						for _, w := range p.Effects().ParamWrites(f, 0) {
							if w == sel || strings.HasPrefix(sel, w+".") {
								return true // a callee may have rewritten the field
							}
						}
					}
				}
			}
		}
		if len(b.Preds) == 0 {
			return true // the value the function was entered with
		}
		for _, pred := range b.Preds {
			if onPath[pred] {
				continue
			}
			nn := nonNil
			if br, ok := edgeCond(pred, b); ok {
				if f, ok := branchFact(br); ok && f.Y != nil && f.Op == token.NEQ {
					var other ssa.Value
					if isNil(f.Y) {
						other = f.X
					} else if isNil(f.X) {
						other = f.Y
					}
					if other != nil {
						if sameLoc(other) {
							continue // this edge asserts the location is non-nil and nothing was stored since
						}
						nn = map[ssa.Value]bool{}
						for k := range nonNil {
							nn[k] = true
						}
						nn[other] = true
					}
				}
			}
			onPath[pred] = true
			res := walk(pred, len(pred.Instrs)-1, nn, onPath)
			delete(onPath, pred)
			if res {
				return true
			}
		}
		return false
	}
	idx := -1
	for i, in := range ld.Block().Instrs {
		if in == ssa.Instruction(ld) {
			idx = i
		}
	}
	return walk(ld.Block(), idx-1, map[ssa.Value]bool{}, map[*ssa.BasicBlock]bool{ld.Block(): true})
}

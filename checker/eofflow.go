package main

// May an error value be io.EOF at a given point? (backward, with store->load forwarding,
// dominating-fact refinement and interprocedural summaries for repository callees)

import (
	"go/token"
	"go/types"

	"golang.org/x/tools/go/ssa"
)

// reachingStore: the unique store to the location of load `ld` that reaches it: it dominates the
// load and no other writer of the location lies on a path between them.
func reachingStore(fn *ssa.Function, ld *ssa.UnOp) *ssa.Store {
	root, sel := accessPath(ld.X)
	if sel == "" {
		if _, ok := root.(*ssa.Alloc); !ok {
			return nil
		}
	}
	var cands []*ssa.Store
	for _, b := range fn.Blocks {
		for _, in := range b.Instrs {
			if st, ok := in.(*ssa.Store); ok {
				r2, s2 := accessPath(st.Addr)
				if r2 == root && s2 == sel && dominatesInstr(st, ld) {
					cands = append(cands, st)
				}
			}
		}
	}
	for _, st := range cands {
		writer := func(x ssa.Instruction) bool {
			if x == ssa.Instruction(st) {
				return false
			}
			if s2, ok := x.(*ssa.Store); ok {
				r2, sl2 := accessPath(s2.Addr)
				return r2 == root && sl2 == sel
			}
			if cc, ok := x.(ssa.CallInstruction); ok {
				if _, isAlloc := root.(*ssa.Alloc); isAlloc {
					return false
				}
				com := cc.Common()
				if f := com.StaticCallee(); f != nil && f.Signature.Recv() != nil && len(com.Args) > 0 && com.Args[0] == root {
					return true
				}
			}
			return false
		}
		if interveningWriter(fn, st, ld, writer, nil) {
			continue
		}
		return st
	}
	return nil
}

type eofKey struct {
	fn *ssa.Function
	v  ssa.Value
}

type eofAnalysis struct {
	p      *Program
	retMay map[*ssa.Function]int // 0 unknown, 1 computing, 2 no, 3 yes (error result may be io.EOF irrespective of params)
	// paramPass: function returns param i possibly-EOF (unsanitised)
	paramPass map[*ssa.Function]map[int]bool
}

func newEOFAnalysis(p *Program) *eofAnalysis {
	return &eofAnalysis{p: p, retMay: map[*ssa.Function]int{}, paramPass: map[*ssa.Function]map[int]bool{}}
}

// excludedByFacts: do the facts dominating `at` exclude v == io.EOF?
func (a *eofAnalysis) excludedByFacts(fn *ssa.Function, v ssa.Value, at ssa.Instruction) bool {
	for _, f := range dominatingFacts(at) {
		if f.Y == nil {
			continue
		}
		for _, pair := range [][2]ssa.Value{{f.X, f.Y}, {f.Y, f.X}} {
			subj, other := pair[0], pair[1]
			if !(subj == v || sameLocationLoad(fn, subj, v)) {
				continue
			}
			if f.Op == token.NEQ && isSentinel(other, "io", "EOF") {
				return true
			}
			if f.Op == token.EQL {
				if isNil(other) {
					return true
				}
				if g := globalLoad(other); g != nil && !(g.Pkg.Pkg.Path() == "io" && g.Name() == "EOF") && isErrorType(g.Type().(*types.Pointer).Elem()) {
					return true
				}
			}
		}
	}
	return false
}

// MayBeEOF: may value v be io.EOF when instruction `at` executes in fn?
func (a *eofAnalysis) MayBeEOF(fn *ssa.Function, v ssa.Value, at ssa.Instruction) bool {
	return a.may(fn, v, at, map[eofKey]bool{})
}

func (a *eofAnalysis) may(fn *ssa.Function, v ssa.Value, at ssa.Instruction, seen map[eofKey]bool) bool {
	k := eofKey{fn, v}
	if seen[k] {
		return false
	}
	seen[k] = true
	if a.excludedByFacts(fn, v, at) {
		return false
	}
	switch x := v.(type) {
	case *ssa.Const:
		return false
	case *ssa.Phi:
		for i, e := range x.Edges {
			// judge each incoming value at the end of its predecessor block
			pred := x.Block().Preds[i]
			last := pred.Instrs[len(pred.Instrs)-1]
			if a.may(fn, e, last, seen) {
				// the edge pred->block may itself carry a fact excluding EOF
				if br, ok := edgeCond(pred, x.Block()); ok {
					if f, ok := branchFact(br); ok && f.Y != nil {
						if (f.X == e && f.Op == token.NEQ && isSentinel(f.Y, "io", "EOF")) || (f.Y == e && f.Op == token.NEQ && isSentinel(f.X, "io", "EOF")) {
							continue
						}
					}
				}
				return true
			}
		}
		return false
	case *ssa.MakeInterface:
		return false // a concrete non-sentinel error value (CorruptInputError ...)
	case *ssa.ChangeInterface:
		return a.may(fn, x.X, at, seen)
	case *ssa.ChangeType:
		return a.may(fn, x.X, at, seen)
	case *ssa.Extract:
		if c, ok := x.Tuple.(*ssa.Call); ok {
			return a.callMay(fn, c, x.Index, seen)
		}
		return true
	case *ssa.Call:
		return a.callMay(fn, x, 0, seen)
	case *ssa.Parameter:
		return true
	case *ssa.UnOp:
		if x.Op != token.MUL {
			return true
		}
		if g, ok := x.X.(*ssa.Global); ok {
			return g.Pkg.Pkg.Path() == "io" && g.Name() == "EOF"
		}
		if st := reachingStore(fn, x); st != nil {
			return a.may(fn, st.Val, st, seen)
		}
		// several stores may reach the load: judge each under the branch facts every path from it to the load must pass
		if rs := reachingStoresWithFacts(fn, x); len(rs) > 0 {
			for _, r := range rs {
				if a.mayUnder(fn, r.st.Val, r.st, r.facts, seen) {
					return true
				}
			}
			return false
		}
		return true
	}
	return true
}

type storeWithFacts struct {
	st    *ssa.Store
	facts []Fact
}

// reachingStoresWithFacts: every store to the location of ld that can reach it without being overwritten,
// with the facts of the If edges that all such paths traverse.
func reachingStoresWithFacts(fn *ssa.Function, ld *ssa.UnOp) []storeWithFacts {
	root, sel := accessPath(ld.X)
	if sel == "" {
		if _, ok := root.(*ssa.Alloc); !ok {
			return nil
		}
	}
	isWriter := func(x ssa.Instruction) bool {
		if s2, ok := x.(*ssa.Store); ok {
			r2, sl2 := accessPath(s2.Addr)
			return r2 == root && sl2 == sel
		}
		if cc, ok := x.(ssa.CallInstruction); ok {
			if _, isAlloc := root.(*ssa.Alloc); isAlloc {
				return false
			}
			com := cc.Common()
			if f := com.StaticCallee(); f != nil && f.Signature.Recv() != nil && len(com.Args) > 0 && com.Args[0] == root {
				return true
			}
		}
		return false
	}
	isLd := func(x ssa.Instruction) bool { return x == ssa.Instruction(ld) }
	var out []storeWithFacts
	for _, b := range fn.Blocks {
		for _, in := range b.Instrs {
			st, ok := in.(*ssa.Store)
			if !ok || !isWriter(st) {
				continue
			}
			other := func(x ssa.Instruction) bool { return x != ssa.Instruction(st) && isWriter(x) }
			reach, _, _ := PathQuery{Start: st, Target: isLd, Barrier: other}.Find(fn)
			if !reach {
				continue
			}
			// a call writer between would make the value unknown: give up
			sw := storeWithFacts{st: st}
			for _, a := range fn.Blocks {
				if len(a.Succs) != 2 || a.Succs[0] == a.Succs[1] {
					continue
				}
				for _, s := range a.Succs {
					br, ok := edgeCond(a, s)
					if !ok {
						continue
					}
					f, ok := branchFact(br)
					if !ok {
						continue
					}
					// is the edge a->s unavoidable on the way from st to ld?
					aa, ss := a, s
					without, _, _ := PathQuery{Start: st, Target: isLd, Barrier: other, EdgeOK: func(x, y *ssa.BasicBlock) bool { return !(x == aa && y == ss) }}.Find(fn)
					if !without {
						sw.facts = append(sw.facts, f)
					}
				}
			}
			out = append(out, sw)
		}
	}
	return out
}

// mayUnder: may v be io.EOF given extra facts (about values computed before the store)?
func (a *eofAnalysis) mayUnder(fn *ssa.Function, v ssa.Value, at ssa.Instruction, facts []Fact, seen map[eofKey]bool) bool {
	for _, f := range facts {
		if f.Y == nil {
			continue
		}
		for _, pair := range [][2]ssa.Value{{f.X, f.Y}, {f.Y, f.X}} {
			subj, other := pair[0], pair[1]
			if subj != v {
				// the fact may be about a load of the location v was just stored to (the facts were collected on edges
				// every writer-free path from the store to the load in question traverses)
				same := false
				if st, ok := at.(*ssa.Store); ok && st.Val == v {
					if ld, ok := subj.(*ssa.UnOp); ok && ld.Op == token.MUL && dominatesInstr(st, ld) {
						r1, s1 := accessPath(st.Addr)
						r2, s2 := accessPath(ld.X)
						same = r1 == r2 && s1 == s2
					}
				}
				if !same {
					continue
				}
			}
			if f.Op == token.NEQ && isSentinel(other, "io", "EOF") {
				return false
			}
			if f.Op == token.EQL {
				if isNil(other) {
					return false
				}
				if g := globalLoad(other); g != nil && !(g.Pkg.Pkg.Path() == "io" && g.Name() == "EOF") {
					return false
				}
			}
		}
	}
	return a.may(fn, v, at, seen)
}

// callMay: may result idx of call c be io.EOF?
func (a *eofAnalysis) callMay(fn *ssa.Function, c *ssa.Call, idx int, seen map[eofKey]bool) bool {
	callees, ok := a.p.Callees(c)
	if !ok {
		return true
	}
	if len(callees) == 0 {
		// interface call without repository implementation or builtin
		return true
	}
	for _, f := range callees {
		if f.Blocks == nil {
			return true // leaves the repository: io.ReadFull, Peek, ... may return io.EOF
		}
		for _, b := range f.Blocks {
			for _, in := range b.Instrs {
				ret, ok := in.(*ssa.Return)
				if !ok || idx >= len(ret.Results) {
					continue
				}
				rv := ret.Results[idx]
				if !isErrorType(rv.Type()) {
					continue
				}
				// parameters are judged at the call site
				for _, leaf := range a.p.valueSources(rv) {
					if par, ok := leaf.(*ssa.Parameter); ok {
						if a.excludedByFacts(f, par, ret) || a.excludedByFacts(f, rv, ret) {
							continue
						}
						// which argument?
						for i, fp := range f.Params {
							if fp == par {
								args := c.Common().Args
								if c.Common().IsInvoke() {
									// receiver is not in Args for invokes
									if i == 0 {
										continue
									}
									i--
								}
								if i < len(args) && isErrorType(args[i].Type()) && a.may(fn, args[i], c, seen) {
									return true
								}
							}
						}
						continue
					}
				}
				if a.mayNoParams(f, rv, ret, seen) {
					return true
				}
			}
		}
	}
	return false
}

// mayNoParams: like may, but parameters count as "not EOF" (they are judged at call sites).
func (a *eofAnalysis) mayNoParams(fn *ssa.Function, v ssa.Value, at ssa.Instruction, seen map[eofKey]bool) bool {
	if a.excludedByFacts(fn, v, at) {
		return false
	}
	switch x := v.(type) {
	case *ssa.Parameter:
		return false
	case *ssa.Call:
		// judged through the callee's returns (its own branch facts apply there: noEOF(err) never hands io.EOF on)
		return a.may(fn, v, at, seen)
	case *ssa.Extract:
		if _, ok := x.Tuple.(*ssa.Call); ok {
			return a.may(fn, v, at, seen)
		}
	case *ssa.UnOp:
		if x.Op == token.MUL {
			if _, isG := x.X.(*ssa.Global); !isG {
				// a field load: judged by its reaching stores under the branch facts on the way (err == io.EOF rewritten)
				return a.may(fn, v, at, seen)
			}
		}
	}
	for _, leaf := range a.p.valueSources(v) {
		if _, ok := leaf.(*ssa.Parameter); ok {
			continue
		}
		if leaf == v {
			if a.may(fn, v, at, seen) {
				return true
			}
			continue
		}
		if a.may(fn, leaf, at, seen) {
			return true
		}
	}
	return false
}

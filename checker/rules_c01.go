package main

// C01 (round trip: encoder-side necessary conditions), C02 (decoder constant data), C06 (gzip/zlib format).

import (
	"fmt"
	"go/token"
	"go/types"
	"sort"
	"strings"

	"golang.org/x/tools/go/ssa"
)

func init() {
	register(&PropSpec{
		ID: "C01",
		Rules: []Rule{
			{ID: "R01.1", Configs: "all", Run: ruleR01_1},
			{ID: "R01.2", Configs: "all", Run: ruleR01_2},
			{ID: "R01.3", Configs: "all", Run: ruleR01_3},
			{ID: "R01.4", Configs: "all", Run: ruleR01_4},
			{ID: "R01.5", Configs: "all", Run: ruleR01_5},
			{ID: "R01.6", Configs: "all", Run: ruleR01_6},
		},
		Explanation: "Does not decide round-trip equality (a relation between runtime byte strings). Decides five encoder-side necessary conditions, each of which, if broken, makes some input undecodable or mis-decoded: (R01.1) the encoder's code-length order and base-distance table equal the decoder's and RFC 1951's, the repeat codes are 16/17/18, and the header writer uses the RFC bit widths (3,5,5,4, 3 per code-length code, 2/3/7 extra bits); " +
			"(R01.2) every Huffman generation in the compressor is limited to 15 bits for literal/length and distance codes and 7 bits for the code-length code; (R01.3) in the Go match finder every emitted token is counted in the histogram (literal/length symbol, and distance symbol unless it is the literal marker) on every path before the function returns or starts the next position; " +
			"(R01.4) the block framing rules of C10 (alignment, end-of-block, final flag) hold, and the empty-final-block shortcut is taken only when nothing was ever accumulated; (R01.5) every compressor call of the Writer is behind the delegation test and non-accelerated settings go to compress/flate unchanged; (R01.6) in the Go match finder the byte emitted as a literal is loaded from the very position that the literal step then advances past (on every incoming path the pair (loaded word, offset) is consistent).",
		NotDecided: []string{
			"match verification inside the assembly finders and the Go finder's byte comparisons",
			"Huffman code construction (Kraft completeness, canonical code assignment), bit packing, buffer sliding arithmetic",
			"equality of decoded and original data for any input or partition",
		},
	})
	register(&PropSpec{
		ID: "C02",
		Rules: []Rule{
			{ID: "R02.1", Configs: "first", Run: ruleR02_1},
			{ID: "R02.2", Configs: "first", Run: ruleR02_2},
			{ID: "R02.3", Configs: "all", Run: ruleR02_3},
			{ID: "R02.4", Configs: "asm", Run: ruleR18_1},
			{ID: "R02.5", Configs: "all", Run: ruleR02_5},
			{ID: "R02.6", Configs: "all", Run: ruleR02_6},
			{ID: "R02.7", Configs: "all", Run: ruleR02_7},
			{ID: "R02.8", Configs: "all", Run: ruleR02_8},
		},
		Explanation: "Does not decide decode equality. Decides that the constant data and layout assumptions both decode loops rely on are right: (R02.1, exhaustive) every one of the 4096 short entries of the precomputed fixed literal/length table, every long-table entry they point to, and every one of the 1024 fixed distance entries describes exactly the symbols the RFC 1951 fixed code assigns to those bits, in the entry format the decode loops define (1-3 packed symbols, all but the last literals, bit count = sum of code lengths plus folded extra bits, zero length exactly for the non-existent symbols 286/287 and 30/31); " +
			"(R02.2) the RFC base/extra tables equal RFC 1951; (R02.3) the slack constants satisfy the relations the fast paths rely on; (R02.4) every struct offset hard-coded in the assembly lands on the intended field (= R18.1); (R02.5) in the dynamic-header parser every store of a code length is preceded, within the same loop iteration, by the test that switches from the literal/length lengths to the distance lengths at 257+HLIT, so a repeat run may cross that boundary as RFC 1951 allows; (R02.6) a fixed block installs both precomputed tables whole (short and long parts); (R02.7) every builder of the literal/length table stores symbols through the index-to-symbol mapping (513 -> 512), like its siblings; (R02.8) the builtin copy is used inside one buffer only where a dominating comparison implies that source and destination do not overlap - otherwise the period-replicating byteCopy is required.",
		NotDecided: []string{
			"the table builders for dynamic codes and both decode loops (runtime arithmetic)",
			"history wrap-around and carry-over logic",
		},
	})
	register(&PropSpec{
		ID: "C06",
		Rules: []Rule{
			{ID: "R06.1", Configs: "all", Run: ruleR06_1},
			{ID: "R06.2", Configs: "all", Run: ruleR06_2},
			{ID: "R06.3", Configs: "all", Run: ruleR06_3},
			{ID: "R06.4", Configs: "all", Run: ruleR06_4},
			{ID: "R06.5", Configs: "all", Run: ruleR16_3},
		},
		Explanation: "Decides format constants, field order and checksum coverage of the gzip and zlib writers against their readers and RFC 1950/1952; payload equality is not decided. (R06.1) magic bytes, CM, the FLG bits set for Extra/Name/Comment equal the reader's and the RFC's, each optional field is written under exactly the condition under which its flag is set, XFL values, zlib CMF/FDICT/FLEVEL arms/FCHECK modulus; " +
			"(R06.2) the optional fields are written in the order the reader parses them (EXTRA, NAME, COMMENT); (R06.3) gzip integers are little-endian (le is initialised with binary.LittleEndian and never reassigned), the trailer is digest then size at [0:4],[4:8], zlib uses big-endian and writes digest.Sum32(); (R06.4) the bytes checksummed and counted are the very slice handed to the compressor, on every success path; (R06.5) accepted level range (= R16.3).",
		NotDecided: []string{
			"payload round trip through the compressor (C01) and header field value equality for arbitrary strings (Latin-1 conversion arithmetic)",
		},
	})
}

// ---------- C01 ----------

func ruleR01_1(p *Program, r *Report) {
	r.Expect("R01.1", 8)
	// code-length order: encoder table, decoder local table, RFC
	enc, err := p.globalInts(deflRel, "hclenOrder")
	if err != nil {
		r.Undecided("R01.1", "hclenOrder", "-", "encoder code-length order is a constant table", err.Error())
	} else {
		r.Check(eqInts(enc, rfcCodeLengthOrder), "R01.1", "deflate.hclenOrder", "-", "encoder's code-length-code order equals RFC 1951 3.2.7", fmt.Sprint(enc))
	}
	if fn := p.Method(flateRel, "inflate", "codeLenCodes"); fn != nil {
		found := false
		for _, vals := range localArrayConsts(fn, 19) {
			found = true
			r.Check(eqInts(vals, rfcCodeLengthOrder), "R01.1", "flate.codeLengthOrder", p.Pos(fn.Pos()), "decoder's code-length-code order equals RFC 1951 3.2.7 (and the encoder's)", fmt.Sprint(vals))
		}
		if !found {
			// the table hoisted to package level: a 19-entry array global the function indexes
			seenG := map[*ssa.Global]bool{}
			for _, b := range fn.Blocks {
				for _, in := range b.Instrs {
					for _, op := range in.Operands(nil) {
						g, ok := (*op).(*ssa.Global)
						if !ok || seenG[g] {
							continue
						}
						seenG[g] = true
						if at, ok := derefArray(g.Type()); !ok || at.Len() != 19 {
							continue
						}
						if vals, err := p.globalInts(flateRel, g.Name()); err == nil {
							found = true
							r.Check(eqInts(vals, rfcCodeLengthOrder), "R01.1", "flate.codeLengthOrder", p.Pos(fn.Pos()), "decoder's code-length-code order equals RFC 1951 3.2.7 (and the encoder's)", fmt.Sprint(vals))
						}
					}
				}
			}
		}
		if !found {
			r.Undecided("R01.1", "flate.codeLengthOrder", p.Pos(fn.Pos()), "decoder has a 19-entry order table", "not found")
		}
	} else {
		r.Undecided("R01.1", "flate.codeLenCodes", "-", "decoder header function exists", "not found")
	}
	// base distances
	dt, err := p.globalInts(deflRel, "disttable")
	if err != nil || len(dt) < 30 {
		r.Undecided("R01.1", "deflate.disttable", "-", "encoder distance base table", fmt.Sprint(err))
	} else {
		r.Check(eqInts(dt[:30], rfcDistBase), "R01.1", "deflate.disttable", "-", "encoder's base distances equal RFC 1951", fmt.Sprint(dt[:30]))
	}
	ds, err := p.globalInts(flateRel, "rfcLookupTable", "DistStart")
	if err != nil || len(ds) < 30 {
		r.Undecided("R01.1", "flate.rfcLookupTable.DistStart", "-", "decoder distance base table", fmt.Sprint(err))
	} else {
		r.Check(eqInts(ds[:30], rfcDistBase), "R01.1", "flate.rfcLookupTable.DistStart", "-", "decoder's base distances equal RFC 1951 (and the encoder's)", fmt.Sprint(ds[:30]))
	}
	for name, want := range map[string]int64{"numRepeat3_6": 16, "zeroRepeat3_10": 17, "zeroRepeat11_138": 18} {
		v, ok := constOf(p, deflRel, name)
		r.Check(ok && v == want, "R01.1", "deflate."+name, "-", "repeat code "+name+" is "+itoa(int(want)), "value "+itoa(int(v)))
	}
	// header writer bit widths
	wt := p.Method(deflRel, "dynamicHeader", "writeTo")
	if wt == nil {
		r.Undecided("R01.1", "writeTo", "-", "header writer exists", "not found")
		return
	}
	var widths []int64
	nonConst := 0
	// writeTo and the helpers its body may have been split into
	var wtCalls []ssa.CallInstruction
	for _, rc := range p.regionCalls(wt) {
		wtCalls = append(wtCalls, rc.call)
	}
	for _, c := range wtCalls {
		if !staticCalleeNamed(c, deflRel, "BitBuf", "WriteBit") {
			continue
		}
		if k, ok := constInt(c.Common().Args[2]); ok {
			widths = append(widths, k)
		} else if m, ok := constMapping(stripConv(c.Common().Args[2])); ok && len(m) == 3 && m[16] == 2 && m[17] == 3 && m[18] == 7 {
			// the extra-bit width looked up by a pure function of the repeat code (16 -> 2, 17 -> 3, 18 -> 7, else 0)
			widths = append(widths, 2, 3, 7)
		} else {
			nonConst++
		}
	}
	// the 3-bit block header may be one write of a value picked by eos (R10.6 judges the value) or two writes
	n3 := 0
	for _, k := range widths {
		if k == 3 {
			n3++
		}
	}
	if n3 == 3 {
		widths = append(widths, 3)
	}
	// expected constant widths in program order: 3 (x2: final / non-final), 5, 5, 4, 3, then 2, 3, 7 for the repeat codes; one variable-width write (the code itself)
	want := []int64{2, 3, 3, 3, 3, 4, 5, 5, 7}
	sort.Slice(widths, func(i, j int) bool { return widths[i] < widths[j] })
	r.Check(eqInts(widths, want) && nonConst == 1, "R01.1", "writeTo|bit widths", p.Pos(wt.Pos()), "block header fields are written with the RFC widths: 3 (BFINAL+BTYPE), 5 (HLIT), 5 (HDIST), 4 (HCLEN), 3 per code-length code, 2/3/7 extra bits for 16/17/18", fmt.Sprintf("constant widths %v, variable-width writes %d", widths, nonConst))
	// extra-bit widths sit in the arms for 16/17/18
	for _, c := range wtCalls {
		if !staticCalleeNamed(c, deflRel, "BitBuf", "WriteBit") {
			continue
		}
		k, ok := constInt(c.Common().Args[2])
		if !ok || (k != 2 && k != 7) {
			continue
		}
		wantSym := map[int64]int64{2: 16, 7: 18}[k]
		good := false
		for _, f := range dominatingFacts(c) {
			if f.Y != nil && f.Op == token.EQL {
				if v, isK := constInt(f.Y); isK && v == wantSym {
					good = true
				}
			}
		}
		r.Check(good, "R01.1", "writeTo|extra bits of "+itoa(int(wantSym)), p.InstrPos(c), itoa(int(k))+" extra bits are written in the arm for repeat code "+itoa(int(wantSym)), "not under value == "+itoa(int(wantSym)))
	}
}

func ruleR01_2(p *Program, r *Report) {
	r.Expect("R01.2", 4)
	n := 0
	for _, fn := range p.Funcs() {
		if fn.Pkg != p.Pkg(deflRel) {
			continue
		}
		lab := newLabeler()
		for _, c := range allCalls(fn) {
			com := c.Common()
			name := ""
			var args []ssa.Value
			if com.IsInvoke() {
				name, args = com.Method.Name(), com.Args
			} else if f := com.StaticCallee(); f != nil && f.Pkg != nil && strings.HasSuffix(f.Pkg.Pkg.Path(), "/internal/huffman") {
				name = f.Name()
				args = com.Args
				if f.Signature.Recv() != nil {
					args = args[1:]
				}
			}
			switch name {
			case "Generate":
				n++
				limit, isK := constInt(args[0])
				_, sel := accessPath(args[1])
				want := int64(15)
				what := "literal/length or distance code"
				if strings.HasSuffix(sel, ".histogram") {
					want, what = 7, "code-length code"
				}
				r.Check(isK && limit == want, "R01.2", shortFn(fn)+"|"+lab.get("Generate "+sel), p.InstrPos(c), fmt.Sprintf("the %s is limited to %d bits (what the header format can express)", what, want), "limit is "+describeValue(args[0]))
			case "GenerateCode":
				n++
				limit, isK := constInt(args[1])
				r.Check(isK && limit == 7, "R01.2", shortFn(fn)+"|"+lab.get("GenerateCode"), p.InstrPos(c), "code-length codes are assigned for at most 7 bits", "limit is "+describeValue(args[1]))
			}
		}
	}
	if n < 4 {
		r.Undecided("R01.2", "sites", "-", "at least 4 code generation sites", "found "+itoa(n))
	}
}

// outermostLoopHeader: the header of the outermost natural loop containing block b (nil if none).
func outermostLoopHeader(fn *ssa.Function, b *ssa.BasicBlock) *ssa.BasicBlock {
	var best *ssa.BasicBlock
	for _, h := range fn.Blocks {
		if !h.Dominates(b) {
			continue
		}
		isHeader := false
		for _, pr := range h.Preds {
			if h.Dominates(pr) {
				if pr == b {
					isHeader = true
				} else if f, _, _ := (PathQuery{Target: func(x ssa.Instruction) bool { return x.Block() == pr }}).findFromBlock(fn, b); f {
					isHeader = true
				}
			}
		}
		if isHeader && (best == nil || h.Dominates(best)) {
			best = h
		}
	}
	return best
}

func ruleR01_3(p *Program, r *Report) {
	r.Expect("R01.3", 4)
	lz := p.Func(deflRel, "lz77")
	nt := p.Func(deflRel, "newToken")
	if lz == nil || nt == nil {
		r.Undecided("R01.3", "anchors", "-", "lz77 and newToken exist", "not found")
		return
	}
	hist := lz.Params[4]
	invalid, _ := constOf(p, deflRel, "InvalidDist")
	sameSym := func(a, b ssa.Value) bool {
		a, b = stripConv(a), stripConv(b)
		if a == b {
			return true
		}
		ka, oka := constInt(a)
		kb, okb := constInt(b)
		if oka && okb && ka == kb {
			return true
		}
		for _, la := range p.valueSources(a) {
			for _, lb := range p.valueSources(b) {
				if stripConv(la) == stripConv(lb) {
					return true
				}
			}
		}
		return false
	}
	incOf := func(field string, sym ssa.Value) func(ssa.Instruction) bool {
		return func(in ssa.Instruction) bool {
			st, ok := in.(*ssa.Store)
			if !ok {
				return false
			}
			ia, ok := st.Addr.(*ssa.IndexAddr)
			if !ok {
				return false
			}
			root, sel := accessPath(ia.X)
			if root != ssa.Value(hist) || sel != "."+field {
				return false
			}
			if !sameSym(ia.Index, sym) {
				return false
			}
			bo, ok := st.Val.(*ssa.BinOp)
			return ok && bo.Op == token.ADD
		}
	}
	lab := newLabeler()
	for _, c := range allCalls(lz) {
		if c.Common().StaticCallee() != nt {
			continue
		}
		a, b := c.Common().Args[0], c.Common().Args[1]
		// the append that consumes this token (possibly through a local variable / phi)
		var app ssa.Instruction
		for _, o := range allCalls(lz) {
			if bi, ok := o.Common().Value.(*ssa.Builtin); ok && bi.Name() == "append" {
				for _, arg := range o.Common().Args[1:] {
					if tokenFlowsTo(c.Value(), arg) && app == nil {
						app = o
					}
				}
			}
		}
		key := "lz77|" + lab.get("token")
		if app == nil {
			r.Undecided("R01.3", key, p.InstrPos(c), "the token is appended to the token list", "append not found")
			continue
		}
		header := outermostLoopHeader(lz, app.Block())
		target := func(in ssa.Instruction) bool {
			if _, ok := in.(*ssa.Return); ok {
				return true
			}
			return header != nil && in.Block() == header && in == header.Instrs[0] && in.Block() != app.Block()
		}
		check := func(field string, sym ssa.Value, what string) {
			found, hit, path := PathQuery{Start: app, Target: target, Barrier: incOf(field, sym)}.Find(lz)
			why := ""
			if found {
				why = "from the append at " + p.InstrPos(app) + " " + describeInstr(p, hit) + " is reached (blocks " + fmtInts(path) + ") without counting the " + what + ": the symbol gets a zero-length code and the block cannot be decoded"
			}
			r.Check(!found, "R01.3", key+"|"+what, p.InstrPos(c), "every emitted token's "+what+" is counted in the histogram before the finder returns or moves on", why)
		}
		check("literalCodes", a, "literal/length symbol")
		if k, isK := constInt(b); !(isK && k == invalid) {
			check("distanceCodes", b, "distance symbol")
		}
	}
}

// tokenFlowsTo: does the token value tok reach arg (directly, through a phi, or through the backing array of a variadic append)?
func tokenFlowsTo(tok ssa.Value, arg ssa.Value) bool {
	if tok == nil {
		return false
	}
	seen := map[ssa.Value]bool{}
	var walk func(v ssa.Value) bool
	walk = func(v ssa.Value) bool {
		if v == tok {
			return true
		}
		if v == nil || seen[v] {
			return false
		}
		seen[v] = true
		switch x := v.(type) {
		case *ssa.Phi:
			for _, e := range x.Edges {
				if walk(e) {
					return true
				}
			}
		case *ssa.Slice:
			if al, ok := x.X.(*ssa.Alloc); ok && al.Referrers() != nil {
				for _, u := range *al.Referrers() {
					if ia, ok := u.(*ssa.IndexAddr); ok && ia.Referrers() != nil {
						for _, u2 := range *ia.Referrers() {
							if st, ok := u2.(*ssa.Store); ok && walk(st.Val) {
								return true
							}
						}
					}
				}
			}
		case *ssa.UnOp:
			if al, ok := x.X.(*ssa.Alloc); ok && al.Referrers() != nil {
				for _, u := range *al.Referrers() {
					if st, ok := u.(*ssa.Store); ok && st.Addr == ssa.Value(al) && walk(st.Val) {
						return true
					}
				}
			}
		}
		return false
	}
	return walk(arg)
}

func ruleR01_4(p *Program, r *Report) {
	ruleR10_1(p, r)
	ruleR10_2(p, r)
	ruleR10_6(p, r)
	r.Expect("R01.4", 2)
	// the empty-final-block shortcut only when nothing was ever accumulated
	for _, tr := range p.CompressorTypes() {
		acc := tr.Ops["Accumulate"]
		if acc == nil {
			continue
		}
		// the cursor field Accumulate advances by the copy count
		cursor := ""
		for _, b := range acc.Blocks {
			for _, in := range b.Instrs {
				st, ok := in.(*ssa.Store)
				if !ok {
					continue
				}
				root, sel := accessPath(st.Addr)
				if root != ssa.Value(acc.Params[0]) {
					continue
				}
				if bo, ok := st.Val.(*ssa.BinOp); ok && bo.Op == token.ADD {
					if _, s2, ok := fieldLoad(bo.X); ok && s2 == sel {
						if c, ok := bo.Y.(*ssa.Call); ok {
							if bi, ok := c.Common().Value.(*ssa.Builtin); ok && bi.Name() == "copy" {
								cursor = sel
							}
						}
					}
				}
			}
		}
		if cursor == "" {
			r.Undecided("R01.4", tr.Named.Obj().Name()+"|cursor", p.Pos(acc.Pos()), "Accumulate advances a cursor by the copy count", "not found")
			continue
		}
		n := 0
		for _, fn := range p.Funcs() {
			if fn.Signature.Recv() == nil || derefNamed(fn.Signature.Recv().Type()) != tr.Named {
				continue
			}
			for _, c := range allCalls(fn) {
				if !staticCalleeNamed(c, deflRel, "BitBuf", "writeFinalEmptyBlock") {
					continue
				}
				n++
				ok := false
				for _, f := range dominatingFacts(c) {
					if f.Y == nil || f.Op != token.EQL {
						continue
					}
					if root, sel, isL := fieldLoad(f.X); isL && root == ssa.Value(fn.Params[0]) && sel == cursor {
						if k, isK := constInt(f.Y); isK && k == 0 {
							ok = true
						}
					}
				}
				r.Check(ok, "R01.4", shortFn(fn)+"|empty final block only when nothing accumulated", p.InstrPos(c), "the empty final stored block replaces a data block only when the accumulation cursor "+cursor+" is 0", "the shortcut can be taken while input or tokens are pending: they would be dropped from the stream")
			}
		}
		if n == 0 {
			r.Undecided("R01.4", tr.Named.Obj().Name()+"|shortcut", "-", "compressor has an empty-final-block shortcut", "not found")
		}
	}
}

func ruleR01_5(p *Program, r *Report) {
	r.Expect("R01.5", 5)
	tr, lcField := p.acceleratedWriter()
	if tr == nil {
		r.Undecided("R01.5", "anchor:deflate.Writer", "-", "accelerated Writer found", "not found")
		return
	}
	// the delegate field: pointer to std flate.Writer
	deleg := ""
	for i := 0; i < tr.Struct.NumFields(); i++ {
		if isNamedType(tr.Struct.Field(i).Type(), stdFlate, "Writer") {
			deleg = tr.Struct.Field(i).Name()
		}
	}
	if deleg == "" {
		r.Undecided("R01.5", "delegate field", "-", "Writer has a *compress/flate.Writer field", "not found")
		return
	}
	for _, opn := range []string{"Write", "Flush", "Close", "Reset"} {
		fn := tr.Ops[opn]
		recv := fn.Params[0]
		lab := newLabeler()
		for _, c := range allCalls(fn) {
			com := c.Common()
			if !com.IsInvoke() {
				continue
			}
			root, sel, ok := fieldLoad(com.Value)
			if !ok || root != recv || sel != "."+lcField {
				continue
			}
			good := false
			for _, f := range dominatingFacts(c) {
				if f.Y != nil && f.Op == token.EQL {
					for _, pair := range [][2]ssa.Value{{f.X, f.Y}, {f.Y, f.X}} {
						if r2, s2, ok := fieldLoad(pair[0]); ok && r2 == recv && s2 == "."+deleg && isNil(pair[1]) {
							good = true
						}
					}
				}
			}
			r.Check(good, "R01.5", shortFn(fn)+"|"+lab.get("invoke."+lcField+"."+com.Method.Name()), p.InstrPos(c), "the level compressor is used only when the writer does not delegate to compress/flate (."+deleg+" == nil)", "compressor call not behind the delegation test: for levels 0,3..9 and dictionary writers lc is nil")
		}
	}
	// exactly one of the two is set by every constructor path
	for _, ctor := range []string{"NewWriter", "NewWriterwWith4KWindow", "NewWriterDict"} {
		fn := p.Func(deflRel, ctor)
		if fn == nil {
			continue
		}
		setter := func(in ssa.Instruction) bool {
			st, ok := in.(*ssa.Store)
			if !ok {
				return false
			}
			fa, ok := st.Addr.(*ssa.FieldAddr)
			if !ok || derefNamed(fa.X.Type()) != tr.Named {
				return false
			}
			n := derefStruct(fa.X.Type()).Field(fa.Field).Name()
			return n == lcField || n == deleg
		}
		// also: a return of another constructor's result
		retCtor := func(in ssa.Instruction) bool {
			c, ok := in.(ssa.CallInstruction)
			if !ok {
				return false
			}
			f := c.Common().StaticCallee()
			if f == nil || f.Pkg != fn.Pkg {
				return false
			}
			if strings.HasPrefix(f.Name(), "NewWriter") {
				return true
			}
			// a private helper that builds the Writer: its own success paths all install one of the two
			if f.Blocks != nil && f.Signature.Results().Len() > 0 && derefNamed(f.Signature.Results().At(0).Type()) == tr.Named {
				hsucc := func(in ssa.Instruction) bool {
					ret, ok := in.(*ssa.Return)
					if !ok {
						return false
					}
					e := returnErr(ret)
					return e == nil || p.mayBeNil(f, e, ret)
				}
				open, _, _ := PathQuery{Target: hsucc, Barrier: setter}.Find(f)
				return !open
			}
			return false
		}
		succ := func(in ssa.Instruction) bool {
			ret, ok := in.(*ssa.Return)
			if !ok {
				return false
			}
			e := returnErr(ret)
			return e == nil || p.mayBeNil(fn, e, ret)
		}
		found, hit, path := PathQuery{Target: succ, Barrier: func(in ssa.Instruction) bool { return setter(in) || retCtor(in) }}.Find(fn)
		why := ""
		if found {
			why = "the success return at " + p.InstrPos(hit) + " is reachable (blocks " + fmtInts(path) + ") with neither a compressor nor a delegate: every operation would dereference nil"
		}
		r.Check(!found, "R01.5", "deflate."+ctor+"|sets compressor or delegate", p.Pos(fn.Pos()), "every success path of the constructor installs a level compressor or a compress/flate delegate", why)
	}
}

// ---------- C02 ----------

func fixedDecode(bits uint32, nbits int) (sym int, length int, ok bool) {
	get := func(n int) uint32 { // first n bits as an MSB-first code
		var c uint32
		for i := 0; i < n; i++ {
			c = c<<1 | (bits>>uint(i))&1
		}
		return c
	}
	if nbits < 7 {
		return 0, 0, false
	}
	if c := get(7); c <= 0x17 {
		return 256 + int(c), 7, true
	}
	if nbits < 8 {
		return 0, 0, false
	}
	c8 := get(8)
	if c8 >= 0x30 && c8 <= 0xbf {
		return int(c8 - 0x30), 8, true
	}
	if c8 >= 0xc0 && c8 <= 0xc7 {
		return 280 + int(c8-0xc0), 8, true
	}
	if nbits < 9 {
		return 0, 0, false
	}
	c9 := get(9)
	if c9 >= 0x190 {
		return 144 + int(c9-0x190), 9, true
	}
	return 0, 0, false
}

// expand: a length symbol with its extra bits taken from `bits` (after the code) becomes 254+length.
func fixedExpand(sym int, bits uint32, avail int) (exp int, extra int, ok bool) {
	if sym <= 256 {
		return sym, 0, true
	}
	if sym > 285 {
		return 0, 0, false
	}
	e := int(rfcLenExtra[sym-257])
	if e > avail {
		return 0, e, false
	}
	val := int(bits & ((1 << uint(e)) - 1))
	return 254 + int(rfcLenBase[sym-257]) + val, e, true
}

func ruleR02_1(p *Program, r *Report) {
	r.Expect("R02.1", 2)
	short, err1 := p.globalInts(flateRel, "staticLitHuffCode", "shortCodeLookup")
	long, err2 := p.globalInts(flateRel, "staticLitHuffCode", "longCodeLookup")
	dshort, err3 := p.globalInts(flateRel, "staticDistHuffCode", "ShortCodeLookup")
	if err1 != nil || err2 != nil || err3 != nil || len(short) != 4096 || len(dshort) != 1024 {
		r.Undecided("R02.1", "tables", "-", "fixed-code tables are constant literals of 4096 / 1264 / 1024 entries", fmt.Sprint(err1, err2, err3, len(short), len(long), len(dshort)))
		return
	}
	const (
		flagBit = 1 << 25
	)
	bad := ""
	nShort, nLong, nInvalid, nMulti := 0, 0, 0, 0
	for i := 0; i < 4096 && bad == ""; i++ {
		e := uint32(short[i])
		bits := uint32(i)
		s1, l1, ok := fixedDecode(bits, 12)
		if !ok {
			bad = fmt.Sprintf("index %d: no fixed code matches (checker bug?)", i)
			break
		}
		if e&flagBit != 0 {
			// pointer into the long table: only legal when the first symbol needs more than 12 bits
			if s1 <= 256 || s1 > 285 {
				bad = fmt.Sprintf("short[%d]=%#x is a long-table pointer but the first symbol %d fits in 12 bits", i, e, s1)
				break
			}
			ext := int(rfcLenExtra[s1-257])
			total := l1 + ext
			maxLen := int(e >> 26)
			off := int(e & (flagBit - 1))
			if total <= 12 || maxLen != total {
				bad = fmt.Sprintf("short[%d]=%#x: long pointer with max length %d, the symbol needs %d bits", i, e, maxLen, total)
				break
			}
			for x := 0; x < 1<<uint(maxLen-12); x++ {
				full := bits | uint32(x)<<12
				exp, _, _ := fixedExpand(s1, full>>uint(l1), maxLen-l1)
				if off+x >= len(long) {
					bad = fmt.Sprintf("short[%d]: long index %d out of range", i, off+x)
					break
				}
				v := uint32(long[off+x])
				if int(v&1023) != exp || int(v>>10) != total {
					bad = fmt.Sprintf("long[%d]=%#x (via short[%d], extension %d) should be symbol %d with %d bits", off+x, v, i, x, exp, total)
					break
				}
				nLong++
			}
			continue
		}
		bitCount := int(e >> 28)
		count := int(e>>26) & 3
		syms := e & (flagBit - 1)
		if bitCount == 0 {
			if s1 != 286 && s1 != 287 {
				bad = fmt.Sprintf("short[%d]=%#x is marked invalid but the bits decode to symbol %d", i, e, s1)
			}
			nInvalid++
			continue
		}
		if s1 == 286 || s1 == 287 {
			bad = fmt.Sprintf("short[%d]=%#x gives a symbol for the non-existent literal/length code %d", i, e, s1)
			break
		}
		if count < 1 || count > 3 {
			bad = fmt.Sprintf("short[%d]=%#x has symbol count %d", i, e, count)
			break
		}
		used := 0
		rest := bits
		for k := 1; k <= count && bad == ""; k++ {
			s, l, ok := fixedDecode(rest, 12-used)
			if !ok || s == 286 || s == 287 {
				bad = fmt.Sprintf("short[%d]=%#x claims %d symbols but symbol %d does not fit/ exist in the remaining bits", i, e, count, k)
				break
			}
			rest >>= uint(l)
			used += l
			var got int
			if k < count {
				got = int(syms & 0xff)
				syms >>= 8
				if s >= 256 {
					bad = fmt.Sprintf("short[%d]=%#x packs a non-literal (%d) before the last symbol", i, e, s)
					break
				}
				if got != s {
					bad = fmt.Sprintf("short[%d]=%#x: packed symbol %d is %d, the fixed code gives %d", i, e, k, got, s)
				}
			} else {
				got = int(syms & 0xffff)
				exp, ext, ok := fixedExpand(s, rest, 12-used)
				if !ok {
					bad = fmt.Sprintf("short[%d]=%#x: last symbol %d needs %d extra bits that are not in the 12-bit index", i, e, s, ext)
					break
				}
				used += ext
				if got != exp {
					bad = fmt.Sprintf("short[%d]=%#x: last symbol is %d, the fixed code gives %d", i, e, got, exp)
				}
			}
		}
		if bad == "" && used != bitCount {
			bad = fmt.Sprintf("short[%d]=%#x says %d bits, its %d symbol(s) take %d", i, e, bitCount, count, used)
		}
		nShort++
		if count > 1 {
			nMulti++
		}
	}
	r.Check(bad == "", "R02.1", "staticLitHuffCode", "compress/flate/inflate_table.go", fmt.Sprintf("all 4096 short entries and %d long entries of the fixed literal/length table match RFC 1951 3.2.6 (%d valid short entries, %d of them multi-symbol, %d invalid for 286/287)", nLong, nShort, nMulti, nInvalid), bad)
	if nLong < 100 {
		r.Undecided("R02.1", "staticLitHuffCode|long coverage", "-", "long-table entries are reached from the short table", "only "+itoa(nLong)+" checked")
	}
	// distance table
	bad = ""
	for i := 0; i < 1024 && bad == ""; i++ {
		var c uint32
		for k := 0; k < 5; k++ {
			c = c<<1 | (uint32(i)>>uint(k))&1
		}
		e := uint32(dshort[i])
		if c >= 30 {
			if e>>11 != 0 {
				bad = fmt.Sprintf("dist short[%d]=%#x gives a length to the non-existent distance code %d", i, e, c)
			}
			continue
		}
		want := c | uint32(rfcDistExtra[c])<<5 | 5<<11
		if e != want {
			bad = fmt.Sprintf("dist short[%d]=%#x, expected %#x (symbol %d, %d extra bits, length 5)", i, e, want, c, rfcDistExtra[c])
		}
	}
	r.Check(bad == "", "R02.1", "staticDistHuffCode", "compress/flate/inflate_table.go", "all 1024 short entries of the fixed distance table match RFC 1951 (5-bit codes, extra-bit counts, 30/31 invalid)", bad)
	r.Note("R02.1 is exhaustive: %d + %d + 1024 table entries enumerated", 4096, nLong)
}

func ruleR02_2(p *Program, r *Report) {
	r.Expect("R02.2", 4)
	for _, t := range []struct {
		field string
		want  []int64
	}{{"DistStart", rfcDistBase}, {"DistExtraBitCount", rfcDistExtra}, {"LenStart", rfcLenBase}, {"LenExtraBitCount", rfcLenExtra}} {
		got, err := p.globalInts(flateRel, "rfcLookupTable", t.field)
		if err != nil || len(got) < len(t.want) {
			r.Undecided("R02.2", "rfcLookupTable."+t.field, "-", "table is a constant literal", fmt.Sprint(err))
			continue
		}
		r.Check(eqInts(got[:len(t.want)], t.want), "R02.2", "rfcLookupTable."+t.field, "compress/flate/inflate_table.go", t.field+" equals RFC 1951 for all "+itoa(len(t.want))+" symbols", fmt.Sprint(got[:len(t.want)]))
	}
}

func ruleR02_3(p *Program, r *Report) {
	r.Expect("R02.3", 6)
	c := func(n string) int64 { v, _ := constOf(p, flateRel, n); return v }
	chk := func(ok bool, key, desc, why string) { r.Check(ok, "R02.3", key, "-", desc, why) }
	chk(c("outBufferSlop") >= c("copyLenMax")+c("copySize"), "outBufferSlop", "outBufferSlop >= copyLenMax + copySize (a full match plus one over-long vector store fits behind the fast-path limit)", fmt.Sprintf("%d < %d + %d", c("outBufferSlop"), c("copyLenMax"), c("copySize")))
	chk(c("copySize") == 16, "copySize", "copySize is 16, the width of the MOVOU stores of the assembly loop", itoa(int(c("copySize"))))
	chk(c("copyLenMax") == 258 && c("maxMatch") == 258, "copyLenMax", "copyLenMax and maxMatch are 258", "")
	chk(c("inBufferSlop") >= 24, "inBufferSlop", "inBufferSlop >= 8*3 (three unconditional 8-byte loads per iteration)", itoa(int(c("inBufferSlop"))))
	chk(c("lookAhead") >= c("maxMatch")+4, "lookAhead", "lookAhead >= maxMatch + 4 (an overflow copy of up to 258 bytes or a 4-byte literal store lands behind the limit)", itoa(int(c("lookAhead"))))
	chk(c("historySize") == 32768, "historySize", "historySize is 32768", itoa(int(c("historySize"))))
	if dn := p.Named(flateRel, "decompressor"); dn != nil {
		st := dn.Underlying().(*types.Struct)
		for i := 0; i < st.NumFields(); i++ {
			if arr, ok := st.Field(i).Type().Underlying().(*types.Array); ok && st.Field(i).Name() == "historyBuffer" {
				chk(arr.Len() == 2*c("historySize")+c("lookAhead"), "historyBuffer", "len(historyBuffer) == 2*historySize + lookAhead", itoa(int(arr.Len())))
			}
		}
	}
	if in := p.Named(flateRel, "inflate"); in != nil {
		st := in.Underlying().(*types.Struct)
		for i := 0; i < st.NumFields(); i++ {
			if arr, ok := st.Field(i).Type().Underlying().(*types.Array); ok && st.Field(i).Name() == "headerBuffer" {
				chk(arr.Len() == c("maxHdrSize"), "headerBuffer", "len(headerBuffer) == maxHdrSize", itoa(int(arr.Len())))
			}
		}
	}
	// table sizes follow the lookup widths
	for _, t := range []struct{ typ, field, bitsConst string }{{"largeHuffCodeTable", "shortCodeLookup", "litLenLookupBits"}, {"smallHuffCodeTable", "ShortCodeLookup", "distLookupBits"}} {
		if n := p.Named(flateRel, t.typ); n != nil {
			st := n.Underlying().(*types.Struct)
			for i := 0; i < st.NumFields(); i++ {
				if arr, ok := st.Field(i).Type().Underlying().(*types.Array); ok && st.Field(i).Name() == t.field {
					chk(arr.Len() == 1<<uint(c(t.bitsConst)), t.typ+"."+t.field, "short table has 1<<"+t.bitsConst+" entries", itoa(int(arr.Len())))
				}
			}
		}
	}
	if p.Cfg.Asm {
		for _, u := range p.Asm().Units {
			if u.Text.Name != "decodeHuffmanAsmArchV3" {
				continue
			}
			masks := map[int64]bool{}
			movou := 0
			for _, in := range u.Text.Instrs {
				if in.Mnem == "ANDQ" && len(in.Ops) == 2 && in.Ops[0].Kind == OpImm {
					masks[in.Ops[0].Imm] = true
				}
				if in.Mnem == "MOVOU" {
					movou++
				}
			}
			chk(masks[(1<<uint(c("litLenLookupBits")))-1] && masks[(1<<uint(c("distLookupBits")))-1], "asm lookup masks", "the assembly loop masks table indexes with (1<<litLenLookupBits)-1 and (1<<distLookupBits)-1", fmt.Sprint(masks))
			chk(movou > 0, "asm MOVOU", "the assembly loop copies with 16-byte MOVOU stores", "")
		}
	}
}

// ---------- C06 ----------

const gzipRel, zlibRel = "compress/gzip", "compress/zlib"

// gzipHeaderWriter: the method of gzip.Writer that builds the member header - the one that stores the magic
// byte 0x1f at index 0 of the header array (Write itself, or a helper the header code was moved to).
func gzipHeaderWriter(p *Program) *ssa.Function {
	wn := p.Named(gzipRel, "Writer")
	if wn == nil {
		return nil
	}
	for _, fn := range p.Funcs() {
		if fn.Signature.Recv() == nil || derefNamed(fn.Signature.Recv().Type()) != wn {
			continue
		}
		for _, b := range fn.Blocks {
			for _, in := range b.Instrs {
				st, ok := in.(*ssa.Store)
				if !ok {
					continue
				}
				ia, ok := st.Addr.(*ssa.IndexAddr)
				if !ok {
					continue
				}
				if idx, isK := constInt(ia.Index); !isK || idx != 0 {
					continue
				}
				if v, isV := constInt(st.Val); isV && v == 0x1f {
					return fn
				}
			}
		}
	}
	return p.Method(gzipRel, "Writer", "Write")
}

func ruleR06_1(p *Program, r *Report) {
	r.Expect("R06.1", 12)
	for name, want := range map[string]int64{"gzipID1": 0x1f, "gzipID2": 0x8b, "gzipDeflate": 8, "flagText": 1, "flagHdrCrc": 2, "flagExtra": 4, "flagName": 8, "flagComment": 16} {
		v, ok := constOf(p, gzipRel, name)
		r.Check(ok && v == want, "R06.1", "gzip."+name, "-", fmt.Sprintf("RFC 1952 constant %s = %#x", name, want), fmt.Sprintf("%#x", v))
	}
	for name, want := range map[string]int64{"zlibDeflate": 8, "zlibMaxWindow": 7} {
		v, ok := constOf(p, zlibRel, name)
		r.Check(ok && v == want, "R06.1", "zlib."+name, "-", fmt.Sprintf("RFC 1950 constant %s = %d", name, want), itoa(int(v)))
	}
	wr := gzipHeaderWriter(p)
	if wr == nil {
		r.Undecided("R06.1", "gzip.Writer.Write", "-", "method exists", "not found")
		return
	}
	recv := wr.Params[0]
	// header array literal: buf[0..2]
	hdr := map[int64]int64{}
	flagOf := map[string]int64{}    // field -> flag constant
	flagFact := map[string]string{} // field -> condition at flag site
	for _, b := range wr.Blocks {
		for _, in := range b.Instrs {
			st, ok := in.(*ssa.Store)
			if !ok {
				continue
			}
			ia, ok := st.Addr.(*ssa.IndexAddr)
			if !ok {
				continue
			}
			idx, isK := constInt(ia.Index)
			if !isK {
				continue
			}
			if v, isV := constInt(st.Val); isV {
				if _, isAl := ia.X.(*ssa.Alloc); isAl {
					hdr[idx] = v // the [10]byte literal
				}
				if _, sel := accessPath(ia.X); sel == ".buf" {
					hdr[100+idx] = v
				}
			}
			if _, sel := accessPath(ia.X); sel == ".buf" && idx == 3 {
				if bo, ok := st.Val.(*ssa.BinOp); ok && bo.Op == token.OR {
					if k, isK := constInt(bo.Y); isK {
						for _, f := range dominatingFacts(st) {
							if fld, cond := optFieldCond(f, recv); fld != "" {
								flagOf[fld] = k
								flagFact[fld] = cond
							}
						}
					}
				}
			}
		}
	}
	r.Check(hdr[0] == 0x1f && hdr[1] == 0x8b && hdr[2] == 8, "R06.1", "gzip.Writer.Write|magic", p.Pos(wr.Pos()), "the header starts with 1f 8b 08", fmt.Sprint(hdr))
	for fld, want := range map[string]int64{"Extra": 4, "Name": 8, "Comment": 16} {
		r.Check(flagOf[fld] == want, "R06.1", "gzip.Writer.Write|flag "+fld, p.Pos(wr.Pos()), fmt.Sprintf("FLG bit for %s is %#x as in RFC 1952 and in the reader", fld, want), fmt.Sprintf("%#x", flagOf[fld]))
	}
	// the body of each optional field is written under the same condition as its flag
	for _, c := range allCalls(wr) {
		f := c.Common().StaticCallee()
		if f == nil || !(f.Name() == "writeBytes" || f.Name() == "writeString") {
			continue
		}
		_, sel, ok := fieldLoad(c.Common().Args[1])
		if !ok {
			continue
		}
		fld := strings.TrimPrefix(sel, ".Header.")
		fld = strings.TrimPrefix(fld, ".")
		cond := ""
		for _, ft := range dominatingFacts(c) {
			if f2, cnd := optFieldCond(ft, recv); f2 == fld {
				cond = cnd
			}
		}
		r.Check(cond != "" && cond == flagFact[fld], "R06.1", "gzip.Writer.Write|body "+fld, p.InstrPos(c), "optional field "+fld+" is written under exactly the condition under which its FLG bit is set", "flag set when "+flagFact[fld]+", body written when "+cond+": for some header the reader finds a flag without a field (or a field without a flag)")
	}
	// XFL
	xfl := map[int64]int64{}
	for _, b := range wr.Blocks {
		for _, in := range b.Instrs {
			st, ok := in.(*ssa.Store)
			if !ok {
				continue
			}
			ia, ok := st.Addr.(*ssa.IndexAddr)
			if !ok {
				continue
			}
			if idx, isK := constInt(ia.Index); !isK || idx != 8 {
				continue
			}
			v, isV := constInt(st.Val)
			if !isV {
				continue
			}
			for _, f := range dominatingFacts(st) {
				if f.Y != nil && f.Op == token.EQL {
					if _, sel, ok := fieldLoad(f.X); ok && sel == ".level" {
						if k, isK := constInt(f.Y); isK {
							xfl[k] = v
						}
					}
				}
			}
		}
	}
	r.Check(xfl[9] == 2 && xfl[1] == 4, "R06.1", "gzip.Writer.Write|XFL", p.Pos(wr.Pos()), "XFL is 2 for BestCompression and 4 for BestSpeed", fmt.Sprint(xfl))
	// zlib header
	wh := p.Method(zlibRel, "Writer", "writeHeader")
	if wh == nil {
		r.Undecided("R06.1", "zlib.writeHeader", "-", "method exists", "not found")
		return
	}
	cmf, fdict, mod := int64(-1), int64(-1), int64(-1)
	levels := map[int64]int64{}
	panics := 0
	for _, b := range wh.Blocks {
		for _, in := range b.Instrs {
			switch x := in.(type) {
			case *ssa.Panic:
				panics++
				// reachable only for levels outside -2..9: the constructor rejects those (R16.3)
			case *ssa.Store:
				ia, ok := x.Addr.(*ssa.IndexAddr)
				if !ok {
					continue
				}
				idx, isK := constInt(ia.Index)
				if !isK {
					continue
				}
				if v, isV := constInt(x.Val); isV && idx == 0 {
					cmf = v
				} else if isV && idx == 1 {
					// a case arm with several labels is entered over several edges: take the label of each incoming edge
					for _, pr := range x.Block().Preds {
						if br, ok := edgeCond(pr, x.Block()); ok {
							if f, ok := branchFact(br); ok && f.Y != nil && f.Op == token.EQL {
								if _, sel, ok := fieldLoad(f.X); ok && sel == ".level" {
									if k, isK := constInt(f.Y); isK {
										levels[k] = v
									}
								}
							}
						}
					}
				}
				if hc, isC := stripConv(x.Val).(*ssa.Call); isC && idx == 1 {
					// the FLEVEL switch extracted into a function of the level
					if h := hc.Common().StaticCallee(); h != nil && h.Blocks != nil && h.Pkg == wh.Pkg && len(h.Params) == 1 && len(hc.Common().Args) == 1 {
						if _, sel, ok := fieldLoad(hc.Common().Args[0]); ok && sel == ".level" {
							for _, hb := range h.Blocks {
								for _, hin := range hb.Instrs {
									ret, ok := hin.(*ssa.Return)
									if !ok || len(ret.Results) != 1 {
										continue
									}
									rv, isRV := constInt(ret.Results[0])
									if !isRV {
										continue
									}
									for _, pr := range hb.Preds {
										if br, ok := edgeCond(pr, hb); ok {
											if f, ok := branchFact(br); ok && f.Y != nil && f.Op == token.EQL && stripConv(f.X) == ssa.Value(h.Params[0]) {
												if k, isK := constInt(f.Y); isK {
													levels[k] = rv
												}
											}
										}
									}
								}
							}
						}
					}
				}
				if bo, ok := x.Val.(*ssa.BinOp); ok && bo.Op == token.OR && idx == 1 {
					if k, isK := constInt(bo.Y); isK {
						fdict = k
					}
				}
			case *ssa.BinOp:
				if x.Op == token.REM {
					if k, isK := constInt(x.Y); isK {
						mod = k
					}
				}
			}
		}
	}
	r.Check(cmf == 0x78, "R06.1", "zlib.writeHeader|CMF", p.Pos(wh.Pos()), "CMF is 0x78 (deflate, 32 KiB window)", fmt.Sprintf("%#x", cmf))
	r.Check(fdict == 0x20, "R06.1", "zlib.writeHeader|FDICT", p.Pos(wh.Pos()), "FDICT is bit 5 (0x20), the bit the reader tests", fmt.Sprintf("%#x", fdict))
	r.Check(mod == 31, "R06.1", "zlib.writeHeader|FCHECK", p.Pos(wh.Pos()), "FCHECK makes the header a multiple of 31", itoa(int(mod)))
	okLv := true
	wantLv := map[int64]int64{-2: 0, 0: 0, 1: 0, 2: 64, 3: 64, 4: 64, 5: 64, 6: 128, -1: 128, 7: 192, 8: 192, 9: 192}
	for k, v := range wantLv {
		if got, ok := levels[k]; !ok || got != v {
			okLv = false
		}
	}
	r.Check(okLv && len(levels) == 12, "R06.1", "zlib.writeHeader|FLEVEL", p.Pos(wh.Pos()), "FLEVEL arms cover exactly levels -2..9 with 0/1/2/3 as in compress/zlib", fmt.Sprint(levels))
	// reader side
	rs := p.Method(zlibRel, "reader", "Reset")
	if rs != nil {
		has20, has31 := false, false
		for _, b := range rs.Blocks {
			for _, in := range b.Instrs {
				if bo, ok := in.(*ssa.BinOp); ok {
					if k, isK := constInt(bo.Y); isK {
						if bo.Op == token.AND && k == 0x20 {
							has20 = true
						}
						if bo.Op == token.REM && k == 31 {
							has31 = true
						}
					}
				}
			}
		}
		r.Check(has20 && has31, "R06.1", "zlib.reader.Reset|header tests", p.Pos(rs.Pos()), "the reader tests FDICT as 0x20 and the header modulo 31", fmt.Sprint(has20, has31))
	}
}

// optFieldCond: if fact f is a presence test of a gzip header field (Extra != nil, Name != "", Comment != ""), returns the field and a canonical condition text.
func optFieldCond(f Fact, recv ssa.Value) (string, string) {
	if f.Y == nil {
		return "", ""
	}
	describe := func(x ssa.Value) (string, string) {
		if root, sel, ok := fieldLoad(x); ok && root == recv {
			return strings.TrimPrefix(strings.TrimPrefix(sel, ".Header"), "."), "value"
		}
		if c, ok := x.(*ssa.Call); ok {
			if bi, ok := c.Common().Value.(*ssa.Builtin); ok && bi.Name() == "len" {
				if root, sel, ok := fieldLoad(c.Common().Args[0]); ok && root == recv {
					return strings.TrimPrefix(strings.TrimPrefix(sel, ".Header"), "."), "len"
				}
			}
		}
		return "", ""
	}
	fld, kind := describe(f.X)
	if fld != "Extra" && fld != "Name" && fld != "Comment" {
		return "", ""
	}
	other := "?"
	if isNil(f.Y) {
		other = "nil"
	} else if c, ok := f.Y.(*ssa.Const); ok {
		other = c.Value.String()
	}
	return fld, kind + " " + f.Op.String() + " " + other
}

func ruleR06_2(p *Program, r *Report) {
	r.Expect("R06.2", 2)
	wr := gzipHeaderWriter(p)
	rh := p.Method(gzipRel, "Reader", "readHeader")
	if wr == nil || rh == nil {
		r.Undecided("R06.2", "anchors", "-", "gzip Writer.Write and Reader.readHeader exist", "not found")
		return
	}
	// the optional fields may be written by the caller of the function that assembles the fixed header
	hasBody := func(f *ssa.Function) bool {
		for _, c := range allCalls(f) {
			if g := c.Common().StaticCallee(); g != nil && (g.Name() == "writeBytes" || g.Name() == "writeString") {
				return true
			}
		}
		return false
	}
	if !hasBody(wr) {
		// ... or by a helper the header writer passes its receiver to
		for _, rf := range recvRegion(wr) {
			if rf.fn != wr && hasBody(rf.fn) && rf.fn.Name() != "writeBytes" && rf.fn.Name() != "writeString" {
				wr = rf.fn
			}
		}
	}
	if !hasBody(wr) {
		for _, g := range p.Funcs() {
			if g.Pkg != wr.Pkg || !hasBody(g) {
				continue
			}
			for _, c := range allCalls(g) {
				if c.Common().StaticCallee() == wr {
					wr = g
				}
			}
		}
	}
	// writer order: program order along dominance of the body writes
	var wOrder []string
	var prev ssa.Instruction
	ordered := true
	for _, c := range allCalls(wr) {
		f := c.Common().StaticCallee()
		if f == nil || !(f.Name() == "writeBytes" || f.Name() == "writeString") {
			continue
		}
		_, sel, _ := fieldLoad(c.Common().Args[1])
		wOrder = append(wOrder, strings.ToUpper(strings.TrimPrefix(strings.TrimPrefix(sel, ".Header"), ".")))
		if prev != nil {
			// the later call must not be able to run before the earlier one
			if f2, _, _ := (PathQuery{Start: c, Target: func(x ssa.Instruction) bool { return x == prev }}).Find(wr); f2 {
				ordered = false
			}
		}
		prev = c
	}
	// reader order: the flag tests in dominance order
	flags := map[int64]string{4: "EXTRA", 8: "NAME", 16: "COMMENT", 2: "HCRC"}
	type tst struct {
		name string
		in   ssa.Instruction
	}
	var tests []tst
	for _, b := range rh.Blocks {
		for _, in := range b.Instrs {
			if bo, ok := in.(*ssa.BinOp); ok && bo.Op == token.AND {
				if k, isK := constInt(bo.Y); isK && flags[k] != "" {
					tests = append(tests, tst{flags[k], bo})
				}
			}
		}
	}
	// sort by dominance
	for i := 0; i < len(tests); i++ {
		for j := i + 1; j < len(tests); j++ {
			if dominatesInstr(tests[j].in, tests[i].in) {
				tests[i], tests[j] = tests[j], tests[i]
			}
		}
	}
	var rOrder []string
	for _, t := range tests {
		rOrder = append(rOrder, t.name)
	}
	want := []string{"EXTRA", "NAME", "COMMENT"}
	r.Check(ordered && strings.Join(wOrder, ",") == strings.Join(want, ","), "R06.2", "gzip.Writer.Write|field order", p.Pos(wr.Pos()), "optional fields are written in the order EXTRA, NAME, COMMENT (RFC 1952 2.3)", strings.Join(wOrder, ","))
	r.Check(strings.Join(rOrder, ",") == "EXTRA,NAME,COMMENT,HCRC", "R06.2", "gzip.Reader.readHeader|field order", p.Pos(rh.Pos()), "optional fields are parsed in the order EXTRA, NAME, COMMENT, HCRC", strings.Join(rOrder, ","))
}

func ruleR06_3(p *Program, r *Report) {
	r.Expect("R06.3", 4)
	// le is initialised with binary.LittleEndian and stored nowhere else
	le := p.Global(gzipRel, "le")
	if le == nil {
		r.Undecided("R06.3", "gzip.le", "-", "byte-order variable exists", "not found")
	} else {
		stores, good := 0, true
		for _, fn := range p.Funcs() {
			for _, b := range fn.Blocks {
				for _, in := range b.Instrs {
					if st, ok := in.(*ssa.Store); ok && st.Addr == ssa.Value(le) {
						stores++
						g := globalLoad(st.Val)
						if g == nil || g.Pkg.Pkg.Path() != "encoding/binary" || g.Name() != "LittleEndian" || fn.Name() != "init" {
							good = false
						}
					}
				}
			}
		}
		r.Check(stores == 1 && good, "R06.3", "gzip.le", p.Pos(le.Pos()), "gzip's byte order is binary.LittleEndian, set once at initialisation", fmt.Sprintf("%d stores", stores))
	}
	cl := p.Method(gzipRel, "Writer", "Close")
	if cl != nil {
		got := map[string]string{}
		for _, c := range regionAllCalls(cl) {
			f := c.Common().StaticCallee()
			if f == nil || f.Name() != "PutUint32" {
				continue
			}
			args := c.Common().Args
			_, _, lo, hi, ok := sliceBounds(args[len(args)-2])
			_, sel, ok2 := fieldLoad(args[len(args)-1])
			if ok && ok2 {
				got[fmt.Sprintf("[%d:%d]", lo, hi)] = sel
			}
			if !strings.Contains(f.String(), "littleEndian") {
				got["order"] = f.String()
			}
		}
		r.Check(got["[0:4]"] == ".digest" && got["[4:8]"] == ".size" && got["order"] == "", "R06.3", "gzip.Writer.Close|trailer", p.Pos(cl.Pos()), "the trailer is CRC-32 at [0:4] and size at [4:8], little-endian", fmt.Sprint(got))
	}
	zc := p.Method(zlibRel, "Writer", "Close")
	if zc != nil {
		ok := false
		for _, c := range regionAllCalls(zc) {
			f := c.Common().StaticCallee()
			if f == nil || f.Name() != "PutUint32" || !strings.Contains(f.String(), "bigEndian") {
				continue
			}
			args := c.Common().Args
			if sc, isC := args[len(args)-1].(*ssa.Call); isC && sc.Common().IsInvoke() && sc.Common().Method.Name() == "Sum32" {
				if _, sel, isL := fieldLoad(sc.Common().Value); isL && sel == ".digest" {
					ok = true
				}
			}
		}
		r.Check(ok, "R06.3", "zlib.Writer.Close|trailer", p.Pos(zc.Pos()), "the trailer is digest.Sum32() written big-endian", "PutUint32(bigEndian, digest.Sum32()) not found")
	}
	zr := p.Method(zlibRel, "reader", "Read")
	if zr != nil {
		ok := false
		for _, c := range regionAllCalls(zr) {
			if f := c.Common().StaticCallee(); f != nil && f.Name() == "Uint32" && strings.Contains(f.String(), "bigEndian") {
				ok = true
			}
		}
		r.Check(ok, "R06.3", "zlib.reader.Read|trailer", p.Pos(zr.Pos()), "the reader decodes the trailer big-endian", "not found")
	}
}

func ruleR06_4(p *Program, r *Report) {
	r.Expect("R06.4", 2)
	for _, wt := range p.WriterTypes() {
		if wt.Rel != gzipRel && wt.Rel != zlibRel {
			continue
		}
		fn := wt.Ops["Write"]
		par := fn.Params[1]
		recv := fn.Params[0]
		var comp ssa.CallInstruction
		for _, c := range allCalls(fn) {
			f := c.Common().StaticCallee()
			if f != nil && f.Name() == "Write" && f.Signature.Recv() != nil && strings.HasSuffix(derefNamed(f.Signature.Recv().Type()).Obj().Pkg().Path(), "/deflate") {
				comp = c
			}
		}
		key := shortFn(fn)
		if comp == nil {
			r.Undecided("R06.4", key+"|compressor write", p.Pos(fn.Pos()), "Write calls the compressor", "not found")
			continue
		}
		isUpdate := func(in ssa.Instruction) bool {
			c, ok := in.(ssa.CallInstruction)
			if !ok {
				return false
			}
			if f := c.Common().StaticCallee(); f != nil && f.Pkg != nil && f.Pkg.Pkg.Path() == "hash/crc32" && f.Name() == "Update" {
				return c.Common().Args[2] == ssa.Value(par)
			}
			if c.Common().IsInvoke() && c.Common().Method.Name() == "Write" {
				if _, sel, ok := fieldLoad(c.Common().Value); ok && sel == ".digest" {
					return c.Common().Args[0] == ssa.Value(par)
				}
			}
			return false
		}
		why := ""
		if comp.Common().Args[1] != ssa.Value(par) {
			why = "the compressor does not receive p itself"
		}
		var upd ssa.Instruction
		for _, b := range fn.Blocks {
			for _, in := range b.Instrs {
				if isUpdate(in) {
					upd = in
				}
			}
		}
		if upd == nil {
			why = "no checksum update over p"
		} else if !dominatesInstr(upd, comp) {
			// update after the write: it must lie on every success path from the write
			t := NewErrTrack(p, fn, comp, KindSuccess, wt)
			found, hit, _ := t.Find(func(in ssa.Instruction) bool { _, ok := in.(*ssa.Return); return ok }, isUpdate)
			if found {
				why = "after a successful compressor write the return at " + p.InstrPos(hit) + " is reachable without updating the checksum"
			}
		}
		// gzip also counts the size with len(p)
		if wt.Rel == gzipRel && why == "" {
			okSize := false
			for _, b := range fn.Blocks {
				for _, in := range b.Instrs {
					st, ok := in.(*ssa.Store)
					if !ok {
						continue
					}
					if root, sel := accessPath(st.Addr); root == recv && sel == ".size" {
						if bo, ok := st.Val.(*ssa.BinOp); ok && bo.Op == token.ADD {
							if c, ok := stripConv(bo.Y).(*ssa.Call); ok {
								if bi, ok := c.Common().Value.(*ssa.Builtin); ok && bi.Name() == "len" && c.Common().Args[0] == ssa.Value(par) {
									okSize = true
								}
							}
						}
					}
				}
			}
			if !okSize {
				why = "size is not advanced by len(p)"
			}
		}
		r.Check(why == "", "R06.4", key+"|checksum covers what is compressed", p.InstrPos(comp), "the bytes checksummed (and counted) are the slice handed to the compressor, on every success path", why)
	}
}

// R01.6: the literal emitted is the byte at the offset being consumed.
func ruleR01_6(p *Program, r *Report) {
	r.Expect("R01.6", 2)
	lz := p.Func(deflRel, "lz77")
	nt := p.Func(deflRel, "newToken")
	ld := p.Func(deflRel, "loadU32")
	if lz == nil || nt == nil {
		r.Undecided("R01.6", "anchors", "-", "lz77 and newToken exist", "not found")
		return
	}
	input := ssa.Value(lz.Params[5])
	offParam := ssa.Value(lz.Params[7])
	invalid, _ := constOf(p, deflRel, "InvalidDist")
	// the literal sites may sit in plain helper functions lz77 hands its input and offset to (the flush tail
	// extracted): each is judged with the parameters those two are bound to
	type scope struct {
		fn         *ssa.Function
		input, off ssa.Value
	}
	scopes := []scope{{lz, input, offParam}}
	for _, c := range allCalls(lz) {
		h := c.Common().StaticCallee()
		if h == nil || h.Blocks == nil || h.Pkg != lz.Pkg || h == nt || h == ld || h.Signature.Recv() != nil {
			continue
		}
		var hin, hoff ssa.Value
		for i, a := range c.Common().Args {
			if i >= len(h.Params) {
				break
			}
			if a == input {
				hin = h.Params[i]
			}
			for _, leaf := range p.valueSources(a) {
				if leaf == offParam && typeString(a.Type()) == "int" {
					hoff = h.Params[i]
				}
			}
			if _, isPhi := a.(*ssa.Phi); isPhi && typeString(a.Type()) == "int" && hoff == nil {
				hoff = h.Params[i]
			}
		}
		if hin != nil && hoff != nil {
			scopes = append(scopes, scope{h, hin, hoff})
		}
	}
	// consistent: value v is the word/byte loaded from input at position off (pairwise over phis of one block)
	var curInput ssa.Value
	var consistent func(v, off ssa.Value, depth int) bool
	consistent = func(v, off ssa.Value, depth int) bool {
		v, off = stripConv(v), stripConv(off)
		if depth > 6 {
			return false
		}
		switch x := v.(type) {
		case *ssa.Call:
			if x.Common().StaticCallee() == ld && ld != nil {
				return x.Common().Args[0] == curInput && stripConv(x.Common().Args[1]) == off
			}
		case *ssa.UnOp:
			if ia, ok := x.X.(*ssa.IndexAddr); ok && x.Op == token.MUL {
				return ia.X == curInput && stripConv(ia.Index) == off
			}
		case *ssa.BinOp:
			if x.Op == token.AND {
				return consistent(x.X, off, depth+1)
			}
		case *ssa.Phi:
			if op, ok := off.(*ssa.Phi); ok && op.Block() == x.Block() {
				for i := range x.Edges {
					if !consistent(x.Edges[i], op.Edges[i], depth+1) {
						return false
					}
				}
				return true
			}
			// the offset is one value for all incoming paths
			for _, e := range x.Edges {
				if !consistent(e, off, depth+1) {
					return false
				}
			}
			return true
		}
		return false
	}
	lab := newLabeler()
	n := 0
	for _, sc := range scopes {
		input, offParam := sc.input, sc.off
		curInput = input
		for _, c := range allCalls(sc.fn) {
			if c.Common().StaticCallee() != nt {
				continue
			}
			if k, isK := constInt(c.Common().Args[1]); !isK || k != invalid {
				continue
			}
			n++
			key := "lz77|" + lab.get("literal token")
			lit := c.Common().Args[0]
			// the offset advanced by this literal step: offset + 1 in the same block
			var off ssa.Value
			for _, in := range c.Block().Instrs {
				if bo, ok := in.(*ssa.BinOp); ok && bo.Op == token.ADD {
					if k, isK := constInt(bo.Y); isK && k == 1 {
						if _, isInt := bo.Type().Underlying().(*types.Basic); isInt && typeString(bo.Type()) == "int" {
							// candidate: the operand must be (a phi of) the offset parameter's flow
							for _, leaf := range p.valueSources(bo.X) {
								if leaf == offParam {
									off = bo.X
								}
							}
							if off == nil {
								if _, isPhi := bo.X.(*ssa.Phi); isPhi {
									off = bo.X
								}
							}
						}
					}
				}
			}
			if off == nil {
				r.Undecided("R01.6", key, p.InstrPos(c), "the literal step advances an offset by one", "offset increment not found in the block")
				continue
			}
			r.Check(consistent(lit, off, 0), "R01.6", key, p.InstrPos(c), "the literal emitted is the input byte at the offset this step advances past, on every incoming path", "on some path the literal comes from a word loaded at a different offset than the one consumed: the stream stays well-formed but decodes to a wrong byte")
		}
	}
	if n < 2 {
		r.Undecided("R01.6", "lz77|literal tokens", p.Pos(lz.Pos()), "two literal-token sites", "found "+itoa(n))
	}
}

// R02.5: every code-length store in readLitDistLens is preceded in its loop iteration by the lit/dist boundary test.
func ruleR02_5(p *Program, r *Report) {
	r.Expect("R02.5", 2)
	fn := p.Method(flateRel, "inflate", "readLitDistLens")
	if fn == nil {
		r.Undecided("R02.5", "anchor", "-", "inflate.readLitDistLens exists", "not found")
		return
	}
	hlit := fn.Params[3]
	// boundary test: an If whose condition compares something with a value derived from hlit (257+hlit) for equality
	isBoundary := func(in ssa.Instruction) bool {
		iff, ok := in.(*ssa.If)
		if !ok {
			return false
		}
		bo, ok := iff.Cond.(*ssa.BinOp)
		if !ok || bo.Op != token.EQL {
			return false
		}
		for _, v := range []ssa.Value{bo.X, bo.Y} {
			if b2, ok := stripConv(v).(*ssa.BinOp); ok && b2.Op == token.ADD {
				for _, w := range []ssa.Value{b2.X, b2.Y} {
					if stripConv(w) == ssa.Value(hlit) {
						return true
					}
				}
			}
		}
		return false
	}
	lab := newLabeler()
	n := 0
	for _, b := range fn.Blocks {
		for _, in := range b.Instrs {
			st, ok := in.(*ssa.Store)
			if !ok {
				continue
			}
			ia, ok := st.Addr.(*ssa.IndexAddr)
			if !ok {
				continue
			}
			// element of the code array (huffs = ctx.litAndDistHuff[:...])
			if _, sel := accessPath(ia.X); sel != ".litAndDistHuff" {
				// also through a field address of the element (Set method inlined or not)
				continue
			}
			n++
			key := "readLitDistLens|" + lab.get("length store")
			// innermost loop header containing the store
			var inner *ssa.BasicBlock
			for _, h := range fn.Blocks {
				if !h.Dominates(b) {
					continue
				}
				isHeader := false
				for _, pr := range h.Preds {
					if h.Dominates(pr) {
						if f, _, _ := (PathQuery{Target: func(x ssa.Instruction) bool { return x.Block() == pr }}).findFromBlock(fn, b); f || pr == b {
							isHeader = true
						}
					}
				}
				if isHeader && (inner == nil || inner.Dominates(h)) {
					inner = h
				}
			}
			if inner == nil {
				r.Undecided("R02.5", key, p.InstrPos(st), "the store lies in a loop", "no enclosing loop")
				continue
			}
			found, _, path := PathQuery{Target: func(x ssa.Instruction) bool { return x == ssa.Instruction(st) }, Barrier: isBoundary}.findFromBlock(fn, inner)
			why := ""
			if found {
				why = "within one iteration of the loop headed at block " + itoa(inner.Index) + " the store is reachable (blocks " + fmtInts(path) + ") without the 257+HLIT boundary test: a run that crosses from the literal/length lengths into the distance lengths keeps writing literal/length entries"
			}
			r.Check(!found, "R02.5", key, p.InstrPos(st), "a code length is stored only after the literal/distance boundary test of the same iteration", why)
		}
	}
	// method-call form: huffs[curr].Set(...)
	for _, c := range allCalls(fn) {
		f := c.Common().StaticCallee()
		if f == nil || f.Name() != "Set" || len(c.Common().Args) == 0 {
			continue
		}
		ia, ok := c.Common().Args[0].(*ssa.IndexAddr)
		if !ok {
			continue
		}
		if _, sel := accessPath(ia.X); sel != ".litAndDistHuff" {
			continue
		}
		n++
		key := "readLitDistLens|" + lab.get("length store")
		b := c.Block()
		var inner *ssa.BasicBlock
		for _, h := range fn.Blocks {
			if !h.Dominates(b) {
				continue
			}
			isHeader := false
			for _, pr := range h.Preds {
				if h.Dominates(pr) {
					if f2, _, _ := (PathQuery{Target: func(x ssa.Instruction) bool { return x.Block() == pr }}).findFromBlock(fn, b); f2 || pr == b {
						isHeader = true
					}
				}
			}
			if isHeader && (inner == nil || inner.Dominates(h)) {
				inner = h
			}
		}
		if inner == nil {
			continue
		}
		found, _, path := PathQuery{Target: func(x ssa.Instruction) bool { return x == ssa.Instruction(c) }, Barrier: isBoundary}.findFromBlock(fn, inner)
		why := ""
		if found {
			why = "within one loop iteration the store is reachable (blocks " + fmtInts(path) + ") without the 257+HLIT boundary test"
		}
		r.Check(!found, "R02.5", key, p.InstrPos(c), "a code length is stored only after the literal/distance boundary test of the same iteration", why)
	}
	if n < 2 {
		r.Undecided("R02.5", "readLitDistLens|stores", p.Pos(fn.Pos()), "at least two code-length store sites", "found "+itoa(n))
	}
}

// R02.6: setupStaticHeader installs the two precomputed tables whole.
func ruleR02_6(p *Program, r *Report) {
	r.Expect("R02.6", 2)
	fn := p.Method(flateRel, "inflate", "setupStaticHeader")
	if fn == nil {
		r.Undecided("R02.6", "anchor", "-", "inflate.setupStaticHeader exists", "not found")
		return
	}
	want := map[string]string{".litLenTable": "staticLitHuffCode", ".distTable": "staticDistHuffCode"}
	got := map[string]string{}
	for _, b := range fn.Blocks {
		for _, in := range b.Instrs {
			if st, ok := in.(*ssa.Store); ok {
				if root, sel := accessPath(st.Addr); root == ssa.Value(fn.Params[0]) {
					if g := globalLoad(st.Val); g != nil {
						got[sel] = g.Name()
					}
				}
			}
		}
	}
	// field-wise installation: every array of the table is copied from the same field of the precomputed table
	for sel, g := range want {
		if got[sel] == g {
			continue
		}
		tn := map[string]string{".litLenTable": "largeHuffCodeTable", ".distTable": "smallHuffCodeTable"}[sel]
		n := p.Named(flateRel, tn)
		if n == nil {
			continue
		}
		st := n.Underlying().(*types.Struct)
		all := true
		for i := 0; i < st.NumFields(); i++ {
			fname := st.Field(i).Name()
			okF := false
			for _, b := range fn.Blocks {
				for _, in := range b.Instrs {
					if s2, ok := in.(*ssa.Store); ok {
						if root, s3 := accessPath(s2.Addr); root == ssa.Value(fn.Params[0]) && s3 == sel+"."+fname {
							if ld, ok := s2.Val.(*ssa.UnOp); ok {
								if gr, gs := accessPath(ld.X); gs == "."+fname {
									if gg, ok := gr.(*ssa.Global); ok && gg.Name() == g {
										okF = true
									}
								}
							}
						}
					}
				}
			}
			if !okF {
				all = false
			}
		}
		if all {
			got[sel] = g
		}
	}
	for sel, g := range want {
		r.Check(got[sel] == g, "R02.6", "setupStaticHeader|"+sel, p.Pos(fn.Pos()), "a fixed block installs the whole precomputed table "+g+" (short and long parts) in "+sel, "no whole-table store of "+g+" into "+sel+": entries that resolve through the long part would come from zeros or from the previous dynamic block")
	}
}

// R02.7: siblings building the lit/len table map code-list indexes to symbols before storing them.
func ruleR02_7(p *Program, r *Report) {
	r.Expect("R02.7", 4)
	n := p.Named(flateRel, "largeHuffCodeTable")
	i2s := p.Func(flateRel, "indexToSym")
	if n == nil || i2s == nil {
		r.Undecided("R02.7", "anchors", "-", "largeHuffCodeTable and indexToSym exist", "not found")
		return
	}
	for _, fn := range p.Funcs() {
		if fn.Signature.Recv() == nil || derefNamed(fn.Signature.Recv().Type()) != n {
			continue
		}
		recv := fn.Params[0]
		lab := newLabeler()
		for _, b := range fn.Blocks {
			for _, in := range b.Instrs {
				st, ok := in.(*ssa.Store)
				if !ok {
					continue
				}
				root, sel := accessPath(st.Addr)
				if root != ssa.Value(recv) || !strings.HasSuffix(sel, "CodeLookup[*]") || isZeroConst(st.Val) {
					continue
				}
				// the stored entry must carry a symbol: entries that only point into the long table (flag bit set) are exempt
				mapped, hasSym := false, false
				seen := map[ssa.Value]bool{}
				var walk func(v ssa.Value)
				walk = func(v ssa.Value) {
					if v == nil || seen[v] {
						return
					}
					seen[v] = true
					switch x := v.(type) {
					case *ssa.Call:
						if x.Common().StaticCallee() == i2s {
							mapped = true
							hasSym = true
						}
						return
					case *ssa.Phi:
						for _, e := range x.Edges {
							if k, isK := constInt(e); isK && k == 512 {
								mapped = true
							}
							walk(e)
						}
					case *ssa.UnOp:
						// a load from the code list: a raw index
						if _, s2 := accessPath(x.X); strings.HasSuffix(s2, ".codeList[*]") || strings.HasSuffix(s2, "[*]") && strings.Contains(x.X.String(), "tempCodeList") {
							hasSym = true
						}
						if al, ok := x.X.(*ssa.IndexAddr); ok {
							base := al.X
							if sl, isSl := base.(*ssa.Slice); isSl { // a range over tempCodeList[:n]
								base = sl.X
							}
							if _, isAlloc := base.(*ssa.Alloc); isAlloc {
								hasSym = true
							}
						}
						return
					case ssa.Instruction:
						for _, op := range x.Operands(nil) {
							if *op != nil {
								walk(*op)
							}
						}
					}
				}
				walk(st.Val)
				if !hasSym {
					continue
				}
				r.Check(mapped, "R02.7", shortFn(fn)+"|"+lab.get("entry store"), p.InstrPos(st), "a table entry built from a code-list index stores indexToSym(index), as the sibling builders do", "the raw code-list index is stored: index 513 stands for symbol 512 (match length 258), so that length is decoded wrongly")
			}
		}
	}
}

// R02.8: builtin copy inside one buffer only under a comparison that implies non-overlap.
func ruleR02_8(p *Program, r *Report) {
	r.Expect("R02.8", 2)
	sp := p.Pkg(flateRel)
	n := 0
	for _, fn := range p.Funcs() {
		if fn.Pkg != sp || fn.Name() == "byteCopy" {
			continue
		}
		lab := newLabeler()
		for _, c := range allCalls(fn) {
			bi, ok := c.Common().Value.(*ssa.Builtin)
			if !ok || bi.Name() != "copy" {
				continue
			}
			dst, ok1 := c.Common().Args[0].(*ssa.Slice)
			src, ok2 := c.Common().Args[1].(*ssa.Slice)
			if !ok1 || !ok2 {
				continue
			}
			rd, sd := accessPath(dst.X)
			rs, ss := accessPath(src.X)
			if rd != rs || sd != ss {
				continue
			}
			// staging of the same array through different fields does not count; only the same buffer
			n++
			key := shortFn(fn) + "|" + lab.get("copy within "+sd)
			lin := func(v ssa.Value, dflt int64, has bool) (linForm, bool) {
				if v == nil {
					if !has {
						return linForm{}, false
					}
					return linForm{terms: map[string]int64{}, k: dflt, ok: true}, true
				}
				l := linearize(v)
				return l, l.ok
			}
			dLow, okDL := lin(dst.Low, 0, true)
			dHigh, okDH := lin(dst.High, 0, false)
			sLow, okSL := lin(src.Low, 0, true)
			sHigh, okSH := lin(src.High, 0, false)
			sub := func(a, b linForm) linForm {
				o := linForm{terms: map[string]int64{}, k: a.k - b.k, ok: true}
				for k, v := range a.terms {
					o.terms[k] += v
				}
				for k, v := range b.terms {
					o.terms[k] -= v
				}
				return o
			}
			same := func(a, b linForm) bool {
				if a.k != b.k {
					return false
				}
				for k, v := range a.terms {
					if b.terms[k] != v {
						return false
					}
				}
				for k, v := range b.terms {
					if a.terms[k] != v {
						return false
					}
				}
				return true
			}
			// candidates: dst.Low - src.High >= 0   or   src.Low - dst.High >= 0
			var wants []linForm
			if okDL && okSH {
				wants = append(wants, sub(dLow, sHigh))
			}
			if okSL && okDH {
				wants = append(wants, sub(sLow, dHigh))
			}
			good := false
			for _, w := range wants {
				// disjoint by construction: the difference is a non-negative constant (dst starts where src ends)
				zero := true
				for _, v := range w.terms {
					if v != 0 {
						zero = false
					}
				}
				if zero && w.k >= 0 {
					good = true
				}
			}
			for _, f := range dominatingFacts(c) {
				if f.Y == nil {
					continue
				}
				a, b := linearize(f.X), linearize(f.Y)
				if !a.ok || !b.ok {
					continue
				}
				var d linForm
				switch f.Op {
				case token.GEQ:
					d = sub(a, b)
				case token.LEQ:
					d = sub(b, a)
				case token.GTR:
					d = sub(a, b)
					d.k-- // a > b  =>  a - b - 1 >= 0
				case token.LSS:
					d = sub(b, a)
					d.k--
				default:
					continue
				}
				for _, w := range wants {
					if same(d, w) {
						good = true
					}
					// a stronger fact (d = w + positive constant) also implies it
					d2 := d
					if d2.k > w.k {
						d2.k = w.k
						if same(d2, w) {
							good = true
						}
					}
				}
			}
			r.Check(good, "R02.8", key, p.InstrPos(c), "builtin copy between two ranges of the same buffer is guarded by a comparison that makes them disjoint", "no dominating comparison implies that source and destination are disjoint: copy() does not replicate the period of an overlapping match (byteCopy does)")
		}
	}
	if n < 2 {
		r.Undecided("R02.8", "sites", "-", "at least two same-buffer copies (match copy, window slide)", "found "+itoa(n))
	}
}

// regionAllCalls: the calls of fn and of the same-package helpers its receiver is passed to.
func regionAllCalls(fn *ssa.Function) []ssa.CallInstruction {
	var out []ssa.CallInstruction
	for _, rf := range recvRegion(fn) {
		out = append(out, allCalls(rf.fn)...)
	}
	return out
}

// constMapping: v is the result of a call-free one-parameter function of the package that returns constants
// selected by equality tests of its parameter with constants; returns the map parameter value -> result (results
// equal to the default 0 are left out).
func constMapping(v ssa.Value) (map[int64]int64, bool) {
	if phi, ok := v.(*ssa.Phi); ok {
		// a local set to a constant in the arms of a switch on one value (extraBits = 2 / 3 / 7, else 0)
		out := map[int64]int64{}
		var subject ssa.Value
		for i, e := range phi.Edges {
			rv, isK := constInt(e)
			if !isK {
				return nil, false
			}
			if rv == 0 {
				continue
			}
			pred := phi.Block().Preds[i]
			found := false
			for _, f := range dominatingFacts(pred.Instrs[len(pred.Instrs)-1]) {
				if f.Y == nil || f.Op != token.EQL {
					continue
				}
				if k, ok := constInt(f.Y); ok {
					x := stripConv(f.X)
					if subject == nil {
						subject = x
					}
					if x == subject {
						out[k] = rv
						found = true
					}
				}
			}
			if !found {
				return nil, false
			}
		}
		return out, len(out) > 0
	}
	c, ok := v.(*ssa.Call)
	if !ok {
		return nil, false
	}
	h := c.Common().StaticCallee()
	if h == nil || h.Blocks == nil || len(h.Params) != 1 || len(allCalls(h)) != 0 {
		return nil, false
	}
	out := map[int64]int64{}
	for _, b := range h.Blocks {
		for _, in := range b.Instrs {
			ret, ok := in.(*ssa.Return)
			if !ok || len(ret.Results) != 1 {
				continue
			}
			rv, isK := constInt(ret.Results[0])
			if !isK {
				return nil, false
			}
			if rv == 0 {
				continue
			}
			found := false
			for _, f := range dominatingFacts(ret) {
				if f.Y == nil || f.Op != token.EQL {
					continue
				}
				if k, ok := constInt(f.Y); ok && stripConv(f.X) == ssa.Value(h.Params[0]) {
					out[k] = rv
					found = true
				}
			}
			if !found {
				return nil, false
			}
		}
	}
	return out, true
}

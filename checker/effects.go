package main

// E1: field-effect summaries. For every repository function the set of access paths, relative to its
// parameters and to package variables, that it may write - closed over resolved callees.

import (
	"go/types"
	"sort"
	"strings"

	"golang.org/x/tools/go/ssa"
)

type Effect struct {
	Param  int         // index into fn.Params (receiver = 0); -1 for a package variable
	Global *ssa.Global // when Param == -1
	Sel    string
}

type effectSet map[Effect]bool

// asmWrites: what the assembly routines may write, relative to their parameters.
// Cross-checked against the instruction operands by R18.1 (the set of struct fields each TEXT touches).
var asmWrites = map[string][]Effect{}

func init() {
	lz := []Effect{{Param: 0, Sel: ".table[*]"}, {Param: 0, Sel: ".hist.distanceCodes[*]"}, {Param: 0, Sel: ".hist.literalCodes[*]"}, {Param: 4, Sel: "[*]"}}
	for _, w := range []string{"4k", "32k"} {
		for _, l := range []string{"L12", "L15"} {
			for _, v := range []string{"V1", "V3", "V4"} {
				asmWrites["lz77Asm"+w+l+v] = lz
			}
		}
	}
	enc := []Effect{{Param: 2, Sel: ".output[*]"}, {Param: 2, Sel: ".idx"}, {Param: 2, Sel: ".bits"}, {Param: 2, Sel: ".bitLen"}}
	asmWrites["encodeTokensArchV3"] = enc
	asmWrites["encodeTokensArchV4"] = enc
	asmWrites["encodeHuffmansArchV4"] = enc
	asmWrites["decodeHuffmanAsmArchV3"] = []Effect{
		{Param: 0, Sel: ".input"}, {Param: 0, Sel: ".bits"}, {Param: 0, Sel: ".bitsLen"},
		{Param: 0, Sel: ".writeOverflowLits"}, {Param: 0, Sel: ".writeOverflowLen"},
		{Param: 0, Sel: ".copyOverflowLength"}, {Param: 0, Sel: ".copyOverflowDistance"},
		{Param: 1, Sel: "[*]"},
	}
	asmWrites["cpuArchLevel"] = nil
}

type Effects struct {
	p        *Program
	m        map[*ssa.Function]effectSet
	Unknown  map[*ssa.Function][]string // calls that could not be resolved / bodies missing
	paramIdx map[*ssa.Parameter]int
}

var effectsCache = map[*Program]*Effects{}

func (p *Program) Effects() *Effects {
	if e, ok := effectsCache[p]; ok {
		return e
	}
	e := &Effects{p: p, m: map[*ssa.Function]effectSet{}, Unknown: map[*ssa.Function][]string{}, paramIdx: map[*ssa.Parameter]int{}}
	for _, fn := range p.Funcs() {
		e.m[fn] = effectSet{}
		for i, par := range fn.Params {
			e.paramIdx[par] = i
		}
	}
	e.compute()
	effectsCache[p] = e
	return e
}

const maxSelSteps = 8

func clipSel(s string) string {
	n := strings.Count(s, ".") + strings.Count(s, "[") + strings.Count(s, "^") + strings.Count(s, "~")
	if n <= maxSelSteps {
		return s
	}
	// keep the first steps, mark truncation (a truncated path is a prefix: it covers / is covered conservatively)
	cnt := 0
	for i, c := range s {
		if c == '.' || c == '[' || c == '^' || c == '~' {
			cnt++
			if cnt > maxSelSteps {
				return s[:i]
			}
		}
	}
	return s
}

// rootEffect converts (root value, selector) into an Effect of fn, if the root is a parameter or a global.
func (e *Effects) rootEffect(root ssa.Value, sel string) (Effect, bool) {
	switch r := root.(type) {
	case *ssa.Parameter:
		if i, ok := e.paramIdx[r]; ok {
			return Effect{Param: i, Sel: clipSel(sel)}, true
		}
	case *ssa.Global:
		return Effect{Param: -1, Global: r, Sel: clipSel(sel)}, true
	}
	return Effect{}, false
}

func (e *Effects) calleeEffects(f *ssa.Function) (effectSet, bool) {
	if es, ok := e.m[f]; ok {
		return es, true
	}
	if f.Blocks == nil {
		if ws, ok := asmWrites[f.Name()]; ok && e.p.InRepo(f) {
			es := effectSet{}
			for _, w := range ws {
				es[w] = true
			}
			return es, true
		}
		if e.p.InRepo(f) {
			return nil, false // repository function without body and without summary
		}
		return e.externalEffects(f), true
	}
	return effectSet{}, true
}

// externalEffects: conservative summaries for the standard-library callees that write through their arguments.
func (e *Effects) externalEffects(f *ssa.Function) effectSet {
	es := effectSet{}
	name := f.String()
	switch {
	case strings.HasPrefix(name, "(encoding/binary.littleEndian).Put"), strings.HasPrefix(name, "(encoding/binary.bigEndian).Put"):
		es[Effect{Param: 1, Sel: "[*]"}] = true
	case name == "io.ReadFull" || name == "io.ReadAtLeast":
		es[Effect{Param: 1, Sel: "[*]"}] = true
	}
	return es
}

func (e *Effects) compute() {
	changed := true
	for iter := 0; changed && iter < 50; iter++ {
		changed = false
		for _, fn := range e.p.Funcs() {
			es := e.m[fn]
			add := func(ef Effect) {
				if !es[ef] {
					es[ef] = true
					changed = true
				}
			}
			for _, b := range fn.Blocks {
				for _, in := range b.Instrs {
					switch x := in.(type) {
					case *ssa.Store:
						root, sel := accessPath(x.Addr)
						if ef, ok := e.rootEffect(root, sel); ok {
							add(ef)
						}
					case *ssa.MapUpdate:
						root, sel := accessPath(x.Map)
						if ef, ok := e.rootEffect(root, sel+"[*]"); ok {
							add(ef)
						}
					case ssa.CallInstruction:
						com := x.Common()
						if bi, ok := com.Value.(*ssa.Builtin); ok {
							switch bi.Name() {
							case "copy", "append", "clear":
								if len(com.Args) > 0 {
									root, sel := accessPath(com.Args[0])
									if ef, ok := e.rootEffect(root, sel+"[*]"); ok {
										add(ef)
									}
								}
							}
							continue
						}
						callees, resolved := e.p.Callees(x)
						if !resolved {
							e.noteUnknown(fn, "unresolved call "+com.Value.String())
							continue
						}
						for _, g := range callees {
							ges, ok := e.calleeEffects(g)
							if !ok {
								e.noteUnknown(fn, "no summary for "+g.String())
								continue
							}
							for ef := range ges {
								if ef.Param < 0 {
									add(ef)
									continue
								}
								var arg ssa.Value
								if com.IsInvoke() {
									if ef.Param == 0 {
										arg = com.Value
									} else if ef.Param-1 < len(com.Args) {
										arg = com.Args[ef.Param-1]
									}
								} else if ef.Param < len(com.Args) {
									arg = com.Args[ef.Param]
								}
								if arg == nil {
									continue
								}
								root, sel := accessPath(arg)
								if _, isIface := arg.Type().Underlying().(*types.Interface); isIface {
									sel += "~" // the object held in an interface value
								}
								if ce, ok := e.rootEffect(root, sel+ef.Sel); ok {
									add(ce)
								}
							}
						}
					}
				}
			}
		}
	}
}

func (e *Effects) noteUnknown(fn *ssa.Function, s string) {
	for _, x := range e.Unknown[fn] {
		if x == s {
			return
		}
	}
	e.Unknown[fn] = append(e.Unknown[fn], s)
}

// ParamWrites: selectors written relative to parameter i of fn.
func (e *Effects) ParamWrites(fn *ssa.Function, i int) []string {
	var out []string
	for ef := range e.m[fn] {
		if ef.Param == i {
			out = append(out, ef.Sel)
		}
	}
	sort.Strings(out)
	return out
}

func (e *Effects) GlobalWrites(fn *ssa.Function) []Effect {
	var out []Effect
	for ef := range e.m[fn] {
		if ef.Param < 0 {
			out = append(out, ef)
		}
	}
	sort.Slice(out, func(i, j int) bool {
		if out[i].Global.String() != out[j].Global.String() {
			return out[i].Global.String() < out[j].Global.String()
		}
		return out[i].Sel < out[j].Sel
	})
	return out
}

// covers: does a write of selector r make a (later) read of selector s independent of earlier writes of s?
// r == s, or r is a prefix of s at a step boundary (whole-object store covers its parts).
func covers(r, s string) bool {
	if r == s {
		return true
	}
	if strings.HasPrefix(s, r) {
		rest := s[len(r):]
		if rest == "" {
			return true
		}
		// a store replaces a value, not what a pointer or interface inside it refers to
		if strings.ContainsAny(rest, "^~") {
			return false
		}
		return rest[0] == '.' || rest[0] == '['
	}
	return false
}

// paramsOfType: indexes of fn's parameters whose type is *T or T.
func paramsOfType(fn *ssa.Function, n *types.Named) []int {
	var out []int
	for i, par := range fn.Params {
		if derefNamed(par.Type()) == n {
			out = append(out, i)
		}
	}
	return out
}

package main

// Front end: loads /repo's packages for one build configuration, type-checks
// them from source, builds go/ssa for the repository's packages (dependencies
// come from export data and have no bodies: every rule treats a call that
// leaves the repository by what it is - io.Writer.Write, bufio.Reader.Peek,
// ... - never by what it might do inside).

import (
	"fmt"
	"go/ast"
	"go/token"
	"go/types"
	"os"
	"path/filepath"
	"sort"
	"strings"

	"golang.org/x/tools/go/packages"
	"golang.org/x/tools/go/ssa"
	"golang.org/x/tools/go/ssa/ssautil"
)

const modPath = "github.com/intel/fastgo"

type Config struct {
	Name string
	Env  []string // extra environment (GOARCH=...)
	Tags string
	Asm  bool // the assembly arms are part of this configuration
}

var (
	cfgC0 = Config{Name: "C0:amd64", Env: []string{"GOARCH=amd64", "GOOS=linux"}, Asm: true}
	cfgC1 = Config{Name: "C1:amd64,noasmtest", Env: []string{"GOARCH=amd64", "GOOS=linux"}, Tags: "noasmtest"}
	cfgC2 = Config{Name: "C2:arm64", Env: []string{"GOARCH=arm64", "GOOS=linux"}}
	cfgC3 = Config{Name: "C3:386", Env: []string{"GOARCH=386", "GOOS=linux"}}
)

type Program struct {
	Cfg    Config
	Root   string
	Fset   *token.FileSet
	Pkgs   []*packages.Package
	ByPath map[string]*packages.Package
	Prog   *ssa.Program
	SSA    map[string]*ssa.Package
	Sizes  types.Sizes

	funcs     []*ssa.Function // all repo functions with bodies (incl. anonymous), sorted
	namedOnce bool
	named     []*types.Named // all named types of the repo
	fnValues  map[*ssa.Global][]*ssa.Function
}

func Load(root string, cfg Config) (*Program, error) {
	env := os.Environ()
	var clean []string
	for _, e := range env {
		if strings.HasPrefix(e, "GOWORK=") || strings.HasPrefix(e, "GOFLAGS=") || strings.HasPrefix(e, "GOARCH=") || strings.HasPrefix(e, "GOOS=") {
			continue
		}
		clean = append(clean, e)
	}
	clean = append(clean, "GOWORK=off", "GOFLAGS=-mod=mod", "GOPROXY=off", "GOSUMDB=off", "GOTOOLCHAIN=local", "CGO_ENABLED=0")
	clean = append(clean, cfg.Env...)
	pc := &packages.Config{
		Mode: packages.NeedName | packages.NeedFiles | packages.NeedCompiledGoFiles | packages.NeedImports |
			packages.NeedDeps | packages.NeedTypes | packages.NeedTypesSizes | packages.NeedSyntax | packages.NeedTypesInfo,
		Dir:   root,
		Env:   clean,
		Fset:  token.NewFileSet(),
		Tests: false,
	}
	if cfg.Tags != "" {
		pc.BuildFlags = []string{"-tags=" + cfg.Tags}
	}
	pkgs, err := packages.Load(pc, "./...")
	if err != nil {
		return nil, fmt.Errorf("load %s: %v", cfg.Name, err)
	}
	if len(pkgs) == 0 {
		return nil, fmt.Errorf("load %s: zero packages", cfg.Name)
	}
	var errs []string
	packages.Visit(pkgs, nil, func(p *packages.Package) {
		for _, e := range p.Errors {
			errs = append(errs, e.Error())
		}
	})
	if len(errs) > 0 {
		return nil, fmt.Errorf("load %s: %d type/parse errors, first: %s", cfg.Name, len(errs), errs[0])
	}
	p := &Program{Cfg: cfg, Root: root, Fset: pc.Fset, Pkgs: pkgs, ByPath: map[string]*packages.Package{}, SSA: map[string]*ssa.Package{}}
	for _, pk := range pkgs {
		p.ByPath[pk.PkgPath] = pk
		if pk.TypesSizes != nil {
			p.Sizes = pk.TypesSizes
		}
	}
	prog, spkgs := ssautil.Packages(pkgs, ssa.InstantiateGenerics)
	for i, sp := range spkgs {
		if sp == nil {
			return nil, fmt.Errorf("load %s: no SSA for %s", cfg.Name, pkgs[i].PkgPath)
		}
		p.SSA[pkgs[i].PkgPath] = sp
	}
	prog.Build()
	p.Prog = prog
	// collect functions
	seen := map[*ssa.Function]bool{}
	var add func(f *ssa.Function)
	add = func(f *ssa.Function) {
		if f == nil || seen[f] || f.Blocks == nil {
			return
		}
		seen[f] = true
		p.funcs = append(p.funcs, f)
		for _, a := range f.AnonFuncs {
			add(a)
		}
	}
	for _, sp := range p.SSA {
		for _, m := range sp.Members {
			switch m := m.(type) {
			case *ssa.Function:
				add(m)
			case *ssa.Type:
				for _, t := range []types.Type{m.Type(), types.NewPointer(m.Type())} {
					ms := prog.MethodSets.MethodSet(t)
					for i := 0; i < ms.Len(); i++ {
						fn := prog.MethodValue(ms.At(i))
						if fn != nil && fn.Pkg == sp && fn.Synthetic == "" {
							add(fn)
						}
					}
				}
			}
		}
	}
	sort.Slice(p.funcs, func(i, j int) bool { return p.funcs[i].String() < p.funcs[j].String() })
	return p, nil
}

// Funcs returns every repository function that has a body in this configuration.
func (p *Program) Funcs() []*ssa.Function { return p.funcs }

func (p *Program) Pkg(rel string) *ssa.Package {
	path := modPath
	if rel != "" {
		path += "/" + rel
	}
	return p.SSA[path]
}

func (p *Program) TPkg(rel string) *types.Package {
	sp := p.Pkg(rel)
	if sp == nil {
		return nil
	}
	return sp.Pkg
}

// Func looks up a package-level function.
func (p *Program) Func(rel, name string) *ssa.Function {
	sp := p.Pkg(rel)
	if sp == nil {
		return nil
	}
	if fn := sp.Func(name); fn != nil {
		return fn
	}
	return p.resolveRenamed(rel, "", name)
}

// Method looks up a method on *T or T declared in the package.
func (p *Program) Method(rel, typ, name string) *ssa.Function {
	sp := p.Pkg(rel)
	if sp == nil {
		return nil
	}
	tm := sp.Type(typ)
	if tm == nil {
		return nil
	}
	for _, t := range []types.Type{types.NewPointer(tm.Type()), tm.Type()} {
		sel := p.Prog.MethodSets.MethodSet(t).Lookup(sp.Pkg, name)
		if sel != nil {
			if fn := p.Prog.MethodValue(sel); fn != nil && fn.Blocks != nil {
				return fn
			}
		}
	}
	return p.resolveRenamed(rel, typ, name)
}

func (p *Program) Named(rel, typ string) *types.Named {
	sp := p.Pkg(rel)
	if sp == nil {
		return nil
	}
	tm := sp.Type(typ)
	if tm == nil {
		return nil
	}
	n, _ := tm.Type().(*types.Named)
	return n
}

func (p *Program) Global(rel, name string) *ssa.Global {
	sp := p.Pkg(rel)
	if sp == nil {
		return nil
	}
	g, _ := sp.Members[name].(*ssa.Global)
	return g
}

// AllNamed lists every named (non-alias) type declared in the repository.
func (p *Program) AllNamed() []*types.Named {
	if p.namedOnce {
		return p.named
	}
	p.namedOnce = true
	for _, sp := range p.SSA {
		for _, m := range sp.Members {
			if t, ok := m.(*ssa.Type); ok {
				if n, ok := t.Type().(*types.Named); ok {
					p.named = append(p.named, n)
				}
			}
		}
	}
	sort.Slice(p.named, func(i, j int) bool { return p.named[i].String() < p.named[j].String() })
	return p.named
}

func (p *Program) InRepo(f *ssa.Function) bool {
	return f != nil && f.Pkg != nil && strings.HasPrefix(f.Pkg.Pkg.Path(), modPath)
}

// Pos renders a position relative to the repository root.
func (p *Program) Pos(pos token.Pos) string {
	if !pos.IsValid() {
		return "-"
	}
	ps := p.Fset.Position(pos)
	rel, err := filepath.Rel(p.Root, ps.Filename)
	if err != nil {
		rel = ps.Filename
	}
	return fmt.Sprintf("%s:%d", rel, ps.Line)
}

func (p *Program) InstrPos(i ssa.Instruction) string {
	if i == nil {
		return "-"
	}
	if i.Pos().IsValid() {
		return p.Pos(i.Pos())
	}
	// fall back to operands
	for _, op := range i.Operands(nil) {
		if *op != nil && (*op).Pos().IsValid() {
			return p.Pos((*op).Pos())
		}
	}
	if i.Parent() != nil {
		return p.Pos(i.Parent().Pos())
	}
	return "-"
}

// shortName: pkg.(*T).M without the module prefix.
func shortFn(f *ssa.Function) string {
	if f == nil {
		return "<nil>"
	}
	s := f.String()
	s = strings.ReplaceAll(s, modPath+"/compress/flate/internal/", "")
	s = strings.ReplaceAll(s, modPath+"/compress/", "")
	s = strings.ReplaceAll(s, modPath+"/internal/", "")
	s = strings.ReplaceAll(s, modPath, "fastgo")
	return s
}

// AsmFiles returns the .s files of a package in this configuration.
func (p *Program) AsmFiles(rel string) []string {
	path := modPath
	if rel != "" {
		path += "/" + rel
	}
	pk := p.ByPath[path]
	if pk == nil {
		return nil
	}
	var out []string
	for _, f := range pk.OtherFiles {
		if strings.HasSuffix(f, ".s") {
			out = append(out, f)
		}
	}
	sort.Strings(out)
	return out
}

// FileOf returns the syntax file containing pos.
func (p *Program) FileOf(pos token.Pos) *ast.File {
	for _, pk := range p.Pkgs {
		for _, f := range pk.Syntax {
			if f.Pos() <= pos && pos <= f.End() {
				return f
			}
		}
	}
	return nil
}

// IsRepoFunc: fn is declared in one of the repository's packages (its body was built from source).
func (p *Program) IsRepoFunc(fn *ssa.Function) bool {
	if fn == nil || fn.Blocks == nil {
		return false
	}
	pk := fn.Pkg
	if pk == nil && fn.Parent() != nil {
		pk = fn.Parent().Pkg
	}
	if pk == nil {
		return false
	}
	_, ok := p.SSA[pk.Pkg.Path()]
	return ok
}

// methodByName: the method of that exact name, or nil (no shape fallback).
func (p *Program) methodByName(rel, typ, name string) *ssa.Function {
	sp := p.Pkg(rel)
	if sp == nil {
		return nil
	}
	tm := sp.Type(typ)
	if tm == nil {
		return nil
	}
	for _, t := range []types.Type{types.NewPointer(tm.Type()), tm.Type()} {
		if sel := p.Prog.MethodSets.MethodSet(t).Lookup(sp.Pkg, name); sel != nil {
			if fn := p.Prog.MethodValue(sel); fn != nil && fn.Blocks != nil {
				return fn
			}
		}
	}
	return nil
}

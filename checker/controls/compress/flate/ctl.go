// Package flate (control): positive controls for zero-expected rules that are anchored in the inflater
// (R05.4, R04.5, R11.1). It declares just enough of the real package's shape for the rules to find
// their anchors, and contains exactly the constructs those rules forbid.
package flate

import (
	"bufio"
	"io"
)

type inflate struct {
	input   []byte
	bits    uint64
	bitsLen int32
}

type decompressor struct {
	state inflate
	rBuf  *bufio.Reader
	buf   [8]byte
}

// dropLookAhead throws away whatever the bit buffer still holds (R05.4).
func (s *inflate) dropLookAhead() {
	s.bits = 0
	s.bitsLen = 0
}

// drain consumes input destructively (R04.5) and insists on a full buffer (R11.1).
func (d *decompressor) drain() error {
	if _, err := d.rBuf.ReadByte(); err != nil {
		return err
	}
	_, err := io.ReadFull(d.rBuf, d.buf[:])
	return err
}

// Package huffman (control): positive control for R01.7 - a generator that decides whether a symbol
// is used on a narrowed copy of its frequency.
package huffman

type node struct {
	sym   uint16
	count uint16
}

func narrowedUse(hist []uint32) []node {
	var out []node
	for i, v := range hist {
		if c := uint16(v); c != 0 {
			out = append(out, node{uint16(i), c})
		}
	}
	return out
}

// Package ctl17 is a positive control for the zero-expected rules of C17: it contains exactly the
// constructs those rules forbid. The checker runs the rules on it on every invocation and fails
// if they do not fire (a rule that can never fire proves nothing).
package ctl17

var scratch [64]byte

var sharedTable = make([]uint16, 16)

type codec struct {
	tbl []uint16
	buf *[64]byte
}

// sharedScratchWrite writes a package-level array after initialisation (R17.1).
func (c *codec) sharedScratchWrite(b byte) {
	scratch[0] = b
}

// viaCallee reaches the same write through a helper (R17.1, interprocedural).
func (c *codec) viaCallee(b byte) { fill(scratch[:], b) }

func fill(dst []byte, b byte) {
	for i := range dst {
		dst[i] = b
	}
}

// newCodec stores references into package variables in an instance (R17.2).
func newCodec() *codec {
	return &codec{tbl: sharedTable, buf: &scratch}
}

// background starts a goroutine (R17.4).
func (c *codec) background() {
	go c.sharedScratchWrite(1)
}

var template = codec{tbl: make([]uint16, 0, 16)}

// fromTemplate makes an instance by copying a package-level value that contains a slice: the copy
// is shallow, so every instance shares the slice's backing array (R17.2, aggregate copy).
func fromTemplate() *codec {
	c := template
	return &c
}

// sentinel is a struct type of which a package-level variable holds a pointer (R17.5): writing a field through
// any pointer of that type may write the shared object.
type sentinel struct {
	what string
	at   int64
}

func (s *sentinel) Error() string { return s.what }

var errShared error = &sentinel{what: "shared"}

// markSentinel writes a field of the shared sentinel through a pointer recovered from an interface (R17.5).
func markSentinel(err error, at int64) {
	if s, ok := err.(*sentinel); ok {
		s.at = at
	}
}

var slots = make(chan struct{}, 2)

// limited takes a slot of a package-level channel when one is free (R17.6): what it does next depends on what
// other goroutines are doing at that moment.
func limited() bool {
	select {
	case slots <- struct{}{}:
		<-slots
		return true
	default:
		return false
	}
}

type countScratch struct {
	count [4]uint16
}

// readAfterClear reads count[1] below the statement that resets it (R02.22): the carried value is lost.
func (s *countScratch) readAfterClear() uint32 {
	s.count[0] = 0
	s.count[1] = 0
	carried := uint32(s.count[1])
	return carried + 1
}

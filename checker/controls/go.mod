module github.com/intel/fastgo

go 1.16

package main

// R18.17: no lost update of a write-back register in the assembly routines.
//
// A register that a routine stores back into a Go object or result slot (the bit accumulator, its bit count, a
// cursor) carries state across the routine's paths. The vector encoders keep a copy of such registers in a vector
// register and move it back at the join points. An accumulating update of a write-back register (an instruction that
// both reads and writes it: ORQ x, R / ADDQ x, R / SHRXQ n, R, R ...) must reach a use of R before R is reloaded
// from a vector or mask register; otherwise the update is lost on that path (an exit label that reloads the
// accumulator from the stale copy). Overwrites by anything else are register reuse (the generated code reuses
// registers freely: about 120 such partially dead temporaries were read and are not reported).

import (
	"fmt"
	"strings"
)

// reads/writes of general-purpose registers by an instruction
func asmRegUse(in *AsmInstr) (reads map[string]bool, writes map[string]bool) {
	reads, writes = map[string]bool{}, map[string]bool{}
	d := in.dest()
	if (in.Mnem == "XORQ" || in.Mnem == "XORL" || in.Mnem == "SUBQ") && len(in.Ops) == 2 && in.Ops[0].Kind == OpReg && in.Ops[1].Kind == OpReg && baseReg(in.Ops[0].Reg) == baseReg(in.Ops[1].Reg) {
		writes[baseReg(in.Ops[1].Reg)] = true
		return
	}
	for i, op := range in.Ops {
		switch op.Kind {
		case OpReg:
			rg := baseReg(op.Reg)
			if !isGPR(rg) {
				continue
			}
			if i == d {
				writes[rg] = true
				// two-operand ALU forms also read their destination; moves, LEA and three-operand forms do not
				m := in.Mnem
				pureWrite := strings.HasPrefix(m, "MOV") || m == "LEAQ" || len(in.Ops) == 3 || strings.HasPrefix(m, "VMOV") || strings.HasPrefix(m, "VPEXTR") || m == "POPCNTQ" || m == "LZCNTQ" || m == "TZCNTQ" || m == "BSRQ" || m == "BSFQ" || m == "BSFL" || m == "PMOVMSKB" || m == "VPMOVMSKB" || m == "KMOVQ"
				if (m == "XORQ" || m == "XORL" || m == "SUBQ") && in.Ops[0].Kind == OpReg && baseReg(in.Ops[0].Reg) == rg {
					pureWrite = true
					continue
				}
				if strings.HasPrefix(m, "CMOV") {
					pureWrite = false
				}
				if !pureWrite {
					reads[rg] = true
				}
			} else {
				reads[rg] = true
			}
		case OpMem:
			if op.Base != "" && isGPR(op.Base) {
				reads[op.Base] = true
			}
			if op.Index != "" && isGPR(op.Index) {
				reads[op.Index] = true
			}
		}
	}
	if len(in.Ops) == 1 && d == 0 && in.Ops[0].Kind == OpReg { // INCQ/DECQ/NEGQ/NOTQ
		reads[baseReg(in.Ops[0].Reg)] = true
	}
	return
}

func ruleR18_17(p *Program, r *Report) {
	r.Expect("R18.17", 5)
	if asmLoadFailures(p, r, "R18.17") {
		return
	}
	for _, u := range p.Asm().Units {
		ins := u.Text.Instrs
		// write-back registers
		wb := map[string]string{}
		for i, in := range ins {
			d := in.dest()
			if d < 0 || !strings.HasPrefix(in.Mnem, "MOV") || len(in.Ops) != 2 || in.Ops[0].Kind != OpReg || !isGPR(baseReg(in.Ops[0].Reg)) {
				continue
			}
			switch in.Ops[d].Kind {
			case OpFP:
				wb[baseReg(in.Ops[0].Reg)] = "result " + in.Ops[d].Name
			case OpMem:
				op := in.Ops[d]
				if T, nm, ok := u.typedBase(u.Flow.Before[i][op.Base]); ok {
					if res, err := resolveOffset(p.Sizes, T, op.Off+u.Flow.Before[i][op.Base].Disp); err == nil {
						wb[baseReg(in.Ops[0].Reg)] = nm + "." + res.FieldSet
					}
				}
			}
		}
		if len(wb) == 0 {
			continue
		}
		lost := 0
		first := ""
		updates := 0
		for i, in := range ins {
			if !u.Flow.Reach[i] {
				continue
			}
			rd, wr := asmRegUse(in)
			for rg := range wr {
				if _, isWB := wb[rg]; !isWB || !rd[rg] {
					continue
				}
				updates++
				// forward search: a kill before a use?
				seen := map[int]bool{}
				work := append([]int{}, u.Flow.Succs[i]...)
				for len(work) > 0 {
					j := work[len(work)-1]
					work = work[:len(work)-1]
					if seen[j] {
						continue
					}
					seen[j] = true
					r2, w2 := asmRegUse(ins[j])
					if r2[rg] {
						continue
					}
					if w2[rg] {
						kj := ins[j]
						if !(len(kj.Ops) >= 2 && kj.Ops[0].Kind == OpReg && !isGPR(baseReg(kj.Ops[0].Reg))) && !(len(kj.Ops) == 3 && kj.Ops[1].Kind == OpReg && !isGPR(baseReg(kj.Ops[1].Reg))) {
							continue // overwritten by something else: register reuse, not a reload of a spill copy
						}
						lost++
						if first == "" {
							first = fmt.Sprintf("the update of %s (%s) at line %d is reloaded from a vector register at line %d (%s) before any use: the update is lost on that path", rg, wb[rg], in.Line, ins[j].Line, strings.TrimSpace(ins[j].Raw))
						}
						continue
					}
					work = append(work, u.Flow.Succs[j]...)
				}
			}
		}
		var names []string
		for rg, f := range wb {
			names = append(names, rg+"->"+f)
		}
		sortStrings(names)
		r.Check(lost == 0, "R18.17", u.Text.Name+"|no lost update", p.asmPos(u, ins[0]), fmt.Sprintf("%d accumulating updates of the write-back registers (%s) none is reloaded from a vector register before a use", updates, strings.Join(names, ", ")), first)
	}
}

func sortStrings(a []string) {
	for i := 1; i < len(a); i++ {
		for j := i; j > 0 && a[j] < a[j-1]; j-- {
			a[j], a[j-1] = a[j-1], a[j]
		}
	}
}

package main

// C18 - results independent of the acceleration level.

import (
	"fmt"
	"go/types"
	"sort"
	"strings"

	"golang.org/x/tools/go/ssa"
)

func init() {
	register(&PropSpec{
		ID: "C18",
		Rules: []Rule{
			{ID: "R18.1", Configs: "asm", Run: ruleR18_1},
			{ID: "R18.2", Configs: "asm", Run: ruleR18_2},
			{ID: "R18.3", Configs: "asm", Run: func(p *Program, r *Report) { ruleR03_3(p, r); asmRuleR03_5(p, r) }},
			{ID: "R18.4", Configs: "asm", Run: ruleR18_4},
			{ID: "R18.5", Configs: "all", Run: ruleR18_5},
			{ID: "R18.6", Configs: "asm", Run: ruleR18_6},
			{ID: "R18.7", Configs: "asm", Run: ruleR18_7},
			{ID: "R18.9", Configs: "asm", Run: ruleR18_9},
			{ID: "R18.10", Configs: "asm", Run: ruleR18_10},
			{ID: "R18.11", Configs: "all", Run: ruleR18_11},
		},
		Explanation: "Decides the structural agreements between the assembly arms and the Go code that 'acceleration never changes results' rests on: (R18.1) every memory operand of the 17 assembly routines whose base is a typed pointer (FP pointer argument or LEAQ of a Go global) lies in exactly one field of the Go struct at an element boundary with matching width and index scale, the set of fields (by name and constant element index) equals the confirmed table, and the fields each routine stores to are those of the write summaries used by C12/C17; " +
			"(R18.2) FP names, offsets and argument sizes agree with the Go declarations; (R18.3) the outcome codes of the AVX2 decode loop are constants from the errorNo* set and Go maps every one of them to an error before any fallback; (R18.4) every dispatch variable is assigned on all paths of init (switch has a default) and every direct call of an assembly routine has a Go fallback on the other edge of a cpu.ArchLevel test; (R18.5) both build configurations declare the same dispatch points with identical signatures; " +
			"(R18.6) every path to RET of the decode loop writes bits, bitsLen, input{ptr,len,cap} and both results back; (R18.7) cpuArchLevel's CPUID masks guarantee the psABI feature sets and every routine is only reachable at a level that has the extensions its instructions need; (R18.9) every lookup-table load in the decode loop is followed by a zero-length test branching to an invalid-* exit before bits are consumed. (R18.10) on every path of the decode loop from a symbol boundary to the exit the output cursor has moved only by symbol counts, minus one exactly when the last symbol is not a literal - so an error exit never counts bytes that no inflater produces; (R18.11) a Go token encoder that is handed the remainder tokens[k:] of another encoder's work (possibly empty) starts with an empty-slice guard returning 0. Semantic equivalence of an assembly routine and its Go sibling is not decided.",
		NotDecided: []string{
			"semantic equivalence of assembly routines and their Go siblings (bit-exact output, match choices)",
			"constants inside DATA tables of the assembly encoders (e.g. per-lane width limits)",
			"assembly index arithmetic and bounds",
		},
	})
}

// R18.4 dispatch totality
func ruleR18_4(p *Program, r *Report) {
	r.Expect("R18.4", 4)
	// (a) package-level func variables called outside init are assigned on every path of an init function
	for _, sp := range p.SSA {
		if strings.Contains(sp.Pkg.Path(), "/examples/") {
			continue
		}
		for _, m := range sp.Members {
			g, ok := m.(*ssa.Global)
			if !ok {
				continue
			}
			if _, isFn := g.Type().(*types.Pointer).Elem().Underlying().(*types.Signature); !isFn {
				continue
			}
			called := false
			for _, fn := range p.Funcs() {
				for _, c := range allCalls(fn) {
					if globalLoad(c.Common().Value) == g {
						called = true
					}
				}
			}
			if !called {
				continue
			}
			key := g.Name() + "|assigned on all init paths"
			ok2 := false
			why := "no init function assigns it"
			for _, fn := range p.Funcs() {
				if fn.Pkg != sp || !(fn.Name() == "init" || strings.HasPrefix(fn.Name(), "init#")) || fn.Parent() != nil {
					continue
				}
				has := false
				for _, b := range fn.Blocks {
					for _, in := range b.Instrs {
						if st, ok := in.(*ssa.Store); ok && st.Addr == ssa.Value(g) {
							has = true
						}
					}
				}
				if !has {
					continue
				}
				found, hit, path := PathQuery{Target: func(x ssa.Instruction) bool { _, ok := x.(*ssa.Return); return ok }, Barrier: func(x ssa.Instruction) bool {
					st, ok := x.(*ssa.Store)
					return ok && st.Addr == ssa.Value(g) && !isNil(st.Val)
				}, EdgeOK: func(a, b *ssa.BasicBlock) bool {
					// the "already initialised" edge of the synthetic package initialiser
					if br, ok := edgeCond(a, b); ok && br.True {
						if gg := globalLoad(br.Cond); gg != nil && gg.Name() == "init$guard" {
							return false
						}
					}
					return true
				}}.Find(fn)
				if found {
					why = "init returns at " + p.InstrPos(hit) + " (blocks " + fmtInts(path) + ") without assigning it: at that acceleration level the first call dereferences a nil func"
				} else {
					ok2 = true
				}
			}
			r.Check(ok2, "R18.4", key, p.Pos(g.Pos()), "dispatch variable "+g.Name()+" is assigned on every path of package initialisation", why)
		}
	}
	// (b) every direct call of an assembly routine is guarded by a cpu.ArchLevel test whose other edge reaches Go code
	for _, u := range p.Asm().Units {
		if u.Text.Name == "cpuArchLevel" {
			continue
		}
		for _, fn := range p.Funcs() {
			for _, c := range allCalls(fn) {
				if c.Common().StaticCallee() != u.Fn {
					continue
				}
				key := shortFn(fn) + "|" + u.Text.Name
				lb := p.guardLowerBound(c)
				// a Go implementation is called on some path that does not pass this call
				goAlt := false
				for _, o := range allCalls(fn) {
					if f := o.Common().StaticCallee(); f != nil && f.Blocks != nil && p.InRepo(f) && o != c {
						goAlt = true
					}
					if globalLoad(o.Common().Value) != nil && o != c {
						goAlt = true
					}
				}
				r.Check(lb >= 1 && goAlt, "R18.4", key, p.InstrPos(c), "assembly routine is called only under a cpu.ArchLevel guard and the function also has a Go path", fmt.Sprintf("guard lower bound %d, Go alternative present: %v", lb, goAlt))
			}
		}
	}
}

// R18.5 sibling files agree: recorded per configuration, compared when the second configuration is seen.
var dispatchDecls = map[string]map[string]string{}

func ruleR18_5(p *Program, r *Report) {
	r.Expect("R18.5", 1)
	names := []struct{ rel, name string }{
		{flateRel, "decodeHuffman"}, {deflRel, "optimizedEncodeTokens"}, {deflRel, "encodeTokens"}, {deflRel, "encodeBytes"},
		{"internal/cpu", "cpuArchLevel"},
	}
	decl := map[string]string{}
	for _, n := range names {
		if fn := p.Func(n.rel, n.name); fn != nil {
			decl[n.rel+"."+n.name] = fn.Signature.String()
		} else {
			decl[n.rel+"."+n.name] = "<missing>"
		}
	}
	for _, t := range []struct{ rel, typ, m string }{{deflRel, "level1context", "generate"}, {deflRel, "level2context", "generate"}} {
		if fn := p.Method(t.rel, t.typ, t.m); fn != nil {
			decl[t.typ+"."+t.m] = fn.Signature.String()
		} else {
			decl[t.typ+"."+t.m] = "<missing>"
		}
	}
	if g := p.Global(deflRel, "optimizedEncodeBytes"); g != nil {
		decl["var optimizedEncodeBytes"] = g.Type().String()
		if len(p.FuncValuesOf(g)) == 0 {
			decl["var optimizedEncodeBytes"] = "<never assigned>"
		}
	}
	dispatchDecls[p.Cfg.Name] = decl
	var keys []string
	for k := range decl {
		keys = append(keys, k)
	}
	sort.Strings(keys)
	base := dispatchDecls[cfgC0.Name]
	for _, k := range keys {
		v := decl[k]
		why := ""
		if v == "<missing>" || v == "<never assigned>" {
			why = "dispatch point " + k + " is " + v + " in this configuration"
		} else if base != nil && base[k] != v {
			why = "signature differs from the amd64 arm: " + v + " vs " + base[k]
		}
		r.Check(why == "", "R18.5", k, "-", "dispatch point exists in this configuration with the same signature as in the assembly arm", why)
	}
}

// R18.9 every lookup-table load in the assembly decode loop is validated before bits are consumed.
func ruleR18_9(p *Program, r *Report) {
	r.Expect("R18.9", 6)
	if asmLoadFailures(p, r, "R18.9") {
		return
	}
	for _, u := range p.Asm().Units {
		if u.Text.Name != "decodeHuffmanAsmArchV3" {
			continue
		}
		// register holding the bit count: destination of the load of state.bitsLen
		bitsReg := ""
		for i, in := range u.Text.Instrs {
			if len(in.Ops) == 2 && in.Ops[0].Kind == OpMem && in.Ops[1].Kind == OpReg {
				if T, _, ok := u.typedBase(u.Flow.Before[i][in.Ops[0].Base]); ok {
					if res, err := resolveOffset(p.Sizes, T, in.Ops[0].Off); err == nil && res.FieldSet == "bitsLen" {
						bitsReg = baseReg(in.Ops[1].Reg)
					}
				}
			}
		}
		if bitsReg == "" {
			r.Undecided("R18.9", u.Text.Name+"|bit count register", "-", "the register holding state.bitsLen is identified", "no load of bitsLen found")
			continue
		}
		consumes := func(i int) bool {
			in := u.Text.Instrs[i]
			d := in.dest()
			return d >= 0 && in.Ops[d].Kind == OpReg && baseReg(in.Ops[d].Reg) == bitsReg && strings.HasPrefix(in.Mnem, "SUB")
		}
		validates := func(i int) bool {
			in := u.Text.Instrs[i]
			return (in.Mnem == "JZ" || in.Mnem == "JE") && len(in.Ops) == 1 && strings.HasPrefix(in.Ops[0].Name, "invalid")
		}
		n := 0
		for i, in := range u.Text.Instrs {
			if len(in.Ops) != 2 || in.Ops[0].Kind != OpMem || in.Ops[0].Base == "" || in.Mnem == "LEAQ" {
				continue
			}
			bv := u.Flow.Before[i][in.Ops[0].Base]
			T, _, ok := u.typedBase(bv)
			if !ok {
				continue
			}
			res, err := resolveOffset(p.Sizes, T, in.Ops[0].Off+bv.Disp)
			if err != nil || !(strings.HasPrefix(res.FieldSet, "litLenTable.") || strings.HasPrefix(res.FieldSet, "distTable.")) {
				continue
			}
			n++
			key := fmt.Sprintf("%s|lookup %s#%d", u.Text.Name, res.FieldSet, n)
			start := i + 1
			found, at := asmPathAvoiding(u.Flow, start, consumes, validates)
			why := ""
			if found {
				why = fmt.Sprintf("the entry loaded at line %d can reach the bit consumption at line %d without a zero-length test branching to an invalid-* exit: an unassigned code would be decoded instead of rejected", in.Line, u.Text.Instrs[at].Line)
			}
			r.Check(!found, "R18.9", key, p.asmPos(u, in), "a lookup-table entry is tested for zero code length (-> invalid exit) before its bits are consumed", why)
		}
	}
}

// R18.11: encoders called on a remainder slice handle the empty remainder.
func ruleR18_11(p *Program, r *Report) {
	if p.Cfg.Asm {
		r.Expect("R18.11", 1)
	}
	n := 0
	for _, fn := range p.Funcs() {
		if fn.Pkg != p.Pkg(deflRel) {
			continue
		}
		for _, c := range allCalls(fn) {
			g := c.Common().StaticCallee()
			if g == nil || g.Blocks == nil || g.Pkg != fn.Pkg || g.Signature.Results().Len() != 1 || len(c.Common().Args) < 2 {
				continue
			}
			// the argument is a re-slice x[k:] whose lower bound is the result of earlier work (not a constant)
			var sl *ssa.Slice
			argIdx := -1
			for i, a := range c.Common().Args {
				if s2, ok := a.(*ssa.Slice); ok && s2.Low != nil && s2.High == nil {
					if _, isK := constInt(s2.Low); !isK {
						if _, isPar := s2.X.(*ssa.Parameter); isPar {
							sl, argIdx = s2, i
						}
					}
				}
			}
			if sl == nil || typeString(g.Signature.Results().At(0).Type()) != "int" {
				continue
			}
			// only routines that report "index of the last element + 1" can over-report on an empty slice
			plusOne := false
			for _, b := range g.Blocks {
				for _, in := range b.Instrs {
					if ret, ok := in.(*ssa.Return); ok {
						if bo, ok := ret.Results[0].(*ssa.BinOp); ok && bo.Op.String() == "+" {
							if k, isK := constInt(bo.Y); isK && k == 1 {
								plusOne = true
							}
						}
					}
				}
			}
			if !plusOne {
				continue
			}
			n++
			par := g.Params[argIdx]
			guard := false
			for _, b := range g.Blocks {
				for _, in := range b.Instrs {
					ret, ok := in.(*ssa.Return)
					if !ok {
						continue
					}
					if k, isK := constInt(ret.Results[0]); !isK || k != 0 {
						continue
					}
					for _, f := range dominatingFacts(ret) {
						if f.Y == nil {
							continue
						}
						if call, isC := f.X.(*ssa.Call); isC {
							if bi, isB := call.Common().Value.(*ssa.Builtin); isB && bi.Name() == "len" && call.Common().Args[0] == ssa.Value(par) {
								if k, isK := constInt(f.Y); isK {
									op := f.Op.String()
									if (op == "==" && k == 0) || (op == "<" && k == 1) || (op == "<=" && k == 0) {
										guard = true
									}
								}
							}
						}
					}
				}
			}
			r.Check(guard, "R18.11", shortFn(fn)+"|"+g.Name()+" on remainder", p.InstrPos(c), g.Name()+" is called on the remainder of a slice that may be empty and returns 0 for an empty slice", "no `len(...) == 0 -> return 0` guard: with an empty remainder the routine reports one element consumed (the acceleration levels whose first stage consumes everything)")
		}
	}
	_ = n
}

package main

// C05 - source positioned exactly at stream end; C11 - no waiting for input that is not needed; C09 - output independent of Write sizes.

import (
	"go/ast"
	"go/token"
	"go/types"
	"sort"
	"strings"

	"golang.org/x/tools/go/ssa"
)

func init() {
	register(&PropSpec{
		ID: "C05",
		Rules: []Rule{
			{ID: "R05.1", Configs: "all", Run: ruleR05_1},
			{ID: "R05.2", Configs: "all", Run: ruleR05_2},
			{ID: "R05.3", Configs: "all", Run: ruleR05_3},
			{ID: "R05.4", Configs: "all", Run: ruleR05_4},
		},
		Explanation: "Decides who may put a private read-ahead buffer between the caller's source and the inflater, and the shape of the give-back arithmetic: (R05.1) every call that wraps a caller-supplied reader in a new buffer (bufio.NewReader/NewReaderSize, (*bufio.Reader).Reset) is dominated by the failed type assertion to *bufio.Reader (clause a) and to io.ByteReader (clause b) - a private buffer cannot give read-ahead bytes back, so for those source kinds exact positioning is impossible behind it; " +
			"(R05.2) every Discard in the inflater's step is guarded by > 0 and its argument is, in linear normal form, peekSize - len(state.input) - state.bitsLen/8, and the bytes still held in the bit buffer are skipped after the next Peek; (R05.3) zlib's header, inflater and trailer all read from one source field; (R05.4) outside reset the inflater never overwrites its bit buffer (bits/bitsLen) with a constant unless the bit count is known to be zero on that path - held look-ahead bytes are the ones that must be given back. " +
			"The byte count itself (how many look-ahead bytes sit in the bit buffer at the end of a stream) is runtime arithmetic and not decided.",
		NotDecided: []string{
			"that the inflater's bit buffer holds exactly the unconsumed whole bytes at stream end (both decode loops, stored blocks)",
			"behaviour for sources that are neither *bufio.Reader nor io.ByteReader (the property does not constrain them)",
		},
	})
	register(&PropSpec{
		ID: "C11",
		Rules: []Rule{
			{ID: "R11.1", Configs: "all", Run: ruleR11_1},
			{ID: "R11.2", Configs: "all", Run: ruleR11_2},
			{ID: "R11.3", Configs: "all", Run: ruleR11_3},
			{ID: "R11.4", Configs: "all", Run: ruleR11_4},
		},
		Explanation: "Decides that the Reader never asks its source for more than it needs and never withholds what it has: (R11.1) in the inflater every Peek argument is a constant <= 1, state.bitsLen/8 + 1 (one byte beyond those the bit buffer still holds) or the reader's own Buffered() count, and no io.ReadFull/ReadAtLeast/ReadAll is applied to the source; in gzip/zlib every io.ReadFull target is a fixed-size structure or a buffer whose length was just read from the header; " +
			"(R11.2) decoded data is handed out before the stored error is replayed, and io.EOF is produced by step only when no decoded data is pending, so a container Reader is never sent to read a trailer while payload is still undelivered; (R11.3) every Peek of the inflater that can wait for input is behind the edge phase != phaseStreamEnd (in its function or at every call site), so after the final block the end of the stream is reported without another byte from the source; (R11.4) from every call that decodes into the history buffer, every path to a return passes the store to writePos, so whatever was decoded - also by earlier blocks of the same step - is published even when a later block header is invalid or incomplete.",
		NotDecided: []string{
			"that the decode loops make progress on every prefix ending at a flush point (runtime behaviour of the rollback logic)",
			"blocking behaviour of bufio.Reader.Peek itself (trusted: returns as soon as n bytes are buffered)",
		},
	})
	register(&PropSpec{
		ID: "C09",
		Rules: []Rule{
			{ID: "R09.1", Configs: "all", Run: ruleR09_1},
			{ID: "R09.2", Configs: "all", Run: ruleR09_2},
			{ID: "R09.3", Configs: "all", Run: ruleR09_3},
		},
		Explanation: "Decides one necessary clause of partition independence: the compression trigger is a function of accumulated state only. (R09.1) In every LevelCompressor.Accumulate the data parameter is used only as the source of the copy into the buffer (plus an optional len(data)==0 fast path); the trigger result and every state update depend on constants, receiver fields and the copy count; " +
			"(R09.2) Writer.Write calls Accumulate only while bytes remain, calls Compress only under Accumulate's trigger, writes no other receiver field than the sticky error, no other operation calls Accumulate, and gzip/zlib hand p to the compressor whole; (R09.3) the trigger fires exactly when the cursor reaches the bound that limits the copy (same linear expression on both sides), so the compression points are a function of the byte count alone.",
		NotDecided: []string{
			"everything inside the compressors: cursor arithmetic, match finder safety margins, token limits",
			"byte-for-byte equality of outputs for two partitions",
		},
	})
}

func init() {
	controlRegistry["C05"] = []Control{{Rule: "R05.4", Run: ruleR05_4, MustFire: []string{"dropLookAhead"}}}
	controlRegistry["C11"] = []Control{{Rule: "R11.1", Run: ruleR11_1, MustFire: []string{"drain"}}}
	controlRegistry["C04"] = []Control{{Rule: "R04.5", Run: ruleR04_5, MustFire: []string{"drain"}}}
}

// ---------- linear normal form (E5) ----------

type linForm struct {
	terms map[string]int64
	k     int64
	ok    bool
}

func (l linForm) String() string {
	var keys []string
	for k := range l.terms {
		if l.terms[k] != 0 {
			keys = append(keys, k)
		}
	}
	sort.Strings(keys)
	var sb strings.Builder
	for _, k := range keys {
		c := l.terms[k]
		if c >= 0 {
			sb.WriteString("+")
		}
		sb.WriteString(itoa(int(c)) + "*" + k + " ")
	}
	sb.WriteString("+" + itoa(int(l.k)))
	return sb.String()
}

func atomKey(v ssa.Value) (string, bool) {
	for {
		switch x := v.(type) {
		case *ssa.Convert:
			v = x.X
			continue
		case *ssa.ChangeType:
			v = x.X
			continue
		}
		break
	}
	if _, sel, ok := fieldLoad(v); ok {
		return sel, true
	}
	if c, ok := v.(*ssa.Call); ok {
		if bi, ok := c.Common().Value.(*ssa.Builtin); ok && bi.Name() == "len" {
			if k, ok := atomKey(c.Common().Args[0]); ok {
				return "len(" + k + ")", true
			}
		}
		if f := c.Common().StaticCallee(); f != nil && f.Signature.Recv() != nil && len(c.Common().Args) == 1 {
			if k, ok := atomKey(c.Common().Args[0]); ok {
				return k + "." + f.Name() + "()", true
			}
		}
	}
	switch x := v.(type) {
	case *ssa.Parameter:
		return "param:" + x.Name(), true
	case *ssa.Phi:
		return "phi:" + x.Name(), true
	case *ssa.Extract:
		return "val:" + x.Name(), true
	}
	if bo, ok := v.(*ssa.BinOp); ok && (bo.Op == token.QUO || bo.Op == token.SHR) {
		if k, ok := atomKey(bo.X); ok {
			if c, isK := constInt(bo.Y); isK {
				if bo.Op == token.SHR {
					c = 1 << uint(c)
				}
				return "(" + k + ")/" + itoa(int(c)), true
			}
		}
	}
	return "", false
}

func linearize(v ssa.Value) linForm { return linearizeWith(v, false) }

// linearizeWith: loose makes every sub-expression that is not linear an opaque atom instead of failing.
func linearizeWith(v ssa.Value, loose bool) linForm {
	l := linForm{terms: map[string]int64{}, ok: true}
	var add func(v ssa.Value, coef int64)
	add = func(v ssa.Value, coef int64) {
		switch x := v.(type) {
		case *ssa.Convert:
			add(x.X, coef)
			return
		case *ssa.ChangeType:
			add(x.X, coef)
			return
		case *ssa.Const:
			if k, ok := constInt(x); ok {
				l.k += coef * k
				return
			}
		case *ssa.BinOp:
			switch x.Op {
			case token.ADD:
				add(x.X, coef)
				add(x.Y, coef)
				return
			case token.SUB:
				add(x.X, coef)
				add(x.Y, -coef)
				return
			case token.MUL:
				if k, ok := constInt(x.X); ok {
					add(x.Y, coef*k)
					return
				}
				if k, ok := constInt(x.Y); ok {
					add(x.X, coef*k)
					return
				}
			case token.SHL:
				if k, ok := constInt(x.Y); ok && k >= 0 && k < 32 {
					add(x.X, coef*(1<<uint(k)))
					return
				}
			}
		case *ssa.UnOp:
			if x.Op == token.SUB {
				add(x.X, -coef)
				return
			}
		case *ssa.Call:
			// a one-line accessor (pending() int { return f.writePos - f.readPos }): its expression stands for the call
			if rv := pureExprResult(x); rv != nil {
				add(rv, coef)
				return
			}
		}
		if k, ok := atomKey(v); ok {
			l.terms[k] += coef
			return
		}
		if loose {
			l.terms["val:"+v.Name()] += coef
			return
		}
		l.ok = false
	}
	add(v, 1)
	return l
}

func (l linForm) equals(terms map[string]int64, k int64) bool {
	if !l.ok || l.k != k {
		return false
	}
	for key, c := range terms {
		if l.terms[key] != c {
			return false
		}
	}
	for key, c := range l.terms {
		if c != 0 && terms[key] != c {
			return false
		}
	}
	return true
}

// ---------- C05 ----------

func readerPkgs() []string { return []string{flateRel, "compress/gzip", "compress/zlib"} }

// failedAssert: among the facts dominating `at`, is v known not to be of the asserted type?
func failedAssert(at ssa.Instruction, v ssa.Value, match func(t types.Type) bool) bool {
	for _, f := range dominatingFacts(at) {
		if f.Y != nil || f.Op != token.NEQ {
			continue
		}
		ex, ok := f.X.(*ssa.Extract)
		if !ok || ex.Index != 1 {
			continue
		}
		ta, ok := ex.Tuple.(*ssa.TypeAssert)
		if !ok || !ta.CommaOk {
			continue
		}
		if ta.X != v {
			continue
		}
		if match(ta.AssertedType) {
			return true
		}
	}
	return false
}

func isBufioReaderPtr(t types.Type) bool { return isNamedType(t, "bufio", "Reader") }

func isByteReaderIface(t types.Type) bool {
	it, ok := t.Underlying().(*types.Interface)
	if !ok {
		return false
	}
	// any interface that includes ReadByte() (byte, error): io.ByteReader, flate.Reader, io.ByteScanner
	for i := 0; i < it.NumMethods(); i++ {
		if it.Method(i).Name() == "ReadByte" {
			return true
		}
	}
	return false
}

func ruleR05_1(p *Program, r *Report) {
	r.Expect("R05.1", 4)
	// Findings are keyed by the API entry through which a caller's reader reaches the wrapping call (the constructor
	// or Reset method a user calls), not by the function the call happens to sit in: moving the source set-up into a
	// helper shared by NewReader and Reset leaves the keys as they are, a new entry that wraps is a new key.
	type verdict struct {
		sites                 int
		okBufio, okByteReader bool
		atBufio, atByte       string
		internalOnly          bool
	}
	for _, rel := range readerPkgs() {
		sp := p.Pkg(rel)
		if sp == nil {
			r.Undecided("R05.1", rel, "-", "package loaded", "missing")
			continue
		}
		// static callers inside the package
		callers := map[*ssa.Function][]*ssa.Function{}
		for _, g := range p.Funcs() {
			if g.Pkg != sp {
				continue
			}
			for _, c := range allCalls(g) {
				if h := c.Common().StaticCallee(); h != nil && h.Pkg == sp && h != g {
					callers[h] = append(callers[h], g)
				}
			}
		}
		isEntry := func(f *ssa.Function) bool {
			return ast.IsExported(f.Name()) || f.Name() == "Reset" || strings.HasPrefix(f.Name(), "New")
		}
		var entriesOf func(f *ssa.Function, depth int, seen map[*ssa.Function]bool) []*ssa.Function
		entriesOf = func(f *ssa.Function, depth int, seen map[*ssa.Function]bool) []*ssa.Function {
			if isEntry(f) || depth > 3 || seen[f] {
				return []*ssa.Function{f}
			}
			seen[f] = true
			var out []*ssa.Function
			for _, g := range callers[f] {
				out = append(out, entriesOf(g, depth+1, seen)...)
			}
			if len(out) == 0 {
				return []*ssa.Function{f}
			}
			return out
		}
		res := map[string]*verdict{}
		pos := map[string]string{}
		entryFn := map[string]*ssa.Function{}
		for _, fn := range p.Funcs() {
			if fn.Pkg != sp {
				continue
			}
			for _, c := range allCalls(fn) {
				f := c.Common().StaticCallee()
				var rd ssa.Value
				switch {
				case isFunc(f, "bufio", "NewReader"), isFunc(f, "bufio", "NewReaderSize"):
					rd = c.Common().Args[0]
				case isMethodOf(f, "bufio", "Reader", "Reset"):
					rd = c.Common().Args[1]
				default:
					continue
				}
				// the wrapped reader must be caller-supplied (a parameter) for the rule to apply
				callerSupplied := false
				for _, leaf := range p.valueSources(rd) {
					if _, ok := leaf.(*ssa.Parameter); ok {
						callerSupplied = true
					}
				}
				for _, e := range entriesOf(fn, 0, map[*ssa.Function]bool{}) {
					k := shortFn(e)
					v := res[k]
					if v == nil {
						v = &verdict{okBufio: true, okByteReader: true, internalOnly: true}
						res[k] = v
						pos[k] = p.InstrPos(c)
						entryFn[k] = e
					}
					v.sites++
					if !callerSupplied {
						continue
					}
					v.internalOnly = false
					if !failedAssert(c, rd, isBufioReaderPtr) {
						v.okBufio = false
						v.atBufio = p.InstrPos(c)
					}
					if !failedAssert(c, rd, isByteReaderIface) {
						v.okByteReader = false
						v.atByte = p.InstrPos(c)
					}
				}
			}
		}
		// upstream entries: another exported function of the package that hands its own reader parameter to an entry
		// (NewReader calling Reset, a NewReaderDict that falls back to NewReader) exposes the same wrapping to its callers
		for round := 0; round < 2; round++ {
			for _, g := range p.Funcs() {
				if g.Pkg != sp || !isEntry(g) || isExamples(g) {
					continue
				}
				gk := shortFn(g)
				if res[gk] != nil {
					continue
				}
				for _, c := range allCalls(g) {
					e := c.Common().StaticCallee()
					if e == nil || e == g {
						continue
					}
					ev := res[shortFn(e)]
					if ev == nil || entryFn[shortFn(e)] != e || ev.internalOnly {
						continue
					}
					handsOver := false
					for _, a := range c.Common().Args {
						if !types.Implements(a.Type(), ioReaderIface(p)) {
							continue
						}
						for _, leaf := range p.valueSources(a) {
							if par, ok := leaf.(*ssa.Parameter); ok && par.Parent() == g {
								handsOver = true
							}
						}
					}
					if !handsOver {
						continue
					}
					cp := *ev
					res[gk] = &cp
					pos[gk] = p.InstrPos(c)
					entryFn[gk] = g
					break
				}
			}
		}
		var rk []string
		for k := range res {
			rk = append(rk, k)
		}
		sort.Strings(rk)
		for _, k := range rk {
			v := res[k]
			if v.internalOnly {
				r.OK("R05.1", k+"|internal", pos[k], "buffers only around readers that are not the caller's")
				continue
			}
			r.Check(v.okBufio, "R05.1", k+"|not *bufio.Reader", pos[k], "through this entry a private read-ahead buffer is put in front of the caller's reader only when it is known not to be a *bufio.Reader ("+itoa(v.sites)+" wrapping calls)", "a caller-supplied *bufio.Reader can reach the wrapping call at "+v.atBufio+": bufio.NewReader re-wraps any reader smaller than the default size, and the second buffer's read-ahead cannot be given back")
			r.Check(v.okByteReader, "R05.1", k+"|not io.ByteReader", pos[k], "through this entry a private read-ahead buffer is put in front of the caller's reader only when it is known not to be an io.ByteReader ("+itoa(v.sites)+" wrapping calls)", "an io.ByteReader (bytes.Reader, bytes.Buffer, strings.Reader) reaches the wrapping call at "+v.atByte+" and is drained up to 4096 bytes beyond the end of the stream")
		}
	}
}

func ruleR05_2(p *Program, r *Report) {
	r.Expect("R05.2", 2)
	fn := p.Method(flateRel, "decompressor", "step")
	if fn == nil {
		r.Undecided("R05.2", "anchor:step", "-", "decompressor.step exists", "not found")
		return
	}
	want := map[string]int64{".peekSize": 1, "len(.state.input)": -1, "(.state.bitsLen)/8": -1}
	nd := 0
	// every Discard in a method of the decompressor (step itself or a helper it was split into)
	var methods []*ssa.Function
	for _, g := range p.Funcs() {
		if g.Signature.Recv() != nil && derefNamed(g.Signature.Recv().Type()) == derefNamed(fn.Signature.Recv().Type()) {
			methods = append(methods, g)
		}
	}
	for _, g := range methods {
		lab := newLabeler()
		for _, c := range allCalls(g) {
			f := c.Common().StaticCallee()
			if !isMethodOf(f, "bufio", "Reader", "Discard") {
				continue
			}
			nd++
			key := shortFn(g) + "|" + lab.get("Discard")
			arg := c.Common().Args[1]
			l := linearize(arg)
			if !l.ok {
				r.Undecided("R05.2", key, p.InstrPos(c), "Discard argument has a linear normal form", "unknown arithmetic shape: "+arg.String())
				continue
			}
			okForm := l.equals(want, 0)
			guarded := false
			for _, ft := range dominatingFacts(c) {
				if ft.Y != nil && ft.Op == token.GTR && ft.X == arg {
					if k, ok := constInt(ft.Y); ok && k == 0 {
						guarded = true
					}
				}
			}
			why := ""
			if !okForm {
				why = "argument normalises to " + l.String() + ", expected +1*.peekSize -1*len(.state.input) -1*(.state.bitsLen)/8"
			} else if !guarded {
				why = "not guarded by > 0"
			}
			r.Check(why == "", "R05.2", key, p.InstrPos(c), "bytes given back to the source: everything peeked minus what is unread minus whole bytes still in the bit buffer", why)
		}
	}
	if nd == 0 {
		r.Undecided("R05.2", shortFn(fn)+"|Discard", p.Pos(fn.Pos()), "step discards consumed input", "no Discard call")
	}
	// after a Peek the bytes still held in the bit buffer are skipped
	ok := false
	var skipBlocks []*ssa.BasicBlock
	for _, g := range methods { // step itself or a helper on the same receiver (the refill may be extracted)
		skipBlocks = append(skipBlocks, g.Blocks...)
	}
	for _, b := range skipBlocks {
		for _, in := range b.Instrs {
			st, isSt := in.(*ssa.Store)
			if !isSt {
				continue
			}
			if _, sel := accessPath(st.Addr); sel != ".state.input" {
				continue
			}
			if sl, isSl := st.Val.(*ssa.Slice); isSl && sl.Low != nil && sl.High == nil {
				if _, s2, ok2 := fieldLoad(sl.X); ok2 && s2 == ".state.input" {
					if l := linearize(sl.Low); l.equals(map[string]int64{"(.state.bitsLen)/8": 1}, 0) {
						ok = true
					}
				}
			}
		}
	}
	r.Check(ok, "R05.2", shortFn(fn)+"|skip held bytes", p.Pos(fn.Pos()), "after a Peek the input slice skips the state.bitsLen/8 bytes that are already in the bit buffer", "re-slice state.input[state.bitsLen/8:] not found")
}

// oneSourceField: every direct source read in methods of type n uses the same receiver field.
func oneSourceField(p *Program, r *Report, rule string, n *types.Named, min int) {
	st := n.Underlying().(*types.Struct)
	srcField := ""
	for i := 0; i < st.NumFields(); i++ {
		t := st.Field(i).Type()
		if isNamedType(t, "bufio", "Reader") || isByteReaderIface(types.Unalias(t)) {
			srcField = st.Field(i).Name()
		}
	}
	if srcField == "" {
		r.Undecided(rule, n.Obj().Name()+"|source-field", "-", "reader type has a buffered source field", "not found")
		return
	}
	cnt := 0
	for _, fn := range p.Funcs() {
		if fn.Signature.Recv() == nil || derefNamed(fn.Signature.Recv().Type()) != n {
			continue
		}
		recv := fn.Params[0]
		lab := newLabeler()
		for _, c := range allCalls(fn) {
			ci := callInfo(c)
			var rd ssa.Value
			what := ""
			if ok, w := srcDirect(ci); ok && ci.Static != nil {
				rd = c.Common().Args[0]
				what = w
			}
			if isFunc(ci.Static, modPath+"/compress/flate", "NewReader") {
				rd = c.Common().Args[0]
				what = "flate.NewReader"
			}
			if g := globalLoad(c.Common().Value); g != nil && g.Name() == "NewReaderDict" {
				rd = c.Common().Args[0]
				what = "flate.NewReaderDict"
			}
			if ci.IfaceM != nil && ci.IfaceM.Name() == "Reset" && len(c.Common().Args) >= 1 {
				rd = c.Common().Args[0]
				what = "Resetter.Reset"
			}
			if rd == nil {
				continue
			}
			cnt++
			key := shortFn(fn) + "|" + lab.get(what)
			good := false
			for _, leaf := range p.valueSources(rd) {
				for {
					if mi, ok := leaf.(*ssa.MakeInterface); ok {
						leaf = mi.X
						continue
					}
					if ci2, ok := leaf.(*ssa.ChangeInterface); ok {
						leaf = ci2.X
						continue
					}
					break
				}
				if root, sel, ok := fieldLoad(leaf); ok && root == recv && sel == "."+srcField {
					good = true
				} else {
					good = false
					break
				}
			}
			r.Check(good, rule, key, p.InstrPos(c), what+" reads from the one source field ."+srcField, "reads from "+describeValue(rd)+": bytes buffered by one reader would be lost to the other")
		}
		for _, b := range fn.Blocks {
			for _, in := range b.Instrs {
				s, ok := in.(*ssa.Store)
				if !ok {
					continue
				}
				root, sel := accessPath(s.Addr)
				if root == recv && sel == "."+srcField {
					r.Check(fn.Name() == "Reset", rule, shortFn(fn)+"|store ."+srcField, p.InstrPos(s), "the source field is assigned only by Reset", "assigned in "+fn.Name())
				}
			}
		}
	}
	if cnt < min {
		r.Undecided(rule, n.Obj().Name()+"|sites", "-", "at least "+itoa(min)+" source access sites", "found "+itoa(cnt))
	}
}

func ruleR05_3(p *Program, r *Report) {
	r.Expect("R05.3", 4)
	n := p.Named("compress/zlib", "reader")
	if n == nil {
		r.Undecided("R05.3", "anchor:zlib.reader", "-", "type exists", "not found")
		return
	}
	oneSourceField(p, r, "R05.3", n, 4)
}

// ---------- C11 ----------

func ruleR11_1(p *Program, r *Report) {
	r.Expect("R11.1", 6)
	for _, rel := range readerPkgs() {
		sp := p.Pkg(rel)
		for _, fn := range p.Funcs() {
			if fn.Pkg != sp {
				continue
			}
			lab := newLabeler()
			for _, c := range allCalls(fn) {
				f := c.Common().StaticCallee()
				key := shortFn(fn) + "|" + lab.get(calleeLabel(c))
				switch {
				case isMethodOf(f, "bufio", "Reader", "Peek"):
					arg := c.Common().Args[1]
					ok := false
					why := ""
					if k, isK := constInt(arg); isK {
						ok = k <= 1
						why = "asks for a fixed " + itoa(int(k)) + " bytes"
					} else if peekBuffered(fn, c) {
						ok = true
					} else if l := linearize(arg); l.ok && l.equals(map[string]int64{"(.state.bitsLen)/8": 1}, 1) {
						ok = true
					} else {
						why = "asks for " + describeArg(arg) + " bytes: Peek blocks until that many have arrived (or EOF/error), so data already delivered is withheld"
					}
					r.Check(ok, "R11.1", key, p.InstrPos(c), "the inflater waits for at most one byte beyond what the bit buffer holds, or takes what is buffered", why)
				case rel == flateRel && (isFunc(f, "io", "ReadFull") || isFunc(f, "io", "ReadAtLeast") || isFunc(f, "io", "ReadAll") || isFunc(f, "io", "Copy")):
					r.Fail("R11.1", key, p.InstrPos(c), "the inflater never insists on a fixed amount of input", f.Name()+" blocks until its buffer is full")
				case rel != flateRel && (isFunc(f, "io", "ReadFull") || readFullLike(f) >= 0):
					buf := c.Common().Args[1]
					if i := readFullLike(f); i >= 0 {
						buf = c.Common().Args[i] // the package's own fill loop (readFull)
					}
					ok := false
					if _, _, _, _, isFixed := sliceBounds(buf); isFixed {
						ok = true
					} else {
						for _, leaf := range p.valueSources(buf) {
							if ms, isMs := leaf.(*ssa.MakeSlice); isMs {
								// length just read from the header
								if dependsOnCall(ms.Len, "Uint16") {
									ok = true
								}
							}
						}
					}
					r.Check(ok, "R11.1", key, p.InstrPos(c), "container readers read fixed-size structures or a field whose length was just read", "io.ReadFull into a buffer of unexplained size: "+describeArg(buf))
				}
			}
		}
	}
}

func describeArg(v ssa.Value) string {
	if c, ok := v.(*ssa.Call); ok {
		return calleeLabel(c) + "()"
	}
	if l := linearize(v); l.ok {
		return l.String()
	}
	return v.String()
}

func dependsOnCall(v ssa.Value, name string) bool {
	seen := map[ssa.Value]bool{}
	var walk func(v ssa.Value) bool
	walk = func(v ssa.Value) bool {
		if v == nil || seen[v] {
			return false
		}
		seen[v] = true
		if c, ok := v.(*ssa.Call); ok {
			if f := c.Common().StaticCallee(); f != nil && f.Name() == name {
				return true
			}
		}
		if in, ok := v.(ssa.Instruction); ok {
			for _, op := range in.Operands(nil) {
				if *op != nil && walk(*op) {
					return true
				}
			}
		}
		return false
	}
	return walk(v)
}

// R11.3: once the final block has been decoded (phase == phaseStreamEnd) nothing more is needed
// from the source: no call in the inflater that can wait for input (a Peek that is not
// Peek(Buffered())) is reachable when its function - or, failing that, each caller at the call
// site - is entered with phase == phaseStreamEnd (correlated-branch search, AssumeReach).
func ruleR11_3(p *Program, r *Report) {
	r.Expect("R11.3", 1)
	end, okEnd := constOf(p, flateRel, "phaseStreamEnd")
	if !okEnd {
		r.Undecided("R11.3", "anchors", "-", "the constant phaseStreamEnd exists", "not found")
		return
	}
	var reach func(fn *ssa.Function, at ssa.Instruction, depth int) (bool, string)
	reach = func(fn *ssa.Function, at ssa.Instruction, depth int) (bool, string) {
		if !p.AssumeReach(fn, at, ".phase", end) {
			return false, ""
		}
		if depth >= 3 {
			return true, shortFn(fn)
		}
		// reachable inside fn: is fn itself ever entered in that phase?
		sites := 0
		for _, g := range p.Funcs() {
			for _, cc := range allCalls(g) {
				cs, _ := p.Callees(cc)
				for _, cal := range cs {
					if cal != fn {
						continue
					}
					sites++
					if yes, via := reach(g, cc, depth+1); yes {
						return true, via + " -> " + shortFn(fn)
					}
				}
			}
		}
		if sites == 0 {
			return true, shortFn(fn) // an entry point: callable in any phase
		}
		return false, ""
	}
	sp := p.Pkg(flateRel)
	for _, fn := range p.Funcs() {
		if fn.Pkg != sp {
			continue
		}
		lab := newLabeler()
		for _, c := range allCalls(fn) {
			f := c.Common().StaticCallee()
			if !isMethodOf(f, "bufio", "Reader", "Peek") {
				continue
			}
			key := shortFn(fn) + "|" + lab.get(calleeLabel(c))
			if k, isK := constInt(c.Common().Args[1]); (isK && k <= 0) || peekBuffered(fn, c) {
				continue
			}
			yes, via := reach(fn, c, 0)
			r.Check(!yes, "R11.3", key, p.InstrPos(c), "the inflater does not wait for input once the final block has been decoded", "this Peek can run with phase == phaseStreamEnd (entered through "+via+"): after the last block the Reader waits for a byte it does not need before reporting io.EOF, so a source that delivers the complete stream and then blocks (or fails) never sees the end reported")
		}
	}
}

// R11.4: what a decode call has produced is published: in every method of the decompressor, from
// each call that decodes into the history buffer no Return is reachable without passing the store
// to .writePos (the only thing Read looks at to hand data out).
func ruleR11_4(p *Program, r *Report) {
	r.Expect("R11.4", 2)
	dn := p.Named(flateRel, "decompressor")
	if dn == nil {
		r.Undecided("R11.4", "anchors", "-", "type decompressor exists", "not found")
		return
	}
	isWP := func(x ssa.Instruction) bool {
		st, ok := x.(*ssa.Store)
		if !ok {
			return false
		}
		_, sel := accessPath(st.Addr)
		return sel == ".writePos"
	}
	var methods []*ssa.Function
	for _, fn := range p.Funcs() {
		if fn.Signature.Recv() != nil && derefNamed(fn.Signature.Recv().Type()) == dn {
			methods = append(methods, fn)
		}
	}
	publishes := map[*ssa.Function]bool{}
	for _, fn := range methods {
		for _, b := range fn.Blocks {
			for _, in := range b.Instrs {
				if isWP(in) {
					publishes[fn] = true
				}
			}
		}
	}
	// a call decodes into the history buffer directly, or is a call to a helper method that does and leaves
	// publishing to its caller (it has no store to .writePos itself)
	decodes := map[*ssa.Function]bool{}
	direct := func(c ssa.CallInstruction) bool {
		g := c.Common().StaticCallee()
		if g == nil || !p.InRepo(g) || g.Blocks == nil {
			return false
		}
		for _, a := range c.Common().Args {
			for _, leaf := range p.valueSources(a) {
				if sl, ok := leaf.(*ssa.Slice); ok {
					if _, sel := accessPath(sl.X); sel == ".historyBuffer" {
						return true
					}
				}
			}
		}
		return false
	}
	isDecode := func(c ssa.CallInstruction) bool {
		if direct(c) {
			return true
		}
		g := c.Common().StaticCallee()
		return g != nil && decodes[g] && !publishes[g]
	}
	for changed := true; changed; {
		changed = false
		for _, fn := range methods {
			if decodes[fn] {
				continue
			}
			for _, c := range allCalls(fn) {
				if isDecode(c) {
					decodes[fn] = true
					changed = true
					break
				}
			}
		}
	}
	called := map[*ssa.Function]bool{}
	for _, fn := range methods {
		for _, c := range allCalls(fn) {
			if g := c.Common().StaticCallee(); g != nil {
				called[g] = true
			}
		}
	}
	for _, fn := range methods {
		if !publishes[fn] && called[fn] {
			continue // a helper: what it decodes is published by its caller, where the call counts as a decode call
		}
		lab := newLabeler()
		for _, c := range allCalls(fn) {
			if !isDecode(c) {
				continue
			}
			key := shortFn(fn) + "|" + lab.get(calleeLabel(c))
			found, hit, path := PathQuery{Start: c,
				Target:  func(x ssa.Instruction) bool { _, ok := x.(*ssa.Return); return ok },
				Barrier: isWP}.Find(fn)
			why := ""
			if found {
				why = "the return at " + p.InstrPos(hit) + " is reachable (blocks " + fmtInts(path) + ") without storing .writePos: bytes already decoded by this call, or by an earlier block in the same step, are never handed out"
			}
			r.Check(!found, "R11.4", key, p.InstrPos(c), "output decoded by "+calleeLabel(c)+" is published (.writePos) on every path to a return", why)
		}
	}
}

func ruleR11_2(p *Program, r *Report) {
	r.Expect("R11.2", 2)
	rd := p.Method(flateRel, "decompressor", "Read")
	st := p.Method(flateRel, "decompressor", "step")
	if rd == nil || st == nil {
		r.Undecided("R11.2", "anchors", "-", "decompressor.Read and step exist", "not found")
		return
	}
	// pendingZero: fact "writePos - readPos <= 0" or "writePos == readPos"
	// factFresh: the position fields the fact was computed from have not been written since (a call into a
	// method that may store writePos/readPos - step - invalidates it)
	var curAt ssa.Instruction
	factFresh := func(f Fact) bool {
		if curAt == nil {
			return true
		}
		fn := curAt.Parent()
		var loads []ssa.Instruction
		var collect func(v ssa.Value, d int)
		collect = func(v ssa.Value, d int) {
			if v == nil || d > 4 {
				return
			}
			if _, sel, ok := fieldLoad(v); ok && (sel == ".writePos" || sel == ".readPos") {
				if in, ok := v.(ssa.Instruction); ok {
					loads = append(loads, in)
				}
				return
			}
			if c, ok := v.(*ssa.Call); ok && pureExprResult(c) != nil {
				loads = append(loads, c) // the accessor reads the fields at the call
				return
			}
			if in, ok := v.(ssa.Instruction); ok {
				for _, op := range in.Operands(nil) {
					collect(*op, d+1)
				}
			}
		}
		collect(f.X, 0)
		collect(f.Y, 0)
		writer := func(x ssa.Instruction) bool {
			if st, ok := x.(*ssa.Store); ok {
				_, sel := accessPath(st.Addr)
				return sel == ".writePos" || sel == ".readPos"
			}
			if c, ok := x.(ssa.CallInstruction); ok {
				if g := c.Common().StaticCallee(); g != nil && g.Blocks != nil && p.InRepo(g) {
					for i := range c.Common().Args {
						for _, w := range p.Effects().ParamWrites(g, i) {
							if w == ".writePos" || w == ".readPos" {
								return true
							}
						}
					}
				}
			}
			return false
		}
		for _, ld := range loads {
			if ld.Parent() == fn && interveningWriter(fn, ld, curAt, writer, nil) {
				return false
			}
		}
		return true
	}
	noPending := func(facts []Fact) bool {
		for _, f := range facts {
			if f.Y == nil || !factFresh(f) {
				continue
			}
			{
				_, s1, ok1 := fieldLoad(f.X)
				_, s2, ok2 := fieldLoad(f.Y)
				if ok1 && ok2 {
					wr := s1 == ".writePos" && s2 == ".readPos"
					rw := s1 == ".readPos" && s2 == ".writePos"
					if (f.Op == token.EQL && (wr || rw)) || (f.Op == token.LEQ && wr) || (f.Op == token.GEQ && rw) {
						return true
					}
				}
			}
			if f.Op == token.LEQ || f.Op == token.EQL {
				if k, isK := constInt(f.Y); isK && k == 0 {
					if l := linearize(f.X); l.ok && l.equals(map[string]int64{".writePos": 1, ".readPos": -1}, 0) {
						return true
					}
				}
			}
		}
		return false
	}
	// (a) Read: the replay of the stored error happens only when nothing is pending
	recv := rd.Params[0]
	n := 0
	for _, b := range rd.Blocks {
		for _, in := range b.Instrs {
			ret, ok := in.(*ssa.Return)
			if !ok {
				continue
			}
			e := returnErr(ret)
			if e == nil || !isStickyLoad(e, recv, "err") {
				continue
			}
			// (a return that hands out data together with the stored error sits behind 'everything pending was copied',
			// which is the same nothing-pending fact: no return is exempt)
			n++
			curAt = ret
			r.Check(noPending(dominatingFacts(ret)), "R11.2", shortFn(rd)+"|replay after data", p.InstrPos(ret), "the stored error is replayed only when no decoded data is pending", "the error return is not behind the 'nothing pending' edge: decoded data would be withheld")
		}
	}
	if n == 0 {
		r.Undecided("R11.2", shortFn(rd)+"|replay after data", p.Pos(rd.Pos()), "Read has a replay return", "not found")
	}
	// (b) step produces io.EOF only when nothing is pending (directly, or through the finish phase that is entered only then)
	finish, _ := constOf(p, flateRel, "phaseFinish")
	phaseFinishGuarded := true
	for _, b := range st.Blocks {
		for _, in := range b.Instrs {
			s, ok := in.(*ssa.Store)
			if !ok {
				continue
			}
			if _, sel := accessPath(s.Addr); sel != ".state.phase" {
				continue
			}
			if k, isK := constInt(s.Val); isK && k == finish {
				curAt = s
				if !noPending(dominatingFacts(s)) {
					phaseFinishGuarded = false
				}
			}
		}
	}
	m := 0
	for _, b := range st.Blocks {
		for _, in := range b.Instrs {
			u, ok := in.(*ssa.UnOp)
			if !ok || !isSentinel(u, "io", "EOF") {
				continue
			}
			// only loads that flow to a return
			fl := p.flowForward(u)
			if len(fl.Returns) == 0 {
				continue
			}
			m++
			facts := dominatingFacts(u)
			curAt = u
			ok2 := noPending(facts)
			if !ok2 && phaseFinishGuarded {
				for _, f := range facts {
					if f.Op == token.EQL && f.Y != nil {
						if _, sel, isL := fieldLoad(f.X); isL && sel == ".state.phase" {
							if k, isK := constInt(f.Y); isK && k == finish {
								ok2 = true
							}
						}
					}
				}
			}
			r.Check(ok2, "R11.2", shortFn(st)+"|EOF only when drained#"+itoa(m), p.InstrPos(u), "step reports io.EOF only when every decoded byte has been handed out", "io.EOF can be returned while decoded data is pending: a container Reader would go on to read the trailer before delivering it")
		}
	}
	if m == 0 {
		r.Undecided("R11.2", shortFn(st)+"|EOF", p.Pos(st.Pos()), "step returns io.EOF somewhere", "not found")
	}
}

// ---------- C09 ----------

func ruleR09_1(p *Program, r *Report) {
	r.Expect("R09.1", 2)
	for _, tr := range p.CompressorTypes() {
		fn := tr.Ops["Accumulate"]
		if fn == nil {
			continue
		}
		data := fn.Params[1]
		key := shortFn(fn)
		why := ""
		var visit func(v ssa.Value, depth int)
		seen := map[ssa.Value]bool{}
		visit = func(v ssa.Value, depth int) {
			if seen[v] || why != "" {
				return
			}
			seen[v] = true
			refs := v.Referrers()
			if refs == nil {
				return
			}
			for _, u := range *refs {
				switch x := u.(type) {
				case *ssa.Slice:
					visit(x, depth+1)
				case *ssa.DebugRef:
				case ssa.CallInstruction:
					bi, isB := x.Common().Value.(*ssa.Builtin)
					switch {
					case isB && bi.Name() == "copy" && len(x.Common().Args) == 2 && x.Common().Args[1] == v:
						// the one legitimate use: source of the copy into the buffer
					case isB && bi.Name() == "len":
						// only a len(data) == 0 fast path is accepted
						okLen := true
						if lr := x.Value().Referrers(); lr != nil {
							for _, lu := range *lr {
								bo, isBo := lu.(*ssa.BinOp)
								if !isBo || (bo.Op != token.EQL && bo.Op != token.NEQ) {
									okLen = false
									continue
								}
								k, isK := constInt(bo.Y)
								if !isK || k != 0 {
									okLen = false
								}
							}
						}
						if !okLen {
							why = "len(data) is used at " + p.InstrPos(x) + " beyond an empty-input fast path: what happens then depends on how the caller split the data"
						}
					default:
						why = "the data parameter is passed to " + calleeLabel(x) + " at " + p.InstrPos(x)
					}
				default:
					why = "the data parameter is used by " + strings.TrimSpace(u.String()) + " at " + p.InstrPos(u)
				}
			}
		}
		visit(data, 0)
		r.Check(why == "", "R09.1", key+"|data used only by copy", p.Pos(fn.Pos()), "Accumulate uses its data argument only as the source of the copy into the buffer, so state and trigger depend on accumulated bytes only", why)
	}
}

func ruleR09_2(p *Program, r *Report) {
	r.Expect("R09.2", 4)
	tr, lcField := p.acceleratedWriter()
	if tr == nil {
		r.Undecided("R09.2", "anchor:deflate.Writer", "-", "accelerated Writer found", "not found")
		return
	}
	fn := tr.Ops["Write"]
	writeOp := fn
	// the accumulate loop may have been moved into a helper method that Write hands its data to unchanged
	hasAcc := func(g *ssa.Function) bool {
		for _, c := range allCalls(g) {
			if c.Common().IsInvoke() && c.Common().Method.Name() == "Accumulate" {
				return true
			}
		}
		return false
	}
	if !hasAcc(fn) {
		for _, c := range allCalls(fn) {
			h := c.Common().StaticCallee()
			if h == nil || h.Blocks == nil || h.Signature.Recv() == nil || len(c.Common().Args) < 2 || len(h.Params) < 2 {
				continue
			}
			if c.Common().Args[0] == ssa.Value(fn.Params[0]) && c.Common().Args[1] == ssa.Value(fn.Params[1]) && hasAcc(h) {
				fn = h
			}
		}
	}
	recv := fn.Params[0]
	data := fn.Params[1]
	var acc, comp []ssa.CallInstruction
	for _, c := range allCalls(fn) {
		if c.Common().IsInvoke() {
			switch c.Common().Method.Name() {
			case "Accumulate":
				acc = append(acc, c)
			case "Compress":
				comp = append(comp, c)
			}
		}
	}
	if len(acc) != 1 || len(comp) != 1 {
		r.Undecided("R09.2", shortFn(fn)+"|calls", p.Pos(fn.Pos()), "Write has one Accumulate and one Compress call", "found "+itoa(len(acc))+"/"+itoa(len(comp)))
		return
	}
	// (a) Accumulate only while bytes remain: dominated by fact num < len(data)
	okRemain := false
	for _, f := range dominatingFacts(acc[0]) {
		if f.Y == nil || f.Op != token.LSS {
			continue
		}
		for _, leaf := range p.valueSources(f.Y) {
			if c, ok := leaf.(*ssa.Call); ok {
				if bi, ok := c.Common().Value.(*ssa.Builtin); ok && bi.Name() == "len" && c.Common().Args[0] == ssa.Value(data) {
					okRemain = true
				}
			}
		}
	}
	r.Check(okRemain, "R09.2", shortFn(fn)+"|Accumulate only with bytes left", p.InstrPos(acc[0]), "Accumulate is called only while unconsumed bytes remain (num < len(data))", "Accumulate can run for an empty remainder: a zero-length Write could trigger a compression step")
	// (b) Compress only under the trigger
	var trig ssa.Value
	if refs := acc[0].Value().Referrers(); refs != nil {
		for _, u := range *refs {
			if ex, ok := u.(*ssa.Extract); ok && ex.Index == 1 {
				trig = ex
			}
		}
	}
	r.Check(trig != nil && assertedTrue(dominatingFacts(comp[0]), trig), "R09.2", shortFn(fn)+"|Compress under trigger", p.InstrPos(comp[0]), "Compress is called exactly under Accumulate's trigger result", "Compress is not control dependent on the trigger of this Accumulate call")
	// extra conditions on the Compress call: only the trigger and the loop/sticky tests may control it
	for _, br := range controlDeps(fn, comp[0].Block()) {
		nb := normCond(br)
		if nb.Cond == trig {
			continue
		}
		okCond := false
		if bo, ok := nb.Cond.(*ssa.BinOp); ok {
			for _, v := range []ssa.Value{bo.X, bo.Y} {
				if isStickyLoad(v, recv, tr.Sticky) {
					okCond = true
				}
				if root, sel, ok := fieldLoad(v); ok && root == recv && sel != "" {
					okCond = true
				}
			}
			// the loop test num < n
			if bo.Op == token.LSS {
				okCond = true
			}
			// a test of an error value (the previous Compress failed: the loop has ended)
			if isErrorType(bo.X.Type()) {
				okCond = true
			}
		}
		if !okCond {
			r.Fail("R09.2", shortFn(fn)+"|Compress extra condition", p.InstrPos(comp[0]), "Compress depends only on the trigger", "also controlled by "+nb.Cond.String())
		}
	}
	// (c) Write stores no receiver field other than the sticky error
	bad := ""
	for _, b := range fn.Blocks {
		for _, in := range b.Instrs {
			if st, ok := in.(*ssa.Store); ok {
				if root, sel := accessPath(st.Addr); root == recv && sel != "."+tr.Sticky {
					bad = "stores " + sel + " at " + p.InstrPos(st)
				}
			}
		}
	}
	r.Check(bad == "", "R09.2", shortFn(fn)+"|no per-call state", p.Pos(fn.Pos()), "Write keeps no state of its own between calls (only the sticky error)", bad)
	// (d) nobody else calls Accumulate
	for _, g := range p.Funcs() {
		if g == fn || g == writeOp || isExamples(g) {
			continue
		}
		if g != fn {
			// the helper itself must be called by Write only
			for _, c := range allCalls(g) {
				if c.Common().StaticCallee() == fn && fn != writeOp {
					r.Fail("R09.2", shortFn(g)+"|"+fn.Name(), p.InstrPos(c), "only Writer.Write feeds the compressor", "another caller of the accumulate helper")
				}
			}
		}
		for _, c := range allCalls(g) {
			if c.Common().IsInvoke() && c.Common().Method.Name() == "Accumulate" {
				r.Fail("R09.2", shortFn(g)+"|Accumulate", p.InstrPos(c), "only Writer.Write feeds the compressor", "another caller of Accumulate")
			}
		}
	}
	_ = lcField
	// (e) gzip/zlib hand p to the compressor whole
	for _, wt := range p.WriterTypes() {
		if wt.Named == tr.Named {
			continue
		}
		w := wt.Ops["Write"]
		par := w.Params[1]
		ok := false
		for _, c := range allCalls(w) {
			f := c.Common().StaticCallee()
			if f != nil && f.Name() == "Write" && f.Signature.Recv() != nil && derefNamed(f.Signature.Recv().Type()) == tr.Named {
				if c.Common().Args[1] == ssa.Value(par) {
					ok = true
				}
			}
		}
		r.Check(ok, "R09.2", shortFn(w)+"|p passed whole", p.Pos(w.Pos()), "the container Writer hands its argument to the compressor unchanged", "the compressor does not receive p itself")
	}
}

// R05.4: look-ahead bytes held in the bit buffer are never thrown away.
func ruleR05_4(p *Program, r *Report) {
	r.Expect("R05.4", 1)
	inf := p.Named(flateRel, "inflate")
	if inf == nil {
		r.Undecided("R05.4", "anchor:inflate", "-", "inflate state type exists", "not found")
		return
	}
	n := 0
	for _, fn := range p.Funcs() {
		if fn.Pkg != p.Pkg(flateRel) || fn.Name() == "reset" || (fn.Name() == "Reset" && fn.Signature.Recv() != nil) {
			continue // a reset starts a new stream: whatever the buffer held belongs to the old one
		}
		lab := newLabeler()
		for _, b := range fn.Blocks {
			for _, in := range b.Instrs {
				st, ok := in.(*ssa.Store)
				if !ok {
					continue
				}
				fa, ok := st.Addr.(*ssa.FieldAddr)
				if !ok || derefNamed(fa.X.Type()) != inf {
					continue
				}
				fname := derefStruct(fa.X.Type()).Field(fa.Field).Name()
				if fname != "bits" && fname != "bitsLen" {
					continue
				}
				if _, isK := constInt(st.Val); !isK {
					continue
				}
				n++
				key := shortFn(fn) + "|" + lab.get("const store ."+fname)
				empty := false
				for _, f := range append(dominatingFacts(st), p.helperPostFacts(st)...) {
					if f.Y == nil {
						continue
					}
					// bitsLen == 0, or bitsLen < 0 / <= 0 (the parser ran past its input: no whole byte is held)
					okOp := f.Op == token.EQL
					if k0, isK0 := constInt(f.Y); isK0 && k0 == 0 && (f.Op == token.LSS || f.Op == token.LEQ) {
						okOp = true
					}
					if !okOp {
						continue
					}
					for _, pair := range [][2]ssa.Value{{f.X, f.Y}, {f.Y, f.X}} {
						if k, isK := constInt(pair[1]); isK && k == 0 {
							if ld, ok := pair[0].(*ssa.UnOp); ok && ld.Op == token.MUL {
								if fa2, ok := ld.X.(*ssa.FieldAddr); ok && derefNamed(fa2.X.Type()) == inf && derefStruct(fa2.X.Type()).Field(fa2.Field).Name() == "bitsLen" {
									empty = true
								}
							}
						}
					}
				}
				r.Check(empty, "R05.4", key, p.InstrPos(st), "the bit buffer is overwritten with a constant only where it is known to be empty", "bits still held (look-ahead bytes already taken from the source) can be discarded here: the source ends up positioned too far")
			}
		}
	}
	if n == 0 {
		r.OK("R05.4", "no-constant-stores", "-", "no constant store to inflate.bits/bitsLen outside reset")
	}
}

// R09.3: Accumulate's trigger compares the cursor with the very bound of the copy.
func ruleR09_3(p *Program, r *Report) {
	r.Expect("R09.3", 2)
	for _, tr := range p.CompressorTypes() {
		fn := tr.Ops["Accumulate"]
		if fn == nil {
			continue
		}
		key := shortFn(fn) + "|trigger at the copy bound"
		// copy(buffer[cursor:bound], data)
		var bound ssa.Value
		cursorSel := ""
		for _, c := range allCalls(fn) {
			if bi, ok := c.Common().Value.(*ssa.Builtin); ok && bi.Name() == "copy" && c.Common().Args[1] == ssa.Value(fn.Params[1]) {
				if sl, ok := c.Common().Args[0].(*ssa.Slice); ok && sl.High != nil && sl.Low != nil {
					bound = sl.High
					if _, sel, ok := fieldLoad(stripConv(sl.Low)); ok {
						cursorSel = sel
					}
				}
			}
		}
		if bound == nil || cursorSel == "" {
			r.Undecided("R09.3", key, p.Pos(fn.Pos()), "Accumulate copies into buffer[cursor:bound]", "copy shape not recognised")
			continue
		}
		lb := linearize(bound)
		if !lb.ok {
			r.Undecided("R09.3", key, p.Pos(fn.Pos()), "the copy bound has a linear normal form", bound.String())
			continue
		}
		// the trigger: the If whose edges lead to returns with different constant trigger results
		good, seen := false, false
		why := "no comparison of the cursor with the copy bound decides the trigger"
		// candidate comparisons: (a) the If whose edges lead to returns with different constant
		// trigger results, (b) a comparison returned directly as the trigger (`return n, cursor == bound`)
		var cands []*ssa.BinOp
		for _, b := range fn.Blocks {
			iff, ok := b.Instrs[len(b.Instrs)-1].(*ssa.If)
			if !ok {
				continue
			}
			bo, ok := iff.Cond.(*ssa.BinOp)
			if !ok {
				continue
			}
			trig := map[bool]bool{}
			for k, s := range b.Succs {
				for _, in := range s.Instrs {
					if ret, ok := in.(*ssa.Return); ok && len(ret.Results) == 2 {
						if v, isB := constBool(ret.Results[1]); isB {
							trig[k == 0] = v
						}
					}
				}
			}
			if len(trig) == 0 {
				continue
			}
			cands = append(cands, bo)
		}
		for _, b := range fn.Blocks {
			for _, in := range b.Instrs {
				if ret, ok := in.(*ssa.Return); ok && len(ret.Results) == 2 {
					if bo, ok := ret.Results[1].(*ssa.BinOp); ok {
						cands = append(cands, bo)
					}
				}
			}
		}
		for _, bo := range cands {
			// normalise: cursor (op) bound  <=>  lhs - rhs (op) 0
			l := linearize(bo.X)
			rr := linearize(bo.Y)
			if !l.ok || !rr.ok {
				continue
			}
			diff := map[string]int64{}
			for k, v := range l.terms {
				diff[k] += v
			}
			for k, v := range rr.terms {
				diff[k] -= v
			}
			kdiff := l.k - rr.k
			if diff[cursorSel] == 0 {
				continue
			}
			seen = true
			// expected: cursor - bound with constant 0 and op in {<, ==, >=, !=}
			wantTerms := map[string]int64{cursorSel: 1}
			for k, v := range lb.terms {
				wantTerms[k] -= v
			}
			sign := int64(1)
			if diff[cursorSel] < 0 {
				sign = -1
			}
			match := true
			for k, v := range wantTerms {
				if diff[k]*sign != v {
					match = false
				}
			}
			for k, v := range diff {
				if v != 0 && wantTerms[k] != v*sign {
					match = false
				}
			}
			kk := kdiff*sign + lb.k
			okOp := false
			switch bo.Op {
			case token.LSS, token.GEQ, token.EQL, token.NEQ, token.GTR, token.LEQ:
				// cursor - bound + kk (op) 0 ; exactness requires the threshold to be the bound itself
				if (bo.Op == token.LSS || bo.Op == token.GEQ || bo.Op == token.EQL || bo.Op == token.NEQ) && kk == 0 {
					okOp = true
				}
				if (bo.Op == token.LEQ || bo.Op == token.GTR) && ((sign == 1 && kk == 1) || (sign == -1 && kk == -1)) {
					okOp = true // cursor <= bound-1
				}
			}
			if match && okOp {
				good = true
			} else {
				why = "the trigger compares " + l.String() + " " + bo.Op.String() + " " + rr.String() + ", which is not 'cursor reaches " + lb.String() + "' (the bound of the copy)"
			}
		}
		if !seen {
			why = "no branch on the cursor decides the trigger"
		}
		r.Check(good, "R09.3", key, p.Pos(fn.Pos()), "the trigger fires exactly when the accumulation cursor "+cursorSel+" reaches the bound of the copy", why)
	}
}

// pureExprResult: the call is to a method that takes only its receiver and whose body is one block computing one result
// from loads of the receiver's fields and constants (no calls, no stores): it returns that result expression.
func pureExprResult(c *ssa.Call) ssa.Value {
	h := c.Common().StaticCallee()
	if h == nil || h.Blocks == nil || len(h.Blocks) != 1 || h.Signature.Recv() == nil || len(h.Params) != 1 {
		return nil
	}
	var res ssa.Value
	for _, in := range h.Blocks[0].Instrs {
		switch x := in.(type) {
		case *ssa.FieldAddr, *ssa.BinOp, *ssa.Convert, *ssa.ChangeType, *ssa.Field:
		case *ssa.UnOp:
			if x.Op == token.ARROW {
				return nil
			}
		case *ssa.DebugRef:
		case *ssa.Return:
			if len(x.Results) != 1 {
				return nil
			}
			res = x.Results[0]
		default:
			return nil
		}
	}
	return res
}

// ioReaderIface: the io.Reader interface type as the loaded program knows it.
func ioReaderIface(p *Program) *types.Interface {
	for _, sp := range p.Prog.AllPackages() {
		if sp.Pkg.Path() == "io" {
			if o := sp.Pkg.Scope().Lookup("Reader"); o != nil {
				if it, ok := o.Type().Underlying().(*types.Interface); ok {
					return it
				}
			}
		}
	}
	return types.NewInterfaceType(nil, nil)
}

// readFullLike: f is a repository function that fills a []byte parameter by calling Read on an io.Reader parameter
// (the package's own io.ReadFull); it returns the index of the []byte parameter, or -1.
func readFullLike(f *ssa.Function) int {
	if f == nil || f.Blocks == nil || f.Signature.Recv() != nil {
		return -1
	}
	bufIdx := -1
	var rd *ssa.Parameter
	for i, par := range f.Params {
		if sl, ok := par.Type().Underlying().(*types.Slice); ok {
			if b, ok := sl.Elem().Underlying().(*types.Basic); ok && b.Kind() == types.Uint8 {
				bufIdx = i
			}
		}
		if _, ok := par.Type().Underlying().(*types.Interface); ok {
			rd = par
		}
	}
	if bufIdx < 0 || rd == nil {
		return -1
	}
	for _, c := range allCalls(f) {
		com := c.Common()
		if com.IsInvoke() && com.Method.Name() == "Read" && com.Value == ssa.Value(rd) {
			return bufIdx
		}
	}
	return -1
}

package main

// C15 - failing source: the source's error is propagated unchanged and sticks.

import (
	"go/token"
	"go/types"
	"strings"

	"golang.org/x/tools/go/ssa"
)

func init() {
	register(&PropSpec{
		ID: "C15",
		Rules: []Rule{
			{ID: "R15.1", Configs: "all", Run: ruleR15_1},
			{ID: "R15.2", Configs: "all", Run: ruleR15_2},
		},
		Explanation: "Decides, for every call that acquires bytes from the source in flate, gzip and zlib (Peek, Discard, ReadByte, io.ReadFull, the inner inflater's Read, and repository functions reaching them): on every path on which the call's error is neither nil nor io.EOF (bufio.ErrBufferFull is not exempt: no Peek in these packages can exceed bufio's minimum buffer, so that value can only be the source's own), the first thing that happens is a return of that same value (through pass-through helpers such as noEOF) or its storage in the sticky field, before any other source call, and the sticky field is not overwritten with a different value afterwards (R15.1); " +
			"and every Read method tests the sticky field before any source call and records the inflater's result in it (R15.2). Decided by SSA value tracking with branch refinement on comparisons against nil/io.EOF; nothing is executed.",
		NotDecided: []string{
			"every byte returned before the error is a correct prefix of the decompressed data (decode correctness, C02)",
			"behaviour of bufio.Reader itself when the underlying reader fails (trusted: returns the reader's error)",
		},
	})
}

func srcDirect(ci CallInfo) (bool, string) {
	ok, what := directSrc(ci)
	if ok && ci.IfaceM != nil {
		ts := typeString(ci.Recv.Type())
		switch ts {
		case "io.Reader", "io.ReadCloser", "compress/flate.Reader", "io.ByteReader":
		default:
			return false, ""
		}
	}
	return ok, what
}

var srcSetCache = map[*Program]map[*ssa.Function]bool{}

func (p *Program) SrcSet() map[*ssa.Function]bool {
	if m, ok := srcSetCache[p]; ok {
		return m
	}
	m := p.reachSet(srcDirect)
	srcSetCache[p] = m
	return m
}

func (p *Program) isSrcCall(c ssa.CallInstruction) (bool, string) {
	if c.Parent() != nil && peekBuffered(c.Parent(), c) {
		// Peek(Buffered()) returns what is already buffered and never reaches the underlying reader
		return false, ""
	}
	return p.touchCall(c, srcDirect, p.SrcSet())
}

func readerPkg(fn *ssa.Function) bool {
	if fn.Pkg == nil {
		return false
	}
	path := fn.Pkg.Pkg.Path()
	return path == modPath+"/compress/flate" || path == modPath+"/compress/gzip" || path == modPath+"/compress/zlib"
}

// peekBuffered: c is rb.Peek(rb.Buffered()) on the same bufio.Reader - cannot fail by bufio's contract.
func peekBuffered(fn *ssa.Function, c ssa.CallInstruction) bool {
	f := c.Common().StaticCallee()
	if !isMethodOf(f, "bufio", "Reader", "Peek") {
		return false
	}
	args := c.Common().Args
	arg, ok := args[1].(*ssa.Call)
	if !ok || !isMethodOf(arg.Common().StaticCallee(), "bufio", "Reader", "Buffered") {
		return false
	}
	return arg.Common().Args[0] == args[0] || sameLocationLoad(fn, arg.Common().Args[0], args[0]) || sameLocationLoad(fn, args[0], arg.Common().Args[0])
}

func ruleR15_1(p *Program, r *Report) {
	r.Expect("R15.1", 14)
	roles := map[*types.Named]*TypeRole{}
	for _, tr := range p.ReaderTypes() {
		roles[tr.Named] = tr
	}
	for _, fn := range p.Funcs() {
		if !readerPkg(fn) || !p.SrcSet()[fn] {
			continue
		}
		var tr *TypeRole
		var recv ssa.Value
		if fn.Signature.Recv() != nil {
			tr = roles[derefNamed(fn.Signature.Recv().Type())]
			recv = fn.Params[0]
		}
		lab := newLabeler()
		for _, c := range allCalls(fn) {
			ok, what := p.isSrcCall(c)
			if !ok {
				continue
			}
			key := shortFn(fn) + "|" + lab.get(calleeLabel(c))
			if _, has := hasErrorResult(c); !has {
				continue
			}
			desc := "a source error from " + what + " (not nil/io.EOF) is returned unchanged or recorded before anything else happens"
			if len(errorResults(c)) == 0 {
				if peekBuffered(fn, c) {
					r.OK("R15.1", key, p.InstrPos(c), desc+" [Peek(Buffered()) cannot fail: it asks for what is already buffered]")
				} else {
					r.Fail("R15.1", key, p.InstrPos(c), desc, "the error result is discarded")
				}
				continue
			}
			t := NewErrTrack(p, fn, c, KindOtherError, tr)
			isRecorded := func(in ssa.Instruction) bool {
				st, ok := in.(*ssa.Store)
				if !ok || !t.Carriers[st.Val] {
					return false
				}
				if tr == nil || tr.Sticky == "" {
					return false
				}
				return isStickyStore(st, recv, tr.Sticky)
			}
			bad := func(in ssa.Instruction) bool {
				switch x := in.(type) {
				case *ssa.Return:
					e := returnErr(x)
					return e == nil || !t.Carriers[e]
				case ssa.CallInstruction:
					d, _ := p.isSrcCall(x)
					return d
				case *ssa.Panic:
					return true
				}
				return false
			}
			good := func(in ssa.Instruction) bool {
				if ret, ok := in.(*ssa.Return); ok {
					e := returnErr(ret)
					return e != nil && t.Carriers[e]
				}
				return isRecorded(in)
			}
			found, hit, path := t.Find(bad, good)
			if found {
				r.Fail("R15.1", key, p.InstrPos(c), desc, "on a failure path (blocks "+fmtInts(path)+") "+describeInstr(p, hit)+" is reached first: the source's error is lost or replaced")
				continue
			}
			// after recording, the sticky field must not be overwritten with something else on these paths
			over := false
			if tr != nil && tr.Sticky != "" {
				for _, b := range fn.Blocks {
					for _, in := range b.Instrs {
						if !isRecorded(in) || !t.inReach(in) {
							continue
						}
						f2, hit2, _ := PathQuery{Start: in, EdgeOK: t.EdgeOK, Target: func(x ssa.Instruction) bool {
							st, ok := x.(*ssa.Store)
							return ok && isStickyStore(st, recv, tr.Sticky) && !t.Carriers[st.Val]
						}}.Find(fn)
						if f2 {
							over = true
							r.Fail("R15.1", key, p.InstrPos(c), desc, "the recorded error is overwritten at "+p.InstrPos(hit2)+" on a failure path")
						}
					}
				}
			}
			if !over {
				r.OK("R15.1", key, p.InstrPos(c), desc)
			}
		}
	}
}

func describeInstr(p *Program, in ssa.Instruction) string {
	switch x := in.(type) {
	case *ssa.Return:
		e := returnErr(x)
		return "the return at " + p.InstrPos(in) + " (error operand: " + describeValue(e) + ")"
	case ssa.CallInstruction:
		return "the call " + calleeLabel(x) + " at " + p.InstrPos(in)
	}
	return strings.TrimSpace(in.String()) + " at " + p.InstrPos(in)
}

func ruleR15_2(p *Program, r *Report) {
	r.Expect("R15.2", 6)
	for _, tr := range p.ReaderTypes() {
		if !readerPkg(tr.Ops["Read"]) {
			continue
		}
		fn := tr.Ops["Read"]
		recv := fn.Params[0]
		if tr.Sticky == "" {
			r.Fail("R15.2", shortFn(fn)+"|sticky-field", p.Pos(fn.Pos()), "Reader type has exactly one field of type error", "none or several")
			continue
		}
		lab := newLabeler()
		for _, c := range allCalls(fn) {
			ok, what := p.isSrcCall(c)
			if !ok {
				continue
			}
			key := shortFn(fn) + "|" + lab.get(calleeLabel(c))
			guarded := false
			for _, f := range dominatingFacts(c) {
				if f.Op == token.EQL && f.Y != nil && ((isStickyLoad(f.X, recv, tr.Sticky) && isNil(f.Y)) || (isStickyLoad(f.Y, recv, tr.Sticky) && isNil(f.X))) {
					guarded = true
				}
			}
			// later source calls in the same Read may instead be guarded by the sticky value just stored (== io.EOF path)
			if !guarded {
				for _, f := range dominatingFacts(c) {
					if f.Op == token.EQL && f.Y != nil && ((isStickyLoad(f.X, recv, tr.Sticky) && isSentinel(f.Y, "io", "EOF")) || (isStickyLoad(f.Y, recv, tr.Sticky) && isSentinel(f.X, "io", "EOF"))) {
						guarded = true
					}
				}
			}
			r.Check(guarded, "R15.2", key, p.InstrPos(c), "source call ("+what+") in Read happens only behind a test of the sticky error", "Read can touch the source again after an error was recorded")
		}
		// the inner read's error is stored in the sticky field
		for _, c := range allCalls(fn) {
			if ok, _ := p.isSrcCall(c); !ok {
				continue
			}
			ci := callInfo(c)
			inner := ci.IfaceM != nil && ci.IfaceM.Name() == "Read"
			if f := ci.Static; f != nil && f == p.Method(flateRel, "decompressor", "step") {
				inner = true
			}
			if !inner {
				continue
			}
			t := NewErrTrack(p, fn, c, KindNonNil, tr)
			r.Check(t.StoredTo(recv, "."+tr.Sticky), "R15.2", shortFn(fn)+"|record "+calleeLabel(c), p.InstrPos(c), "the inflater's error is recorded in ."+tr.Sticky, "not stored: a later Read would touch the failed source again")
		}
		// every failing source call of Read is recorded before Read returns it (so the next Read replays it)
		lab2 := newLabeler()
		for _, c := range allCalls(fn) {
			if ok, _ := p.isSrcCall(c); !ok {
				continue
			}
			key := shortFn(fn) + "|sticky " + lab2.get(calleeLabel(c))
			if len(errorResults(c)) == 0 {
				continue
			}
			if recordsItself(tr, c) {
				r.OK("R15.2", key, p.InstrPos(c), "a helper on the same receiver whose every non-nil result is the value it has just stored in ."+tr.Sticky)
				continue
			}
			t := NewErrTrack(p, fn, c, KindNonNil, tr)
			isRet := func(in ssa.Instruction) bool {
				ret, ok := in.(*ssa.Return)
				if !ok {
					return false
				}
				e := returnErr(ret)
				return e != nil && !isNil(e)
			}
			rec := func(in ssa.Instruction) bool {
				st, ok := in.(*ssa.Store)
				return ok && isStickyStore(st, recv, tr.Sticky) && !isNil(st.Val)
			}
			found, hit, path := t.Find(isRet, rec)
			if found {
				r.Fail("R15.2", key, p.InstrPos(c), "a failure of this source call is recorded in ."+tr.Sticky+" before Read returns an error", "the return at "+p.InstrPos(hit)+" is reached (blocks "+fmtInts(path)+") without recording: the next Read would not repeat the error")
			} else {
				r.OK("R15.2", key, p.InstrPos(c), "a failure of this source call is recorded in ."+tr.Sticky+" before Read returns an error")
			}
		}
	}
}

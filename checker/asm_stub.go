package main

func asmRuleR17_3(p *Program, r *Report) {
	r.Note("R17.3 pending: assembly front end")
}

func asmRuleR03_5(p *Program, r *Report) {
	r.Note("R03.5 pending: assembly front end")
}

package main

func asmRuleR17_3(p *Program, r *Report) {
	r.Note("R17.3 pending: assembly front end")
}

package main

// C10 - Flush makes everything written so far decodable: block framing rules R10.1 - R10.6.

import (
	"go/token"
	"go/types"
	"strings"

	"golang.org/x/tools/go/ssa"
)

const deflRel = "compress/flate/internal/deflate"

func init() {
	register(&PropSpec{
		ID: "C10",
		Rules: []Rule{
			{ID: "R10.1", Configs: "all", Run: ruleR10_1},
			{ID: "R10.2", Configs: "all", Run: ruleR10_2},
			{ID: "R10.3", Configs: "all", Run: ruleR10_3},
			{ID: "R10.4", Configs: "all", Run: ruleR10_4},
			{ID: "R10.5", Configs: "all", Run: ruleR10_5},
			{ID: "R10.6", Configs: "all", Run: ruleR10_6},
			{ID: "R10.7", Configs: "all", Run: ruleR10_7},
		},
		Explanation: "Decides the block-framing discipline that makes a flushed prefix decodable, on every path of the two accelerated compressors in both dispatch arms: (R10.1) the bit buffer is padded to a byte boundary only inside the empty-stored-block writers (after their 3-bit header) or under the very value that was passed as the final-block flag to the header writer; " +
			"(R10.2) every path that writes a block header reaches an end-of-block emission (the end-of-block token appended before the header, or an encoder call inside a loop that provably runs at least once); (R10.3) every success path of a compressor's Flush passes, in this order, the encoding of pending input, the empty-stored-block writer and a destination write of exactly buf.output[:buf.idx], and the API-level Flush methods reach it; " +
			"(R10.4) Flush and Close pass constant true as the flush flag and every generate hands its flag (or true) to the match finder; (R10.5) the marker is 3 header bits, padding, 00 00 ff ff; (R10.6) the final flag is 5 vs 4 under the eos parameter, Compress/Flush pass false, Close true, and the empty final stored block is written only under the final flag; (R10.7) in a block function that runs the match finder, every path on which the flush flag is true goes on to encode a block before it reports success (pending tokens are emitted even when no new input was consumed).",
		NotDecided: []string{
			"bit-exact content of Huffman-coded blocks and headers (arithmetic)",
			"that the decoder reproduces the data (C01/C02)",
			"inside the encoders: that the end-of-block code is emitted exactly when the last token/byte has been consumed",
		},
	})
}

func staticCalleeNamed(c ssa.CallInstruction, rel, typ, name string) bool {
	f := c.Common().StaticCallee()
	if f == nil {
		return false
	}
	if f.Name() != name {
		// the anchor may have been renamed: compare with the function that has its recorded shape
		if activeProg == nil || !activeProg.InRepo(f) {
			return false
		}
		if typ == "" {
			if activeProg.Pkg(rel) == nil || activeProg.Pkg(rel).Func(name) != nil {
				return false
			}
		} else if activeProg.methodByName(rel, typ, name) != nil {
			return false
		}
		return activeProg.resolveRenamed(rel, typ, name) == f
	}
	if typ == "" {
		return isFunc(f, modPath+"/"+rel, name)
	}
	return isMethodOf(f, modPath+"/"+rel, typ, name)
}

// factTrue: among facts, is value v asserted true?
func assertedTrue(facts []Fact, v ssa.Value) bool {
	for _, f := range facts {
		if f.Y == nil && f.Op == token.EQL && f.X == v {
			return true
		}
	}
	return false
}

// headerPrecedes: the instruction `at` in the BitBuf method fn is dominated by a WriteBit(_, 3); or fn
// is a helper all of whose call sites (in BitBuf methods) are.
func headerPrecedes(p *Program, fn *ssa.Function, at ssa.Instruction, depth int) bool {
	for _, o := range allCalls(fn) {
		if staticCalleeNamed(o, deflRel, "BitBuf", "WriteBit") && dominatesInstr(o, at) {
			if k, isK := constInt(o.Common().Args[2]); isK && k == 3 {
				return true
			}
		}
	}
	if depth >= 2 {
		return false
	}
	sites := 0
	for _, g := range p.Funcs() {
		for _, cc := range allCalls(g) {
			if cc.Common().StaticCallee() != fn {
				continue
			}
			sites++
			if g.Signature.Recv() == nil || !isNamedType(g.Signature.Recv().Type(), modPath+"/"+deflRel, "BitBuf") || !headerPrecedes(p, g, cc, depth+1) {
				return false
			}
		}
	}
	return sites > 0
}

func ruleR10_1(p *Program, r *Report) {
	r.Expect("R10.1", 3) // one stored-block writer (possibly shared by both markers) and the two level compressors
	n := 0
	for _, fn := range p.Funcs() {
		lab := newLabeler()
		for _, c := range allCalls(fn) {
			if !staticCalleeNamed(c, deflRel, "BitBuf", "flushLastByte") {
				continue
			}
			n++
			key := shortFn(fn) + "|" + lab.get("flushLastByte")
			desc := "the bit buffer is padded to a byte boundary only inside an empty stored block or when the block just written is the final one"
			// (a) inside a BitBuf method, after a 3-bit header write
			if fn.Signature.Recv() != nil && isNamedType(fn.Signature.Recv().Type(), modPath+"/"+deflRel, "BitBuf") {
				ok := headerPrecedes(p, fn, c, 0)
				r.Check(ok, "R10.1", key, p.InstrPos(c), desc+" [stored-block writer: 3-bit block header precedes the padding]", "no dominating WriteBit(_, 3), here or at every call site of this helper")
				continue
			}
			// (b) under the eos value handed to the header writer in this function
			var eos []ssa.Value
			for _, o := range allCalls(fn) {
				if staticCalleeNamed(o, deflRel, "dynamicHeader", "writeTo") {
					eos = append(eos, o.Common().Args[2])
				}
			}
			if len(eos) == 0 {
				// a helper: the padding is under one of its parameters, and every call site passes for that parameter
				// the very value its own function hands to writeTo as eos
				okHelper := false
				facts := dominatingFacts(c)
				for i, prm := range fn.Params {
					if !assertedTrue(facts, prm) {
						continue
					}
					sites, good := 0, true
					for _, g := range p.Funcs() {
						for _, cc := range allCalls(g) {
							if cc.Common().StaticCallee() != fn || i >= len(cc.Common().Args) {
								continue
							}
							sites++
							match := false
							for _, o := range allCalls(g) {
								if staticCalleeNamed(o, deflRel, "dynamicHeader", "writeTo") && o.Common().Args[2] == cc.Common().Args[i] {
									match = true
								}
							}
							if !match {
								good = false
							}
						}
					}
					if sites > 0 && good {
						okHelper = true
					}
				}
				if okHelper {
					r.OK("R10.1", key, p.InstrPos(c), desc+" [helper: guarded by a parameter that every caller binds to the eos value it passes to dynamicHeader.writeTo]")
				} else {
					r.Fail("R10.1", key, p.InstrPos(c), desc, "padding in a function that writes no block header: nothing ties it to the end of the stream")
				}
				continue
			}
			facts := dominatingFacts(c)
			ok := false
			for _, e := range eos {
				if assertedTrue(facts, e) {
					ok = true
				}
			}
			r.Check(ok, "R10.1", key, p.InstrPos(c), desc+" [guarded by the value passed as eos to dynamicHeader.writeTo]", "the padding is not control dependent on the final-block flag of this block: a non-final block would be followed by padding bits in the middle of the stream")
		}
	}
	if n == 0 {
		r.Undecided("R10.1", "anchor:flushLastByte", "-", "aligner call sites exist", "none found")
	}
}

// eobEncoder: does fn (transitively, depth 3) contain a call hist.litCode(256)?
func (p *Program) emitsEOB(fn *ssa.Function, depth int, seen map[*ssa.Function]bool) bool {
	if fn == nil || seen[fn] || depth > 3 {
		return false
	}
	seen[fn] = true
	for _, c := range allCalls(fn) {
		if staticCalleeNamed(c, deflRel, "histogram", "litCode") {
			if k, ok := constInt(c.Common().Args[1]); ok && k == 256 {
				return true
			}
		}
		cs, _ := p.Callees(c)
		for _, g := range cs {
			if g.Blocks != nil && p.emitsEOB(g, depth+1, seen) {
				return true
			}
		}
	}
	return false
}

func ruleR10_2(p *Program, r *Report) {
	r.Expect("R10.2", 2)
	eobG := p.Global(deflRel, "endOfBlock")
	for _, fn := range p.Funcs() {
		for _, c := range allCalls(fn) {
			if !staticCalleeNamed(c, deflRel, "dynamicHeader", "writeTo") {
				continue
			}
			key := shortFn(fn) + "|writeTo"
			desc := "every block whose header is written gets its end-of-block code"
			recv := fn.Params[0]
			// (i) the end-of-block token is appended to the token list before the header is written
			okAppend := false
			for _, o := range allCalls(fn) {
				bi, isB := o.Common().Value.(*ssa.Builtin)
				if !isB || bi.Name() != "append" || !dominatesInstr(o, c) {
					continue
				}
				for _, a := range o.Common().Args[1:] {
					for _, leaf := range p.valueSources(a) {
						if sl, ok := leaf.(*ssa.Slice); ok {
							// variadic: new [1]token{endOfBlock}[:]
							if al, ok := sl.X.(*ssa.Alloc); ok {
								if refs := al.Referrers(); refs != nil {
									for _, u := range *refs {
										if ia, ok := u.(*ssa.IndexAddr); ok {
											if r2 := ia.Referrers(); r2 != nil {
												for _, u2 := range *r2 {
													if st, ok := u2.(*ssa.Store); ok && globalLoad(st.Val) == eobG && eobG != nil {
														okAppend = true
													}
												}
											}
										}
									}
								}
							}
						}
					}
				}
				if okAppend {
					// the result must be stored in the list the encode loop consumes
					stored := false
					if val := o.Value(); val != nil && val.Referrers() != nil {
						for _, u := range *val.Referrers() {
							if st, ok := u.(*ssa.Store); ok {
								if root, _ := accessPath(st.Addr); root == recv {
									stored = true
								}
							}
						}
					}
					okAppend = stored
				}
			}
			if okAppend && eobG != nil {
				// and endOfBlock really is symbol 256
				if !p.globalInitIs(eobG, "newToken", 256) {
					r.Fail("R10.2", key, p.InstrPos(c), desc, "endOfBlock is not initialised as newToken(256, ...)")
					continue
				}
				r.OK("R10.2", key, p.InstrPos(c), desc+" [endOfBlock token appended to the list before the header is written]")
				continue
			}
			// (ii) an encoder that emits litCode(256) is called on every path from the header to a success return,
			// zero-trip loop exits excluded only where the loop provably runs
			isEnc := func(in ssa.Instruction) bool {
				cc, ok := in.(ssa.CallInstruction)
				if !ok || cc == c {
					return false
				}
				cs, _ := p.Callees(cc)
				for _, g := range cs {
					if g.Blocks != nil && p.emitsEOB(g, 0, map[*ssa.Function]bool{}) {
						return true
					}
				}
				return false
			}
			edgeOK := func(a, b *ssa.BasicBlock) bool {
				return !p.provablyEnteredLoopExit(fn, a, b, c)
			}
			succ := func(in ssa.Instruction) bool {
				ret, ok := in.(*ssa.Return)
				if !ok {
					return false
				}
				e := returnErr(ret)
				return e == nil || p.mayBeNil(fn, e, ret)
			}
			found, hit, path := PathQuery{Start: c, Target: succ, Barrier: isEnc, EdgeOK: edgeOK}.Find(fn)
			if found {
				r.Fail("R10.2", key, p.InstrPos(c), desc, "the success return at "+p.InstrPos(hit)+" is reachable from the header (blocks "+fmtInts(path)+") without any call that emits the end-of-block code (a loop that may run zero times does not count)")
			} else {
				r.OK("R10.2", key, p.InstrPos(c), desc+" [encoder emitting litCode(256) on every path; its loop runs at least once]")
			}
		}
	}
}

// globalInitIs: g's initialiser is a call of function fname whose first argument is constant k.
func (p *Program) globalInitIs(g *ssa.Global, fname string, k int64) bool {
	for _, fn := range p.Funcs() {
		for _, b := range fn.Blocks {
			for _, in := range b.Instrs {
				st, ok := in.(*ssa.Store)
				if !ok || st.Addr != ssa.Value(g) {
					continue
				}
				c, ok := st.Val.(*ssa.Call)
				if !ok {
					return false
				}
				f := c.Common().StaticCallee()
				if f == nil || (f.Name() != fname && f != p.Func(deflRel, fname)) {
					return false
				}
				v, ok := constInt(c.Common().Args[0])
				return ok && v == k
			}
		}
	}
	return false
}

// provablyEnteredLoopExit: edge a->b leaves a loop whose guard is `i < recv.F` with i starting at 0, at a
// point where recv.F != 0 is known (dominating fact, no write to F since), i.e. the loop body runs at least once.
func (p *Program) provablyEnteredLoopExit(fn *ssa.Function, a, b *ssa.BasicBlock, after ssa.Instruction) bool {
	br, ok := edgeCond(a, b)
	if !ok {
		return false
	}
	f, ok := branchFact(br)
	if !ok || f.Y == nil || f.Op != token.GEQ {
		return false // exit edge of `i < n` asserts i >= n
	}
	phi, ok := f.X.(*ssa.Phi)
	if !ok || phi.Block() != a {
		return false
	}
	zeroInit := false
	for _, e := range phi.Edges {
		if k, ok := constInt(e); ok && k == 0 {
			zeroInit = true
		}
	}
	if !zeroInit {
		return false
	}
	if _, _, ok := fieldLoad(f.Y); !ok {
		return false
	}
	iff := a.Instrs[len(a.Instrs)-1]
	for _, df := range dominatingFacts(iff) {
		if df.Y == nil {
			continue
		}
		// recv.F != 0, recv.F > 0, recv.F >= k (k >= 1), also with the operands swapped
		k, isK := constInt(df.Y)
		if isK && sameLocationLoad(fn, df.X, f.Y) {
			if (df.Op == token.NEQ && k == 0) || (df.Op == token.GTR && k >= 0) || (df.Op == token.GEQ && k >= 1) {
				return true
			}
		}
		k2, isK2 := constInt(df.X)
		if isK2 && sameLocationLoad(fn, df.Y, f.Y) {
			if (df.Op == token.NEQ && k2 == 0) || (df.Op == token.LSS && k2 >= 0) || (df.Op == token.LEQ && k2 >= 1) {
				return true
			}
		}
	}
	return false
}

func ruleR10_3(p *Program, r *Report) {
	r.Expect("R10.3", 5)
	for _, tr := range p.CompressorTypes() {
		fn := tr.Ops["Flush"]
		if fn == nil {
			continue
		}
		recv := fn.Params[0]
		key := shortFn(fn)
		// handOver: a call to a method of the same receiver that does nothing but hand buf.output[:buf.idx] to the
		// destination (the Write extracted into a helper): it is the write, not an encode step
		handOver := func(in ssa.Instruction) bool {
			c, ok := in.(ssa.CallInstruction)
			if !ok {
				return false
			}
			h := c.Common().StaticCallee()
			if h == nil || h.Blocks == nil || h.Signature.Recv() == nil || len(c.Common().Args) == 0 || c.Common().Args[0] != ssa.Value(recv) {
				return false
			}
			return isPureHandOver(h)
		}
		isEncode := func(in ssa.Instruction) bool {
			c, ok := in.(ssa.CallInstruction)
			if !ok || handOver(in) {
				return false
			}
			f := c.Common().StaticCallee()
			return f != nil && f.Blocks != nil && f.Signature.Recv() != nil && len(c.Common().Args) > 0 && c.Common().Args[0] == ssa.Value(recv) && p.DstSet()[f]
		}
		directMarker := func(in ssa.Instruction) bool {
			c, ok := in.(ssa.CallInstruction)
			return ok && staticCalleeNamed(c, deflRel, "BitBuf", "writeEmptyBlock")
		}
		var isWrite func(in ssa.Instruction) bool
		// tailHelper: a call to a method of the same receiver whose every path writes the marker and then hands the
		// buffer to the destination (the tail of Flush moved into a helper): counts as marker and as write
		tailHelper := func(in ssa.Instruction) bool {
			c, ok := in.(ssa.CallInstruction)
			if !ok {
				return false
			}
			h := c.Common().StaticCallee()
			if h == nil || h.Blocks == nil || h == fn || h.Signature.Recv() == nil || len(c.Common().Args) == 0 || c.Common().Args[0] != ssa.Value(recv) {
				return false
			}
			var ms []ssa.Instruction
			for _, b := range h.Blocks {
				for _, x := range b.Instrs {
					if directMarker(x) {
						ms = append(ms, x)
					}
				}
			}
			if len(ms) == 0 {
				return false
			}
			isRet := func(x ssa.Instruction) bool { _, ok := x.(*ssa.Return); return ok }
			if f, _, _ := (PathQuery{Target: isRet, Barrier: directMarker}).Find(h); f {
				return false // a path through the helper without the marker
			}
			for _, m := range ms {
				if f, _, _ := (PathQuery{Start: m, Target: isRet, Barrier: isWrite}).Find(h); f {
					return false
				}
			}
			return true
		}
		isMarker := func(in ssa.Instruction) bool { return directMarker(in) || tailHelper(in) }
		isWrite = func(in ssa.Instruction) bool {
			if tailHelper != nil && in.Parent() == fn && tailHelper(in) {
				return true
			}
			if in.Parent() == fn && handOver(in) {
				return true
			}
			c, ok := in.(ssa.CallInstruction)
			if !ok {
				return false
			}
			if d, _ := dstDirect(callInfo(c)); !d {
				return false
			}
			args := c.Common().Args
			if len(args) == 0 {
				return false
			}
			sl, ok := args[len(args)-1].(*ssa.Slice)
			if !ok || sl.Low != nil || sl.High == nil {
				return false
			}
			_, selX := accessPath(sl.X)
			_, selH, okH := fieldLoad(sl.High)
			return okH && selX == ".buf.output" && selH == ".buf.idx"
		}
		succ := func(in ssa.Instruction) bool {
			ret, ok := in.(*ssa.Return)
			if !ok {
				return false
			}
			e := returnErr(ret)
			return e == nil || p.mayBeNil(fn, e, ret)
		}
		// step 1: entry -> success return must pass an encode call
		why := ""
		var encCalls, markers []ssa.Instruction
		for _, b := range fn.Blocks {
			for _, in := range b.Instrs {
				if isEncode(in) && !tailHelper(in) {
					encCalls = append(encCalls, in)
				}
				if isMarker(in) {
					markers = append(markers, in)
				}
			}
		}
		if f, hit, _ := (PathQuery{Target: succ, Barrier: func(in ssa.Instruction) bool { return isEncode(in) && !tailHelper(in) }}).Find(fn); f {
			why = "success return at " + p.InstrPos(hit) + " reachable without encoding the pending input"
		}
		for _, e := range encCalls {
			t := NewErrTrack(p, fn, e.(ssa.CallInstruction), KindSuccess, nil)
			if f, hit, _ := t.Find(succ, isMarker); f && why == "" {
				why = "after encoding, the success return at " + p.InstrPos(hit) + " is reachable without writing the empty stored block"
			}
		}
		for _, m := range markers {
			if tailHelper(m) {
				continue // marker and destination write are both inside the helper, in that order on all its paths
			}
			if f, hit, _ := (PathQuery{Start: m, Target: succ, Barrier: isWrite}).Find(fn); f && why == "" {
				why = "after the marker, the return at " + p.InstrPos(hit) + " is reachable without handing buf.output[:buf.idx] to the destination"
			}
		}
		if len(encCalls) == 0 || len(markers) == 0 {
			why = "encode call or marker call missing"
		}
		r.Check(why == "", "R10.3", key, p.Pos(fn.Pos()), "every success path of Flush: encode pending input, then the empty stored block, then write buf.output[:buf.idx] to the destination", why)
	}
	// API-level Flush methods reach the compressor's Flush on every success path
	for _, tr := range p.WriterTypes() {
		fn := tr.Ops["Flush"]
		key := shortFn(fn) + "|reaches compressor Flush"
		isInner := func(in ssa.Instruction) bool {
			c, ok := in.(ssa.CallInstruction)
			if !ok {
				return false
			}
			com := c.Common()
			name := ""
			if com.IsInvoke() {
				name = com.Method.Name()
			} else if f := com.StaticCallee(); f != nil && f.Signature.Recv() != nil {
				name = f.Name()
			}
			return name == "Flush"
		}
		succ := func(in ssa.Instruction) bool {
			ret, ok := in.(*ssa.Return)
			if !ok {
				return false
			}
			e := returnErr(ret)
			if e == nil || !p.mayBeNil(fn, e, ret) {
				return false
			}
			// the "already closed" early return of gzip is not a success of flushing data
			return true
		}
		closedEdge := func(a, b *ssa.BasicBlock) bool {
			// prune the edge on which a boolean closed flag is true (nothing to flush after Close)
			br, ok := edgeCond(a, b)
			if !ok {
				return true
			}
			f, ok := branchFact(br)
			if !ok {
				return true
			}
			// the edge on which the sticky error is known non-nil is a failing path whatever
			// return statement it shares with the others (switch-form Flush, one `return w.err`)
			if f.Op == token.NEQ && f.Y != nil && isNil(f.Y) && isErrorType(f.X.Type()) {
				if _, sel, ok := fieldLoad(f.X); ok && !storesNilTo(fn, sel) {
					return false
				}
			}
			if f.Y != nil || f.Op != token.EQL {
				return true
			}
			if _, sel, ok := fieldLoad(f.X); ok && sel == ".closed" {
				return false
			}
			return true
		}
		found, hit, _ := PathQuery{Target: succ, Barrier: isInner, EdgeOK: closedEdge}.Find(fn)
		why := ""
		if found {
			why = "success return at " + p.InstrPos(hit) + " reachable without flushing the compressor"
		}
		r.Check(!found, "R10.3", key, p.Pos(fn.Pos()), "Flush reaches the compressor's Flush on every success path", why)
	}
}

func ruleR10_4(p *Program, r *Report) {
	r.Expect("R10.4", 2) // flags may be passed through a forwarding helper
	// generate -> lz77: flush argument is the generate parameter or constant true
	lz := p.Func(deflRel, "lz77")
	for _, fn := range p.Funcs() {
		if fn.Name() != "generate" || fn.Signature.Recv() == nil {
			continue
		}
		lab := newLabeler()
		for _, c := range allCalls(fn) {
			if c.Common().StaticCallee() != lz || lz == nil {
				continue
			}
			a := c.Common().Args[0]
			flagOK := func(v ssa.Value) bool {
				b, isK := constBool(v)
				return v == ssa.Value(fn.Params[1]) || (isK && b)
			}
			ok := flagOK(a)
			if phi, isPhi := a.(*ssa.Phi); isPhi && !ok {
				// the flag reassigned on one path (flush = true after the assembly kernel): every edge is the parameter or true
				ok = len(phi.Edges) > 0
				for _, e := range phi.Edges {
					ok = ok && flagOK(e)
				}
			}
			r.Check(ok, "R10.4", shortFn(fn)+"|"+lab.get("lz77"), p.InstrPos(c), "generate passes its flush flag (or true) on to the match finder", "passes "+describeValue(a)+": a Flush would leave the last bytes unresolved")
		}
	}
	// the block function's flush parameter = the one handed to generate; Flush/Close pass true
	for _, tr := range p.CompressorTypes() {
		for _, opn := range []string{"Flush", "Close"} {
			fn := tr.Ops[opn]
			if fn == nil {
				continue
			}
			for _, c := range allCalls(fn) {
				g := c.Common().StaticCallee()
				if g == nil || g.Blocks == nil || g.Signature.Recv() == nil || len(c.Common().Args) == 0 || c.Common().Args[0] != ssa.Value(fn.Params[0]) {
					continue
				}
				// which parameter of g reaches generate's flush argument?
				for _, gc := range allCalls(g) {
					if !gc.Common().IsInvoke() || gc.Common().Method.Name() != "generate" {
						continue
					}
					fa := gc.Common().Args[0]
					for i, par := range g.Params {
						if fa == ssa.Value(par) {
							b, isK := constBool(c.Common().Args[i])
							r.Check(isK && b, "R10.4", shortFn(fn)+"|"+g.Name()+" flush", p.InstrPos(c), opn+" asks the block function to resolve all pending input (flush = true)", "passes "+describeValue(c.Common().Args[i]))
						}
					}
				}
			}
		}
	}
}

func ruleR10_5(p *Program, r *Report) {
	r.Expect("R10.5", 2)
	for _, t := range []struct {
		name string
		hdr  int64
	}{{"writeEmptyBlock", 0}, {"writeFinalEmptyBlock", 1}} {
		fn := p.Method(deflRel, "BitBuf", t.name)
		key := "BitBuf." + t.name
		if fn == nil {
			r.Undecided("R10.5", key, "-", "marker writer exists", "not found")
			continue
		}
		why := ""
		var hdrCall, align ssa.CallInstruction
		for _, c := range allCalls(fn) {
			if staticCalleeNamed(c, deflRel, "BitBuf", "WriteBit") {
				hdrCall = c
			}
			if staticCalleeNamed(c, deflRel, "BitBuf", "flushLastByte") {
				align = c
			}
		}
		body := fn
		if hdrCall != nil && align == nil {
			// the common tail (alignment + LEN/NLEN) may live in a helper method called on the same buffer
			for _, c := range allCalls(fn) {
				g := c.Common().StaticCallee()
				if g == nil || g.Blocks == nil || g.Signature.Recv() == nil || len(c.Common().Args) == 0 || c.Common().Args[0] != ssa.Value(fn.Params[0]) || !dominatesInstr(hdrCall, c) {
					continue
				}
				for _, gc := range allCalls(g) {
					if staticCalleeNamed(gc, deflRel, "BitBuf", "flushLastByte") {
						body, align = g, gc
					}
				}
			}
		}
		// the whole marker writer may be a helper shared by the two block kinds, taking the 3 header bits as a parameter
		bind := map[ssa.Value]ssa.Value{}
		if hdrCall == nil && align == nil {
			for _, c := range allCalls(fn) {
				g := c.Common().StaticCallee()
				if g == nil || g.Blocks == nil || g.Signature.Recv() == nil || len(c.Common().Args) == 0 || c.Common().Args[0] != ssa.Value(fn.Params[0]) {
					continue
				}
				var gh, ga ssa.CallInstruction
				for _, gc := range allCalls(g) {
					if staticCalleeNamed(gc, deflRel, "BitBuf", "WriteBit") {
						gh = gc
					}
					if staticCalleeNamed(gc, deflRel, "BitBuf", "flushLastByte") {
						ga = gc
					}
				}
				if gh != nil && ga != nil && dominatesInstr(gh, ga) {
					body, hdrCall, align = g, gh, ga
					for i, prm := range g.Params {
						if i < len(c.Common().Args) {
							bind[prm] = c.Common().Args[i]
						}
					}
				}
			}
		}
		if hdrCall == nil || align == nil || (body == fn && !dominatesInstr(hdrCall, align)) {
			why = "header write followed by alignment not found"
		} else {
			hv := stripConv(hdrCall.Common().Args[1])
			if a, ok := bind[hv]; ok {
				hv = a
			}
			v, ok1 := constInt(hv)
			w, ok2 := constInt(hdrCall.Common().Args[2])
			if !ok1 || !ok2 || v != t.hdr || w != 3 {
				why = "block header is not WriteBit(" + itoa(int(t.hdr)) + ", 3)"
			}
		}
		// the four marker bytes at idx+0..3
		want := map[int64]int64{0: 0x00, 1: 0x00, 2: 0xff, 3: 0xff}
		got := map[int64]int64{}
		var idxAdd int64 = -1
		for _, b := range body.Blocks {
			for _, in := range b.Instrs {
				st, ok := in.(*ssa.Store)
				if !ok {
					continue
				}
				if ia, ok := st.Addr.(*ssa.IndexAddr); ok {
					_, sel := accessPath(ia.X)
					if sel != ".output" {
						continue
					}
					off := int64(-1)
					if bo, ok := ia.Index.(*ssa.BinOp); ok && bo.Op == token.ADD {
						if _, s2, ok := fieldLoad(bo.X); ok && s2 == ".idx" {
							if k, ok := constInt(bo.Y); ok {
								off = k
							}
						}
					}
					if k, ok := constInt(st.Val); ok && off >= 0 && align != nil && dominatesInstr(align, st) {
						got[off] = k
					}
				} else if _, sel := accessPath(st.Addr); sel == ".idx" {
					if bo, ok := st.Val.(*ssa.BinOp); ok && bo.Op == token.ADD {
						if k, ok := constInt(bo.Y); ok {
							idxAdd = k
						}
					}
				}
			}
		}
		for k, v := range want {
			if got[k] != v || len(got) != 4 {
				why = "marker bytes are not 00 00 ff ff at idx+0..3"
			}
		}
		if idxAdd != 4 && why == "" {
			why = "idx is not advanced by 4"
		}
		r.Check(why == "", "R10.5", key, p.Pos(fn.Pos()), "stored-block marker: WriteBit("+itoa(int(t.hdr))+",3), byte alignment, 00 00 ff ff, idx += 4", why)
	}
}

// dependsOnParams: parameters of fn in the data slice of v, including the controlling conditions of phis.
func dependsOnParams(fn *ssa.Function, v ssa.Value) map[*ssa.Parameter]bool {
	out := map[*ssa.Parameter]bool{}
	seen := map[ssa.Value]bool{}
	var walk func(v ssa.Value)
	walk = func(v ssa.Value) {
		if v == nil || seen[v] {
			return
		}
		seen[v] = true
		switch x := v.(type) {
		case *ssa.Parameter:
			out[x] = true
		case *ssa.Phi:
			for _, e := range x.Edges {
				walk(e)
			}
			for _, pr := range x.Block().Preds {
				if len(pr.Instrs) > 0 {
					if iff, ok := pr.Instrs[len(pr.Instrs)-1].(*ssa.If); ok {
						walk(iff.Cond)
					}
				}
			}
		case *ssa.BinOp:
			walk(x.X)
			walk(x.Y)
		case *ssa.UnOp:
			if x.Op == token.NOT {
				walk(x.X)
			}
		}
	}
	walk(v)
	return out
}

func ruleR10_6(p *Program, r *Report) {
	r.Expect("R10.6", 7)
	// writeTo: 5 under eos, 4 otherwise
	wt := p.Method(deflRel, "dynamicHeader", "writeTo")
	if wt == nil {
		r.Undecided("R10.6", "anchor:writeTo", "-", "header writer exists", "not found")
		return
	}
	eos := wt.Params[2]
	got := map[int64]bool{}
	for _, rc := range p.regionCalls(wt) {
		c := rc.call
		if !staticCalleeNamed(c, deflRel, "BitBuf", "WriteBit") {
			continue
		}
		w, _ := constInt(c.Common().Args[2])
		v, isK := constInt(c.Common().Args[1])
		if w == 3 && !isK {
			// the header value picked into a local first: a phi of 4 and 5 whose 5 arrives by the eos edge
			if phi, ok := stripConv(c.Common().Args[1]).(*ssa.Phi); ok && len(phi.Edges) == 2 {
				vals := map[int64]*ssa.BasicBlock{}
				for i, e := range phi.Edges {
					if k, ok := constInt(e); ok {
						vals[k] = phi.Block().Preds[i]
					}
				}
				if b5, ok5 := vals[5]; ok5 {
					if b4, ok4 := vals[4]; ok4 {
						// which edge carries 5? the one only taken when eos holds
						eosTrue := func(from *ssa.BasicBlock) (bool, bool) {
							var fs []Fact
							if len(from.Instrs) > 0 {
								fs = dominatingFacts(from.Instrs[len(from.Instrs)-1])
							}
							if br, ok := edgeCond(from, phi.Block()); ok {
								if f, ok := branchFact(br); ok {
									fs = append(fs, f)
								}
							}
							t, fl := false, false
							for _, f := range fs {
								if f.Y == nil && boundTo(f.X, eos, rc.bind) {
									if f.Op == token.EQL {
										t = true
									} else {
										fl = true
									}
								}
							}
							return t, fl
						}
						t5, _ := eosTrue(b5)
						_, f4 := eosTrue(b4)
						// `v := 4; if eos { v = 5 }`: the 4 arrives from the block that tests eos, by its false edge
						if t5 && f4 {
							got[5], got[4] = true, true
						} else {
							r.Fail("R10.6", "writeTo|header phi", p.InstrPos(c), "block header is BFINAL=1,BTYPE=10 (5) iff eos, else 4", "the header value is chosen between 4 and 5 by something other than eos")
						}
						continue
					}
				}
			}
		}
		if w != 3 || !isK || (v != 4 && v != 5) {
			continue
		}
		// the controlling value: eos itself, or the parameter of a helper that eos was passed to
		isTrue, isFalse := false, false
		for _, f := range dominatingFacts(c) {
			if f.Y != nil || !boundTo(f.X, eos, rc.bind) {
				continue
			}
			if f.Op == token.EQL {
				isTrue = true
			}
			if f.Op == token.NEQ {
				isFalse = true
			}
		}
		switch {
		case v == 5 && isTrue:
			got[5] = true
		case v == 4 && isFalse:
			got[4] = true
		default:
			r.Fail("R10.6", "writeTo|header "+itoa(int(v)), p.InstrPos(c), "block header is BFINAL=1,BTYPE=10 (5) iff eos, else 4", "WriteBit("+itoa(int(v))+",3) under the wrong edge of eos")
		}
	}
	r.Check(got[5] && got[4], "R10.6", "writeTo|header", p.Pos(wt.Pos()), "block header is BFINAL=1,BTYPE=10 (value 5) exactly under eos and 4 otherwise", "expected WriteBit(5,3) on the eos edge and WriteBit(4,3) on the other")

	// which parameter of each block function is the final flag: the one the eos argument depends on
	for _, tr := range p.CompressorTypes() {
		finalIdx := map[*ssa.Function]int{}
		var find func(g *ssa.Function, depth int) int
		find = func(g *ssa.Function, depth int) int {
			if i, ok := finalIdx[g]; ok {
				return i
			}
			finalIdx[g] = -1
			if depth > 3 {
				return -1
			}
			for _, c := range allCalls(g) {
				var ev ssa.Value
				if staticCalleeNamed(c, deflRel, "dynamicHeader", "writeTo") {
					ev = c.Common().Args[2]
				} else if h := c.Common().StaticCallee(); h != nil && h.Blocks != nil && h.Signature.Recv() != nil && len(c.Common().Args) > 0 && c.Common().Args[0] == ssa.Value(g.Params[0]) {
					if j := find(h, depth+1); j >= 0 {
						ev = c.Common().Args[j]
					}
				}
				if ev == nil {
					continue
				}
				for par := range dependsOnParams(g, ev) {
					for i, gp := range g.Params {
						if gp == par && isBoolType(par.Type()) {
							finalIdx[g] = i
						}
					}
				}
			}
			return finalIdx[g]
		}
		// the empty final stored block is written only under the final flag
		for _, g := range p.Funcs() {
			if g.Signature.Recv() == nil || derefNamed(g.Signature.Recv().Type()) != tr.Named {
				continue
			}
			for _, c := range allCalls(g) {
				if !staticCalleeNamed(c, deflRel, "BitBuf", "writeFinalEmptyBlock") {
					continue
				}
				j := find(g, 0)
				ok := j >= 0 && assertedTrue(dominatingFacts(c), g.Params[j])
				if !ok && g == tr.Ops["Close"] {
					ok = true // written by Close itself: Close is what ends the stream
				}
				r.Check(ok, "R10.6", shortFn(g)+"|final empty block under final flag", p.InstrPos(c), "the empty final stored block is written only when the final flag is set", "writeFinalEmptyBlock is not dominated by the final flag being true: a Flush or Compress could terminate the stream")
			}
		}
		want := map[string]bool{"Compress": false, "Flush": false, "Close": true}
		for _, opn := range []string{"Compress", "Flush", "Close"} {
			fn := tr.Ops[opn]
			if fn == nil {
				continue
			}
			checked := false
			for _, c := range allCalls(fn) {
				g := c.Common().StaticCallee()
				if g == nil || g.Blocks == nil || g.Signature.Recv() == nil || len(c.Common().Args) == 0 || c.Common().Args[0] != ssa.Value(fn.Params[0]) {
					continue
				}
				j := find(g, 0)
				if j < 0 {
					continue
				}
				checked = true
				b, isK := constBool(c.Common().Args[j])
				r.Check(isK && b == want[opn], "R10.6", shortFn(fn)+"|final flag", p.InstrPos(c), opn+" passes final="+boolStr(want[opn])+" to "+g.Name(), "passes "+describeValue(c.Common().Args[j]))
			}
			if !checked {
				r.Undecided("R10.6", shortFn(fn)+"|final flag", p.Pos(fn.Pos()), opn+" calls a block function with a final flag", "call not found")
			}
		}
	}
	_ = types.Typ
}

// R10.7: with flush requested, the block function always encodes (tokens may be pending from earlier Compress calls).
func ruleR10_7(p *Program, r *Report) {
	r.Expect("R10.7", 1)
	n := 0
	for _, tr := range p.CompressorTypes() {
		for _, fn := range p.Funcs() {
			if fn.Signature.Recv() == nil || derefNamed(fn.Signature.Recv().Type()) != tr.Named {
				continue
			}
			for _, gc := range allCalls(fn) {
				if !gc.Common().IsInvoke() || gc.Common().Method.Name() != "generate" {
					continue
				}
				var flushPar *ssa.Parameter
				for _, par := range fn.Params {
					if gc.Common().Args[0] == ssa.Value(par) {
						flushPar = par
					}
				}
				if flushPar == nil {
					continue
				}
				n++
				key := shortFn(fn) + "|flush encodes"
				isEncode := func(in ssa.Instruction) bool {
					c, ok := in.(ssa.CallInstruction)
					if !ok {
						return false
					}
					f := c.Common().StaticCallee()
					if f == nil || f.Blocks == nil {
						return false
					}
					for _, o := range allCalls(f) {
						if staticCalleeNamed(o, deflRel, "dynamicHeader", "writeTo") {
							return true
						}
					}
					return false
				}
				edgeOK := func(a, b *ssa.BasicBlock) bool {
					br, ok := edgeCond(a, b)
					if !ok {
						return true
					}
					f, ok := branchFact(br)
					if !ok || f.Y != nil {
						return true
					}
					// follow only edges consistent with flush == true
					if f.X == ssa.Value(flushPar) && f.Op == token.NEQ {
						return false
					}
					return true
				}
				succ := func(in ssa.Instruction) bool {
					ret, ok := in.(*ssa.Return)
					if !ok {
						return false
					}
					e := returnErr(ret)
					return e == nil || p.mayBeNil(fn, e, ret)
				}
				barrier := func(in ssa.Instruction) bool {
					if isEncode(in) {
						return true
					}
					c, ok := in.(ssa.CallInstruction)
					return ok && staticCalleeNamed(c, deflRel, "BitBuf", "writeFinalEmptyBlock")
				}
				found, hit, path := PathQuery{Target: succ, Barrier: barrier, EdgeOK: edgeOK}.Find(fn)
				why := ""
				if found {
					why = "with flush requested the success return at " + p.InstrPos(hit) + " is reachable (blocks " + fmtInts(path) + ") without encoding a block: tokens left pending by earlier Compress calls stay unemitted although Flush/Close reports success"
				}
				r.Check(!found, "R10.7", key, p.InstrPos(gc), "when flush is requested the block function encodes a block on every success path", why)
			}
		}
	}
	if n == 0 {
		r.Undecided("R10.7", "anchor", "-", "a block function that runs the match finder with a flush parameter", "not found")
	}
}

// isPureHandOver: h's only call hands <receiver>.buf.output[:<receiver>.buf.idx] to the destination.
func isPureHandOver(h *ssa.Function) bool {
	calls := allCalls(h)
	n := 0
	for _, c := range calls {
		if _, isB := c.Common().Value.(*ssa.Builtin); isB {
			continue
		}
		n++
		if d, _ := dstDirect(callInfo(c)); !d {
			return false
		}
		args := c.Common().Args
		if len(args) == 0 {
			return false
		}
		sl, ok := args[len(args)-1].(*ssa.Slice)
		if !ok || sl.Low != nil || sl.High == nil {
			return false
		}
		rootX, selX := accessPath(sl.X)
		_, selH, okH := fieldLoad(sl.High)
		if !okH || rootX != ssa.Value(h.Params[0]) || !strings.HasSuffix(selX, ".output") || !strings.HasSuffix(selH, ".idx") {
			return false
		}
	}
	return n == 1
}

// storesNilTo reports whether fn stores a nil constant into a field with selector sel.
func storesNilTo(fn *ssa.Function, sel string) bool {
	for _, b := range fn.Blocks {
		for _, in := range b.Instrs {
			st, ok := in.(*ssa.Store)
			if !ok {
				continue
			}
			if _, s2 := accessPath(st.Addr); s2 == sel && isNil(st.Val) {
				return true
			}
		}
	}
	return false
}

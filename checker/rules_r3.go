package main

// Rules added after the third round of seeded regressions. Each is registered on the property whose
// clause it decides; the text added to the property's explanation says what is decided.

import (
	"go/token"
	"go/types"
	"strings"

	"golang.org/x/tools/go/ssa"
)

func extend(id string, ru Rule, text string) {
	s := registry[id]
	if s == nil {
		panic("extend: unknown property " + id)
	}
	s.Rules = append(s.Rules, ru)
	s.Explanation += " " + text
}

func init() {
	registry["C03"].Explanation += " (R03.8) every code-space (Kraft) sum of a block header is tested for completeness - equality with 1<<15, or from both sides - wherever it is tested for over-subscription, directly or through a helper whose parameter it is passed to; an incomplete code is what compress/flate and zlib reject in the header."
	extend("C02", Rule{ID: "R02.9", Configs: "all", Run: ruleR02_9},
		"(R02.9) every end-of-block handler of the inflater decides the next phase by the block's final flag: a store of phaseStreamEnd is behind the edge bfinal set, a store of phaseNewBlock behind the edge bfinal clear or immediately followed by the bfinal test (sibling agreement over all handlers, Go loops and the assembly wrapper).")
}

// bfinalFact: what the facts say about the final-block flag: +1 set, -1 clear, 0 unknown.
func bfinalFact(facts []Fact) int {
	for _, f := range facts {
		if f.Y == nil {
			continue
		}
		_, sel, isL := fieldLoad(f.X)
		if !isL || !strings.HasSuffix(sel, ".bfinal") && sel != ".bfinal" {
			continue
		}
		k, isK := constInt(f.Y)
		if !isK {
			continue
		}
		switch {
		case (f.Op == token.EQL && k == 1) || (f.Op == token.NEQ && k == 0) || (f.Op == token.GTR && k == 0) || (f.Op == token.GEQ && k == 1):
			return 1
		case (f.Op == token.EQL && k == 0) || (f.Op == token.NEQ && k == 1) || (f.Op == token.LSS && k == 1) || (f.Op == token.LEQ && k == 0):
			return -1
		}
	}
	return 0
}

func ruleR02_9(p *Program, r *Report) {
	r.Expect("R02.9", 2) // at least one handler pair; handlers may share a helper
	newBlock, ok1 := constOf(p, flateRel, "phaseNewBlock")
	streamEnd, ok2 := constOf(p, flateRel, "phaseStreamEnd")
	if !ok1 || !ok2 {
		r.Undecided("R02.9", "anchors", "-", "phase constants exist", "not found")
		return
	}
	sp := p.Pkg(flateRel)
	isBfinalTest := func(in ssa.Instruction) bool {
		iff, ok := in.(*ssa.If)
		if !ok {
			return false
		}
		bo, ok := iff.Cond.(*ssa.BinOp)
		if !ok {
			return false
		}
		for _, v := range []ssa.Value{bo.X, bo.Y} {
			if _, sel, isL := fieldLoad(v); isL && strings.HasSuffix(sel, "bfinal") {
				return true
			}
		}
		return false
	}
	for _, fn := range p.Funcs() {
		if fn.Pkg != sp {
			continue
		}
		// a function that also (re)initialises the final flag is the reset/parse side, not a handler
		resets := false
		var stores []*ssa.Store
		for _, b := range fn.Blocks {
			for _, in := range b.Instrs {
				st, ok := in.(*ssa.Store)
				if !ok {
					continue
				}
				_, sel := accessPath(st.Addr)
				if strings.HasSuffix(sel, "bfinal") {
					resets = true
				}
				if strings.HasSuffix(sel, ".phase") || sel == ".phase" {
					stores = append(stores, st)
				}
			}
		}
		if resets {
			continue
		}
		lab := newLabeler()
		for _, st := range stores {
			k, isK := constInt(st.Val)
			if !isK || (k != newBlock && k != streamEnd) {
				continue
			}
			name := "phaseNewBlock"
			if k == streamEnd {
				name = "phaseStreamEnd"
			}
			key := shortFn(fn) + "|" + lab.get("phase = "+name)
			bf := bfinalFact(dominatingFacts(st))
			why := ""
			switch {
			case k == streamEnd && bf != 1:
				why = "the stream is declared finished where the final flag is not known to be set: a non-final block's end would end the stream"
			case k == newBlock && bf == 1:
				why = "a new block is expected where the final flag is set"
			case k == newBlock && bf == 0:
				// default-then-override: the bfinal test follows before anything can observe the phase
				found, hit, _ := PathQuery{Start: st,
					Target: func(x ssa.Instruction) bool {
						switch x.(type) {
						case *ssa.Return, ssa.CallInstruction:
							return true
						}
						return false
					},
					Barrier: isBfinalTest}.Find(fn)
				if found {
					why = "a new block is expected without consulting the final flag (" + describeInstr(p, hit) + " is reached first): after the end of a final block the inflater would parse whatever follows - a gzip/zlib trailer or the next member - as a block header"
				}
			}
			r.Check(why == "", "R02.9", key, p.InstrPos(st), "the phase after an end of block is decided by the block's final flag", why)
		}
	}
}

func init() {
	extend("C02", Rule{ID: "R02.10", Configs: "all", Run: ruleR02_10},
		"(R02.10) stored blocks: in decodeLiteralBlock every byte written to the output is accounted for in litBlockLength before the function can return (the remaining length is what the next call resumes with), and every return that reports the block unfinished (errOutputOverflow / errEndInput) happens with phase = phaseLitBlock stored, since the caller resumes by phase.")
}

func ruleR02_10(p *Program, r *Report) {
	r.Expect("R02.10", 3)
	fn := p.Method(flateRel, "inflate", "decodeLiteralBlock")
	if fn == nil {
		r.Undecided("R02.10", "anchors", "-", "inflate.decodeLiteralBlock exists", "not found")
		return
	}
	litBlock, okc := constOf(p, flateRel, "phaseLitBlock")
	if !okc || len(fn.Params) < 2 {
		r.Undecided("R02.10", "anchors", "-", "phaseLitBlock exists", "not found")
		return
	}
	out := fn.Params[1]
	isRet := func(x ssa.Instruction) bool { _, ok := x.(*ssa.Return); return ok }
	storeTo := func(x ssa.Instruction, suffix string) (*ssa.Store, bool) {
		st, ok := x.(*ssa.Store)
		if !ok {
			return nil, false
		}
		_, sel := accessPath(st.Addr)
		return st, strings.HasSuffix(sel, suffix)
	}
	isLenStore := func(x ssa.Instruction) bool { _, ok := storeTo(x, ".litBlockLength"); return ok }
	isLitPhase := func(x ssa.Instruction) bool {
		st, ok := storeTo(x, ".phase")
		if !ok {
			return false
		}
		k, isK := constInt(st.Val)
		return isK && k == litBlock
	}
	dominatedBy := func(at ssa.Instruction, pred func(ssa.Instruction) bool) bool {
		for _, b := range fn.Blocks {
			for _, in := range b.Instrs {
				if pred(in) && dominatesInstr(in, at) {
					return true
				}
			}
		}
		return false
	}
	// (a) output writes
	lab := newLabeler()
	for _, b := range fn.Blocks {
		for _, in := range b.Instrs {
			isWrite := false
			what := ""
			switch x := in.(type) {
			case *ssa.Store:
				if ia, ok := x.Addr.(*ssa.IndexAddr); ok && ia.X == ssa.Value(out) {
					isWrite, what = true, "output[i] = b"
				}
			case ssa.CallInstruction:
				if bi, ok := x.Common().Value.(*ssa.Builtin); ok && bi.Name() == "copy" {
					for _, leaf := range p.valueSources(x.Common().Args[0]) {
						if sl, ok := leaf.(*ssa.Slice); ok && sl.X == ssa.Value(out) {
							isWrite, what = true, "copy(output[..], ..)"
						}
						if leaf == ssa.Value(out) {
							isWrite, what = true, "copy(output, ..)"
						}
					}
				}
			}
			if !isWrite {
				continue
			}
			key := shortFn(fn) + "|" + lab.get(what)
			why := ""
			if !dominatedBy(in, isLenStore) {
				if found, hit, _ := (PathQuery{Start: in, Target: isRet, Barrier: isLenStore}).Find(fn); found {
					why = "the return at " + p.InstrPos(hit) + " is reachable after this write without litBlockLength having been reduced: the next call copies the same count again, past the end of the stored block"
				}
			}
			r.Check(why == "", "R02.10", key, p.InstrPos(in), "bytes of a stored block written to the output are deducted from litBlockLength before the function returns", why)
		}
	}
	// (b) unfinished => phaseLitBlock
	lab2 := newLabeler()
	for _, b := range fn.Blocks {
		for _, in := range b.Instrs {
			var g *ssa.Global
			if u, ok := in.(*ssa.UnOp); ok && u.Op == token.MUL {
				g, _ = u.X.(*ssa.Global)
			}
			if g == nil || (g.Name() != "errOutputOverflow" && g.Name() != "errEndInput") {
				continue
			}
			if fl := p.flowForward(in.(ssa.Value)); len(fl.Returns) == 0 {
				continue
			}
			key := shortFn(fn) + "|" + lab2.get("unfinished: "+g.Name())
			why := ""
			if !dominatedBy(in, isLitPhase) {
				if found, hit, _ := (PathQuery{Start: in, Target: isRet, Barrier: isLitPhase}).Find(fn); found {
					why = g.Name() + " can be returned (" + p.InstrPos(hit) + ") while the phase still says the block is finished (phaseNewBlock/phaseStreamEnd was stored on entry): the rest of the stored block would be parsed as block headers, or the stream would end early"
				}
			}
			r.Check(why == "", "R02.10", key, p.InstrPos(in), "a stored block reported unfinished leaves phase = phaseLitBlock", why)
		}
	}
}

func init() {
	extend("C08", Rule{ID: "R08.3", Configs: "all", Run: ruleR08_3},
		"(R08.3) the gzip and zlib readers take header and trailer bytes from the (possibly caller-supplied, possibly tiny) bufio.Reader only through calls whose result does not depend on the buffer's capacity: ReadByte, Read, Discard, UnreadByte, ReadString/ReadBytes, a Peek of at most 16 bytes (bufio's minimum size), or io.ReadFull; ReadSlice, ReadLine and larger Peeks fail with bufio.ErrBufferFull on a member whose field is longer than the caller's buffer.")
}

func ruleR08_3(p *Program, r *Report) {
	r.Expect("R08.3", 5)
	allowed := map[string]bool{"ReadByte": true, "Read": true, "Discard": true, "UnreadByte": true, "ReadString": true, "ReadBytes": true, "Buffered": true, "Size": true, "Reset": true, "ReadRune": true, "UnreadRune": true, "WriteTo": true}
	for _, rel := range []string{gzipRel, zlibRel} {
		sp := p.Pkg(rel)
		for _, fn := range p.Funcs() {
			if fn.Pkg != sp {
				continue
			}
			lab := newLabeler()
			for _, c := range allCalls(fn) {
				f := c.Common().StaticCallee()
				if f != nil && (isFunc(f, "io", "ReadFull") || isFunc(f, "io", "ReadAtLeast") || isFunc(f, "encoding/binary", "Read")) {
					r.OK("R08.3", shortFn(fn)+"|"+lab.get(calleeLabel(c)), p.InstrPos(c), "container readers use the source only through capacity-independent calls ["+f.Name()+" loops over Read]")
					continue
				}
				if f == nil || f.Signature.Recv() == nil || !isNamedType(f.Signature.Recv().Type(), "bufio", "Reader") {
					continue
				}
				key := shortFn(fn) + "|" + lab.get(calleeLabel(c))
				why := ""
				switch {
				case allowed[f.Name()]:
				case f.Name() == "Peek":
					if k, isK := constInt(c.Common().Args[1]); !isK || k > 16 {
						why = "Peek of a size that can exceed the caller's buffer (bufio's minimum is 16 bytes): bufio.ErrBufferFull on a valid member"
					}
				default:
					why = "(*bufio.Reader)." + f.Name() + " can only return what fits the buffer: with a small caller-supplied bufio.Reader a valid member with a longer field fails with bufio.ErrBufferFull"
				}
				r.Check(why == "", "R08.3", key, p.InstrPos(c), "container readers use the source only through capacity-independent calls", why)
			}
		}
	}
}

func init() {
	extend("C01", Rule{ID: "R01.7", Configs: "all", Run: ruleR01_7},
		"(R01.7) in the Huffman generators the test that decides whether a symbol takes part in the code (frequency compared with zero) is made on the histogram value at its full width: a frequency narrowed before the test (65536 -> 0 as uint16) would leave a used symbol without a code, and every occurrence would be emitted as zero bits.")
	controlRegistry["C01"] = append(controlRegistry["C01"], Control{Rule: "R01.7", Run: ruleR01_7, MustFire: []string{"narrowedUse"}})
}

const huffRel = "compress/flate/internal/huffman"

func intSize(t types.Type) int64 {
	b, ok := t.Underlying().(*types.Basic)
	if !ok || b.Info()&types.IsInteger == 0 {
		return 0
	}
	switch b.Kind() {
	case types.Int8, types.Uint8:
		return 1
	case types.Int16, types.Uint16:
		return 2
	case types.Int32, types.Uint32:
		return 4
	}
	return 8
}

func ruleR01_7(p *Program, r *Report) {
	r.Expect("R01.7", 1)
	for _, rel := range []string{huffRel, deflRel} {
		sp := p.Pkg(rel)
		if sp == nil {
			continue
		}
		for _, fn := range p.Funcs() {
			if fn.Pkg != sp {
				continue
			}
			// histogram parameters: slices of unsigned counters
			hist := map[ssa.Value]bool{}
			for _, prm := range fn.Params {
				if sl, ok := prm.Type().Underlying().(*types.Slice); ok && intSize(sl.Elem()) >= 4 {
					hist[prm] = true
				}
			}
			if len(hist) == 0 {
				continue
			}
			lab := newLabeler()
			for _, b := range fn.Blocks {
				for _, in := range b.Instrs {
					bo, ok := in.(*ssa.BinOp)
					if !ok {
						continue
					}
					switch bo.Op {
					case token.EQL, token.NEQ, token.GTR, token.LSS:
					default:
						continue
					}
					var x ssa.Value
					if k, isK := constInt(bo.Y); isK && k == 0 {
						x = bo.X
					} else if k, isK := constInt(bo.X); isK && k == 0 {
						x = bo.Y
					} else {
						continue
					}
					// walk back through conversions to an element load of a histogram parameter
					narrowed := false
					cur := x
					fromHist := false
					for i := 0; i < 6; i++ {
						if cv, ok := cur.(*ssa.Convert); ok {
							if a, bsz := intSize(cv.X.Type()), intSize(cv.Type()); a > 0 && bsz > 0 && bsz < a {
								narrowed = true
							}
							cur = cv.X
							continue
						}
						if u, ok := cur.(*ssa.UnOp); ok && u.Op == token.MUL {
							if ia, ok := u.X.(*ssa.IndexAddr); ok {
								for _, leaf := range p.valueSources(ia.X) {
									if hist[leaf] {
										fromHist = true
									}
									if sl, ok := leaf.(*ssa.Slice); ok && hist[sl.X] {
										fromHist = true
									}
								}
							}
						}
						break
					}
					if !fromHist {
						continue
					}
					key := shortFn(fn) + "|" + lab.get("frequency test")
					why := ""
					if narrowed {
						why = "the frequency is narrowed before it is compared with zero: a count that is a multiple of the narrow type's range reads as 'unused' and the symbol gets no code"
					}
					r.Check(!narrowed, "R01.7", key, p.InstrPos(bo), "a symbol's use is decided on the full-width frequency", why)
				}
			}
		}
	}
}

func init() {
	extend("C10", Rule{ID: "R10.8", Configs: "all", Run: ruleR10_8},
		"(R10.8) a byte encoder that appends the end-of-block code itself (encodeBytes) may return early when the output buffer is full only with strictly fewer bytes consumed than it was given (linear forms: the returned count minus len(data) is bounded by a dominating loop guard), because its caller stops calling when everything is consumed - an early return with everything consumed loses the end-of-block code.")
	extend("C01", Rule{ID: "R01.8", Configs: "all", Run: ruleR10_8}, "(R01.8) = R10.8.")
}

func ruleR10_8(p *Program, r *Report) {
	id := "R10.8"
	if r.Prop == "C01" {
		id = "R01.8"
	}
	r.Expect(id, 1)
	sp := p.Pkg(deflRel)
	for _, fn := range p.Funcs() {
		if fn.Pkg != sp || fn.Signature.Results().Len() != 1 || intSize(fn.Signature.Results().At(0).Type()) == 0 {
			continue
		}
		var data *ssa.Parameter
		for _, prm := range fn.Params {
			if sl, ok := prm.Type().Underlying().(*types.Slice); ok && intSize(sl.Elem()) == 1 {
				data = prm
			}
		}
		var eob ssa.CallInstruction
		for _, c := range allCalls(fn) {
			if staticCalleeNamed(c, deflRel, "histogram", "litCode") {
				if k, ok := constInt(c.Common().Args[1]); ok && k == 256 {
					eob = c
				}
			}
		}
		if data == nil || eob == nil {
			continue
		}
		lenKey := "len(param:" + data.Name() + ")"
		lab := newLabeler()
		for _, b := range fn.Blocks {
			for _, in := range b.Instrs {
				ret, ok := in.(*ssa.Return)
				if !ok || dominatesInstr(eob, ret) {
					continue
				}
				key := shortFn(fn) + "|" + lab.get("early return")
				v := ret.Results[0]
				if k, isK := constInt(v); isK && k == 0 {
					r.OK(id, key, p.InstrPos(ret), "an early return (output buffer full) consumes nothing")
					continue
				}
				lv := linearize(v)
				why := "the returned count " + describeArg(v) + " is not bounded below len(" + data.Name() + ") by a dominating comparison"
				if lv.ok {
					for _, f := range dominatingFacts(ret) {
						if f.Y == nil {
							continue
						}
						x, y := f.X, f.Y
						switch f.Op {
						case token.LSS:
						case token.GTR:
							x, y = y, x
						default:
							continue
						}
						lx, ly := linearize(x), linearize(y)
						if !lx.ok || !ly.ok {
							continue
						}
						// d = (v - len(data)) - (x - y) must be a constant <= 0
						d := map[string]int64{}
						for k, c := range lv.terms {
							d[k] += c
						}
						d[lenKey]--
						for k, c := range lx.terms {
							d[k] -= c
						}
						for k, c := range ly.terms {
							d[k] += c
						}
						konst := lv.k - lx.k + ly.k
						zero := true
						for _, c := range d {
							if c != 0 {
								zero = false
							}
						}
						if zero && konst <= 0 {
							why = ""
							break
						}
						if zero {
							why = "the returned count can reach len(" + data.Name() + ") (it exceeds the loop guard's bound by " + itoa(int(konst)) + "): the caller then stops, and the end-of-block code of the block is never written"
						}
					}
				}
				r.Check(why == "", id, key, p.InstrPos(ret), "an early return (output buffer full) leaves at least one byte for the call that writes the end-of-block code", why)
			}
		}
	}
}

func init() {
	extend("C02", Rule{ID: "R02.11", Configs: "all", Run: ruleR02_11},
		"(R02.11) packed multi-symbol table entries: in every store into the literal/length short table whose value is an OR of shifted symbols, each symbol field provably fits below the next field and below the large-code flag bit (upper bounds taken from the dominating comparisons that skip or stop on larger symbols, or from the operand's type) - a symbol one bit too wide turns the entry into a long-table pointer.")
}

type packTerm struct {
	v     ssa.Value
	shift int64
	konst bool
	kval  int64
}

func orLeaves(v ssa.Value, out *[]packTerm) bool {
	v = stripConv(v)
	switch x := v.(type) {
	case *ssa.BinOp:
		switch x.Op {
		case token.OR, token.ADD:
			return orLeaves(x.X, out) && orLeaves(x.Y, out)
		case token.SHL:
			if k, ok := constInt(x.Y); ok {
				*out = append(*out, packTerm{v: stripConv(x.X), shift: k})
				return true
			}
			// variable shift (code length): top field
			*out = append(*out, packTerm{v: x, shift: -1})
			return true
		}
	case *ssa.Const:
		if k, ok := constInt(x); ok {
			*out = append(*out, packTerm{v: x, konst: true, kval: k})
			return true
		}
	}
	*out = append(*out, packTerm{v: v, shift: 0})
	return true
}

// upperBound: an inclusive upper bound for v at instruction `at`, from dominating comparisons with constants or from v's type.
func upperBound(v ssa.Value, at ssa.Instruction) (int64, bool) {
	best, have := int64(0), false
	take := func(u int64) {
		if !have || u < best {
			best, have = u, true
		}
	}
	if sz := intSize(v.Type()); sz > 0 && sz <= 2 {
		take(int64(1)<<(8*uint(sz)) - 1)
	}
	for _, f := range dominatingFacts(at) {
		if f.Y == nil {
			continue
		}
		x, y, op := stripConv(f.X), stripConv(f.Y), f.Op
		if k, isK := constInt(x); isK && y == v {
			// k op v  ->  v op' k
			x, y = y, x
			_ = k
			switch op {
			case token.LSS:
				op = token.GTR
			case token.LEQ:
				op = token.GEQ
			case token.GTR:
				op = token.LSS
			case token.GEQ:
				op = token.LEQ
			}
		}
		if x != v {
			continue
		}
		k, isK := constInt(y)
		if !isK {
			continue
		}
		switch op {
		case token.LSS:
			take(k - 1)
		case token.LEQ, token.EQL:
			take(k)
		}
	}
	return best, have
}

func ruleR02_11(p *Program, r *Report) {
	r.Expect("R02.11", 2)
	flagOff, okF := constOf(p, flateRel, "largeFlagBitOffset")
	if !okF {
		r.Undecided("R02.11", "anchors", "-", "largeFlagBitOffset exists", "not found")
		return
	}
	sp := p.Pkg(flateRel)
	for _, fn := range p.Funcs() {
		if fn.Pkg != sp {
			continue
		}
		lab := newLabeler()
		for _, b := range fn.Blocks {
			for _, in := range b.Instrs {
				st, ok := in.(*ssa.Store)
				if !ok {
					continue
				}
				ia, ok := st.Addr.(*ssa.IndexAddr)
				if !ok {
					continue
				}
				if _, sel := accessPath(ia.X); !strings.HasSuffix(sel, ".shortCodeLookup") {
					continue
				}
				if _, isLarge := p.valueSourcesNamed(ia.X, "largeHuffCodeTable"); !isLarge {
					continue
				}
				var terms []packTerm
				orLeaves(st.Val, &terms)
				// symbol fields: non-constant terms with a constant shift below the flag bit
				var syms []packTerm
				for _, t := range terms {
					if !t.konst && t.shift >= 0 && t.shift < flagOff {
						syms = append(syms, t)
					}
				}
				if len(syms) < 2 {
					continue
				}
				key := shortFn(fn) + "|" + lab.get("packed entry of "+itoa(len(syms))+" symbols")
				why := ""
				for _, t := range syms {
					// the field ends where the next higher field starts, at the latest at the flag bit
					limit := flagOff
					for _, o := range terms {
						if !o.konst && o.shift > t.shift && o.shift < limit {
							limit = o.shift
						}
					}
					u, have := upperBound(t.v, st)
					if !have {
						why = "no upper bound is known for the symbol shifted by " + itoa(int(t.shift)) + " (" + describeValue(t.v) + ")"
						break
					}
					if u>>uint(limit-t.shift) != 0 {
						why = "the symbol shifted by " + itoa(int(t.shift)) + " can be as large as " + itoa(int(u)) + ", which does not fit in the " + itoa(int(limit-t.shift)) + " bits below bit " + itoa(int(limit)) + " (next field / large-code flag): the entry would be read as a pointer into the long table"
						break
					}
				}
				r.Check(why == "", "R02.11", key, p.InstrPos(st), "each symbol of a packed table entry fits its bit field", why)
			}
		}
	}
}

// valueSourcesNamed: does the address derive from a value whose (pointer-to) named type is `name`?
func (p *Program) valueSourcesNamed(v ssa.Value, name string) (ssa.Value, bool) {
	root, _ := accessPath(v)
	if root == nil {
		return nil, false
	}
	if n := derefNamed(root.Type()); n != nil && n.Obj().Name() == name {
		return root, true
	}
	return nil, false
}

func init() {
	extend("C13", Rule{ID: "R13.4", Configs: "all", Run: ruleR13_4},
		"(R13.4) a Reader re-targets ((*bufio.Reader).Reset) only buffers it allocated itself: the receiver field the call is made on is assigned nowhere but from bufio.NewReader/NewReaderSize (or another such field); a field that can also hold the caller's *bufio.Reader must never be Reset - doing so hijacks the caller's object, so the Reader after Reset(src) reads through a buffer somebody else owns and is not a new Reader on src.")
	extend("C05", Rule{ID: "R05.5", Configs: "all", Run: func(p *Program, r *Report) { ruleR13_4x(p, r, "R05.5") }}, "(R05.5) = R13.4: re-targeting the caller's *bufio.Reader discards what it had buffered beyond the previous stream.")
}

func ruleR13_4(p *Program, r *Report) { ruleR13_4x(p, r, "R13.4") }

func ruleR13_4x(p *Program, r *Report, id string) {
	r.Expect(id, 1)
	// which fields of which named types are assigned a *bufio.Reader that is not a fresh allocation?
	type fkey struct {
		n   *types.Named
		sel string
	}
	fresh := func(v ssa.Value) bool {
		for _, leaf := range p.valueSources(v) {
			c, ok := leaf.(*ssa.Call)
			if !ok {
				return false
			}
			f := c.Common().StaticCallee()
			if !(isFunc(f, "bufio", "NewReader") || isFunc(f, "bufio", "NewReaderSize")) {
				return false
			}
		}
		return true
	}
	type storeInfo struct {
		st  *ssa.Store
		own bool
	}
	stores := map[fkey][]storeInfo{}
	for _, fn := range p.Funcs() {
		if !readerPkg(fn) {
			continue
		}
		for _, b := range fn.Blocks {
			for _, in := range b.Instrs {
				st, ok := in.(*ssa.Store)
				if !ok || !isNamedType(st.Val.Type(), "bufio", "Reader") {
					continue
				}
				root, sel := accessPath(st.Addr)
				if root == nil || sel == "" {
					continue
				}
				n := derefNamed(root.Type())
				if n == nil {
					continue
				}
				stores[fkey{n, sel}] = append(stores[fkey{n, sel}], storeInfo{st, false})
			}
		}
	}
	// a field is "own" when every store into it is a fresh allocation or a load of another own field (fixpoint)
	own := map[fkey]bool{}
	for k := range stores {
		own[k] = true
	}
	for changed := true; changed; {
		changed = false
		for k, sts := range stores {
			if !own[k] {
				continue
			}
			for _, si := range sts {
				ok := fresh(si.st.Val)
				if !ok {
					ok = true
					for _, leaf := range p.valueSources(si.st.Val) {
						root, sel, isL := fieldLoad(leaf)
						if isL && root != nil {
							if n := derefNamed(root.Type()); n != nil && own[fkey{n, sel}] && sel != "" {
								if _, has := stores[fkey{n, sel}]; has {
									continue
								}
							}
						}
						if c, isC := leaf.(*ssa.Call); isC {
							f := c.Common().StaticCallee()
							if isFunc(f, "bufio", "NewReader") || isFunc(f, "bufio", "NewReaderSize") {
								continue
							}
						}
						ok = false
					}
				}
				if !ok {
					own[k] = false
					changed = true
					break
				}
			}
		}
	}
	for _, fn := range p.Funcs() {
		if !readerPkg(fn) {
			continue
		}
		lab := newLabeler()
		for _, c := range allCalls(fn) {
			f := c.Common().StaticCallee()
			if !isMethodOf(f, "bufio", "Reader", "Reset") {
				continue
			}
			key := shortFn(fn) + "|" + lab.get(calleeLabel(c))
			recvv := c.Common().Args[0]
			why := ""
			for _, leaf := range p.valueSources(recvv) {
				root, sel, isL := fieldLoad(leaf)
				if isL && root != nil {
					if n := derefNamed(root.Type()); n != nil {
						if !own[fkey{n, sel}] {
							why = "field " + sel + " of " + n.Obj().Name() + " can hold a *bufio.Reader the Reader did not allocate (it is also assigned from a caller-supplied value): Reset re-targets the caller's object, discarding what it had buffered and tying this Reader to a buffer the caller may re-use"
						}
						continue
					}
				}
				if fresh(leaf) {
					continue
				}
				why = "re-targets a *bufio.Reader of unknown origin (" + describeValue(leaf) + ")"
			}
			r.Check(why == "", id, key, p.InstrPos(c), "only a buffer the Reader allocated itself is re-targeted", why)
		}
	}
}

// ---------------------------------------------------------------- round 4

func init() {
	extend("C14", Rule{ID: "R14.6", Configs: "all", Run: ruleR14_6},
		"(R14.6) the sticky error is consulted before anything can report success: every return of a constant nil error from Write, Flush or Close of the three Writer types is dominated by the edge 'sticky error == nil' (or, for Close, 'sticky error == the closed marker'), so a closed flag or an empty-input shortcut tested earlier cannot hide a recorded failure.")
	extend("C10", Rule{ID: "R10.9", Configs: "all", Run: ruleR10_9},
		"(R10.9) a flush drains: in the block compressor every return that can report success while a flush is requested is dominated by the edge 'input cursor == end of pending input' (or 'nothing was accumulated'); returns behind '!flush' and returns of a known non-nil error are exempt.")
	extend("C03", Rule{ID: "R03.9", Configs: "all", Run: ruleR03_9},
		"(R03.9) the dynamic-header parser compares the number of code lengths it has produced with the declared count before it can succeed: the success exit of readLitDistLens is dominated by the not-greater edge of a comparison between the cursor and an expression of the declared distance count (zero runs advance the cursor by a decoded amount and rely on this test).")
	extend("C06", Rule{ID: "R06.6", Configs: "all", Run: ruleR06_6},
		"(R06.6) 32-bit header and trailer fields of gzip/zlib read with Uint32 are never reinterpreted as signed 32-bit values (MTIME after 2038, sizes above 2 GiB).")
}

func ruleR14_6(p *Program, r *Report) {
	r.Expect("R14.6", 6)
	for _, tr := range p.WriterTypes() {
		if tr.Sticky == "" {
			continue
		}
		for _, opn := range []string{"Write", "Flush", "Close"} {
			fn := tr.Ops[opn]
			recv := fn.Params[0]
			lab := newLabeler()
			for _, b := range fn.Blocks {
				for _, in := range b.Instrs {
					ret, ok := in.(*ssa.Return)
					if !ok {
						continue
					}
					e := returnErr(ret)
					if e == nil || !isNil(e) {
						continue
					}
					key := shortFn(fn) + "|" + lab.get("return nil")
					okFact := false
					for _, f := range dominatingFacts(ret) {
						if f.Op != token.EQL || f.Y == nil {
							continue
						}
						for _, pr := range [][2]ssa.Value{{f.X, f.Y}, {f.Y, f.X}} {
							if !isStickyLoad(pr[0], recv, tr.Sticky) {
								continue
							}
							if isNil(pr[1]) {
								okFact = true
							}
							if g := globalLoad(pr[1]); g != nil && opn == "Close" {
								okFact = true // the closed marker kept in the sticky field itself
							}
						}
					}
					r.Check(okFact, "R14.6", key, p.InstrPos(ret), "success is reported only where the sticky error is known to be nil", "this return of nil is not behind the test of ."+tr.Sticky+": a failure recorded earlier would be answered with success")
				}
			}
		}
	}
}

func ruleR10_9(p *Program, r *Report) {
	r.Expect("R10.9", 1)
	fn := p.Method(deflRel, "dynCompressor", "compressBlock")
	if fn == nil || len(fn.Params) < 2 {
		r.Undecided("R10.9", "anchors", "-", "dynCompressor.compressBlock(flush, final) exists", "not found")
		return
	}
	var flush *ssa.Parameter
	for _, prm := range fn.Params[1:] {
		if prm.Name() == "flush" {
			flush = prm
		}
	}
	if flush == nil {
		flush = fn.Params[1]
	}
	lab := newLabeler()
	for _, b := range fn.Blocks {
		for _, in := range b.Instrs {
			ret, ok := in.(*ssa.Return)
			if !ok {
				continue
			}
			key := shortFn(fn) + "|" + lab.get("return")
			facts := dominatingFacts(ret)
			e := returnErr(ret)
			exempt, drained := false, false
			for _, f := range facts {
				// behind !flush
				if f.Y == nil && f.X == ssa.Value(flush) && f.Op == token.NEQ {
					exempt = true
				}
				if f.Y != nil && f.Op == token.NEQ && e != nil && ((f.X == e && isNil(f.Y)) || (f.Y == e && isNil(f.X))) {
					exempt = true // a failure is being returned
				}
				if f.Y != nil && f.Op == token.EQL {
					_, s1, ok1 := fieldLoad(f.X)
					_, s2, ok2 := fieldLoad(f.Y)
					if ok1 && ok2 && ((s1 == ".idx" && s2 == ".end") || (s1 == ".end" && s2 == ".idx")) {
						drained = true
					}
					if k, isK := constInt(f.Y); isK && k == 0 && ok1 && s1 == ".end" {
						drained = true
					}
				}
			}
			switch {
			case exempt:
				r.OK("R10.9", key, p.InstrPos(ret), "return without a flush pending, or of a failure")
			default:
				r.Check(drained, "R10.9", key, p.InstrPos(ret), "with a flush requested the compressor returns success only when all pending input has been encoded", "this return is reachable with flush set and is not behind '.idx == .end': Flush would write its marker and report success while accepted data is still unencoded")
			}
		}
	}
}

func ruleR03_9(p *Program, r *Report) {
	r.Expect("R03.9", 1)
	fn := p.Method(flateRel, "inflate", "readLitDistLens")
	if fn == nil {
		r.Undecided("R03.9", "anchors", "-", "inflate.readLitDistLens exists", "not found")
		return
	}
	var hdist *ssa.Parameter
	for _, prm := range fn.Params {
		if prm.Name() == "hdist" {
			hdist = prm
		}
	}
	if hdist == nil {
		r.Undecided("R03.9", "anchors", "-", "readLitDistLens has the parameter hdist", "not found")
		return
	}
	// success exit: a store of a nil error / return whose error may be nil, reached without passing an error assignment.
	// The function funnels through END; we look at every instruction that makes the success outcome: the block in which
	// the loop's normal exit continues. Decided as: some comparison cursor > E (E mentions hdist) exists whose
	// not-greater edge dominates every path from the loop exit to a return carrying a possibly-nil error that does
	// not pass a store/phi edge of a non-nil sentinel.
	lab := newLabeler()
	n := 0
	for _, b := range fn.Blocks {
		for _, in := range b.Instrs {
			ret, ok := in.(*ssa.Return)
			if !ok {
				continue
			}
			e := returnErr(ret)
			if e == nil {
				continue
			}
			// each nil leaf of the returned error, with the block it arrives from
			type arrival struct{ from *ssa.BasicBlock }
			var nilArrivals []*ssa.BasicBlock
			if phi, ok := e.(*ssa.Phi); ok {
				for i, edge := range phi.Edges {
					if isNil(edge) {
						nilArrivals = append(nilArrivals, phi.Block().Preds[i])
					}
				}
			} else if isNil(e) {
				nilArrivals = append(nilArrivals, ret.Block())
			}
			for _, from := range nilArrivals {
				n++
				key := shortFn(fn) + "|" + lab.get("success exit")
				okCmp := false
				last := from.Instrs[len(from.Instrs)-1]
				for _, f := range dominatingFacts(last) {
					if f.Y == nil {
						continue
					}
					x, y := f.X, f.Y
					switch f.Op {
					case token.LEQ:
					case token.GEQ:
						x, y = y, x
					default:
						continue
					}
					// x <= y : x the cursor (a phi), y mentions hdist
					ly := linearize(y)
					if !ly.ok || ly.terms["param:"+hdist.Name()] == 0 {
						continue
					}
					if _, isPhi := stripConv(x).(*ssa.Phi); isPhi {
						okCmp = true
					}
				}
				r.Check(okCmp, "R03.9", key, p.InstrPos(last), "the header parser succeeds only after comparing the number of code lengths produced with the declared count", "the success exit is not behind 'cursor <= litLen+hdist+1': a zero run (symbols 17/18) that runs past the declared count is accepted")
			}
		}
	}
	if n == 0 {
		r.Undecided("R03.9", shortFn(fn)+"|success exit", p.Pos(fn.Pos()), "readLitDistLens has a success exit", "no return of a possibly-nil error found")
	}
}

func ruleR06_6(p *Program, r *Report) {
	r.Expect("R06.6", 3)
	for _, rel := range []string{gzipRel, zlibRel} {
		sp := p.Pkg(rel)
		for _, fn := range p.Funcs() {
			if fn.Pkg != sp {
				continue
			}
			lab := newLabeler()
			for _, c := range allCalls(fn) {
				f := c.Common().StaticCallee()
				if f == nil || f.Name() != "Uint32" || f.Pkg == nil || f.Pkg.Pkg.Path() != "encoding/binary" {
					continue
				}
				v := c.Value()
				if v == nil {
					continue
				}
				key := shortFn(fn) + "|" + lab.get("Uint32 field")
				why := ""
				var walk func(x ssa.Value, depth int)
				walk = func(x ssa.Value, depth int) {
					if depth > 4 || x.Referrers() == nil {
						return
					}
					for _, ref := range *x.Referrers() {
						if cv, ok := ref.(*ssa.Convert); ok {
							if b, ok := cv.Type().Underlying().(*types.Basic); ok && (b.Kind() == types.Int32 || b.Kind() == types.Int16 || b.Kind() == types.Int8) {
								why = "converted to " + cv.Type().String() + ": values with the top bit set become negative"
							}
							walk(cv, depth+1)
						}
						if phi, ok := ref.(*ssa.Phi); ok {
							walk(phi, depth+1)
						}
					}
				}
				walk(v, 0)
				r.Check(why == "", "R06.6", key, p.InstrPos(c), "a 32-bit container field keeps its unsigned value", why)
			}
		}
	}
}

func init() {
	extend("C18", Rule{ID: "R18.12", Configs: "asm", Run: ruleR18_12},
		"(R18.12) the look-back test of the assembly decode loop agrees with the Go loop's in strictness: every conditional jump into the exit that reports errorNoInvalidLookback is a strict comparison (JL/JG/JB/JA family), as the Go loop rejects only 'produced < distance' - a match reaching back to the very first byte (distance == produced) is valid.")
}

func ruleR18_12(p *Program, r *Report) {
	r.Expect("R18.12", 1)
	if asmLoadFailures(p, r, "R18.12") {
		return
	}
	lookback, ok := constOf(p, flateRel, "errorNoInvalidLookback")
	if !ok {
		r.Undecided("R18.12", "anchors", "-", "errorNoInvalidLookback exists", "not found")
		return
	}
	// the Go sibling: strictness of the comparison that leads to errInvalidLookBack
	goStrict := false
	if fn := p.Func(flateRel, "decodeHuffmanLargeLoop"); fn != nil {
		for _, b := range fn.Blocks {
			for _, in := range b.Instrs {
				u, ok := in.(*ssa.UnOp)
				if !ok || u.Op != token.MUL {
					continue
				}
				if g, ok := u.X.(*ssa.Global); !ok || g.Name() != "errInvalidLookBack" {
					continue
				}
				for _, f := range dominatingFacts(in) {
					if f.Y != nil && (f.Op == token.LSS || f.Op == token.GTR) {
						goStrict = true
					}
				}
			}
		}
	}
	strict := map[string]bool{"JL": true, "JLT": true, "JG": true, "JGT": true, "JB": true, "JCS": true, "JLO": true, "JA": true, "JHI": true}
	loose := map[string]bool{"JLE": true, "JGE": true, "JBE": true, "JLS": true, "JAE": true, "JCC": true, "JHS": true, "JNA": true, "JNB": true}
	for _, u := range p.Asm().Units {
		if u.Text.Name != "decodeHuffmanAsmArchV3" {
			continue
		}
		t := u.Text
		// exit blocks: labelled instructions from which `MOVQ $lookback, AX` is reached before any jump
		exits := map[int]bool{}
		for i, in := range t.Instrs {
			if len(in.Labels) == 0 {
				continue
			}
			for j := i; j < len(t.Instrs) && j < i+6; j++ {
				x := t.Instrs[j]
				if x.Mnem == "MOVQ" && len(x.Ops) == 2 && x.Ops[0].Kind == OpImm && x.Ops[0].Imm == lookback && x.Ops[1].Kind == OpReg && baseReg(x.Ops[1].Reg) == "AX" {
					exits[i] = true
				}
				if asmJumps[x.Mnem] || x.Mnem == "RET" {
					break
				}
			}
		}
		n := 0
		lab := newLabeler()
		for _, in := range t.Instrs {
			if !asmJumps[in.Mnem] || in.Mnem == "JMP" || len(in.Ops) != 1 || in.Ops[0].Kind != OpLabel {
				continue
			}
			tgt, ok := t.labelIdx[in.Ops[0].Name]
			if !ok || !exits[tgt] {
				continue
			}
			n++
			key := t.Name + "|" + lab.get("jump to "+in.Ops[0].Name)
			pos := t.File + ":" + itoa(in.Line)
			switch {
			case strict[in.Mnem] && goStrict:
				r.OK("R18.12", key, pos, "the assembly rejects a look-back distance by a strict comparison, like the Go loop")
			case loose[in.Mnem]:
				r.Fail("R18.12", key, pos, "the assembly rejects a look-back distance by a strict comparison, like the Go loop", in.Mnem+" also rejects equality: a match that reaches back exactly to the first byte produced is valid and the Go loop accepts it")
			case !goStrict:
				r.Undecided("R18.12", key, pos, "the Go loop's look-back test is a strict comparison", "not found in decodeHuffmanLargeLoop")
			default:
				r.Undecided("R18.12", key, pos, "the jump into the look-back exit is a comparison jump", "unrecognised condition "+in.Mnem)
			}
		}
		if n == 0 {
			r.Undecided("R18.12", t.Name+"|look-back exit", t.File, "a conditional jump into the errorNoInvalidLookback exit exists", "not found")
		}
	}
}

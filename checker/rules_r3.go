package main

// Rules added after the third round of seeded regressions. Each is registered on the property whose
// clause it decides; the text added to the property's explanation says what is decided.

import (
	"go/ast"
	"go/token"
	"go/types"
	"sort"
	"strings"

	"golang.org/x/tools/go/ssa"
)

func extend(id string, ru Rule, text string) {
	s := registry[id]
	if s == nil {
		panic("extend: unknown property " + id)
	}
	s.Rules = append(s.Rules, ru)
	s.Explanation += " " + text
}

func init() {
	registry["C03"].Explanation += " (R03.8) every code-space (Kraft) sum of a block header is tested for completeness - equality with 1<<15, or from both sides - wherever it is tested for over-subscription, directly or through a helper whose parameter it is passed to; an incomplete code is what compress/flate and zlib reject in the header."
	extend("C02", Rule{ID: "R02.9", Configs: "all", Run: ruleR02_9},
		"(R02.9) every end-of-block handler of the inflater decides the next phase by the block's final flag: a store of phaseStreamEnd is behind the edge bfinal set, a store of phaseNewBlock behind the edge bfinal clear or immediately followed by the bfinal test (sibling agreement over all handlers, Go loops and the assembly wrapper).")
}

// bfinalFact: what the facts say about the final-block flag: +1 set, -1 clear, 0 unknown.
func bfinalFact(facts []Fact) int {
	for _, f := range facts {
		if f.Y == nil {
			continue
		}
		_, sel, isL := fieldLoad(f.X)
		if !isL || !strings.HasSuffix(sel, ".bfinal") && sel != ".bfinal" {
			continue
		}
		k, isK := constInt(f.Y)
		if !isK {
			continue
		}
		switch {
		case (f.Op == token.EQL && k == 1) || (f.Op == token.NEQ && k == 0) || (f.Op == token.GTR && k == 0) || (f.Op == token.GEQ && k == 1):
			return 1
		case (f.Op == token.EQL && k == 0) || (f.Op == token.NEQ && k == 1) || (f.Op == token.LSS && k == 1) || (f.Op == token.LEQ && k == 0):
			return -1
		}
	}
	return 0
}

func ruleR02_9(p *Program, r *Report) {
	r.Expect("R02.9", 2) // at least one handler pair; handlers may share a helper
	newBlock, ok1 := constOf(p, flateRel, "phaseNewBlock")
	streamEnd, ok2 := constOf(p, flateRel, "phaseStreamEnd")
	if !ok1 || !ok2 {
		r.Undecided("R02.9", "anchors", "-", "phase constants exist", "not found")
		return
	}
	sp := p.Pkg(flateRel)
	isBfinalTest := func(in ssa.Instruction) bool {
		iff, ok := in.(*ssa.If)
		if !ok {
			return false
		}
		bo, ok := iff.Cond.(*ssa.BinOp)
		if !ok {
			return false
		}
		for _, v := range []ssa.Value{bo.X, bo.Y} {
			if _, sel, isL := fieldLoad(v); isL && strings.HasSuffix(sel, "bfinal") {
				return true
			}
		}
		return false
	}
	for _, fn := range p.Funcs() {
		if fn.Pkg != sp {
			continue
		}
		// a function that also (re)initialises the final flag is the reset/parse side, not a handler
		resets := false
		var stores []*ssa.Store
		for _, b := range fn.Blocks {
			for _, in := range b.Instrs {
				st, ok := in.(*ssa.Store)
				if !ok {
					continue
				}
				_, sel := accessPath(st.Addr)
				if strings.HasSuffix(sel, "bfinal") {
					resets = true
				}
				if strings.HasSuffix(sel, ".phase") || sel == ".phase" {
					stores = append(stores, st)
				}
			}
		}
		if resets {
			continue
		}
		lab := newLabeler()
		for _, st := range stores {
			k, isK := constInt(st.Val)
			if !isK || (k != newBlock && k != streamEnd) {
				continue
			}
			name := "phaseNewBlock"
			if k == streamEnd {
				name = "phaseStreamEnd"
			}
			key := shortFn(fn) + "|" + lab.get("phase = "+name)
			bf := bfinalFact(dominatingFacts(st))
			why := ""
			switch {
			case k == streamEnd && bf != 1:
				why = "the stream is declared finished where the final flag is not known to be set: a non-final block's end would end the stream"
			case k == newBlock && bf == 1:
				why = "a new block is expected where the final flag is set"
			case k == newBlock && bf == 0:
				// default-then-override: the bfinal test follows before anything can observe the phase
				found, hit, _ := PathQuery{Start: st,
					Target: func(x ssa.Instruction) bool {
						switch x.(type) {
						case *ssa.Return, ssa.CallInstruction:
							return true
						}
						return false
					},
					Barrier: isBfinalTest}.Find(fn)
				if found {
					why = "a new block is expected without consulting the final flag (" + describeInstr(p, hit) + " is reached first): after the end of a final block the inflater would parse whatever follows - a gzip/zlib trailer or the next member - as a block header"
				}
			}
			r.Check(why == "", "R02.9", key, p.InstrPos(st), "the phase after an end of block is decided by the block's final flag", why)
		}
	}
}

func init() {
	extend("C02", Rule{ID: "R02.10", Configs: "all", Run: ruleR02_10},
		"(R02.10) stored blocks: in decodeLiteralBlock every byte written to the output is accounted for in litBlockLength before the function can return (the remaining length is what the next call resumes with), and every return that reports the block unfinished (errOutputOverflow / errEndInput) happens with phase = phaseLitBlock stored, since the caller resumes by phase.")
}

func ruleR02_10(p *Program, r *Report) {
	r.Expect("R02.10", 3)
	fn := p.Method(flateRel, "inflate", "decodeLiteralBlock")
	if fn == nil {
		r.Undecided("R02.10", "anchors", "-", "inflate.decodeLiteralBlock exists", "not found")
		return
	}
	litBlock, okc := constOf(p, flateRel, "phaseLitBlock")
	if !okc || len(fn.Params) < 2 {
		r.Undecided("R02.10", "anchors", "-", "phaseLitBlock exists", "not found")
		return
	}
	out := fn.Params[1]
	isRet := func(x ssa.Instruction) bool { _, ok := x.(*ssa.Return); return ok }
	storeTo := func(x ssa.Instruction, suffix string) (*ssa.Store, bool) {
		st, ok := x.(*ssa.Store)
		if !ok {
			return nil, false
		}
		_, sel := accessPath(st.Addr)
		return st, strings.HasSuffix(sel, suffix)
	}
	isLenStore := func(x ssa.Instruction) bool { _, ok := storeTo(x, ".litBlockLength"); return ok }
	isLitPhase := func(x ssa.Instruction) bool {
		st, ok := storeTo(x, ".phase")
		if !ok {
			return false
		}
		k, isK := constInt(st.Val)
		return isK && k == litBlock
	}
	dominatedBy := func(at ssa.Instruction, pred func(ssa.Instruction) bool) bool {
		for _, b := range fn.Blocks {
			for _, in := range b.Instrs {
				if pred(in) && dominatesInstr(in, at) {
					return true
				}
			}
		}
		return false
	}
	// (a) output writes
	lab := newLabeler()
	for _, b := range fn.Blocks {
		for _, in := range b.Instrs {
			isWrite := false
			what := ""
			switch x := in.(type) {
			case *ssa.Store:
				if ia, ok := x.Addr.(*ssa.IndexAddr); ok && ia.X == ssa.Value(out) {
					isWrite, what = true, "output[i] = b"
				}
			case ssa.CallInstruction:
				if bi, ok := x.Common().Value.(*ssa.Builtin); ok && bi.Name() == "copy" {
					for _, leaf := range p.valueSources(x.Common().Args[0]) {
						if sl, ok := leaf.(*ssa.Slice); ok && sl.X == ssa.Value(out) {
							isWrite, what = true, "copy(output[..], ..)"
						}
						if leaf == ssa.Value(out) {
							isWrite, what = true, "copy(output, ..)"
						}
					}
				}
			}
			if !isWrite {
				continue
			}
			key := shortFn(fn) + "|" + lab.get(what)
			why := ""
			if !dominatedBy(in, isLenStore) {
				if found, hit, _ := (PathQuery{Start: in, Target: isRet, Barrier: isLenStore}).Find(fn); found {
					why = "the return at " + p.InstrPos(hit) + " is reachable after this write without litBlockLength having been reduced: the next call copies the same count again, past the end of the stored block"
				}
			}
			r.Check(why == "", "R02.10", key, p.InstrPos(in), "bytes of a stored block written to the output are deducted from litBlockLength before the function returns", why)
		}
	}
	// (b) unfinished => phaseLitBlock
	lab2 := newLabeler()
	for _, b := range fn.Blocks {
		for _, in := range b.Instrs {
			var g *ssa.Global
			if u, ok := in.(*ssa.UnOp); ok && u.Op == token.MUL {
				g, _ = u.X.(*ssa.Global)
			}
			if g == nil || (g.Name() != "errOutputOverflow" && g.Name() != "errEndInput") {
				continue
			}
			if fl := p.flowForward(in.(ssa.Value)); len(fl.Returns) == 0 {
				continue
			}
			key := shortFn(fn) + "|" + lab2.get("unfinished: "+g.Name())
			why := ""
			if !dominatedBy(in, isLitPhase) {
				if found, hit, _ := (PathQuery{Start: in, Target: isRet, Barrier: isLitPhase}).Find(fn); found {
					why = g.Name() + " can be returned (" + p.InstrPos(hit) + ") while the phase still says the block is finished (phaseNewBlock/phaseStreamEnd was stored on entry): the rest of the stored block would be parsed as block headers, or the stream would end early"
				}
			}
			r.Check(why == "", "R02.10", key, p.InstrPos(in), "a stored block reported unfinished leaves phase = phaseLitBlock", why)
		}
	}
}

func init() {
	extend("C08", Rule{ID: "R08.3", Configs: "all", Run: ruleR08_3},
		"(R08.3) the gzip and zlib readers take header and trailer bytes from the (possibly caller-supplied, possibly tiny) bufio.Reader only through calls whose result does not depend on the buffer's capacity: ReadByte, Read, Discard, UnreadByte, ReadString/ReadBytes, a Peek of at most 16 bytes (bufio's minimum size), or io.ReadFull; ReadSlice, ReadLine and larger Peeks fail with bufio.ErrBufferFull on a member whose field is longer than the caller's buffer.")
}

func ruleR08_3(p *Program, r *Report) {
	r.Expect("R08.3", 5)
	allowed := map[string]bool{"ReadByte": true, "Read": true, "Discard": true, "UnreadByte": true, "ReadString": true, "ReadBytes": true, "Buffered": true, "Size": true, "Reset": true, "ReadRune": true, "UnreadRune": true, "WriteTo": true}
	for _, rel := range []string{gzipRel, zlibRel} {
		sp := p.Pkg(rel)
		for _, fn := range p.Funcs() {
			if fn.Pkg != sp {
				continue
			}
			lab := newLabeler()
			for _, c := range allCalls(fn) {
				f := c.Common().StaticCallee()
				if f != nil && (isFunc(f, "io", "ReadFull") || isFunc(f, "io", "ReadAtLeast") || isFunc(f, "encoding/binary", "Read")) {
					r.OK("R08.3", shortFn(fn)+"|"+lab.get(calleeLabel(c)), p.InstrPos(c), "container readers use the source only through capacity-independent calls ["+f.Name()+" loops over Read]")
					continue
				}
				if f == nil || f.Signature.Recv() == nil || !isNamedType(f.Signature.Recv().Type(), "bufio", "Reader") {
					continue
				}
				key := shortFn(fn) + "|" + lab.get(calleeLabel(c))
				why := ""
				switch {
				case allowed[f.Name()]:
				case f.Name() == "Peek":
					if k, isK := constInt(c.Common().Args[1]); !isK || k > 16 {
						why = "Peek of a size that can exceed the caller's buffer (bufio's minimum is 16 bytes): bufio.ErrBufferFull on a valid member"
					}
				default:
					why = "(*bufio.Reader)." + f.Name() + " can only return what fits the buffer: with a small caller-supplied bufio.Reader a valid member with a longer field fails with bufio.ErrBufferFull"
				}
				r.Check(why == "", "R08.3", key, p.InstrPos(c), "container readers use the source only through capacity-independent calls", why)
			}
		}
	}
}

func init() {
	extend("C01", Rule{ID: "R01.7", Configs: "all", Run: ruleR01_7},
		"(R01.7) in the Huffman generators the test that decides whether a symbol takes part in the code (frequency compared with zero) is made on the histogram value at its full width: a frequency narrowed before the test (65536 -> 0 as uint16) would leave a used symbol without a code, and every occurrence would be emitted as zero bits.")
	controlRegistry["C01"] = append(controlRegistry["C01"], Control{Rule: "R01.7", Run: ruleR01_7, MustFire: []string{"narrowedUse"}})
}

const huffRel = "compress/flate/internal/huffman"

func intSize(t types.Type) int64 {
	b, ok := t.Underlying().(*types.Basic)
	if !ok || b.Info()&types.IsInteger == 0 {
		return 0
	}
	switch b.Kind() {
	case types.Int8, types.Uint8:
		return 1
	case types.Int16, types.Uint16:
		return 2
	case types.Int32, types.Uint32:
		return 4
	}
	return 8
}

func ruleR01_7(p *Program, r *Report) {
	r.Expect("R01.7", 1)
	for _, rel := range []string{huffRel, deflRel} {
		sp := p.Pkg(rel)
		if sp == nil {
			continue
		}
		for _, fn := range p.Funcs() {
			if fn.Pkg != sp {
				continue
			}
			// histogram parameters: slices of unsigned counters
			hist := map[ssa.Value]bool{}
			for _, prm := range fn.Params {
				if sl, ok := prm.Type().Underlying().(*types.Slice); ok && intSize(sl.Elem()) >= 4 {
					hist[prm] = true
				}
			}
			if len(hist) == 0 {
				continue
			}
			lab := newLabeler()
			for _, b := range fn.Blocks {
				for _, in := range b.Instrs {
					bo, ok := in.(*ssa.BinOp)
					if !ok {
						continue
					}
					switch bo.Op {
					case token.EQL, token.NEQ, token.GTR, token.LSS:
					default:
						continue
					}
					var x ssa.Value
					if k, isK := constInt(bo.Y); isK && k == 0 {
						x = bo.X
					} else if k, isK := constInt(bo.X); isK && k == 0 {
						x = bo.Y
					} else {
						continue
					}
					// walk back through conversions to an element load of a histogram parameter
					narrowed := false
					cur := x
					fromHist := false
					for i := 0; i < 6; i++ {
						if cv, ok := cur.(*ssa.Convert); ok {
							if a, bsz := intSize(cv.X.Type()), intSize(cv.Type()); a > 0 && bsz > 0 && bsz < a {
								narrowed = true
							}
							cur = cv.X
							continue
						}
						if u, ok := cur.(*ssa.UnOp); ok && u.Op == token.MUL {
							if ia, ok := u.X.(*ssa.IndexAddr); ok {
								for _, leaf := range p.valueSources(ia.X) {
									if hist[leaf] {
										fromHist = true
									}
									if sl, ok := leaf.(*ssa.Slice); ok && hist[sl.X] {
										fromHist = true
									}
								}
							}
						}
						break
					}
					if !fromHist {
						continue
					}
					key := shortFn(fn) + "|" + lab.get("frequency test")
					why := ""
					if narrowed {
						why = "the frequency is narrowed before it is compared with zero: a count that is a multiple of the narrow type's range reads as 'unused' and the symbol gets no code"
					}
					r.Check(!narrowed, "R01.7", key, p.InstrPos(bo), "a symbol's use is decided on the full-width frequency", why)
				}
			}
		}
	}
}

func init() {
	extend("C10", Rule{ID: "R10.8", Configs: "all", Run: ruleR10_8},
		"(R10.8) a byte encoder that appends the end-of-block code itself (encodeBytes) may return early when the output buffer is full only with strictly fewer bytes consumed than it was given (linear forms: the returned count minus len(data) is bounded by a dominating loop guard), because its caller stops calling when everything is consumed - an early return with everything consumed loses the end-of-block code.")
	extend("C01", Rule{ID: "R01.8", Configs: "all", Run: ruleR10_8}, "(R01.8) = R10.8.")
}

func ruleR10_8(p *Program, r *Report) {
	id := "R10.8"
	if r.Prop == "C01" {
		id = "R01.8"
	}
	r.Expect(id, 1)
	sp := p.Pkg(deflRel)
	for _, fn := range p.Funcs() {
		if fn.Pkg != sp || fn.Signature.Results().Len() != 1 || intSize(fn.Signature.Results().At(0).Type()) == 0 {
			continue
		}
		var data *ssa.Parameter
		for _, prm := range fn.Params {
			if sl, ok := prm.Type().Underlying().(*types.Slice); ok && intSize(sl.Elem()) == 1 {
				data = prm
			}
		}
		var eob ssa.CallInstruction
		for _, c := range allCalls(fn) {
			if staticCalleeNamed(c, deflRel, "histogram", "litCode") {
				if k, ok := constInt(c.Common().Args[1]); ok && k == 256 {
					eob = c
				}
			}
		}
		if data == nil || eob == nil {
			continue
		}
		lenKey := "len(param:" + data.Name() + ")"
		lab := newLabeler()
		for _, b := range fn.Blocks {
			for _, in := range b.Instrs {
				ret, ok := in.(*ssa.Return)
				if !ok || dominatesInstr(eob, ret) {
					continue
				}
				key := shortFn(fn) + "|" + lab.get("early return")
				v := ret.Results[0]
				if k, isK := constInt(v); isK && k == 0 {
					r.OK(id, key, p.InstrPos(ret), "an early return (output buffer full) consumes nothing")
					continue
				}
				lv := linearize(v)
				why := "the returned count " + describeArg(v) + " is not bounded below len(" + data.Name() + ") by a dominating comparison"
				if lv.ok {
					for _, f := range dominatingFacts(ret) {
						if f.Y == nil {
							continue
						}
						x, y := f.X, f.Y
						switch f.Op {
						case token.LSS:
						case token.GTR:
							x, y = y, x
						default:
							continue
						}
						lx, ly := linearize(x), linearize(y)
						if !lx.ok || !ly.ok {
							continue
						}
						// d = (v - len(data)) - (x - y) must be a constant <= 0
						d := map[string]int64{}
						for k, c := range lv.terms {
							d[k] += c
						}
						d[lenKey]--
						for k, c := range lx.terms {
							d[k] -= c
						}
						for k, c := range ly.terms {
							d[k] += c
						}
						konst := lv.k - lx.k + ly.k
						zero := true
						for _, c := range d {
							if c != 0 {
								zero = false
							}
						}
						if zero && konst <= 0 {
							why = ""
							break
						}
						if zero {
							why = "the returned count can reach len(" + data.Name() + ") (it exceeds the loop guard's bound by " + itoa(int(konst)) + "): the caller then stops, and the end-of-block code of the block is never written"
						}
					}
				}
				r.Check(why == "", id, key, p.InstrPos(ret), "an early return (output buffer full) leaves at least one byte for the call that writes the end-of-block code", why)
			}
		}
	}
}

func init() {
	extend("C02", Rule{ID: "R02.11", Configs: "all", Run: ruleR02_11},
		"(R02.11) packed multi-symbol table entries: in every store into the literal/length short table whose value is an OR of shifted symbols, each symbol field provably fits below the next field and below the large-code flag bit (upper bounds taken from the dominating comparisons that skip or stop on larger symbols, or from the operand's type) - a symbol one bit too wide turns the entry into a long-table pointer.")
}

type packTerm struct {
	v     ssa.Value
	shift int64
	konst bool
	kval  int64
}

func orLeaves(v ssa.Value, out *[]packTerm) bool {
	v = stripConv(v)
	switch x := v.(type) {
	case *ssa.BinOp:
		switch x.Op {
		case token.OR, token.ADD:
			return orLeaves(x.X, out) && orLeaves(x.Y, out)
		case token.SHL:
			if k, ok := constInt(x.Y); ok {
				*out = append(*out, packTerm{v: stripConv(x.X), shift: k})
				return true
			}
			// variable shift (code length): top field
			*out = append(*out, packTerm{v: x, shift: -1})
			return true
		}
	case *ssa.Const:
		if k, ok := constInt(x); ok {
			*out = append(*out, packTerm{v: x, konst: true, kval: k})
			return true
		}
	}
	*out = append(*out, packTerm{v: v, shift: 0})
	return true
}

// upperBound: an inclusive upper bound for v at instruction `at`, from dominating comparisons with constants or from v's type.
func upperBound(v ssa.Value, at ssa.Instruction) (int64, bool) {
	best, have := int64(0), false
	take := func(u int64) {
		if !have || u < best {
			best, have = u, true
		}
	}
	if sz := intSize(v.Type()); sz > 0 && sz <= 2 {
		take(int64(1)<<(8*uint(sz)) - 1)
	}
	for _, f := range dominatingFacts(at) {
		if f.Y == nil {
			continue
		}
		x, y, op := stripConv(f.X), stripConv(f.Y), f.Op
		if k, isK := constInt(x); isK && y == v {
			// k op v  ->  v op' k
			x, y = y, x
			_ = k
			switch op {
			case token.LSS:
				op = token.GTR
			case token.LEQ:
				op = token.GEQ
			case token.GTR:
				op = token.LSS
			case token.GEQ:
				op = token.LEQ
			}
		}
		if x != v {
			continue
		}
		k, isK := constInt(y)
		if !isK {
			continue
		}
		switch op {
		case token.LSS:
			take(k - 1)
		case token.LEQ, token.EQL:
			take(k)
		}
	}
	return best, have
}

func ruleR02_11(p *Program, r *Report) {
	r.Expect("R02.11", 2)
	flagOff, okF := constOf(p, flateRel, "largeFlagBitOffset")
	if !okF {
		r.Undecided("R02.11", "anchors", "-", "largeFlagBitOffset exists", "not found")
		return
	}
	sp := p.Pkg(flateRel)
	for _, fn := range p.Funcs() {
		if fn.Pkg != sp {
			continue
		}
		lab := newLabeler()
		for _, b := range fn.Blocks {
			for _, in := range b.Instrs {
				st, ok := in.(*ssa.Store)
				if !ok {
					continue
				}
				ia, ok := st.Addr.(*ssa.IndexAddr)
				if !ok {
					continue
				}
				if _, sel := accessPath(ia.X); !strings.HasSuffix(sel, ".shortCodeLookup") {
					continue
				}
				if _, isLarge := p.valueSourcesNamed(ia.X, "largeHuffCodeTable"); !isLarge {
					continue
				}
				var terms []packTerm
				orLeaves(st.Val, &terms)
				// symbol fields: non-constant terms with a constant shift below the flag bit
				var syms []packTerm
				for _, t := range terms {
					if !t.konst && t.shift >= 0 && t.shift < flagOff {
						syms = append(syms, t)
					}
				}
				if len(syms) < 2 {
					continue
				}
				key := shortFn(fn) + "|" + lab.get("packed entry of "+itoa(len(syms))+" symbols")
				why := ""
				for _, t := range syms {
					// the field ends where the next higher field starts, at the latest at the flag bit
					limit := flagOff
					for _, o := range terms {
						if !o.konst && o.shift > t.shift && o.shift < limit {
							limit = o.shift
						}
					}
					u, have := upperBound(t.v, st)
					if !have {
						why = "no upper bound is known for the symbol shifted by " + itoa(int(t.shift)) + " (" + describeValue(t.v) + ")"
						break
					}
					if u>>uint(limit-t.shift) != 0 {
						why = "the symbol shifted by " + itoa(int(t.shift)) + " can be as large as " + itoa(int(u)) + ", which does not fit in the " + itoa(int(limit-t.shift)) + " bits below bit " + itoa(int(limit)) + " (next field / large-code flag): the entry would be read as a pointer into the long table"
						break
					}
				}
				r.Check(why == "", "R02.11", key, p.InstrPos(st), "each symbol of a packed table entry fits its bit field", why)
			}
		}
	}
}

// valueSourcesNamed: does the address derive from a value whose (pointer-to) named type is `name`?
func (p *Program) valueSourcesNamed(v ssa.Value, name string) (ssa.Value, bool) {
	root, _ := accessPath(v)
	if root == nil {
		return nil, false
	}
	if n := derefNamed(root.Type()); n != nil && n.Obj().Name() == name {
		return root, true
	}
	return nil, false
}

func init() {
	extend("C13", Rule{ID: "R13.4", Configs: "all", Run: ruleR13_4},
		"(R13.4) a Reader re-targets ((*bufio.Reader).Reset) only buffers it allocated itself: the receiver field the call is made on is assigned nowhere but from bufio.NewReader/NewReaderSize (or another such field); a field that can also hold the caller's *bufio.Reader must never be Reset - doing so hijacks the caller's object, so the Reader after Reset(src) reads through a buffer somebody else owns and is not a new Reader on src.")
	extend("C05", Rule{ID: "R05.5", Configs: "all", Run: func(p *Program, r *Report) { ruleR13_4x(p, r, "R05.5") }}, "(R05.5) = R13.4: re-targeting the caller's *bufio.Reader discards what it had buffered beyond the previous stream.")
}

func ruleR13_4(p *Program, r *Report) { ruleR13_4x(p, r, "R13.4") }

func ruleR13_4x(p *Program, r *Report, id string) {
	r.Expect(id, 1)
	// which fields of which named types are assigned a *bufio.Reader that is not a fresh allocation?
	type fkey struct {
		n   *types.Named
		sel string
	}
	fresh := func(v ssa.Value) bool {
		for _, leaf := range p.valueSources(v) {
			c, ok := leaf.(*ssa.Call)
			if !ok {
				return false
			}
			f := c.Common().StaticCallee()
			if !(isFunc(f, "bufio", "NewReader") || isFunc(f, "bufio", "NewReaderSize")) {
				return false
			}
		}
		return true
	}
	type storeInfo struct {
		st  *ssa.Store
		own bool
	}
	stores := map[fkey][]storeInfo{}
	for _, fn := range p.Funcs() {
		if !readerPkg(fn) {
			continue
		}
		for _, b := range fn.Blocks {
			for _, in := range b.Instrs {
				st, ok := in.(*ssa.Store)
				if !ok || !isNamedType(st.Val.Type(), "bufio", "Reader") {
					continue
				}
				root, sel := accessPath(st.Addr)
				if root == nil || sel == "" {
					continue
				}
				n := derefNamed(root.Type())
				if n == nil {
					continue
				}
				stores[fkey{n, sel}] = append(stores[fkey{n, sel}], storeInfo{st, false})
			}
		}
	}
	// a field is "own" when every store into it is a fresh allocation or a load of another own field (fixpoint)
	own := map[fkey]bool{}
	for k := range stores {
		own[k] = true
	}
	for changed := true; changed; {
		changed = false
		for k, sts := range stores {
			if !own[k] {
				continue
			}
			for _, si := range sts {
				ok := fresh(si.st.Val)
				if !ok {
					ok = true
					for _, leaf := range p.valueSources(si.st.Val) {
						root, sel, isL := fieldLoad(leaf)
						if isL && root != nil {
							if n := derefNamed(root.Type()); n != nil && own[fkey{n, sel}] && sel != "" {
								if _, has := stores[fkey{n, sel}]; has {
									continue
								}
							}
						}
						if c, isC := leaf.(*ssa.Call); isC {
							f := c.Common().StaticCallee()
							if isFunc(f, "bufio", "NewReader") || isFunc(f, "bufio", "NewReaderSize") {
								continue
							}
						}
						ok = false
					}
				}
				if !ok {
					own[k] = false
					changed = true
					break
				}
			}
		}
	}
	for _, fn := range p.Funcs() {
		if !readerPkg(fn) {
			continue
		}
		lab := newLabeler()
		for _, c := range allCalls(fn) {
			f := c.Common().StaticCallee()
			if !isMethodOf(f, "bufio", "Reader", "Reset") {
				continue
			}
			key := shortFn(fn) + "|" + lab.get(calleeLabel(c))
			recvv := c.Common().Args[0]
			why := ""
			for _, leaf := range p.valueSources(recvv) {
				root, sel, isL := fieldLoad(leaf)
				if isL && root != nil {
					if n := derefNamed(root.Type()); n != nil {
						if !own[fkey{n, sel}] {
							why = "field " + sel + " of " + n.Obj().Name() + " can hold a *bufio.Reader the Reader did not allocate (it is also assigned from a caller-supplied value): Reset re-targets the caller's object, discarding what it had buffered and tying this Reader to a buffer the caller may re-use"
						}
						continue
					}
				}
				if fresh(leaf) {
					continue
				}
				why = "re-targets a *bufio.Reader of unknown origin (" + describeValue(leaf) + ")"
			}
			r.Check(why == "", id, key, p.InstrPos(c), "only a buffer the Reader allocated itself is re-targeted", why)
		}
	}
}

// ---------------------------------------------------------------- round 4

func init() {
	extend("C14", Rule{ID: "R14.6", Configs: "all", Run: ruleR14_6},
		"(R14.6) the sticky error is consulted before anything can report success: every return of a constant nil error from Write, Flush or Close of the three Writer types is dominated by the edge 'sticky error == nil' (or, for Close, a closed flag that is raised only at the very end of a successful Close; a marker value kept in the sticky field itself does not count, since a destination can fail with that value), so a closed flag or an empty-input shortcut tested earlier cannot hide a recorded failure.")
	extend("C10", Rule{ID: "R10.9", Configs: "all", Run: ruleR10_9},
		"(R10.9) a flush drains: in the block compressor every return that can report success while a flush is requested is dominated by the edge 'input cursor == end of pending input' (or 'nothing was accumulated'); returns behind '!flush' and returns of a known non-nil error are exempt.")
	extend("C03", Rule{ID: "R03.9", Configs: "all", Run: ruleR03_9},
		"(R03.9) the dynamic-header parser compares the number of code lengths it has produced with the declared count before it can succeed: the success exit of readLitDistLens is dominated by the not-greater edge of a comparison between the cursor and an expression of the declared distance count (zero runs advance the cursor by a decoded amount and rely on this test).")
	extend("C06", Rule{ID: "R06.6", Configs: "all", Run: ruleR06_6},
		"(R06.6) 32-bit header and trailer fields of gzip/zlib read with Uint32 are never reinterpreted as signed 32-bit values (MTIME after 2038, sizes above 2 GiB).")
}

func ruleR14_6(p *Program, r *Report) {
	r.Expect("R14.6", 6)
	for _, tr := range p.WriterTypes() {
		if tr.Sticky == "" {
			continue
		}
		for _, opn := range []string{"Write", "Flush", "Close"} {
			fn := tr.Ops[opn]
			recv := fn.Params[0]
			lab := newLabeler()
			for _, b := range fn.Blocks {
				for _, in := range b.Instrs {
					ret, ok := in.(*ssa.Return)
					if !ok {
						continue
					}
					e := returnErr(ret)
					if e == nil || !isNil(e) {
						continue
					}
					key := shortFn(fn) + "|" + lab.get("return nil")
					okFact := false
					for _, f := range dominatingFacts(ret) {
						if f.Op != token.EQL || f.Y == nil {
							continue
						}
						for _, pr := range [][2]ssa.Value{{f.X, f.Y}, {f.Y, f.X}} {
							if !isStickyLoad(pr[0], recv, tr.Sticky) {
								continue
							}
							if isNil(pr[1]) {
								okFact = true
							}
							// (a closed marker kept in the sticky field itself is NOT accepted: the field also holds destination
							// errors, and a destination may fail with that very value - defect #25)
						}
					}
					if !okFact && opn == "Close" {
						// a closed flag that is raised only at the very end of a successful Close: every store of true to
						// it is behind the sticky-nil edge and no destination call follows it
						for _, f := range dominatingFacts(ret) {
							if f.Y != nil || f.Op != token.EQL {
								continue
							}
							root, sel, isL := fieldLoad(f.X)
							if !isL || root != recv || !isBoolType(f.X.Type()) {
								continue
							}
							stores, good := 0, true
							for _, g := range p.Funcs() {
								for _, gb := range g.Blocks {
									for _, gin := range gb.Instrs {
										st, ok := gin.(*ssa.Store)
										if !ok {
											continue
										}
										r2, s2 := accessPath(st.Addr)
										if s2 != sel || r2 == nil || derefNamed(r2.Type()) != tr.Named {
											continue
										}
										if b, isB := constBool(st.Val); !isB || !b {
											continue
										}
										stores++
										if g != fn {
											good = false
											continue
										}
										behindNil := false
										for _, f2 := range dominatingFacts(st) {
											if f2.Op == token.EQL && f2.Y != nil && ((isStickyLoad(f2.X, recv, tr.Sticky) && isNil(f2.Y)) || (isStickyLoad(f2.Y, recv, tr.Sticky) && isNil(f2.X))) {
												behindNil = true
											}
										}
										after, _, _ := (PathQuery{Start: st, Target: func(x ssa.Instruction) bool {
											c, ok := x.(ssa.CallInstruction)
											if !ok {
												return false
											}
											d, _ := p.isDstCall(c)
											return d
										}}).Find(fn)
										if !behindNil || after {
											good = false
										}
									}
								}
							}
							if stores > 0 && good {
								okFact = true
							}
						}
					}
					r.Check(okFact, "R14.6", key, p.InstrPos(ret), "success is reported only where the sticky error is known to be nil", "this return of nil is not behind the test of ."+tr.Sticky+": a failure recorded earlier would be answered with success")
				}
			}
		}
	}
}

func ruleR10_9(p *Program, r *Report) {
	r.Expect("R10.9", 1)
	fn := p.Method(deflRel, "dynCompressor", "compressBlock")
	if fn == nil || len(fn.Params) < 2 {
		r.Undecided("R10.9", "anchors", "-", "dynCompressor.compressBlock(flush, final) exists", "not found")
		return
	}
	var flush *ssa.Parameter
	for _, prm := range fn.Params[1:] {
		if prm.Name() == "flush" {
			flush = prm
		}
	}
	if flush == nil {
		flush = fn.Params[1]
	}
	lab := newLabeler()
	// the loop body may have been extracted into a step helper returning (done bool, err error): its returns with
	// done possibly true are the returns of compressBlock, its flush parameter is compressBlock's
	keyFn := fn
	var doneIdx = -1
	hasGenerate := func(g *ssa.Function) bool {
		for _, c := range allCalls(g) {
			if c.Common().IsInvoke() && c.Common().Method.Name() == "generate" {
				return true
			}
		}
		return false
	}
	if !hasGenerate(fn) {
		for _, c := range allCalls(fn) {
			h := c.Common().StaticCallee()
			if h == nil || h.Blocks == nil || h.Pkg != fn.Pkg || len(c.Common().Args) == 0 || c.Common().Args[0] != ssa.Value(fn.Params[0]) || !hasGenerate(h) {
				continue
			}
			res := h.Signature.Results()
			if res.Len() != 2 || !isBoolType(res.At(0).Type()) || !isErrorType(res.At(1).Type()) {
				continue
			}
			for i, a := range c.Common().Args {
				if a == ssa.Value(flush) && i < len(h.Params) {
					fn, flush, doneIdx = h, h.Params[i], 0
				}
			}
		}
	}
	for _, b := range fn.Blocks {
		for _, in := range b.Instrs {
			ret, ok := in.(*ssa.Return)
			if !ok {
				continue
			}
			if doneIdx >= 0 {
				if k, isK := constInt(ret.Results[doneIdx]); isK && k == 0 {
					continue // done == false: the caller's loop goes on
				}
			}
			key := shortFn(keyFn) + "|" + lab.get("return")
			facts := dominatingFacts(ret)
			e := returnErr(ret)
			exempt, drained := false, false
			if doneIdx >= 0 {
				// done is the comparison itself: the caller stops exactly when everything is encoded
				if bo, ok := ret.Results[doneIdx].(*ssa.BinOp); ok && bo.Op == token.EQL {
					_, s1, ok1 := fieldLoad(bo.X)
					_, s2, ok2 := fieldLoad(bo.Y)
					if ok1 && ok2 && ((s1 == ".idx" && s2 == ".end") || (s1 == ".end" && s2 == ".idx")) {
						drained = true
					}
				}
			}
			for _, f := range facts {
				// behind !flush
				if f.Y == nil && f.X == ssa.Value(flush) && f.Op == token.NEQ {
					exempt = true
				}
				if f.Y != nil && f.Op == token.NEQ && e != nil && ((f.X == e && isNil(f.Y)) || (f.Y == e && isNil(f.X))) {
					exempt = true // a failure is being returned
				}
				if f.Y != nil && f.Op == token.EQL {
					_, s1, ok1 := fieldLoad(f.X)
					_, s2, ok2 := fieldLoad(f.Y)
					if ok1 && ok2 && ((s1 == ".idx" && s2 == ".end") || (s1 == ".end" && s2 == ".idx")) {
						drained = true
					}
					if k, isK := constInt(f.Y); isK && k == 0 && ok1 && s1 == ".end" {
						drained = true
					}
				}
			}
			switch {
			case exempt:
				r.OK("R10.9", key, p.InstrPos(ret), "return without a flush pending, or of a failure")
			default:
				r.Check(drained, "R10.9", key, p.InstrPos(ret), "with a flush requested the compressor returns success only when all pending input has been encoded", "this return is reachable with flush set and is not behind '.idx == .end': Flush would write its marker and report success while accepted data is still unencoded")
			}
		}
	}
}

func ruleR03_9(p *Program, r *Report) {
	r.Expect("R03.9", 1)
	fn := p.Method(flateRel, "inflate", "readLitDistLens")
	if fn == nil {
		r.Undecided("R03.9", "anchors", "-", "inflate.readLitDistLens exists", "not found")
		return
	}
	// the declared counts are the function's integer parameters (hdist, hlit - whatever they are called)
	var counts []*ssa.Parameter
	for _, prm := range fn.Params {
		if intSize(prm.Type()) > 0 {
			counts = append(counts, prm)
		}
	}
	if len(counts) == 0 {
		r.Undecided("R03.9", "anchors", "-", "readLitDistLens has integer parameters for the declared counts", "not found")
		return
	}
	// success exit: a store of a nil error / return whose error may be nil, reached without passing an error assignment.
	// The function funnels through END; we look at every instruction that makes the success outcome: the block in which
	// the loop's normal exit continues. Decided as: some comparison cursor > E (E mentions hdist) exists whose
	// not-greater edge dominates every path from the loop exit to a return carrying a possibly-nil error that does
	// not pass a store/phi edge of a non-nil sentinel.
	lab := newLabeler()
	n := 0
	for _, b := range fn.Blocks {
		for _, in := range b.Instrs {
			ret, ok := in.(*ssa.Return)
			if !ok {
				continue
			}
			e := returnErr(ret)
			if e == nil {
				continue
			}
			// each nil leaf of the returned error, with the block it arrives from
			type arrival struct{ from *ssa.BasicBlock }
			var nilArrivals []*ssa.BasicBlock
			if phi, ok := e.(*ssa.Phi); ok {
				for i, edge := range phi.Edges {
					if isNil(edge) {
						nilArrivals = append(nilArrivals, phi.Block().Preds[i])
					}
				}
			} else if isNil(e) {
				nilArrivals = append(nilArrivals, ret.Block())
			}
			for _, from := range nilArrivals {
				n++
				key := shortFn(fn) + "|" + lab.get("success exit")
				okCmp := false
				last := from.Instrs[len(from.Instrs)-1]
				for _, f := range dominatingFacts(last) {
					if f.Y == nil {
						continue
					}
					x, y := f.X, f.Y
					switch f.Op {
					case token.LEQ, token.LSS: // cursor < bound+1 is the same test as cursor <= bound (R02.16 judges the constant)
					case token.GEQ, token.GTR:
						x, y = y, x
					default:
						continue
					}
					// x <= y : x the cursor (a phi), y mentions hdist
					ly := linearize(y)
					mentions := false
					for _, prm := range counts {
						if ly.ok && ly.terms["param:"+prm.Name()] != 0 {
							mentions = true
						}
					}
					if !mentions {
						continue
					}
					if _, isPhi := stripConv(x).(*ssa.Phi); isPhi {
						okCmp = true
					}
				}
				r.Check(okCmp, "R03.9", key, p.InstrPos(last), "the header parser succeeds only after comparing the number of code lengths produced with the declared count", "the success exit is not behind 'cursor <= litLen+hdist+1': a zero run (symbols 17/18) that runs past the declared count is accepted")
			}
		}
	}
	if n == 0 {
		r.Undecided("R03.9", shortFn(fn)+"|success exit", p.Pos(fn.Pos()), "readLitDistLens has a success exit", "no return of a possibly-nil error found")
	}
}

func ruleR06_6(p *Program, r *Report) {
	r.Expect("R06.6", 3)
	for _, rel := range []string{gzipRel, zlibRel} {
		sp := p.Pkg(rel)
		for _, fn := range p.Funcs() {
			if fn.Pkg != sp {
				continue
			}
			lab := newLabeler()
			for _, c := range allCalls(fn) {
				f := c.Common().StaticCallee()
				if f == nil || f.Name() != "Uint32" || f.Pkg == nil || f.Pkg.Pkg.Path() != "encoding/binary" {
					continue
				}
				v := c.Value()
				if v == nil {
					continue
				}
				key := shortFn(fn) + "|" + lab.get("Uint32 field")
				why := ""
				var walk func(x ssa.Value, depth int)
				walk = func(x ssa.Value, depth int) {
					if depth > 4 || x.Referrers() == nil {
						return
					}
					for _, ref := range *x.Referrers() {
						if cv, ok := ref.(*ssa.Convert); ok {
							if b, ok := cv.Type().Underlying().(*types.Basic); ok && (b.Kind() == types.Int32 || b.Kind() == types.Int16 || b.Kind() == types.Int8) {
								why = "converted to " + cv.Type().String() + ": values with the top bit set become negative"
							}
							walk(cv, depth+1)
						}
						if phi, ok := ref.(*ssa.Phi); ok {
							walk(phi, depth+1)
						}
					}
				}
				walk(v, 0)
				r.Check(why == "", "R06.6", key, p.InstrPos(c), "a 32-bit container field keeps its unsigned value", why)
			}
		}
	}
}

func init() {
	extend("C18", Rule{ID: "R18.12", Configs: "asm", Run: ruleR18_12},
		"(R18.12) the look-back test of the assembly decode loop agrees with the Go loop's in strictness: every conditional jump into the exit that reports errorNoInvalidLookback is a strict comparison (JL/JG/JB/JA family), as the Go loop rejects only 'produced < distance' - a match reaching back to the very first byte (distance == produced) is valid.")
}

func ruleR18_12(p *Program, r *Report) {
	r.Expect("R18.12", 1)
	if asmLoadFailures(p, r, "R18.12") {
		return
	}
	lookback, ok := constOf(p, flateRel, "errorNoInvalidLookback")
	if !ok {
		r.Undecided("R18.12", "anchors", "-", "errorNoInvalidLookback exists", "not found")
		return
	}
	// the Go sibling: strictness of the comparison that leads to errInvalidLookBack
	goStrict, goSeen, goLoose := false, false, ""
	if fn := p.Func(flateRel, "decodeHuffmanLargeLoop"); fn != nil {
		for _, b := range fn.Blocks {
			for _, in := range b.Instrs {
				u, ok := in.(*ssa.UnOp)
				if !ok || u.Op != token.MUL {
					continue
				}
				if g, ok := u.X.(*ssa.Global); !ok || g.Name() != "errInvalidLookBack" {
					continue
				}
				// the comparison on the edge that leads straight into this block
				for _, pr := range in.Block().Preds {
					if br, ok := edgeCond(pr, in.Block()); ok {
						if f, ok := branchFact(br); ok && f.Y != nil {
							goSeen = true
							if f.Op == token.LSS || f.Op == token.GTR {
								goStrict = true
							} else {
								goLoose = p.InstrPos(in)
							}
						}
					}
				}
			}
		}
	}
	if goSeen {
		why := ""
		if goLoose != "" {
			goStrict = false
			why = "the comparison that leads to errInvalidLookBack at " + goLoose + " is not strict: a match that reaches back exactly to the first byte produced (distance == bytes written) is rejected by the Go loop, while the assembly loop accepts it - the verdict depends on which loop meets the match, hence on the delivery"
		}
		r.Check(goLoose == "", "R18.12", "decodeHuffmanLargeLoop|look-back test", "-", "the Go loop rejects a look-back distance only when it exceeds the bytes produced (strict comparison)", why)
	}
	strict := map[string]bool{"JL": true, "JLT": true, "JG": true, "JGT": true, "JB": true, "JCS": true, "JLO": true, "JA": true, "JHI": true}
	loose := map[string]bool{"JLE": true, "JGE": true, "JBE": true, "JLS": true, "JAE": true, "JCC": true, "JHS": true, "JNA": true, "JNB": true}
	for _, u := range p.Asm().Units {
		if u.Text.Name != "decodeHuffmanAsmArchV3" {
			continue
		}
		t := u.Text
		// exit blocks: labelled instructions from which `MOVQ $lookback, AX` is reached before any jump
		exits := map[int]bool{}
		for i, in := range t.Instrs {
			if len(in.Labels) == 0 {
				continue
			}
			for j := i; j < len(t.Instrs) && j < i+6; j++ {
				x := t.Instrs[j]
				if x.Mnem == "MOVQ" && len(x.Ops) == 2 && x.Ops[0].Kind == OpImm && x.Ops[0].Imm == lookback && x.Ops[1].Kind == OpReg && baseReg(x.Ops[1].Reg) == "AX" {
					exits[i] = true
				}
				if asmJumps[x.Mnem] || x.Mnem == "RET" {
					break
				}
			}
		}
		n := 0
		lab := newLabeler()
		for _, in := range t.Instrs {
			if !asmJumps[in.Mnem] || in.Mnem == "JMP" || len(in.Ops) != 1 || in.Ops[0].Kind != OpLabel {
				continue
			}
			tgt, ok := t.labelIdx[in.Ops[0].Name]
			if !ok || !exits[tgt] {
				continue
			}
			n++
			key := t.Name + "|" + lab.get("jump to "+in.Ops[0].Name)
			pos := t.File + ":" + itoa(in.Line)
			switch {
			case strict[in.Mnem] && goStrict:
				r.OK("R18.12", key, pos, "the assembly rejects a look-back distance by a strict comparison, like the Go loop")
			case loose[in.Mnem]:
				r.Fail("R18.12", key, pos, "the assembly rejects a look-back distance by a strict comparison, like the Go loop", in.Mnem+" also rejects equality: a match that reaches back exactly to the first byte produced is valid and the Go loop accepts it")
			case !goStrict:
				r.Undecided("R18.12", key, pos, "the Go loop's look-back test is a strict comparison", "not found in decodeHuffmanLargeLoop")
			default:
				r.Undecided("R18.12", key, pos, "the jump into the look-back exit is a comparison jump", "unrecognised condition "+in.Mnem)
			}
		}
		if n == 0 {
			r.Undecided("R18.12", t.Name+"|look-back exit", t.File, "a conditional jump into the errorNoInvalidLookback exit exists", "not found")
		}
	}
}

// ---------------------------------------------------------------- round 5

func init() {
	extend("C11", Rule{ID: "R11.5", Configs: "all", Run: ruleR11_5},
		"(R11.5) the inflater waits for input only when the decoder has run out of it: every Peek that can wait is behind the true edge of a boolean receiver field that is assigned nowhere but from constants in the constructor/Reset and from the comparison 'decoder result == errEndInput'; a step that stopped because the output window was full or a block ended goes on with what is buffered (what is left may sit complete in the bit buffer).")
}

func ruleR11_5(p *Program, r *Report) {
	r.Expect("R11.5", 1)
	sp := p.Pkg(flateRel)
	dn := p.Named(flateRel, "decompressor")
	if dn == nil {
		r.Undecided("R11.5", "anchors", "-", "type decompressor exists", "not found")
		return
	}
	// boolean fields of the decompressor whose every store is a constant or `x == errEndInput`
	starvedField := map[string]bool{}
	st, _ := dn.Underlying().(*types.Struct)
	for i := 0; st != nil && i < st.NumFields(); i++ {
		if isBoolType(st.Field(i).Type()) {
			starvedField["."+st.Field(i).Name()] = true
		}
	}
	fromCmp := map[string]bool{}
	inverted := map[string]bool{} // the field is assigned `result != errEndInput`: waiting is behind the false edge
	for _, fn := range p.Funcs() {
		if fn.Pkg != sp {
			continue
		}
		for _, b := range fn.Blocks {
			for _, in := range b.Instrs {
				s, ok := in.(*ssa.Store)
				if !ok {
					continue
				}
				root, sel := accessPath(s.Addr)
				if root == nil || !starvedField[sel] || derefNamed(root.Type()) != dn {
					continue
				}
				if _, isK := constBool(s.Val); isK {
					continue
				}
				good := false
				if bo, ok := s.Val.(*ssa.BinOp); ok && (bo.Op == token.EQL || bo.Op == token.NEQ) {
					for _, v := range []ssa.Value{bo.X, bo.Y} {
						if g := globalLoad(v); g != nil && g.Name() == "errEndInput" {
							good = true
							if bo.Op == token.NEQ {
								inverted[sel] = true
							}
						}
					}
				}
				if good {
					fromCmp[sel] = true
				} else {
					starvedField[sel] = false
				}
			}
		}
	}
	for _, fn := range p.Funcs() {
		if fn.Pkg != sp {
			continue
		}
		lab := newLabeler()
		for _, c := range allCalls(fn) {
			f := c.Common().StaticCallee()
			if !isMethodOf(f, "bufio", "Reader", "Peek") {
				continue
			}
			if k, isK := constInt(c.Common().Args[1]); (isK && k <= 0) || peekBuffered(fn, c) {
				continue
			}
			key := shortFn(fn) + "|" + lab.get(calleeLabel(c))
			ok := false
			for _, ft := range dominatingFacts(c) {
				if ft.Y != nil || (ft.Op != token.EQL && ft.Op != token.NEQ) {
					continue
				}
				if _, sel, isL := fieldLoad(ft.X); isL && starvedField[sel] && fromCmp[sel] {
					if (ft.Op == token.EQL) != inverted[sel] {
						ok = true
					}
				}
			}
			r.Check(ok, "R11.5", key, p.InstrPos(c), "the inflater waits for input only after the decoder reported end of input", "this Peek also runs after a step that stopped for another reason (output window full, block end): whatever is left of the stream may sit complete in the bit buffer, yet the Reader waits for another source byte before delivering it - a flushed prefix or the end of the stream is withheld from a source that has nothing more to give")
		}
	}
}

func init() {
	extend("C04", Rule{ID: "R04.7", Configs: "all", Run: ruleR04_7},
		"(R04.7) in the block-header parser no verdict 'invalid block' is reached from a call that takes bits (nextBits/readBits) without first passing the test 'bitsLen < 0' (out of input): bits that have not arrived read as zeros, and judging them would turn a header that is merely incomplete into a sticky corrupt-input error whose outcome depends on where the delivery was cut.")
	extend("C11", Rule{ID: "R11.6", Configs: "all", Run: ruleR04_7}, "(R11.6) = R04.7: a prefix that ends inside a block header must leave the Reader waiting, not failed.")
	extend("C03", Rule{ID: "R03.10", Configs: "all", Run: ruleR03_10},
		"(R03.10) the flate Reader's Read reports nothing but what its step reports: every value it stores in the sticky error field or returns as an error is nil, the sticky field itself, or the result of the step call - it invents no error of its own.")
}

func ruleR04_7(p *Program, r *Report) {
	id := "R04.7"
	if r.Prop == "C11" {
		id = "R11.6"
	}
	r.Expect(id, 2)
	sp := p.Pkg(flateRel)
	nb := p.Method(flateRel, "inflate", "nextBits")
	rb := p.Method(flateRel, "inflate", "readBits")
	if nb == nil && rb == nil {
		r.Undecided(id, "anchors", "-", "inflate.nextBits / readBits exist", "not found")
		return
	}
	isTake := func(in ssa.Instruction) bool {
		c, ok := in.(ssa.CallInstruction)
		if !ok {
			return false
		}
		f := c.Common().StaticCallee()
		return f != nil && (f == nb || f == rb)
	}
	isTest := func(in ssa.Instruction) bool {
		iff, ok := in.(*ssa.If)
		if !ok {
			return false
		}
		bo, ok := iff.Cond.(*ssa.BinOp)
		if !ok {
			return false
		}
		for _, pr := range [][2]ssa.Value{{bo.X, bo.Y}, {bo.Y, bo.X}} {
			if _, sel, isL := fieldLoad(pr[0]); isL && strings.HasSuffix(sel, "bitsLen") {
				if k, isK := constInt(pr[1]); isK && k == 0 {
					return true
				}
			}
		}
		return false
	}
	for _, fn := range p.Funcs() {
		if fn.Pkg != sp || fn == nb || fn == rb {
			continue
		}
		var takes []ssa.Instruction
		for _, b := range fn.Blocks {
			for _, in := range b.Instrs {
				if isTake(in) {
					takes = append(takes, in)
				}
			}
		}
		if len(takes) == 0 {
			continue
		}
		// verdicts: returns whose error operand can be errInvalidBlock / errorNoInvalidBlock produced in this function
		isVerdict := func(in ssa.Instruction) bool {
			ret, ok := in.(*ssa.Return)
			if !ok {
				return false
			}
			e := returnErr(ret)
			if e == nil {
				return false
			}
			for _, leaf := range p.valueSources(e) {
				if g := globalLoad(leaf); g != nil && g.Name() == "errInvalidBlock" {
					return true
				}
			}
			return false
		}
		key := shortFn(fn) + "|verdict after taking bits"
		why := ""
		// takes whose bits were verified to be there beforehand: dominated by 'bitsLen >= K' with K at least the sum
		// of the constant widths taken under that same fact
		prechecked := map[ssa.Instruction]bool{}
		{
			type pre struct {
				k    int64
				load ssa.Value
			}
			byFact := map[ssa.Value][]ssa.Instruction{}
			kOf := map[ssa.Value]int64{}
			for _, t := range takes {
				for _, f := range dominatingFacts(t) {
					if f.Y == nil || f.Op != token.GEQ {
						continue
					}
					k, isK := constInt(f.Y)
					if !isK || k <= 0 {
						continue
					}
					x := f.X
					if _, sel, isL := fieldLoad(x); !isL || !strings.HasSuffix(sel, "bitsLen") {
						// whole bytes available: bitsLen/8 >= k means bitsLen >= 8k
						q, isQ := stripConv(x).(*ssa.BinOp)
						if !isQ || !((q.Op == token.QUO && isConstVal(q.Y, 8)) || (q.Op == token.SHR && isConstVal(q.Y, 3))) {
							continue
						}
						if _, sel2, isL2 := fieldLoad(stripConv(q.X)); !isL2 || !strings.HasSuffix(sel2, "bitsLen") {
							continue
						}
						x, k = stripConv(q.X), k*8
					}
					byFact[x] = append(byFact[x], t)
					kOf[x] = k
				}
			}
			for ld, ts := range byFact {
				sum := int64(0)
				okW := true
				for _, t := range ts {
					args := t.(ssa.CallInstruction).Common().Args
					w, isK := constInt(args[len(args)-1])
					if !isK {
						okW = false
					}
					sum += w
				}
				if okW && sum <= kOf[ld] {
					for _, t := range ts {
						prechecked[t] = true
					}
				}
			}
		}
		for _, t := range takes {
			if prechecked[t] {
				continue
			}
			if found, hit, path := (PathQuery{Start: t, Target: isVerdict, Barrier: isTest}).Find(fn); found {
				why = "the return of errInvalidBlock at " + p.InstrPos(hit) + " is reachable from the bit-taking call at " + p.InstrPos(t) + " (blocks " + fmtInts(path) + ") without the test bitsLen < 0: an incomplete header would be judged on bits that have not arrived"
				break
			}
		}
		r.Check(why == "", id, key, p.Pos(fn.Pos()), "a header field is judged only after the out-of-input test", why)
	}
}

func ruleR03_10(p *Program, r *Report) {
	r.Expect("R03.10", 2)
	fn := p.Method(flateRel, "decompressor", "Read")
	st := p.Method(flateRel, "decompressor", "step")
	if fn == nil || st == nil {
		r.Undecided("R03.10", "anchors", "-", "decompressor.Read and step exist", "not found")
		return
	}
	recv := fn.Params[0]
	sticky := ""
	if dn := p.Named(flateRel, "decompressor"); dn != nil {
		if s, ok := dn.Underlying().(*types.Struct); ok {
			if es := structFields(s, isErrorType); len(es) == 1 {
				sticky = es[0]
			}
		}
	}
	if sticky == "" {
		r.Undecided("R03.10", "anchors", "-", "decompressor has one error field", "not found")
		return
	}
	var okValIn func(v ssa.Value, rcv ssa.Value, depth int) (bool, string)
	okValIn = func(v ssa.Value, rcv ssa.Value, depth int) (bool, string) {
		for _, leaf := range p.valueSources(v) {
			if isNil(leaf) || isStickyLoad(leaf, rcv, sticky) {
				continue
			}
			var call *ssa.Call
			if c, ok := leaf.(*ssa.Call); ok {
				call = c
			} else if ex, ok := leaf.(*ssa.Extract); ok {
				call, _ = ex.Tuple.(*ssa.Call)
			}
			if call != nil && call.Common().StaticCallee() == st {
				continue
			}
			// a helper on the same receiver: every error it returns is judged the same way
			if call != nil && depth < 2 {
				if h := call.Common().StaticCallee(); h != nil && h.Blocks != nil && h.Pkg == fn.Pkg && len(call.Common().Args) > 0 && call.Common().Args[0] == rcv {
					allOK := true
					for _, hb := range h.Blocks {
						for _, hin := range hb.Instrs {
							if ret, ok := hin.(*ssa.Return); ok {
								if e := returnErr(ret); e != nil {
									if ok2, _ := okValIn(e, h.Params[0], depth+1); !ok2 {
										allOK = false
									}
								}
							}
						}
					}
					if allOK {
						continue
					}
				}
			}
			return false, describeValue(leaf)
		}
		return true, ""
	}
	okVal := func(v ssa.Value) (bool, string) { return okValIn(v, recv, 0) }
	lab := newLabeler()
	for _, b := range fn.Blocks {
		for _, in := range b.Instrs {
			switch x := in.(type) {
			case *ssa.Store:
				if !isStickyStore(x, recv, sticky) {
					continue
				}
				ok, what := okVal(x.Val)
				r.Check(ok, "R03.10", shortFn(fn)+"|"+lab.get("store ."+sticky), p.InstrPos(x), "Read records only what step reports", "stores "+what+": an error of the Reader's own making, outside the set the property allows (io.EOF, io.ErrUnexpectedEOF, CorruptInputError, the source's error)")
			case *ssa.Return:
				e := returnErr(x)
				if e == nil {
					continue
				}
				ok, what := okVal(e)
				r.Check(ok, "R03.10", shortFn(fn)+"|"+lab.get("return"), p.InstrPos(x), "Read returns only what step reports", "returns "+what)
			}
		}
	}
}

func init() {
	extend("C01", Rule{ID: "R01.9", Configs: "asm", Run: ruleR01_9},
		"(R01.9) assembly match finders: every distance symbol they compute (the 5-bit field `ANDQ $31, R` of a token) is counted - an increment of hist.distanceCodes indexed by that register is passed on every path before the register is overwritten or the routine returns; a token whose distance symbol is not in the histogram gets a zero-length code and is emitted as no bits (the assembly analogue of R01.3).")
}

func ruleR01_9(p *Program, r *Report) {
	r.Expect("R01.9", 4)
	if asmLoadFailures(p, r, "R01.9") {
		return
	}
	for _, u := range p.Asm().Units {
		t := u.Text
		if !strings.HasPrefix(t.Name, "lz77Asm") {
			continue
		}
		// is instruction i an increment of hist.distanceCodes[reg]?
		isDistInc := func(i int, reg string) bool {
			in := t.Instrs[i]
			if (in.Mnem != "ADDL" && in.Mnem != "INCL" && in.Mnem != "ADDQ") || len(in.Ops) == 0 {
				return false
			}
			op := in.Ops[len(in.Ops)-1]
			if op.Kind != OpMem || op.Base == "" || baseReg(op.Index) != reg {
				return false
			}
			bv := u.Flow.Before[i][op.Base]
			T, _, ok := u.typedBase(bv)
			if !ok {
				return false
			}
			res, err := resolveOffset(p.Sizes, T, op.Off+bv.Disp)
			return err == nil && strings.HasSuffix(res.FieldSet, "distanceCodes")
		}
		lab := newLabeler()
		n := 0
		for i, in := range t.Instrs {
			if !u.Flow.Reach[i] || in.Mnem != "ANDQ" || len(in.Ops) != 2 || in.Ops[0].Kind != OpImm || in.Ops[0].Imm != 31 || in.Ops[1].Kind != OpReg {
				continue
			}
			reg := baseReg(in.Ops[1].Reg)
			// only symbols that feed the histogram somewhere count as distance symbols
			n++
			key := t.Name + "|" + lab.get("distance symbol in "+reg)
			// search forward: RET or redefinition of reg before an increment indexed by reg
			seen := map[int]bool{}
			work := []int{}
			succ, _ := t.succs(i)
			work = append(work, succ...)
			bad := -1
			for len(work) > 0 && bad < 0 {
				j := work[len(work)-1]
				work = work[:len(work)-1]
				if seen[j] {
					continue
				}
				seen[j] = true
				x := t.Instrs[j]
				if isDistInc(j, reg) {
					continue
				}
				if x.Mnem == "RET" {
					bad = j
					break
				}
				if d := x.dest(); d >= 0 && x.Ops[d].Kind == OpReg && baseReg(x.Ops[d].Reg) == reg {
					bad = j
					break
				}
				ss, err := t.succs(j)
				if err != nil {
					bad = j
					break
				}
				work = append(work, ss...)
			}
			pos := t.File + ":" + itoa(in.Line)
			if bad < 0 {
				r.OK("R01.9", key, pos, "the distance symbol is counted in hist.distanceCodes on every path")
			} else {
				r.Fail("R01.9", key, pos, "the distance symbol is counted in hist.distanceCodes on every path", "line "+itoa(t.Instrs[bad].Line)+" ("+strings.TrimSpace(t.Instrs[bad].Raw)+") is reached first: the token's distance symbol is missing from the histogram, gets no code, and is emitted as zero bits")
			}
		}
		if n == 0 {
			r.Undecided("R01.9", t.Name+"|distance symbols", t.File, "the match finder computes distance symbols", "no `ANDQ $31, R` found")
		}
	}
}

func init() {
	extend("C04", Rule{ID: "R04.8", Configs: "all", Run: ruleR04_8},
		"(R04.8) in the code-length parser a slot of the length array is judged (huffs[K].Length() at a constant K) only where the cursor is known to have passed it - behind 'cursor > K' (or >= K+1), or after the loop has run to the end of the array; judging the end-of-block slot when the cursor has merely reached it turns a header cut at that very byte into 'invalid block'.")
}

func ruleR04_8(p *Program, r *Report) {
	r.Expect("R04.8", 1)
	fn := p.Method(flateRel, "inflate", "readLitDistLens")
	if fn == nil {
		r.Undecided("R04.8", "anchors", "-", "inflate.readLitDistLens exists", "not found")
		return
	}
	lab := newLabeler()
	n := 0
	for _, c := range allCalls(fn) {
		f := c.Common().StaticCallee()
		if f == nil || f.Name() != "Length" || len(c.Common().Args) == 0 {
			continue
		}
		// receiver: huffs[K] (value loaded from, or address of, an element at a constant index)
		var ia *ssa.IndexAddr
		switch x := c.Common().Args[0].(type) {
		case *ssa.UnOp:
			ia, _ = x.X.(*ssa.IndexAddr)
		case *ssa.IndexAddr:
			ia = x
		}
		if ia == nil {
			continue
		}
		k, isK := constInt(ia.Index)
		if !isK {
			continue
		}
		n++
		key := shortFn(fn) + "|" + lab.get("slot "+itoa(int(k)))
		ok := false
		for _, ft := range dominatingFacts(c) {
			if ft.Y == nil {
				continue
			}
			x, y, op := ft.X, ft.Y, ft.Op
			if _, isPhi := stripConv(y).(*ssa.Phi); isPhi {
				x, y = y, x
				switch op {
				case token.LSS:
					op = token.GTR
				case token.LEQ:
					op = token.GEQ
				case token.GTR:
					op = token.LSS
				case token.GEQ:
					op = token.LEQ
				}
			}
			if _, isPhi := stripConv(x).(*ssa.Phi); !isPhi {
				continue
			}
			if kk, isKK := constInt(y); isKK {
				if (op == token.GTR && kk >= k) || (op == token.GEQ && kk >= k+1) {
					ok = true
				}
				continue
			}
			// loop ran to the end: cursor >= len(slice)
			if cl, isC := y.(*ssa.Call); isC && op == token.GEQ {
				if bi, isB := cl.Common().Value.(*ssa.Builtin); isB && bi.Name() == "len" && cl.Common().Args[0] == ia.X {
					ok = true
				}
			}
		}
		r.Check(ok, "R04.8", key, p.InstrPos(c), "a code-length slot is judged only after the cursor has passed it", "huffs["+itoa(int(k))+"] is examined where the cursor is not known to be beyond "+itoa(int(k))+": when the input ends exactly before that slot's length, the slot still holds zero and an incomplete header is declared invalid")
	}
	if n == 0 {
		r.Undecided("R04.8", shortFn(fn)+"|slots", p.Pos(fn.Pos()), "the parser examines the end-of-block slot", "no huffs[K].Length() found")
	}
}

func init() {
	extend("C08", Rule{ID: "R08.4", Configs: "all", Run: ruleR08_4},
		"(R08.4) the end of a member stays the end: in the gzip Reader's Read the sticky error is cleared (set to nil) only behind the multistream edge, i.e. only when the Reader goes on to the next member; in single-member mode the recorded io.EOF must survive, otherwise a further Read would take the bytes after the member for a trailer.")
	extend("C05", Rule{ID: "R05.6", Configs: "all", Run: ruleR08_4}, "(R05.6) = R08.4.")
	extend("C04", Rule{ID: "R04.9", Configs: "all", Run: ruleR04_9},
		"(R04.9) when a block header that was staged across deliveries completes, the real input is re-sliced by exactly the bytes the parser took from it: in linear normal form (phis of the staging branch expanded) the offset is 'bytes copied into the staging buffer - bytes left unread in it', and the staging length is 'bytes copied + bytes staged before'.")
}

func ruleR08_4(p *Program, r *Report) {
	id := "R08.4"
	if r.Prop == "C05" {
		id = "R05.6"
	}
	r.Expect(id, 1)
	var gz *TypeRole
	for _, tr := range p.ReaderTypes() {
		if tr.Rel == gzipRel && tr.Ops["Read"] != nil && tr.Sticky != "" {
			gz = tr
		}
	}
	if gz == nil {
		r.Undecided(id, "anchors", "-", "gzip.Reader with a sticky error exists", "not found")
		return
	}
	fn := gz.Ops["Read"]
	recv := fn.Params[0]
	// the multistream flag: the boolean receiver field tested in Read
	lab := newLabeler()
	n := 0
	for _, b := range fn.Blocks {
		for _, in := range b.Instrs {
			st, ok := in.(*ssa.Store)
			if !ok || !isStickyStore(st, recv, gz.Sticky) || !isNil(st.Val) {
				continue
			}
			n++
			key := shortFn(fn) + "|" + lab.get("clear ."+gz.Sticky)
			okFact := false
			for _, f := range dominatingFacts(st) {
				if f.Y != nil || (f.Op != token.EQL && f.Op != token.NEQ) {
					continue
				}
				if root, _, isL := fieldLoad(f.X); isL && root == recv && isBoolType(f.X.Type()) {
					okFact = true // behind a test of the Reader's mode flag (whatever it is called)
				}
			}
			r.Check(okFact, id, key, p.InstrPos(st), "the recorded end of a member is cleared only when the Reader continues with the next member", "the sticky error is set to nil where multistream mode is not known: in single-member mode a Read after io.EOF would read on into the bytes after the member")
		}
	}
	if n == 0 {
		r.Undecided(id, shortFn(fn)+"|clear", p.Pos(fn.Pos()), "Read clears the sticky io.EOF before the next member", "no store of nil found")
	}
}

// expandPhi: linear form of v in which a phi with exactly one edge that is not the constant 0 is replaced by
// that edge (valid where the branch that produced the non-zero edge is known to have been taken).
func expandPhiLinear(v ssa.Value, depth int) linForm {
	l := linearize(v)
	if !l.ok || depth > 3 {
		return l
	}
	out := linForm{terms: map[string]int64{}, k: l.k, ok: true}
	var phis map[string]*ssa.Phi
	phis = map[string]*ssa.Phi{}
	var collect func(x ssa.Value)
	seen := map[ssa.Value]bool{}
	collect = func(x ssa.Value) {
		if x == nil || seen[x] {
			return
		}
		seen[x] = true
		switch y := x.(type) {
		case *ssa.Phi:
			phis["phi:"+y.Name()] = y
		case *ssa.BinOp:
			collect(y.X)
			collect(y.Y)
		case *ssa.Convert:
			collect(y.X)
		case *ssa.UnOp:
			collect(y.X)
		}
	}
	collect(v)
	for term, c := range l.terms {
		phi, isPhi := phis[term]
		if !isPhi {
			out.terms[term] += c
			continue
		}
		var nz ssa.Value
		cnt := 0
		for _, e := range phi.Edges {
			if k, isK := constInt(e); isK && k == 0 {
				continue
			}
			nz = e
			cnt++
		}
		if cnt != 1 {
			out.terms[term] += c
			continue
		}
		sub := expandPhiLinear(nz, depth+1)
		if !sub.ok {
			out.terms[term] += c
			continue
		}
		for t2, c2 := range sub.terms {
			out.terms[t2] += c * c2
		}
		out.k += c * sub.k
	}
	for t, c := range out.terms {
		if c == 0 {
			delete(out.terms, t)
		}
	}
	return out
}

func ruleR04_9(p *Program, r *Report) {
	r.Expect("R04.9", 1)
	fn := p.Method(flateRel, "inflate", "readHeader")
	if fn == nil {
		r.Undecided("R04.9", "anchors", "-", "inflate.readHeader exists", "not found")
		return
	}
	// the copy into the staging buffer made before parsing: copy(headerBuffer[headerBuffered:], input[:copySize])
	var stageCopy *ssa.Call
	stageFn := fn
	for _, rf := range recvRegion(fn) {
		for _, c := range allCalls(rf.fn) {
			call, ok := c.(*ssa.Call)
			if !ok {
				continue
			}
			if bi, ok := call.Common().Value.(*ssa.Builtin); ok && bi.Name() == "copy" {
				if sl, ok := call.Common().Args[1].(*ssa.Slice); ok && sl.High != nil && sl.Low == nil {
					if _, sel := accessPath(sl.X); strings.HasSuffix(sel, ".input") {
						stageCopy, stageFn = call, rf.fn
					}
				}
			}
		}
	}
	// when the staging lives in a helper, the call of that helper in readHeader stands for the copy
	var stageAt ssa.Instruction = stageCopy
	if stageCopy != nil && stageFn != fn {
		stageAt = nil
		for _, c := range allCalls(fn) {
			if c.Common().StaticCallee() == stageFn {
				stageAt = c
			}
		}
		if stageAt == nil {
			stageCopy = nil
		}
	}
	if stageCopy == nil {
		r.Undecided("R04.9", shortFn(fn)+"|staging copy", p.Pos(fn.Pos()), "readHeader copies a bounded part of the input behind the staged bytes", "not found")
		return
	}
	copySize := stageCopy.Common().Args[1].(*ssa.Slice).High
	lcs := linearize(copySize)
	// the re-slice of the real input after parsing: store .input = X[read:] with X not the staging buffer
	n := 0
	for _, b := range fn.Blocks {
		for _, in := range b.Instrs {
			st, ok := in.(*ssa.Store)
			if !ok {
				continue
			}
			if _, sel := accessPath(st.Addr); !strings.HasSuffix(sel, ".input") {
				continue
			}
			sl, ok := st.Val.(*ssa.Slice)
			if !ok || sl.Low == nil || sl.High != nil {
				continue
			}
			if reach, _, _ := (PathQuery{Start: stageAt, Target: func(x ssa.Instruction) bool { return x == ssa.Instruction(st) }}).Find(fn); !reach {
				continue
			}
			if _, sel := accessPath(sl.X); strings.HasSuffix(sel, ".headerBuffer") {
				continue
			}
			n++
			key := shortFn(fn) + "|re-slice after a staged header"
			got := expandPhiLinear(sl.Low, 0)
			if stageFn != fn && got.ok {
				// the staged length is the helper's result: replace it by the linear form of what the helper returns
				for t, c := range got.terms {
					if !strings.HasSuffix(t, "."+stageFn.Name()+"()") {
						continue
					}
					var rets []*ssa.Return
					for _, hb := range stageFn.Blocks {
						for _, hin := range hb.Instrs {
							if rt, ok := hin.(*ssa.Return); ok {
								rets = append(rets, rt)
							}
						}
					}
					if len(rets) != 1 || len(rets[0].Results) != 1 {
						continue
					}
					sub := expandPhiLinear(rets[0].Results[0], 0)
					if !sub.ok {
						continue
					}
					delete(got.terms, t)
					got.k += c * sub.k
					for st2, sc := range sub.terms {
						got.terms[st2] += c * sc
						if got.terms[st2] == 0 {
							delete(got.terms, st2)
						}
					}
				}
			}
			// expected: copySize - len(.input)
			want := map[string]int64{}
			for t, c := range lcs.terms {
				want[t] += c
			}
			lenKey := ""
			for t := range got.terms {
				if strings.HasPrefix(t, "len(") && strings.HasSuffix(t, ".input)") {
					lenKey = t
				}
			}
			if lenKey != "" {
				want[lenKey]--
			}
			same := got.ok && lcs.ok && lenKey != "" && got.k == lcs.k
			if same {
				for t, c := range want {
					if got.terms[t] != c {
						same = false
					}
				}
				for t, c := range got.terms {
					if want[t] != c {
						same = false
					}
				}
			}
			r.Check(same, "R04.9", key, p.InstrPos(st), "after a staged header completes the real input advances by (bytes copied into the staging buffer - bytes left in it)", "the offset normalises to "+got.String()+", expected "+lcs.String()+" - len(.input): the source would be advanced by the wrong amount - block data re-read or skipped, and the stream end mis-positioned")
		}
	}
	if n == 0 {
		r.Undecided("R04.9", shortFn(fn)+"|re-slice", p.Pos(fn.Pos()), "readHeader re-slices the real input after a staged header", "not found")
	}
}

// ---------------------------------------------------------------- round 6

func init() {
	extend("C14", Rule{ID: "R14.7", Configs: "all", Run: ruleR14_7},
		"(R14.7) a temporary narrowing of one of the Writer's own buffers (field = field[:n-k], as the block encoder does around each chunk) is undone on every path to a return, including the return of a destination error - otherwise each failed stream leaves the buffer shorter for the next one after Reset.")
	extend("C12", Rule{ID: "R12.3", Configs: "all", Run: ruleR14_7}, "(R12.3) = R14.7.")
	extend("C19", Rule{ID: "R19.5", Configs: "all", Run: ruleR19_5},
		"(R19.5) the 4 KiB constructor hands a level to compress/flate (which has no small-window mode) only behind the edge level == NoCompression.")
	extend("C16", Rule{ID: "R16.5", Configs: "all", Run: ruleR16_5},
		"(R16.5) level dispatch of the flate constructors: a call that builds an accelerated compressor is reachable only for the levels the accelerated compressors exist for - behind equality edges of the level with 1, 2 or HuffmanOnly (DefaultCompression having been mapped to 2), never on a default arm that an out-of-range level such as -3 or 10 would also take; such levels must reach compress/flate's constructor, which rejects them.")
}

func ruleR14_7(p *Program, r *Report) {
	id := "R14.7"
	if r.Prop == "C12" {
		id = "R12.3"
	}
	r.Expect(id, 1)
	sp := p.Pkg(deflRel)
	n := 0
	for _, fn := range p.Funcs() {
		if fn.Pkg != sp {
			continue
		}
		lab := newLabeler()
		for _, b := range fn.Blocks {
			for _, in := range b.Instrs {
				st, ok := in.(*ssa.Store)
				if !ok {
					continue
				}
				root, sel := accessPath(st.Addr)
				if root == nil || sel == "" {
					continue
				}
				sl, ok := st.Val.(*ssa.Slice)
				if !ok || sl.High == nil || sl.Low != nil {
					continue
				}
				r2, s2, isL := fieldLoad(sl.X)
				if !isL || r2 != root || s2 != sel {
					continue
				}
				// narrowing: the new bound is len(field) minus a positive constant
				lh := linearize(sl.High)
				narrowing := false
				if lh.ok && lh.k < 0 {
					narrowing = true
				}
				if !narrowing {
					continue
				}
				n++
				key := shortFn(fn) + "|" + lab.get("narrow "+sel)
				found, hit, path := PathQuery{Start: st,
					Target: func(x ssa.Instruction) bool { _, ok := x.(*ssa.Return); return ok },
					Barrier: func(x ssa.Instruction) bool {
						s2, ok := x.(*ssa.Store)
						if !ok || s2 == st {
							return false
						}
						rr, ss := accessPath(s2.Addr)
						return rr == root && ss == sel
					}}.Find(fn)
				why := ""
				if found {
					why = "the return at " + p.InstrPos(hit) + " is reachable (blocks " + fmtInts(path) + ") with " + sel + " still narrowed: the Writer keeps a shorter buffer after this call"
				}
				r.Check(!found, id, key, p.InstrPos(st), "a buffer narrowed for the duration of a step is restored before every return", why)
			}
		}
	}
	if n == 0 {
		r.Undecided(id, "narrowing stores", "-", "the block encoder narrows its output buffer around each chunk", "no store field = field[:len-k] found")
	}
}

func ruleR19_5(p *Program, r *Report) {
	r.Expect("R19.5", 1)
	var ctor *ssa.Function
	for _, fn := range p.Funcs() {
		if fn.Pkg == p.Pkg(deflRel) && strings.Contains(fn.Name(), "4KWindow") {
			ctor = fn
		}
	}
	if ctor == nil {
		r.Undecided("R19.5", "anchors", "-", "the 4 KiB constructor exists", "not found")
		return
	}
	level := ctor.Params[1]
	noComp, _ := constOf(p, deflRel, "NoCompression")
	lab := newLabeler()
	n := 0
	for _, c := range allCalls(ctor) {
		f := c.Common().StaticCallee()
		if !(isFunc(f, stdFlate, "NewWriter") || isFunc(f, stdFlate, "NewWriterDict")) {
			continue
		}
		n++
		key := shortFn(ctor) + "|" + lab.get("delegation")
		ok := false
		for _, ft := range dominatingFacts(c) {
			if ft.Y == nil || ft.Op != token.EQL {
				continue
			}
			for _, pr := range [][2]ssa.Value{{ft.X, ft.Y}, {ft.Y, ft.X}} {
				if k, isK := constInt(pr[1]); isK && k == noComp {
					for _, leaf := range p.valueSources(pr[0]) {
						if leaf == ssa.Value(level) {
							ok = true
						}
					}
				}
			}
		}
		r.Check(ok, "R19.5", key, p.InstrPos(c), "the 4 KiB constructor delegates to compress/flate only for NoCompression", "levels other than NoCompression can reach compress/flate here, which looks back up to 32768 bytes")
	}
	if n == 0 {
		r.OK("R19.5", shortFn(ctor)+"|no delegation", p.Pos(ctor.Pos()), "the 4 KiB constructor never delegates to compress/flate")
	}
}

func ruleR16_5(p *Program, r *Report) {
	r.Expect("R16.5", 2)
	huff, _ := constOf(p, deflRel, "HuffmanOnly")
	sp := p.Pkg(deflRel)
	for _, fn := range p.Funcs() {
		if fn.Pkg != sp || !strings.HasPrefix(fn.Name(), "NewWriter") || len(fn.Params) < 2 || strings.Contains(fn.Name(), "4KWindow") {
			continue
		}
		var level *ssa.Parameter
		for _, prm := range fn.Params {
			if prm.Name() == "level" {
				level = prm
			}
		}
		if level == nil {
			continue
		}
		lab := newLabeler()
		for _, c := range allCalls(fn) {
			f := c.Common().StaticCallee()
			if f == nil || !p.InRepo(f) || !(f.Name() == "NewDynCompressor" || f.Name() == "NewHuffmanOnly" || f == p.Func(deflRel, "NewDynCompressor") || f == p.Func(deflRel, "NewHuffmanOnly")) {
				continue
			}
			key := shortFn(fn) + "|" + lab.get(f.Name())
			// the block of the call must be reachable only through edges that pin the level to 1, 2 or HuffmanOnly:
			// every predecessor edge chain from the entry passes an equality edge on the level with one of those constants
			okAll := pinnedLevel(p, fn, c, level, map[int64]bool{1: true, 2: true, huff: true})
			if !okAll {
				// a range test: dominating facts bound the level to [1, 2]
				lo, hi := int64(-1<<31), int64(1<<31)
				for _, ft := range dominatingFacts(c) {
					if ft.Y == nil {
						continue
					}
					k, isK := constInt(ft.Y)
					isLv := false
					for _, leaf := range p.valueSources(ft.X) {
						if leaf == ssa.Value(level) {
							isLv = true
						}
					}
					if !isK || !isLv {
						continue
					}
					switch ft.Op {
					case token.GEQ:
						if k > lo {
							lo = k
						}
					case token.GTR:
						if k+1 > lo {
							lo = k + 1
						}
					case token.LEQ:
						if k < hi {
							hi = k
						}
					case token.LSS:
						if k-1 < hi {
							hi = k - 1
						}
					}
				}
				if lo >= 1 && hi <= 2 {
					okAll = true
				}
			}
			r.Check(okAll, "R16.5", key, p.InstrPos(c), "an accelerated compressor is built only for levels 1, 2 and HuffmanOnly", "this constructor call is reachable for other level values (a default arm or a range test): an out-of-range level would be accepted where compress/flate rejects it")
		}
	}
}

// pinnedLevel: no path from the entry to `at` avoids every true edge of `level' == k` (k in allowed), where level'
// is the level parameter or the phi that maps DefaultCompression to a constant.
func pinnedLevel(p *Program, fn *ssa.Function, at ssa.Instruction, level *ssa.Parameter, allowed map[int64]bool) bool {
	isLevel := func(v ssa.Value) bool {
		for _, leaf := range p.valueSources(v) {
			if leaf == ssa.Value(level) {
				return true
			}
		}
		return false
	}
	edgeOK := func(a, b *ssa.BasicBlock) bool {
		br, ok := edgeCond(a, b)
		if !ok {
			return true
		}
		f, ok := branchFact(br)
		if !ok || f.Y == nil || f.Op != token.EQL {
			return true
		}
		for _, pr := range [][2]ssa.Value{{f.X, f.Y}, {f.Y, f.X}} {
			if k, isK := constInt(pr[1]); isK && allowed[k] && isLevel(pr[0]) {
				return false // a pinning edge: paths through it are fine, so cut them from the search
			}
		}
		return true
	}
	found, _, _ := PathQuery{Target: func(x ssa.Instruction) bool { return x == at }, EdgeOK: edgeOK}.Find(fn)
	return !found
}

func init() {
	extend("C12", Rule{ID: "R12.4", Configs: "all", Run: ruleR12_4},
		"(R12.4) the scratch-table line that exempts huffmanOnly.hist from Reset ('rebuilt from the block's bytes before use') is itself checked: in the functions reachable from huffmanOnly.encodeBlock every counting increment of hist.literalCodes is preceded, on every path from that function's entry, by the clearing of the literal counters (a zeroing loop or whole-array store), so counts or code words left by an earlier block - one that failed, for instance - cannot leak into the next stream.")
}

func ruleR12_4(p *Program, r *Report) {
	r.Expect("R12.4", 1)
	eb := p.Method(deflRel, "huffmanOnly", "encodeBlock")
	if eb == nil {
		r.Undecided("R12.4", "anchors", "-", "huffmanOnly.encodeBlock exists", "not found")
		return
	}
	isLitCounter := func(addr ssa.Value) bool {
		ia, ok := addr.(*ssa.IndexAddr)
		if !ok {
			return false
		}
		_, sel := accessPath(ia.X)
		return strings.HasSuffix(sel, "literalCodes") || strings.HasSuffix(sel, "literalCodes[*]") || strings.Contains(sel, "literalCodes")
	}
	n := 0
	seenFn := map[*ssa.Function]bool{}
	fns := []*ssa.Function{eb}
	for _, rc := range p.regionCalls(eb) {
		if h := rc.call.Common().StaticCallee(); h != nil && h.Blocks != nil && p.InRepo(h) && h.Pkg == eb.Pkg {
			fns = append(fns, h)
		}
	}
	for _, g := range fns {
		if g == nil || seenFn[g] {
			continue
		}
		seenFn[g] = true
		clears := func(x ssa.Instruction) bool {
			st, ok := x.(*ssa.Store)
			if !ok {
				return false
			}
			if isLitCounter(st.Addr) {
				k, isK := constInt(st.Val)
				return isK && k == 0
			}
			// whole-array / whole-struct zero store
			if _, sel := accessPath(st.Addr); strings.HasSuffix(sel, "literalCodes") || strings.HasSuffix(sel, ".hist") || strings.HasSuffix(sel, "hist^") {
				if _, isC := st.Val.(*ssa.Const); isC {
					return true
				}
			}
			// a call to the histogram's own reset
			return false
		}
		clearCall := func(x ssa.Instruction) bool {
			c, ok := x.(ssa.CallInstruction)
			if !ok {
				return false
			}
			f := c.Common().StaticCallee()
			return f != nil && f.Name() == "reset" && f.Signature.Recv() != nil && isNamedType(f.Signature.Recv().Type(), modPath+"/"+deflRel, "histogram")
		}
		barrier := loopAware(g, func(x ssa.Instruction) bool { return clears(x) || clearCall(x) })
		lab := newLabeler()
		for _, b := range g.Blocks {
			for _, in := range b.Instrs {
				st, ok := in.(*ssa.Store)
				if !ok || !isLitCounter(st.Addr) {
					continue
				}
				// an increment: value = load(same addr) + 1
				bo, ok := st.Val.(*ssa.BinOp)
				if !ok || bo.Op != token.ADD {
					continue
				}
				ld, ok := bo.X.(*ssa.UnOp)
				if !ok {
					continue
				}
				// go/ssa does no CSE: the load and the store compute the element address separately
				la, ok1 := ld.X.(*ssa.IndexAddr)
				sa, ok2 := st.Addr.(*ssa.IndexAddr)
				if !(ld.X == st.Addr || (ok1 && ok2 && la.X == sa.X && la.Index == sa.Index)) {
					continue
				}
				n++
				key := shortFn(g) + "|" + lab.get("count literal")
				found, _, path := PathQuery{Target: func(x ssa.Instruction) bool { return x == ssa.Instruction(st) }, Barrier: barrier}.Find(g)
				why := ""
				if found {
					why = "the increment is reachable from the entry of " + g.Name() + " (blocks " + fmtInts(path) + ") without the literal counters having been cleared: whatever an earlier block left in the histogram is counted on top"
				}
				r.Check(!found, "R12.4", key, p.InstrPos(st), "literal counting starts from cleared counters", why)
			}
		}
	}
	if n == 0 {
		r.Undecided("R12.4", shortFn(eb)+"|counting", p.Pos(eb.Pos()), "the Huffman-only encoder counts its block's literals", "no increment of hist.literalCodes found in the region of encodeBlock")
	}
}

func init() {
	extend("C18", Rule{ID: "R18.13", Configs: "asm", Run: ruleR18_13},
		"(R18.13) the generated assembly match finders agree with one another: every lz77Asm* routine has the same number of increments of hist.distanceCodes, of hist.literalCodes, and of stores into the token array as its siblings of the same generation (they come from one template; a variant edited by hand - the only one a given CPU runs - would differ).")
	extend("C01", Rule{ID: "R01.10", Configs: "asm", Run: ruleR18_13}, "(R01.10) = R18.13.")
}

func ruleR18_13(p *Program, r *Report) {
	id := "R18.13"
	if r.Prop == "C01" {
		id = "R01.10"
	}
	r.Expect(id, 4)
	if asmLoadFailures(p, r, id) {
		return
	}
	type census struct{ dist, lit, tok int }
	byGen := map[string]map[string]census{} // generation (V1/V3/V4) -> routine -> census
	for _, u := range p.Asm().Units {
		t := u.Text
		if !strings.HasPrefix(t.Name, "lz77Asm") {
			continue
		}
		gen := t.Name[len(t.Name)-2:]
		var c census
		// token cursor: the register loaded from the tokens slice pointer slot
		for i, in := range t.Instrs {
			if !u.Flow.Reach[i] || len(in.Ops) == 0 {
				continue
			}
			op := in.Ops[len(in.Ops)-1]
			d := in.dest()
			if d < 0 || in.Ops[d].Kind != OpMem || op.Base == "" {
				continue
			}
			bv := u.Flow.Before[i][op.Base]
			if T, _, ok := u.typedBase(bv); ok {
				if res, err := resolveOffset(p.Sizes, T, op.Off+bv.Disp); err == nil && (in.Mnem == "ADDL" || in.Mnem == "INCL") {
					if strings.HasSuffix(res.FieldSet, "distanceCodes") {
						c.dist++
					} else if strings.HasSuffix(res.FieldSet, "literalCodes") {
						c.lit++
					}
				}
				continue
			}
			// a store through a pointer that came from the tokens argument
			if bv.Kind == AArg {
				if sl := u.slotAt(bv.ArgOff); sl != nil && strings.HasPrefix(sl.Name, "tokens") && (in.Mnem == "MOVL" || in.Mnem == "MOVQ") {
					c.tok++
				}
			}
		}
		if byGen[gen] == nil {
			byGen[gen] = map[string]census{}
		}
		byGen[gen][t.Name] = c
	}
	for gen, m := range byGen {
		// majority census
		cnt := map[census]int{}
		for _, c := range m {
			cnt[c]++
		}
		var maj census
		best := 0
		for c, n := range cnt {
			if n > best {
				maj, best = c, n
			}
		}
		var names []string
		for n := range m {
			names = append(names, n)
		}
		sort.Strings(names)
		for _, n := range names {
			c := m[n]
			why := ""
			if c != maj {
				why = "this routine has " + itoa(c.dist) + " distance-histogram increments, " + itoa(c.lit) + " literal/length-histogram increments and " + itoa(c.tok) + " token stores; its " + itoa(best) + " siblings of generation " + gen + " have " + itoa(maj.dist) + "/" + itoa(maj.lit) + "/" + itoa(maj.tok) + ": a token emitted without its histogram count gets no Huffman code"
			}
			r.Check(why == "", id, n+"|census", u0pos(p, n), "the routine counts and emits tokens as often as its generated siblings", why)
		}
	}
}

func u0pos(p *Program, name string) string {
	for _, u := range p.Asm().Units {
		if u.Text.Name == name {
			return u.Text.File + ":" + itoa(u.Text.Line)
		}
	}
	return "-"
}

func init() {
	extend("C10", Rule{ID: "R10.10", Configs: "all", Run: ruleR10_10},
		"(R10.10) run lengths handed to the block-header run-length encoders (zeroRepeat / numRepeat) are never computed in an 8-bit type: a header can contain a run of 256 or more equal code lengths (a block without literals), and a wrapped count leaves the header short of code lengths.")
	extend("C01", Rule{ID: "R01.11", Configs: "all", Run: ruleR10_10}, "(R01.11) = R10.10.")
}

func ruleR10_10(p *Program, r *Report) {
	id := "R10.10"
	if r.Prop == "C01" {
		id = "R01.11"
	}
	r.Expect(id, 2)
	targets := map[*ssa.Function]int{} // callee -> index of the run-length argument
	for _, name := range []string{"zeroRepeat", "numRepeat"} {
		if f := p.Method(deflRel, "dynamicHeader", name); f != nil {
			// the run length is the last int parameter
			for i := len(f.Params) - 1; i >= 1; i-- {
				if intSize(f.Params[i].Type()) == 8 || intSize(f.Params[i].Type()) == 4 {
					targets[f] = i
					break
				}
			}
		}
	}
	if len(targets) == 0 {
		r.Undecided(id, "anchors", "-", "dynamicHeader.zeroRepeat / numRepeat exist", "not found")
		return
	}
	for _, fn := range p.Funcs() {
		lab := newLabeler()
		for _, c := range allCalls(fn) {
			g := c.Common().StaticCallee()
			idx, ok := targets[g]
			if !ok || g == fn || idx >= len(c.Common().Args) {
				continue
			}
			key := shortFn(fn) + "|" + lab.get(g.Name()+" run length")
			narrow := ""
			seen := map[ssa.Value]bool{}
			var walk func(v ssa.Value, d int)
			walk = func(v ssa.Value, d int) {
				if v == nil || seen[v] || d > 8 || narrow != "" {
					return
				}
				seen[v] = true
				if intSize(v.Type()) == 1 {
					if _, isK := v.(*ssa.Const); !isK {
						narrow = describeValue(v) + " is " + v.Type().String()
						return
					}
				}
				switch x := v.(type) {
				case *ssa.Convert:
					walk(x.X, d+1)
				case *ssa.Phi:
					for _, e := range x.Edges {
						walk(e, d+1)
					}
				case *ssa.BinOp:
					if x.Op == token.ADD || x.Op == token.SUB {
						walk(x.X, d+1)
						walk(x.Y, d+1)
					}
				}
			}
			walk(c.Common().Args[idx], 0)
			r.Check(narrow == "", id, key, p.InstrPos(c), "a run length of code lengths is counted in a type that can hold the whole alphabet", "the count passes through an 8-bit value ("+narrow+"): a run of 256 equal lengths wraps to 0")
		}
	}
}

func init() {
	extend("C02", Rule{ID: "R02.12", Configs: "all", Run: ruleR02_12},
		"(R02.12) output window full in the middle of a packed table entry: where the Go decode loop parks the remaining symbols (writeOverflowLits/Len) it may go back into the symbol loop only when the last packed symbol is known not to be the end-of-block code (a dominating comparison with 256 taken inside that branch: != 256, > 256 or >= 257); for the end-of-block code it must leave with errOutputOverflow, otherwise the next block's first literal overwrites the parked bytes.")
	extend("C04", Rule{ID: "R04.10", Configs: "all", Run: ruleR02_12}, "(R04.10) = R02.12.")
}

func ruleR02_12(p *Program, r *Report) {
	id := "R02.12"
	if r.Prop == "C04" {
		id = "R04.10"
	}
	r.Expect(id, 1)
	fn := p.Func(flateRel, "decodeHuffmanLargeLoop")
	if fn == nil {
		r.Undecided(id, "anchors", "-", "decodeHuffmanLargeLoop exists", "not found")
		return
	}
	// the parking store: writeOverflowLen = <non-constant>
	var park *ssa.Store
	for _, b := range fn.Blocks {
		for _, in := range b.Instrs {
			if st, ok := in.(*ssa.Store); ok {
				if _, sel := accessPath(st.Addr); strings.HasSuffix(sel, ".writeOverflowLen") {
					if _, isK := constInt(st.Val); !isK {
						if bo, isB := st.Val.(*ssa.BinOp); isB && (bo.Op == token.SUB || bo.Op == token.ADD) {
							continue // the -= 1 adjustments
						}
						park = st
					}
				}
			}
		}
	}
	if park == nil {
		r.Undecided(id, shortFn(fn)+"|park", p.Pos(fn.Pos()), "the loop parks symbols of a packed entry when the window is full", "store of writeOverflowLen not found")
		return
	}
	pb := park.Block()
	inRegion := func(b *ssa.BasicBlock) bool { return pb.Dominates(b) }
	// does decoding resume from block t (an output store or a table lookup reachable before any return)?
	resumes := func(t *ssa.BasicBlock) bool {
		found, _, _ := PathQuery{Target: func(x ssa.Instruction) bool {
			if st, ok := x.(*ssa.Store); ok {
				if ia, ok := st.Addr.(*ssa.IndexAddr); ok {
					if prm, ok := ia.X.(*ssa.Parameter); ok && prm.Name() == "output" {
						return true
					}
				}
			}
			if u, ok := x.(*ssa.UnOp); ok && u.Op == token.MUL {
				if ia, ok := u.X.(*ssa.IndexAddr); ok {
					if _, sel := accessPath(ia.X); strings.Contains(sel, "CodeLookup") {
						return true
					}
				}
			}
			return false
		}, Barrier: func(x ssa.Instruction) bool { _, ok := x.(*ssa.Return); return ok }}.findFromBlock(fn, t)
		return found
	}
	lab := newLabeler()
	n := 0
	for _, b := range fn.Blocks {
		if !inRegion(b) {
			continue
		}
		for _, succ := range b.Succs {
			if inRegion(succ) || !resumes(succ) {
				continue
			}
			n++
			key := shortFn(fn) + "|" + lab.get("resume after parking")
			last := b.Instrs[len(b.Instrs)-1]
			ok := false
			facts := dominatingFacts(last)
			if br, okc := edgeCond(b, succ); okc {
				if f, okf := branchFact(br); okf {
					facts = append(facts, f)
				}
			}
			for _, f := range facts {
				if f.Y == nil {
					continue
				}
				k, isK := constInt(f.Y)
				x := f.X
				op := f.Op
				if !isK {
					if k2, isK2 := constInt(f.X); isK2 {
						k, x = k2, f.Y
						switch op {
						case token.LSS:
							op = token.GTR
						case token.LEQ:
							op = token.GEQ
						case token.GTR:
							op = token.LSS
						case token.GEQ:
							op = token.LEQ
						}
					} else {
						continue
					}
				}
				// the comparison must have been made inside the parking branch
				if in, isI := x.(ssa.Instruction); !isI || !inRegion(in.Block()) {
					if cmpBlk := factBlock(fn, f); cmpBlk == nil || !inRegion(cmpBlk) {
						continue
					}
				}
				if (op == token.NEQ && k == 256) || (op == token.GTR && k >= 256) || (op == token.GEQ && k >= 257) {
					ok = true
				}
			}
			r.Check(ok, id, key, p.InstrPos(last), "after parking symbols the loop resumes only when the pending last symbol is not the end-of-block code", "decoding resumes from the parking branch without the pending symbol having been compared with 256: an end-of-block code would be handled by the ordinary arm, which returns no overflow, and the parked literals are overwritten by the next block")
		}
	}
	if n == 0 {
		r.OK(id, shortFn(fn)+"|no resume", p.InstrPos(park), "the parking branch always leaves with an error: decoding never resumes from it")
	}
}

// factBlock: the block whose If produced fact f (matched by operands), or nil.
func factBlock(fn *ssa.Function, f Fact) *ssa.BasicBlock {
	for _, b := range fn.Blocks {
		if len(b.Instrs) == 0 {
			continue
		}
		iff, ok := b.Instrs[len(b.Instrs)-1].(*ssa.If)
		if !ok {
			continue
		}
		if bo, ok := normCond(Branch{Cond: iff.Cond, True: true}).Cond.(*ssa.BinOp); ok {
			if (bo.X == f.X && bo.Y == f.Y) || (bo.X == f.Y && bo.Y == f.X) {
				return b
			}
		}
	}
	return nil
}

func init() {
	extend("C01", Rule{ID: "R01.12", Configs: "all", Run: ruleR01_12},
		"(R01.12) bit budget of the Go literal encoder: between two drains of the 64-bit accumulator (bitLen reduced modulo 8) at most three Huffman codes are OR-ed in within one loop iteration, because a code is up to 15 bits (the limit passed to Generate, R01.2) and up to 7 bits are pending: 3*15+7 <= 64 < 4*15+7.")
	extend("C18", Rule{ID: "R18.14", Configs: "all", Run: ruleR01_12}, "(R18.14) = R01.12 (the Go encoder is what acceleration levels below 4 run for whole blocks).")
}

func ruleR01_12(p *Program, r *Report) {
	id := "R01.12"
	if r.Prop == "C18" {
		id = "R18.14"
	}
	r.Expect(id, 1)
	sp := p.Pkg(deflRel)
	maxCode := int64(15)
	n := 0
	for _, fn := range p.Funcs() {
		if fn.Pkg != sp {
			continue
		}
		// accumulations: x | (uint64(code) << bitLen) where code is a result of histogram.litCode
		isLitCodeResult := func(v ssa.Value) bool {
			for _, leaf := range p.valueSources(stripConv(v)) {
				if ex, ok := stripConv(leaf).(*ssa.Extract); ok {
					if c, ok := ex.Tuple.(*ssa.Call); ok && staticCalleeNamed(c, deflRel, "histogram", "litCode") {
						return true
					}
				}
			}
			return false
		}
		var accs []*ssa.BinOp
		var drains []*ssa.BinOp
		for _, b := range fn.Blocks {
			for _, in := range b.Instrs {
				bo, ok := in.(*ssa.BinOp)
				if !ok {
					continue
				}
				if bo.Op == token.OR {
					for _, side := range []ssa.Value{bo.X, bo.Y} {
						if sh, ok := side.(*ssa.BinOp); ok && sh.Op == token.SHL && isLitCodeResult(sh.X) {
							accs = append(accs, bo)
						}
					}
				}
				if k, isK := constInt(bo.Y); isK && ((bo.Op == token.REM && k == 8) || (bo.Op == token.AND && k == 7)) {
					if intSize(bo.Type()) >= 4 {
						drains = append(drains, bo)
					}
				}
			}
		}
		if len(accs) == 0 || len(drains) == 0 {
			continue
		}
		lab := newLabeler()
		for _, d := range drains {
			// accumulations of the same iteration: those that dominate the drain and from which the drain is
			// reachable without passing another drain
			cnt := 0
			for _, a := range accs {
				if !dominatesInstr(a, d) {
					continue
				}
				reach, _, _ := PathQuery{Start: a, Target: func(x ssa.Instruction) bool { return x == ssa.Instruction(d) }, Barrier: func(x ssa.Instruction) bool {
					for _, o := range drains {
						if x == ssa.Instruction(o) && o != d {
							return true
						}
					}
					return false
				}}.Find(fn)
				if reach {
					cnt++
				}
			}
			if cnt == 0 {
				continue
			}
			n++
			key := shortFn(fn) + "|" + lab.get("codes per drain")
			need := int64(cnt)*maxCode + 7
			r.Check(need <= 64, id, key, p.InstrPos(d), "the codes OR-ed into the 64-bit accumulator between two drains fit beside the pending bits", itoa(cnt)+" codes of up to "+itoa(int(maxCode))+" bits plus up to 7 pending bits need "+itoa(int(need))+" bits: the top bits of a long code are shifted out and the stream is silently wrong for skewed data")
		}
	}
	if n == 0 {
		r.Undecided(id, "encoders", "-", "a Go encoder accumulates litCode results between drains", "none found")
	}
}

// ---------------------------------------------------------------- round 7

func init() {
	extend("C04", Rule{ID: "R04.11", Configs: "all", Run: ruleR04_11},
		"(R04.11) what the header parser builds does not depend on how much input is visible: no argument of a table builder (genForLitLen, genForDists, GenerateForHeader and their callees' parameters) and no branch that selects between them is computed from len(state.input) - the amount of input at hand is a property of the delivery schedule, and the table flavour decides how many symbols are rolled back together when the input ends.")
}

func ruleR04_11(p *Program, r *Report) {
	r.Expect("R04.11", 2)
	sp := p.Pkg(flateRel)
	// values that depend on len(<...>.input): data flow and, for phis, the conditions that select their edges
	dependsOnInputLen := func(fn *ssa.Function, v ssa.Value) (bool, string) {
		seen := map[ssa.Value]bool{}
		hit := ""
		var walk func(v ssa.Value, d int)
		walk = func(v ssa.Value, d int) {
			if v == nil || seen[v] || d > 12 || hit != "" {
				return
			}
			seen[v] = true
			if c, ok := v.(*ssa.Call); ok {
				if bi, ok := c.Common().Value.(*ssa.Builtin); ok && bi.Name() == "len" {
					if _, sel := accessPath(c.Common().Args[0]); strings.HasSuffix(sel, ".input") {
						hit = "len(" + sel + ")"
						return
					}
					if _, sel, isL := fieldLoad(c.Common().Args[0]); isL && strings.HasSuffix(sel, ".input") {
						hit = "len(" + sel + ")"
						return
					}
				}
				return
			}
			switch x := v.(type) {
			case *ssa.Phi:
				for _, e := range x.Edges {
					walk(e, d+1)
				}
				// the conditions that decide which edge is taken
				for _, br := range controlDeps(fn, x.Block()) {
					walk(br.Cond, d+1)
				}
				for _, pr := range x.Block().Preds {
					for _, br := range controlDeps(fn, pr) {
						walk(br.Cond, d+1)
					}
				}
			case *ssa.BinOp:
				walk(x.X, d+1)
				walk(x.Y, d+1)
			case *ssa.UnOp:
				if x.Op != token.MUL {
					walk(x.X, d+1)
				}
			case *ssa.Convert:
				walk(x.X, d+1)
			}
		}
		walk(v, 0)
		return hit != "", hit
	}
	builders := map[string]bool{"genForLitLen": true, "genForDists": true, "GenerateForHeader": true}
	for _, fn := range p.Funcs() {
		if fn.Pkg != sp {
			continue
		}
		lab := newLabeler()
		for _, c := range allCalls(fn) {
			g := c.Common().StaticCallee()
			if g == nil || !p.InRepo(g) {
				continue
			}
			isB := builders[g.Name()]
			if !isB {
				for name := range builders {
					if f := p.anyMethodNamed(flateRel, name); f == g {
						isB = true
					}
				}
			}
			if !isB {
				continue
			}
			key := shortFn(fn) + "|" + lab.get(g.Name())
			why := ""
			for i, a := range c.Common().Args {
				if i == 0 && g.Signature.Recv() != nil {
					continue
				}
				if intSize(a.Type()) == 0 && !isBoolType(a.Type()) {
					continue
				}
				if dep, what := dependsOnInputLen(fn, a); dep {
					why = "argument " + itoa(i) + " of " + g.Name() + " is computed from " + what + ": the lookup table's shape - and with it the number of symbols rolled back when the input ends inside an entry - depends on how the source delivered the data"
				}
			}
			// the call itself selected by the amount of input
			for _, br := range controlDeps(fn, c.Block()) {
				if dep, what := dependsOnInputLen(fn, br.Cond); dep && why == "" {
					// an end-of-input test on the bit count is not a len(input) test; only len() of the input slice counts
					why = "the call is selected by a condition on " + what
				}
			}
			r.Check(why == "", "R04.11", key, p.InstrPos(c), "the table built for a block is a function of the block header alone", why)
		}
	}
}

// anyMethodNamed: a method called `name` on any type of the package (rename fallback does not apply).
func (p *Program) anyMethodNamed(rel, name string) *ssa.Function {
	for _, fn := range p.Funcs() {
		if fn.Pkg == p.Pkg(rel) && fn.Name() == name && fn.Signature.Recv() != nil {
			return fn
		}
	}
	return nil
}

func init() {
	extend("C10", Rule{ID: "R10.11", Configs: "all", Run: ruleR10_11},
		"(R10.11) the final-block flag handed to a block encoder by the block compressor is tied to 'all pending input has been encoded': the value passed as the final flag depends on the comparison input cursor == end of input (idx == end), so that of several blocks emitted by one Close only the last is marked final.")
	extend("C01", Rule{ID: "R01.13", Configs: "all", Run: ruleR10_11}, "(R01.13) = R10.11.")
	extend("C03", Rule{ID: "R03.11", Configs: "all", Run: ruleR03_11},
		"(R03.11) the code-space tests of the block header agree with one another: every Kraft sum goes through the same acceptance predicate (the same helper, or the same set of comparisons), so the literal/length code, the distance code and the code-length code all admit exactly compress/flate's exceptions (no code at all; the single 1-bit code).")
	extend("C02", Rule{ID: "R02.13", Configs: "all", Run: ruleR02_13},
		"(R02.13) in the code-length parser the 'previous slot' cursor follows the write cursor: on every way back to the loop head on which the write cursor has advanced, the previous-slot cursor has been reassigned too - a repeat (symbol 16) after a zero run (17/18) must repeat the zero, not an older length.")
	extend("C05", Rule{ID: "R05.7", Configs: "all", Run: ruleR05_7},
		"(R05.7) decoded bytes leave the flate Reader through Read alone: the hand-out cursor readPos is stored only in Read, step and Reset - another consumer (an io.WriterTo, say) would have to repeat the give-back of unread input that the final step performs.")
}

func ruleR10_11(p *Program, r *Report) {
	id := "R10.11"
	if r.Prop == "C01" {
		id = "R01.13"
	}
	r.Expect(id, 1)
	fn := p.Method(deflRel, "dynCompressor", "compressBlock")
	eb := p.Method(deflRel, "dynCompressor", "encodeBlock")
	if fn == nil || eb == nil {
		r.Undecided(id, "anchors", "-", "dynCompressor.compressBlock and encodeBlock exist", "not found")
		return
	}
	lab := newLabeler()
	n := 0
	// the call may sit in a helper the loop body was extracted into: the rule is applied where the call is
	root := fn
	var sites []ssa.CallInstruction
	siteFn := map[ssa.CallInstruction]*ssa.Function{}
	for _, rf := range recvRegion(root) {
		if rf.fn == eb {
			continue
		}
		for _, c := range allCalls(rf.fn) {
			if c.Common().StaticCallee() == eb && len(c.Common().Args) >= 2 {
				sites = append(sites, c)
				siteFn[c] = rf.fn
			}
		}
	}
	for _, c := range sites {
		_ = siteFn[c]
		n++
		key := shortFn(root) + "|" + lab.get("final flag of encodeBlock")
		arg := c.Common().Args[1]
		// the flag must depend on idx == end: either in its data/control slice, or as a dominating fact of the call
		dep := false
		seen := map[ssa.Value]bool{}
		var walk func(v ssa.Value, d int)
		isDrained := func(v ssa.Value) bool {
			bo, ok := v.(*ssa.BinOp)
			if !ok || (bo.Op != token.EQL && bo.Op != token.GEQ && bo.Op != token.LEQ) {
				return false
			}
			_, s1, ok1 := fieldLoad(bo.X)
			_, s2, ok2 := fieldLoad(bo.Y)
			return ok1 && ok2 && ((s1 == ".idx" && s2 == ".end") || (s1 == ".end" && s2 == ".idx"))
		}
		walk = func(v ssa.Value, d int) {
			if v == nil || seen[v] || d > 8 || dep {
				return
			}
			seen[v] = true
			if isDrained(v) {
				dep = true
				return
			}
			switch x := v.(type) {
			case *ssa.Phi:
				for _, e := range x.Edges {
					walk(e, d+1)
				}
				// the conditions that choose between the phi's inputs: the tests ending its predecessor blocks (the
				// operands of the && / || chain) - not the transitive control dependences, which inside a loop include
				// the loop's own continuation test
				for _, pr := range x.Block().Preds {
					if len(pr.Instrs) > 0 {
						if iff, ok := pr.Instrs[len(pr.Instrs)-1].(*ssa.If); ok {
							walk(iff.Cond, d+1)
						}
					}
				}
			case *ssa.BinOp:
				walk(x.X, d+1)
				walk(x.Y, d+1)
			case *ssa.UnOp:
				if x.Op == token.NOT {
					walk(x.X, d+1)
				}
			}
		}
		walk(arg, 0)
		if !dep {
			for _, f := range dominatingFacts(c) {
				if f.Y != nil && f.Op == token.EQL {
					_, s1, ok1 := fieldLoad(f.X)
					_, s2, ok2 := fieldLoad(f.Y)
					if ok1 && ok2 && ((s1 == ".idx" && s2 == ".end") || (s1 == ".end" && s2 == ".idx")) {
						dep = true
					}
				}
			}
		}
		if k, isK := constBool(arg); isK && !k {
			dep = true // a constant false never marks a block final
		}
		r.Check(dep, id, key, p.InstrPos(c), "a block is marked final only when it is the last one of the stream", "the final flag passed to the block encoder does not depend on 'idx == end': when Close needs several blocks (token limit reached) each of them is marked final and inflaters stop after the first")
	}
	if n == 0 {
		r.Undecided(id, shortFn(fn)+"|encodeBlock", p.Pos(fn.Pos()), "compressBlock calls encodeBlock", "no call")
	}
}

func ruleR03_11(p *Program, r *Report) {
	r.Expect("R03.11", 2)
	sites := kraftSites(p)
	sig := func(ks kraftSite) string {
		var parts []string
		for _, bo := range ks.cmps {
			k, isK := constInt(bo.Y)
			if !isK {
				k, _ = constInt(bo.X)
			}
			parts = append(parts, bo.Op.String()+itoa(int(k)))
		}
		// a helper's further comparisons on the same parameter (== 0, == 1<<14 ...) belong to the predicate
		if len(ks.cmps) > 0 {
			h := ks.cmps[0].Parent()
			if prm, ok := stripConv(ks.cmps[0].X).(*ssa.Parameter); ok {
				for _, b := range h.Blocks {
					for _, in := range b.Instrs {
						if bo, ok := in.(*ssa.BinOp); ok && stripConv(bo.X) == ssa.Value(prm) {
							if k, isK := constInt(bo.Y); isK && k != 1<<15 {
								parts = append(parts, bo.Op.String()+itoa(int(k)))
							}
						}
					}
				}
				parts = append(parts, "via "+h.Name())
			}
		}
		sort.Strings(parts)
		return strings.Join(parts, ",")
	}
	if len(sites) < 2 {
		r.Undecided("R03.11", "sites", "-", "at least two code-space tests exist", "found "+itoa(len(sites)))
		return
	}
	ref := sig(sites[0])
	labs := map[*ssa.Function]*labeler{}
	for _, ks := range sites {
		if labs[ks.fn] == nil {
			labs[ks.fn] = newLabeler()
		}
		key := shortFn(ks.fn) + "|" + labs[ks.fn].get("acceptance predicate")
		s := sig(ks)
		r.Check(s == ref, "R03.11", key, p.InstrPos(ks.at), "all code-space tests of the header use one acceptance predicate", "this site decides with {"+s+"}, the first site with {"+ref+"}: a code that compress/flate accepts for one alphabet (the single 1-bit code, no code at all) is treated differently here")
	}
}

func ruleR02_13(p *Program, r *Report) {
	r.Expect("R02.13", 3)
	fn := p.Method(flateRel, "inflate", "readLitDistLens")
	if fn == nil {
		r.Undecided("R02.13", "anchors", "-", "inflate.readLitDistLens exists", "not found")
		return
	}
	// the loop head: the block with the phi compared against len(huffs); write cursor = that phi;
	// previous-slot cursor = the phi used as index of a huffs[...] load feeding the repeat
	var head *ssa.BasicBlock
	var curr, prev *ssa.Phi
	for _, b := range fn.Blocks {
		for _, in := range b.Instrs {
			phi, ok := in.(*ssa.Phi)
			if !ok {
				continue
			}
			switch phi.Comment {
			case "curr":
				if head == nil || b == head {
					head, curr = b, phi
				}
			case "prev":
				if head == nil || b == head {
					head, prev = b, phi
				}
			}
		}
		if curr != nil && prev != nil {
			break
		}
		head, curr, prev = nil, nil, nil
	}
	if curr == nil || prev == nil {
		// fall back on roles: curr is compared with a len(); prev indexes the slice
		for _, b := range fn.Blocks {
			var phis []*ssa.Phi
			for _, in := range b.Instrs {
				if phi, ok := in.(*ssa.Phi); ok && intSize(phi.Type()) > 0 {
					phis = append(phis, phi)
				}
			}
			if len(phis) < 2 {
				continue
			}
			for _, ph := range phis {
				if refs := ph.Referrers(); refs != nil {
					for _, u := range *refs {
						if bo, ok := u.(*ssa.BinOp); ok && bo.Op == token.LSS {
							if c, ok := bo.Y.(*ssa.Call); ok {
								if bi, ok := c.Common().Value.(*ssa.Builtin); ok && bi.Name() == "len" {
									curr, head = ph, b
								}
							}
						}
					}
				}
			}
			if curr != nil {
				for _, ph := range phis {
					if ph == curr {
						continue
					}
					if refs := ph.Referrers(); refs != nil {
						for _, u := range *refs {
							if ia, ok := u.(*ssa.IndexAddr); ok && ia.Index == ssa.Value(ph) {
								prev = ph
							}
						}
					}
				}
			}
			if curr != nil && prev != nil {
				break
			}
			curr, prev, head = nil, nil, nil
		}
	}
	if curr == nil || prev == nil || head == nil {
		r.Undecided("R02.13", shortFn(fn)+"|cursors", p.Pos(fn.Pos()), "the parser's loop has a write cursor and a previous-slot cursor", "not identified")
		return
	}
	lab := newLabeler()
	for i, pr := range head.Preds {
		if !head.Dominates(pr) {
			continue // loop entry
		}
		ce, pe := curr.Edges[i], prev.Edges[i]
		if ce == ssa.Value(curr) {
			continue // the write cursor did not move on this way back
		}
		key := shortFn(fn) + "|" + lab.get("back edge")
		pos := "-"
		if len(pr.Instrs) > 0 {
			pos = p.InstrPos(pr.Instrs[len(pr.Instrs)-1])
		}
		// the previous-slot cursor must not simply carry its old value: through phis, it must be reassigned on every
		// path of this way back
		// pairwise through phis of the same block: an incoming edge on which the write cursor is unchanged (a loop
		// that may run zero times) carries no obligation; one on which it advanced must not carry the old prev
		stale := false
		type pair struct{ c, p ssa.Value }
		seenP := map[pair]bool{}
		var walk func(c, q ssa.Value, d int)
		walk = func(c, q ssa.Value, d int) {
			if seenP[pair{c, q}] || d > 6 || stale {
				return
			}
			seenP[pair{c, q}] = true
			if c == ssa.Value(curr) {
				return // the write cursor did not move along this edge
			}
			cp, okc := c.(*ssa.Phi)
			qp, okq := q.(*ssa.Phi)
			if okc && okq && cp.Block() == qp.Block() && cp.Block() != head {
				for k := range cp.Edges {
					walk(cp.Edges[k], qp.Edges[k], d+1)
				}
				return
			}
			if okq && qp.Block() != head {
				for k := range qp.Edges {
					walk(c, qp.Edges[k], d+1)
				}
				return
			}
			if q == ssa.Value(prev) {
				stale = true
			}
		}
		walk(ce, pe, 0)
		r.Check(!stale, "R02.13", key, pos, "when the write cursor advances the previous-slot cursor is reassigned", "on this way back to the loop head the write cursor advances while the previous-slot cursor can keep its old value: a following repeat code copies a length from before the run")
	}
}

func ruleR05_7(p *Program, r *Report) {
	r.Expect("R05.7", 2)
	dn := p.Named(flateRel, "decompressor")
	if dn == nil {
		r.Undecided("R05.7", "anchors", "-", "type decompressor exists", "not found")
		return
	}
	allowed := map[*ssa.Function]bool{}
	for _, name := range []string{"Read", "step", "Reset"} {
		if f := p.Method(flateRel, "decompressor", name); f != nil {
			allowed[f] = true
		}
	}
	// a private function that only Read, step and Reset (transitively) call is part of them
	var within func(fn *ssa.Function, depth int) bool
	within = func(fn *ssa.Function, depth int) bool {
		if allowed[fn] {
			return true
		}
		if depth > 3 || ast.IsExported(fn.Name()) {
			return false
		}
		callers := 0
		for _, g := range p.Funcs() {
			if g.Pkg != fn.Pkg || g == fn {
				continue
			}
			for _, c := range allCalls(g) {
				if c.Common().StaticCallee() == fn {
					callers++
					if !within(g, depth+1) {
						return false
					}
					break
				}
			}
		}
		return callers > 0
	}
	for _, fn := range p.Funcs() {
		lab := newLabeler()
		for _, b := range fn.Blocks {
			for _, in := range b.Instrs {
				st, ok := in.(*ssa.Store)
				if !ok {
					continue
				}
				root, sel := accessPath(st.Addr)
				if root == nil || sel != ".readPos" || derefNamed(root.Type()) != dn {
					continue
				}
				key := shortFn(fn) + "|" + lab.get("store .readPos")
				r.Check(within(fn, 0), "R05.7", key, p.InstrPos(st), "only Read, step and Reset move the hand-out cursor", "decoded bytes are handed out (readPos advanced) outside Read: the consumer bypasses the final step that gives unread input back to the source")
			}
		}
	}
}

func init() {
	extend("C10", Rule{ID: "R10.12", Configs: "all", Run: ruleR10_12},
		"(R10.12) run-length accounting of the block-header encoder: in every arm of zeroRepeat/numRepeat that takes a constant K off the remaining run, the symbols appended in that arm are appended unconditionally and describe exactly K code lengths (a literal length = 1, code 16 + extra e = 3+e, code 17 + e = 3+e, code 18 + e = 11+e); otherwise the header carries fewer lengths than HLIT/HDIST announce.")
	extend("C01", Rule{ID: "R01.14", Configs: "all", Run: ruleR10_12}, "(R01.14) = R10.12.")
}

func ruleR10_12(p *Program, r *Report) {
	id := "R10.12"
	if r.Prop == "C01" {
		id = "R01.14"
	}
	r.Expect(id, 2)
	c16, _ := constOf(p, deflRel, "numRepeat3_6")
	c17, _ := constOf(p, deflRel, "zeroRepeat3_10")
	c18, _ := constOf(p, deflRel, "zeroRepeat11_138")
	n := 0
	for _, name := range []string{"numRepeat", "zeroRepeat"} {
		fn := p.Method(deflRel, "dynamicHeader", name)
		if fn == nil {
			continue
		}
		// appended elements of an append call, in order
		elems := func(c ssa.CallInstruction) []ssa.Value {
			args := c.Common().Args
			if len(args) < 2 {
				return nil
			}
			sl, ok := args[1].(*ssa.Slice)
			if !ok {
				return nil
			}
			al, ok := sl.X.(*ssa.Alloc)
			if !ok || al.Referrers() == nil {
				return nil
			}
			m := map[int64]ssa.Value{}
			for _, u := range *al.Referrers() {
				if ia, ok := u.(*ssa.IndexAddr); ok {
					idx, _ := constInt(ia.Index)
					if ia.Referrers() != nil {
						for _, u2 := range *ia.Referrers() {
							if st, ok := u2.(*ssa.Store); ok {
								m[idx] = st.Val
							}
						}
					}
				}
			}
			var out []ssa.Value
			for i := int64(0); i < int64(len(m)); i++ {
				out = append(out, m[i])
			}
			return out
		}
		var appends []ssa.CallInstruction
		for _, c := range allCalls(fn) {
			if bi, ok := c.Common().Value.(*ssa.Builtin); ok && bi.Name() == "append" {
				appends = append(appends, c)
			}
		}
		// loop head: the block of the phi for the remaining run
		lab := newLabeler()
		for _, b := range fn.Blocks {
			for _, in := range b.Instrs {
				bo, ok := in.(*ssa.BinOp)
				if !ok || bo.Op != token.SUB {
					continue
				}
				k, isK := constInt(bo.Y)
				ph, isPhi := bo.X.(*ssa.Phi)
				if !isK || !isPhi || k <= 0 || intSize(bo.Type()) < 4 {
					continue
				}
				// is this the remaining-run update (flows back into the phi)?
				back := false
				for _, e := range ph.Edges {
					if e == ssa.Value(bo) {
						back = true
					}
				}
				if !back {
					continue
				}
				n++
				key := shortFn(fn) + "|" + lab.get("arm taking "+itoa(int(k)))
				total := int64(0)
				why := ""
				for _, a := range appends {
					// appends of this arm: the decrement is reachable from them without passing the loop head
					reach, _, _ := PathQuery{Start: a, Target: func(x ssa.Instruction) bool { return x == ssa.Instruction(bo) }, Barrier: func(x ssa.Instruction) bool { return x.Block() == ph.Block() && x == x.Block().Instrs[0] }}.Find(fn)
					if !reach {
						continue
					}
					if !dominatesInstr(a, bo) {
						why = "the append at " + p.InstrPos(a) + " is conditional within the arm while the arm always takes " + itoa(int(k)) + " off the run"
						break
					}
					es := elems(a)
					for i := 0; i < len(es); i++ {
						code, isC := constInt(es[i])
						switch {
						case isC && (code == c16 || code == c17 || code == c18) && i+1 < len(es):
							e, isE := constInt(es[i+1])
							if !isE {
								why = "extra bits of a repeat code are not constant in a constant-step arm"
							}
							base := int64(3)
							if code == c18 {
								base = 11
							}
							total += base + e
							i++
						default:
							total++ // a literal code length
						}
					}
				}
				if why == "" && total != k {
					why = "the symbols appended in this arm describe " + itoa(int(total)) + " code lengths but the arm takes " + itoa(int(k)) + " off the run"
				}
				r.Check(why == "", id, key, p.InstrPos(bo), "a constant-step arm of the header run-length encoder emits exactly the lengths it accounts for", why)
			}
		}
	}
	if n == 0 {
		r.Undecided(id, "arms", "-", "zeroRepeat/numRepeat have constant-step arms", "none found")
	}
}

// registration of asm_budget.go's rule (kept here: init order follows file names)
func init() {
	extend("C18", Rule{ID: "R18.15", Configs: "asm", Run: ruleR18_15},
		"(R18.15) bit budget of the assembly decode loop: with the guaranteed number of valid bits set to 57 by every refill idiom and reduced at every consumption by the RFC maximum of what the count can be (lit/len entry 20, distance entry 15, constant itself), no consumption in decodeHuffmanAsmArchV3 can take more bits than are valid, on any path through the loop.")
	extend("C02", Rule{ID: "R02.14", Configs: "asm", Run: ruleR18_15}, "(R02.14) = R18.15.")
}

func init() {
	extend("C03", Rule{ID: "R03.12", Configs: "all", Run: ruleR03_12},
		"(R03.12) stored-block header: wherever the inflater takes the length of a stored block from the stream (a store to litBlockLength of a value narrower than the field, read from the bit buffer), the store is dominated by the equality of that length with the complement of a second value from the stream (LEN == ^NLEN) on every path - no length, zero included, is accepted unchecked.")
}

func ruleR03_12(p *Program, r *Report) {
	r.Expect("R03.12", 1)
	n := 0
	sp := p.Pkg(flateRel)
	hasCompl := func(v ssa.Value) bool {
		found := false
		var walk func(v ssa.Value, d int)
		walk = func(v ssa.Value, d int) {
			if d > 6 || found {
				return
			}
			switch x := v.(type) {
			case *ssa.UnOp:
				if x.Op == token.XOR {
					found = true
					return
				}
				walk(x.X, d+1)
			case *ssa.BinOp:
				if x.Op == token.XOR || x.Op == token.AND_NOT {
					found = true
					return
				}
				walk(x.X, d+1)
				walk(x.Y, d+1)
			case *ssa.Convert:
				walk(x.X, d+1)
			case *ssa.ChangeType:
				walk(x.X, d+1)
			}
		}
		walk(v, 0)
		return found
	}
	for _, fn := range p.Funcs() {
		if fn.Pkg != sp {
			continue
		}
		for _, b := range fn.Blocks {
			for _, in := range b.Instrs {
				st, ok := in.(*ssa.Store)
				if !ok {
					continue
				}
				_, sel := accessPath(st.Addr)
				if sel != ".litBlockLength" {
					continue
				}
				cv, isConv := st.Val.(*ssa.Convert)
				if !isConv || intSize(cv.X.Type()) >= intSize(cv.Type()) {
					continue // bookkeeping of the remaining length (constants, differences of the field itself)
				}
				L := cv.X
				n++
				okFact := false
				for _, f := range dominatingFacts(st) {
					if f.Y == nil || f.Op != token.EQL {
						continue
					}
					isL := func(v ssa.Value) bool { return v == L || stripConv(v) == stripConv(L) }
					switch {
					case isL(f.X) && hasCompl(f.Y), isL(f.Y) && hasCompl(f.X):
						okFact = true
					}
					// L ^ N == 0xffff, L + N == 0xffff
					for _, side := range [][2]ssa.Value{{f.X, f.Y}, {f.Y, f.X}} {
						if bo, isB := stripConv(side[0]).(*ssa.BinOp); isB && (bo.Op == token.XOR || bo.Op == token.ADD) && (isL(bo.X) || isL(bo.Y)) {
							if k, isK := constInt(side[1]); isK && k == 0xffff {
								okFact = true
							}
						}
					}
				}
				why := ""
				if !okFact {
					why = "the length read from the stream reaches litBlockLength on a path where it was not compared with the complement of NLEN (for example a length of zero accepted without the check)"
				}
				r.Check(okFact, "R03.12", shortFn(fn)+"|stored length checked against its complement", p.InstrPos(st), "LEN == ^NLEN holds on every path to the store of the stored-block length", why)
			}
		}
	}
	if n == 0 {
		r.Undecided("R03.12", "stored-block length", "-", "the inflater stores a stream-supplied length into litBlockLength", "no such store found")
	}
}

func init() {
	extend("C16", Rule{ID: "R16.6", Configs: "all", Run: ruleR16_6},
		"(R16.6) gzip.Writer.Flush after Close: compress/gzip's Flush returns nil once the writer is closed ('if z.closed { return nil }', gzip.go); the fork's Flush has a test of its closed flag whose closed edge returns nil and whose open edge dominates every call on the compressor or the destination - otherwise Flush after Close reports the compressor's 'closed writer' error and makes it sticky.")
}

func ruleR16_6(p *Program, r *Report) {
	r.Expect("R16.6", 1)
	n := 0
	for _, tr := range p.WriterTypes() {
		if tr.Rel != gzipRel {
			continue
		}
		fn := tr.Ops["Flush"]
		recv := fn.Params[0]
		n++
		key := shortFn(fn) + "|nil after Close"
		var calls []ssa.CallInstruction
		seenCall := map[ssa.CallInstruction]bool{}
		for _, rc := range p.regionCalls(fn) {
			if ok, _ := p.isDstCall(rc.call); !ok {
				continue
			}
			c := rc.call
			if rc.via != nil {
				c = rc.via // a helper of the same package: its call site in Flush is what has to be guarded
			}
			if !seenCall[c] {
				seenCall[c] = true
				calls = append(calls, c)
			}
		}
		if len(calls) == 0 {
			r.Undecided("R16.6", key, p.Pos(fn.Pos()), "Flush reaches the compressor", "no compressor or destination call found in Flush")
			continue
		}
		why := "no test of the closed flag in Flush"
		for _, ct := range p.findClosedTests(fn, recv) {
			if ct.markerG != nil {
				continue
			}
			why = ""
			for _, c := range calls {
				if !(len(ct.openSucc.Preds) == 1 && ct.openSucc.Dominates(c.Block())) {
					why = "call " + calleeLabel(c) + " at " + p.InstrPos(c) + " is not dominated by the not-closed edge of the ." + ct.field + " test: Flush after Close reaches the compressor, which answers 'closed writer'"
				}
			}
			retNil := false
			for _, in := range ct.closedSucc.Instrs {
				if ret, ok := in.(*ssa.Return); ok {
					if e := returnErr(ret); e != nil && isNil(e) {
						retNil = true
					}
				}
			}
			if why == "" && !retNil {
				why = "the closed edge of the ." + ct.field + " test does not return nil"
			}
			if why == "" {
				break
			}
		}
		r.Check(why == "", "R16.6", key, p.Pos(fn.Pos()), "Flush returns nil on a closed writer before any of its "+itoa(len(calls))+" compressor/destination calls", why)
	}
	if n == 0 {
		r.Undecided("R16.6", "gzip writer", "-", "the gzip package has a Writer with Write/Flush/Close/Reset", "not found")
	}
}

// ---------- R12.5 / R13.5: no by-value state of the previous stream is carried across Reset ----------

// carriedException lists by-value fields that Reset may legitimately copy from the old receiver although they are
// neither reusable resources nor constructor-only configuration. One line of reason each (confirmed by reading).
var carriedException = map[string]string{
	"zlib.reader.dictInflater": "records which kind of inflater the carried decompressor is (compress/flate's or the repository's); it is carried together with that decompressor and only decides whether it can be reused",
}

func init() {
	const text = "a Reset that rebuilds its receiver (a composite literal stored over *z, or field stores) takes no by-value state from the old receiver: every receiver field whose old value flows into a stored value is either a reusable resource (pointer, interface, slice, map - governed by R12.2) or constructor-only configuration (an unexported field that is only ever assigned from parameters of constructors and unexported helpers, such as the level); flags, counters, headers and identifiers of the previous stream must not survive, or the next stream differs from a fresh reader's/writer's."
	extend("C12", Rule{ID: "R12.5", Configs: "all", Run: ruleCarry}, "(R12.5) "+text)
	extend("C13", Rule{ID: "R13.5", Configs: "all", Run: ruleCarry}, "(R13.5) = R12.5 for the readers' Reset methods.")
}

func ruleCarry(p *Program, r *Report) {
	id, wantParam := "R12.5", "io.Writer"
	if r.Prop == "C13" {
		id, wantParam = "R13.5", "io.Reader"
	}
	r.Expect(id, 3)
	isRef := func(t types.Type) bool {
		switch t.Underlying().(type) {
		case *types.Pointer, *types.Interface, *types.Slice, *types.Map, *types.Chan, *types.Signature:
			return true
		}
		return false
	}
	// all stores to field g of struct type T in T's package: (value, function)
	type fstore struct {
		val ssa.Value
		fn  *ssa.Function
	}
	storesTo := func(T *types.Named, g string) []fstore {
		var out []fstore
		for _, fn := range p.Funcs() {
			if fn.Pkg == nil || fn.Pkg.Pkg != T.Obj().Pkg() {
				continue
			}
			for _, b := range fn.Blocks {
				for _, in := range b.Instrs {
					st, ok := in.(*ssa.Store)
					if !ok {
						continue
					}
					fa, ok := st.Addr.(*ssa.FieldAddr)
					if !ok || derefNamed(fa.X.Type()) != T {
						continue
					}
					if derefStruct(fa.X.Type()).Field(fa.Field).Name() == g {
						out = append(out, fstore{st.Val, fn})
					}
				}
			}
		}
		return out
	}
	isConfig := func(T *types.Named, g string) (bool, string) {
		if ast.IsExported(g) {
			return false, "an exported field, which callers assign between streams"
		}
		for _, s := range storesTo(T, g) {
			v := stripConv(s.val)
			if prm, ok := v.(*ssa.Parameter); ok {
				h := prm.Parent()
				if h.Signature.Recv() != nil && ast.IsExported(h.Name()) {
					return false, "assigned from a parameter of the exported method " + h.Name()
				}
				continue
			}
			if _, sel, ok := fieldLoad(v); ok && sel == "."+g {
				continue // a copy of the same field
			}
			return false, "assigned at " + p.Pos(s.val.Pos()) + " from something other than a constructor parameter"
		}
		return true, ""
	}
	n, carries := 0, 0
	for _, T := range p.AllNamed() {
		if _, isS := T.Underlying().(*types.Struct); !isS {
			continue
		}
		fn := hasMethod(p, T, "Reset", func(*types.Signature) bool { return true })
		if fn == nil || fn.Blocks == nil || !p.InRepo(fn) || len(fn.Params) < 2 {
			continue
		}
		if typeString(fn.Params[1].Type()) != wantParam {
			continue
		}
		n++
		recv := fn.Params[0]
		region := recvRegion(fn)
		st := derefStruct(recv.Type())
		fieldType := func(g string) types.Type {
			for i := 0; i < st.NumFields(); i++ {
				if st.Field(i).Name() == g {
					return st.Field(i).Type()
				}
			}
			return nil
		}
		// old receiver fields a value derives from
		var derive func(v ssa.Value, bind map[*ssa.Parameter]ssa.Value, d int, out map[string]bool)
		derive = func(v ssa.Value, bind map[*ssa.Parameter]ssa.Value, d int, out map[string]bool) {
			if d > 12 || v == nil {
				return
			}
			switch x := v.(type) {
			case *ssa.UnOp:
				if x.Op != token.MUL {
					derive(x.X, bind, d+1, out)
					return
				}
				root, sel := accessPath(x.X)
				if boundTo(root, recv, bind) {
					if sel == "" {
						out["*"] = true
					} else {
						out[strings.SplitN(strings.TrimPrefix(sel, "."), ".", 2)[0]] = true
					}
					return
				}
				if al, ok := root.(*ssa.Alloc); ok && al.Referrers() != nil {
					for _, u := range *al.Referrers() {
						if s, ok := u.(*ssa.Store); ok && s.Addr == ssa.Value(al) {
							derive(s.Val, bind, d+1, out)
						}
					}
				}
			case *ssa.BinOp:
				derive(x.X, bind, d+1, out)
				derive(x.Y, bind, d+1, out)
			case *ssa.Convert:
				derive(x.X, bind, d+1, out)
			case *ssa.ChangeType:
				derive(x.X, bind, d+1, out)
			case *ssa.MakeInterface:
				derive(x.X, bind, d+1, out)
			case *ssa.Phi:
				for _, e := range x.Edges {
					derive(e, bind, d+1, out)
				}
				// the conditions deciding the phi: a value chosen by an old flag also depends on it
				for _, pb := range x.Block().Preds {
					if len(pb.Instrs) > 0 {
						if iff, ok := pb.Instrs[len(pb.Instrs)-1].(*ssa.If); ok {
							derive(iff.Cond, bind, d+1, out)
						}
					}
				}
			case *ssa.Field:
				sub := map[string]bool{}
				derive(x.X, bind, d+1, sub)
				for k := range sub {
					if k == "*" {
						if sx, ok := x.X.Type().Underlying().(*types.Struct); ok {
							k = sx.Field(x.Field).Name()
						}
					}
					out[k] = true
				}
			case *ssa.Parameter:
				if a, ok := bind[x]; ok {
					derive(a, bind, d+1, out)
				}
			}
		}
		why := ""
		examine := func(f string, val ssa.Value, bind map[*ssa.Parameter]ssa.Value, at ssa.Instruction) {
			src := map[string]bool{}
			derive(val, bind, 0, src)
			var gs []string
			for g := range src {
				gs = append(gs, g)
			}
			sort.Strings(gs)
			for _, g := range gs {
				carries++
				if g == "*" {
					why = "the whole old receiver is stored back at " + p.InstrPos(at)
					continue
				}
				ft := fieldType(g)
				if ft == nil || isRef(ft) {
					continue
				}
				if ok, _ := isConfig(derefNamed(recv.Type()), g); ok {
					continue
				}
				if _, ok := carriedException[T.Obj().Pkg().Name()+"."+T.Obj().Name()+"."+g]; ok {
					continue
				}
				_, reason := isConfig(derefNamed(recv.Type()), g)
				why = "the value stored in ." + f + " at " + p.InstrPos(at) + " is taken from the old receiver's ." + g + " (" + reason + "): state of the previous stream survives Reset"
			}
		}
		for _, rf := range region {
			for _, b := range rf.fn.Blocks {
				for _, in := range b.Instrs {
					s, ok := in.(*ssa.Store)
					if !ok {
						continue
					}
					root, sel := accessPath(s.Addr)
					if !boundTo(root, recv, rf.bind) {
						continue
					}
					if sel != "" {
						examine(strings.SplitN(strings.TrimPrefix(sel, "."), ".", 2)[0], s.Val, rf.bind, s)
						continue
					}
					// *z = T{...}
					ld, ok := s.Val.(*ssa.UnOp)
					if !ok || ld.Op != token.MUL {
						continue
					}
					al, ok := ld.X.(*ssa.Alloc)
					if !ok || al.Referrers() == nil {
						examine("*", s.Val, rf.bind, s)
						continue
					}
					for _, u := range *al.Referrers() {
						fa, ok := u.(*ssa.FieldAddr)
						if !ok || fa.Referrers() == nil {
							continue
						}
						for _, u2 := range *fa.Referrers() {
							if s2, ok := u2.(*ssa.Store); ok && s2.Addr == ssa.Value(fa) {
								examine(derefStruct(fa.X.Type()).Field(fa.Field).Name(), s2.Val, rf.bind, s2)
							}
						}
					}
				}
			}
		}
		r.Check(why == "", id, shortFn(fn)+"|no by-value state carried", p.Pos(fn.Pos()), "Reset (with "+itoa(len(region)-1)+" helpers) stores nothing taken from by-value state of the old receiver", why)
	}
	if n == 0 {
		r.Undecided(id, "Reset methods", "-", "the repository has Reset("+wantParam+") methods", "none found")
	}
	r.Note("%s: %d Reset methods, %d carried values examined", id, n, carries)
}

// recvRegion: fn and the same-package functions its receiver is (transitively) passed to, each with the binding of
// its parameters to the values at the call site.
type regFn struct {
	fn   *ssa.Function
	bind map[*ssa.Parameter]ssa.Value
}

func recvRegion(fn *ssa.Function) []regFn {
	recv := fn.Params[0]
	region := []regFn{{fn, map[*ssa.Parameter]ssa.Value{}}}
	seen := map[*ssa.Function]bool{fn: true}
	for i := 0; i < len(region) && i < 16; i++ {
		for _, c := range allCalls(region[i].fn) {
			h := c.Common().StaticCallee()
			if h == nil || h.Blocks == nil || h.Pkg != fn.Pkg || seen[h] {
				continue
			}
			passes := false
			nb := map[*ssa.Parameter]ssa.Value{}
			for k, v := range region[i].bind {
				nb[k] = v
			}
			for ai, a := range c.Common().Args {
				if ai < len(h.Params) {
					nb[h.Params[ai]] = a
					if boundTo(a, recv, region[i].bind) {
						passes = true
					}
				}
			}
			if passes {
				seen[h] = true
				region = append(region, regFn{h, nb})
			}
		}
	}
	return region
}

func init() {
	extend("C06", Rule{ID: "R06.7", Configs: "all", Run: ruleR06_7},
		"(R06.7) gzip.Reader.Header is the header of the first member, as in compress/gzip: Read - with every same-package helper the receiver is passed to - contains no store into the receiver's Header; the headers of later members of a multistream file are parsed for their length and checksum and discarded.")
}

func ruleR06_7(p *Program, r *Report) {
	r.Expect("R06.7", 1)
	fn := p.Method(gzipRel, "Reader", "Read")
	if fn == nil {
		r.Undecided("R06.7", "gzip.Reader.Read", "-", "the gzip package has Reader.Read", "not found")
		return
	}
	recv := fn.Params[0]
	region := recvRegion(fn)
	why := ""
	calls := 0
	for _, rf := range region {
		for _, b := range rf.fn.Blocks {
			for _, in := range b.Instrs {
				if _, ok := in.(ssa.CallInstruction); ok {
					calls++
				}
				s, ok := in.(*ssa.Store)
				if !ok {
					continue
				}
				root, sel := accessPath(s.Addr)
				if boundTo(root, recv, rf.bind) && (sel == ".Header" || strings.HasPrefix(sel, ".Header.") || sel == "") {
					why = "store into the receiver's Header at " + p.InstrPos(s) + " (in " + shortFn(rf.fn) + ") is part of Read: a later member's header replaces the first one"
				}
			}
		}
	}
	r.Check(why == "", "R06.7", shortFn(fn)+"|Header of the first member kept", p.Pos(fn.Pos()), "Read and its "+itoa(len(region)-1)+" helpers on the receiver never assign Header", why)
}

// ---------- R18.16: the acceleration level selects implementations and nothing else ----------

// archLevelReporters: functions that read cpu.ArchLevel without dispatching, confirmed by reading.
var archLevelReporters = map[string]string{
	"fastgo.Optimized": "exported report of whether acceleration is on; the value flows to the caller only",
}

func init() {
	extend("C18", Rule{ID: "R18.16", Configs: "all", Run: ruleR18_16},
		"(R18.16) the acceleration level selects implementations and nothing else: every function that reads cpu.ArchLevel is a dispatch site - it refers to at least one assembly routine (a function without a Go body) that it calls, installs in a function variable, or calls through such a variable - or the listed reporter; a table flag, a threshold or a Peek size chosen by the level makes results differ between machines.")
}

func ruleR18_16(p *Program, r *Report) {
	r.Expect("R18.16", 1)
	g := p.Global("internal/cpu", "ArchLevel")
	if g == nil {
		r.Undecided("R18.16", "cpu.ArchLevel", "-", "internal/cpu declares ArchLevel", "not found")
		return
	}
	fns := append([]*ssa.Function{}, p.Funcs()...)
	seen := map[*ssa.Function]bool{}
	for _, f := range fns {
		seen[f] = true
	}
	for _, sp := range p.SSA {
		for _, m := range sp.Members {
			if f, ok := m.(*ssa.Function); ok && !seen[f] && f.Blocks != nil {
				seen[f] = true
				fns = append(fns, f)
			}
		}
	}
	isAsm := func(v ssa.Value) (string, bool) {
		h, ok := v.(*ssa.Function)
		if ok && h.Blocks == nil && h.Pkg != nil && strings.HasPrefix(h.Pkg.Pkg.Path(), modPath) {
			return h.Name(), true
		}
		return "", false
	}
	// function variables in which an assembly routine is installed somewhere
	asmVars := map[*ssa.Global]string{}
	for _, f := range fns {
		for _, b := range f.Blocks {
			for _, in := range b.Instrs {
				if st, ok := in.(*ssa.Store); ok {
					if gv, ok := st.Addr.(*ssa.Global); ok {
						if nm, ok := isAsm(st.Val); ok {
							asmVars[gv] = nm
						}
					}
				}
			}
		}
	}
	n := 0
	for _, fn := range fns {
		if !p.InRepo(fn) || fn.Pkg == g.Pkg {
			continue
		}
		reads := false
		var at ssa.Instruction
		asm := ""
		var visit func(f *ssa.Function)
		visit = func(f *ssa.Function) {
			for _, b := range f.Blocks {
				for _, in := range b.Instrs {
					if u, ok := in.(*ssa.UnOp); ok && u.Op == token.MUL && u.X == ssa.Value(g) {
						reads = true
						if at == nil {
							at = in
						}
					}
					for _, op := range in.Operands(nil) {
						if op == nil || *op == nil {
							continue
						}
						if nm, ok := isAsm(*op); ok {
							asm = nm
						}
						if gv, ok := (*op).(*ssa.Global); ok {
							if nm, ok := asmVars[gv]; ok {
								asm = nm + " (through the function variable " + gv.Name() + ")"
							}
						}
					}
				}
			}
			for _, an := range f.AnonFuncs {
				visit(an)
			}
		}
		visit(fn)
		if !reads {
			continue
		}
		n++
		name := fn.Pkg.Pkg.Name() + "." + fn.Name()
		key := shortFn(fn) + "|reads the acceleration level"
		if why, ok := archLevelReporters[name]; ok {
			r.OK("R18.16", key, p.InstrPos(at), "listed reporter: "+why)
			continue
		}
		why := ""
		if asm == "" {
			why = "reads cpu.ArchLevel but refers to no assembly routine: something other than the choice of implementation depends on the acceleration level"
		}
		r.Check(why == "", "R18.16", key, p.InstrPos(at), "a dispatch site: the function refers to the assembly routine "+asm, why)
	}
	if n == 0 {
		r.Undecided("R18.16", "readers", "-", "some function reads cpu.ArchLevel", "none found")
	}
}

// registration of asm_lost.go's rule
func init() {
	extend("C18", Rule{ID: "R18.17", Configs: "asm", Run: ruleR18_17},
		"(R18.17) no lost update in the assembly routines: for every register a routine writes back into a Go object or result slot, an accumulating update of it (an instruction that reads and writes the register) reaches a use of the register on every path before the register is reloaded from a vector or mask register - an exit path that reloads the bit accumulator from its stale vector copy loses the bits of the last codes.")
}

// ---------- R17.5: objects published in package variables are immutable ----------

func init() {
	extend("C17", Rule{ID: "R17.5", Configs: "all", Run: ruleR17_5},
		"(R17.5) objects published through package variables are immutable: when package initialisation stores a pointer to a repository struct type T in a package variable (directly or inside an interface, as an error sentinel), no function outside initialisation stores into a field of T through a pointer that is not a fresh allocation of the same function. The checker has no pointer analysis; this is the type-based approximation (any *T may be the shared object), so a T that is also used for per-instance objects written through parameters would be reported - there is none today.")
	controlRegistry["C17"] = append(controlRegistry["C17"], Control{Rule: "R17.5", Run: ruleR17_5, MustFire: []string{"markSentinel"}})
}

func ruleR17_5(p *Program, r *Report) {
	r.Expect("R17.5", 1)
	// struct types a pointer to which is stored in a package variable
	shared := map[*types.Named]*ssa.Global{}
	note := func(t types.Type, g *ssa.Global) {
		if pt, ok := t.Underlying().(*types.Pointer); ok {
			if n := derefNamed(pt); n != nil {
				if _, isS := n.Underlying().(*types.Struct); isS && n.Obj().Pkg() != nil && strings.HasPrefix(n.Obj().Pkg().Path(), modPathOf(p)) {
					shared[n] = g
				}
			}
		}
	}
	globals := 0
	for _, sp := range p.SSA {
		for _, m := range sp.Members {
			if g, ok := m.(*ssa.Global); ok {
				globals++
				note(g.Type().(*types.Pointer).Elem(), g)
			}
		}
		if ini := sp.Func("init"); ini != nil {
			var visit func(f *ssa.Function)
			visit = func(f *ssa.Function) {
				for _, b := range f.Blocks {
					for _, in := range b.Instrs {
						st, ok := in.(*ssa.Store)
						if !ok {
							continue
						}
						g, ok := st.Addr.(*ssa.Global)
						if !ok {
							continue
						}
						v := st.Val
						if mi, ok := v.(*ssa.MakeInterface); ok {
							v = mi.X
						}
						note(v.Type(), g)
					}
				}
			}
			visit(ini)
		}
	}
	n := 0
	for _, fn := range p.Funcs() {
		if fn.Name() == "init" || strings.HasPrefix(fn.Name(), "init#") {
			continue
		}
		lab := newLabeler()
		for _, b := range fn.Blocks {
			for _, in := range b.Instrs {
				st, ok := in.(*ssa.Store)
				if !ok {
					continue
				}
				// innermost struct pointer the store goes through
				var base ssa.Value
				var T *types.Named
				for a := st.Addr; a != nil; {
					switch x := a.(type) {
					case *ssa.FieldAddr:
						if nm := derefNamed(x.X.Type()); nm != nil && shared[nm] != nil {
							base, T = x.X, nm
						}
						a = x.X
					case *ssa.IndexAddr:
						a = x.X
					default:
						a = nil
					}
				}
				if T == nil {
					continue
				}
				if _, fresh := base.(*ssa.Alloc); fresh {
					continue
				}
				n++
				r.Fail("R17.5", shortFn(fn)+"|"+lab.get("store into "+T.Obj().Name()), p.InstrPos(st), "no field of an object published in a package variable is written after initialisation", "stores into a field of "+typeString(T)+", a pointer to which is held by the package variable "+shared[T].Name()+": every user of that variable shares the write")
			}
		}
	}
	if n == 0 {
		names := []string{}
		for t := range shared {
			names = append(names, t.Obj().Name())
		}
		sort.Strings(names)
		r.OK("R17.5", "census", "-", "no store into a field of a struct type published through a package variable ("+itoa(globals)+" package variables, published struct types: ["+strings.Join(names, " ")+"])")
	}
}

func modPathOf(p *Program) string {
	for _, sp := range p.SSA {
		path := sp.Pkg.Path()
		if strings.HasPrefix(path, modPath) {
			return modPath
		}
		// the control module has its own module path: everything loaded as source belongs to it
		if i := strings.Index(path, "/"); i > 0 {
			return path[:i]
		}
		return path
	}
	return modPath
}

// ---------- R11.7 / R02.15: a stored block asks for more input only when bit buffer and input together are short ----------

func init() {
	const text = "the stored-block copier (decodeLiteralBlock) produces errEndInput only behind a comparison one operand of which counts, in linear normal form, both the whole bytes held in the bit buffer (bitsLen/8) and len(input): the header parser loads 8 bytes at a time, so up to 3 data bytes of a stored block sit in the bit buffer while the input slice is empty - an end-of-input decided on len(input) alone strands them."
	extend("C11", Rule{ID: "R11.7", Configs: "all", Run: ruleR11_7}, "(R11.7) "+text)
	extend("C02", Rule{ID: "R02.15", Configs: "all", Run: ruleR11_7}, "(R02.15) = R11.7.")
}

func ruleR11_7(p *Program, r *Report) {
	id := "R11.7"
	if r.Prop == "C02" {
		id = "R02.15"
	}
	r.Expect(id, 1)
	fn := p.Method(flateRel, "inflate", "decodeLiteralBlock")
	if fn == nil {
		r.Undecided(id, "anchor", "-", "inflate.decodeLiteralBlock exists", "not found")
		return
	}
	n := 0
	lab := newLabeler()
	for _, rf := range recvRegion(fn) {
		for _, b := range rf.fn.Blocks {
			for _, in := range b.Instrs {
				ld, ok := in.(*ssa.UnOp)
				if !ok || ld.Op != token.MUL {
					continue
				}
				g, ok := ld.X.(*ssa.Global)
				if !ok || g.Name() != "errEndInput" {
					continue
				}
				n++
				good := false
				nonStrict := false
				for _, f := range dominatingFacts(ld) {
					for _, v := range []ssa.Value{f.X, f.Y} {
						if v == nil {
							continue
						}
						l := expandPhiLinear(v, 0)
						if !l.ok {
							continue
						}
						hasBits, hasIn := false, false
						for t := range l.terms {
							if strings.Contains(t, ".bitsLen") && strings.Contains(t, "/8") {
								hasBits = true
							}
							if strings.HasPrefix(t, "len(") && strings.HasSuffix(t, ".input)") {
								hasIn = true
							}
						}
						if hasBits && hasIn {
							// and the comparison is strict: exactly enough bytes is not end of input
							other := f.Y
							if v == f.Y {
								other = f.X
							}
							_ = other
							strict := f.Op == token.GTR || f.Op == token.LSS
							if strict {
								good = true
							} else {
								nonStrict = true
							}
						}
					}
				}
				why := ""
				if !good && nonStrict {
					why = "errEndInput is produced when the bytes needed equal the bytes available (a non-strict comparison): a final stored block that is completely there is copied and then waited on for ever"
				} else if !good {
					why = "errEndInput is produced on a path that is not behind a comparison with bitsLen/8 + len(input): data bytes still held in the bit buffer would be stranded while the reader asks for more input"
				}
				r.Check(good, id, shortFn(rf.fn)+"|"+lab.get("end of input"), p.InstrPos(ld), "end of input in a stored block is decided on the bytes of bit buffer and input together", why)
			}
		}
	}
	if n == 0 {
		r.Undecided(id, shortFn(fn)+"|end of input", p.Pos(fn.Pos()), "decodeLiteralBlock can report errEndInput", "no use of errEndInput found")
	}
}

// ---------- R02.16: overrun tests of the code-length parser agree on the bound ----------

// altLinear: the linear forms v can take when phis with a few incoming values are expanded (at most 8 forms).
func altLinear(v ssa.Value, depth int) []linForm {
	l := linearizeWith(v, true)
	if !l.ok {
		return nil
	}
	forms := []linForm{{terms: map[string]int64{}, k: l.k, ok: true}}
	phis := map[string]*ssa.Phi{}
	seen := map[ssa.Value]bool{}
	var collect func(x ssa.Value)
	collect = func(x ssa.Value) {
		if x == nil || seen[x] {
			return
		}
		seen[x] = true
		switch y := x.(type) {
		case *ssa.Phi:
			phis["phi:"+y.Name()] = y
		case *ssa.BinOp:
			collect(y.X)
			collect(y.Y)
		case *ssa.Convert:
			collect(y.X)
		case *ssa.UnOp:
			collect(y.X)
		}
	}
	collect(v)
	for term, c := range l.terms {
		var subs []linForm
		if phi, ok := phis[term]; ok && depth < 2 && len(phi.Edges) <= 3 {
			loop := false
			for _, e := range phi.Edges {
				// a phi that feeds itself is a loop variable: an atom
				if e == ssa.Value(phi) {
					loop = true
				}
				if bo, ok := e.(*ssa.BinOp); ok && (bo.X == ssa.Value(phi) || bo.Y == ssa.Value(phi)) {
					loop = true
				}
			}
			if !loop && phi.Block() != nil && !isLoopHeader(phi.Block()) {
				for _, e := range phi.Edges {
					subs = append(subs, altLinear(e, depth+1)...)
				}
			}
		}
		if len(subs) == 0 {
			subs = []linForm{{terms: map[string]int64{term: 1}, ok: true}}
		}
		var next []linForm
		for _, f := range forms {
			for _, sb := range subs {
				nf := linForm{terms: map[string]int64{}, k: f.k + c*sb.k, ok: true}
				for t, cc := range f.terms {
					nf.terms[t] += cc
				}
				for t, cc := range sb.terms {
					nf.terms[t] += c * cc
				}
				for t, cc := range nf.terms {
					if cc == 0 {
						delete(nf.terms, t)
					}
				}
				next = append(next, nf)
				if len(next) >= 8 {
					break
				}
			}
		}
		forms = next
	}
	return forms
}

func isLoopHeader(b *ssa.BasicBlock) bool {
	for _, pr := range b.Preds {
		if b.Dominates(pr) {
			return true
		}
	}
	return false
}

func init() {
	extend("C02", Rule{ID: "R02.16", Configs: "all", Run: ruleR02_16},
		"(R02.16) the overrun tests of the code-length parser agree with the table size: every comparison of a cursor expression with the bound 'constant + count parameter' whose overrun edge leads straight to errInvalidBlock rejects exactly 'cursor - parameter >= litLen + 2' (cursor beyond litLen + hdist + 1 slots), whatever the spelling (>, >=, +1/-1 moved across) - a run of repeated lengths may end exactly on the last declared length. Sibling agreement over all such tests plus the RFC count.")
	extend("C03", Rule{ID: "R03.13", Configs: "all", Run: ruleR02_16}, "(R03.13) = R02.16.")
}

func ruleR02_16(p *Program, r *Report) {
	id := "R02.16"
	if r.Prop == "C03" {
		id = "R03.13"
	}
	r.Expect(id, 2)
	fn := p.Method(flateRel, "inflate", "readLitDistLens")
	litLen, okL := constOf(p, flateRel, "litLen")
	if fn == nil || !okL {
		r.Undecided(id, "anchors", "-", "inflate.readLitDistLens and the constant litLen exist", "not found")
		return
	}
	errBlock := func(b *ssa.BasicBlock) bool {
		for _, in := range b.Instrs {
			if g := globalLoad(valueOf(in)); g != nil && g.Name() == "errInvalidBlock" {
				return true
			}
		}
		return false
	}
	n := 0
	lab := newLabeler()
	for _, b := range fn.Blocks {
		if len(b.Instrs) == 0 {
			continue
		}
		iff, ok := b.Instrs[len(b.Instrs)-1].(*ssa.If)
		if !ok {
			continue
		}
		bo, ok := iff.Cond.(*ssa.BinOp)
		if !ok {
			continue
		}
		switch bo.Op {
		case token.GTR, token.GEQ, token.LSS, token.LEQ:
		default:
			continue
		}
		// which side is the bound: exactly one count parameter with coefficient 1 and nothing else
		isBound := func(f linForm) (string, bool) {
			if len(f.terms) != 1 {
				return "", false
			}
			for t, c := range f.terms {
				if strings.HasPrefix(t, "param:") && c == 1 {
					return t, true
				}
			}
			return "", false
		}
		noParam := func(f linForm) bool {
			for t := range f.terms {
				if strings.HasPrefix(t, "param:") {
					return false
				}
			}
			return len(f.terms) > 0
		}
		type side struct{ forms []linForm }
		L, R := altLinear(bo.X, 0), altLinear(bo.Y, 0)
		if len(L) == 0 || len(R) == 0 {
			continue
		}
		op := bo.Op
		cur, bnd := L, R
		swapped := false
		hasBound := func(fs []linForm) bool {
			for _, f := range fs {
				if _, ok := isBound(f); ok {
					return true
				}
			}
			return false
		}
		if hasBound(L) && !hasBound(R) {
			cur, bnd, swapped = R, L, true
		} else if !hasBound(R) {
			continue
		}
		if swapped {
			switch op {
			case token.GTR:
				op = token.LSS
			case token.GEQ:
				op = token.LEQ
			case token.LSS:
				op = token.GTR
			case token.LEQ:
				op = token.GEQ
			}
		}
		allCur := true
		for _, f := range cur {
			if !noParam(f) {
				allCur = false
			}
		}
		if !allCur {
			continue
		}
		// the overrun edge: cursor at or beyond the bound
		var over *ssa.BasicBlock
		switch op {
		case token.GTR, token.GEQ:
			over = b.Succs[0]
		default:
			over = b.Succs[1]
		}
		if !errBlock(over) {
			continue
		}
		for _, bf := range bnd {
			if _, ok := isBound(bf); !ok {
				continue // a variant of the bound that accounts for something else (the literal/length gap)
			}
			for _, cf := range cur {
				n++
				// the cursor expression is taken whole, with its constant (the base of a run length is part of where
				// the run ends); only the bound's constant decides the threshold
				_ = cf
				d := bf.k
				var T int64
				switch op {
				case token.GTR:
					T = d + 1
				case token.GEQ:
					T = d
				case token.LSS:
					T = d
				case token.LEQ:
					T = d + 1
				}
				why := ""
				if T != litLen+2 {
					why = "this test takes the invalid-block exit when cursor - count >= " + itoa(int(T)) + "; the table has litLen + count + 1 slots, so only cursor - count >= " + itoa(int(litLen+2)) + " overruns it (a run ending exactly on the last declared length is legal)"
				}
				r.Check(why == "", id, shortFn(fn)+"|"+lab.get("overrun test"), p.InstrPos(iff), "the overrun test rejects exactly a cursor beyond litLen + count + 1", why)
			}
		}
	}
	if n == 0 {
		r.Undecided(id, shortFn(fn)+"|overrun tests", p.Pos(fn.Pos()), "the parser compares its cursor with constant + count parameter before errInvalidBlock", "no such test found")
	}
}

func valueOf(in ssa.Instruction) ssa.Value {
	v, _ := in.(ssa.Value)
	return v
}

// ---------- R02.17: the two zero-run cases switch tables under the same condition ----------

func init() {
	extend("C02", Rule{ID: "R02.17", Configs: "all", Run: ruleR02_17},
		"(R02.17) sibling agreement in the code-length parser: the places where a run accounts for the gap between the literal/length and the distance lengths (cursor += constant - count parameter in the zero-run cases, bound -= constant - count parameter in the repeat case) decide 'still reading literal/length lengths' by the same test of which count table is current, and the zero-run cases carry the cursor over under the same test against the count parameter; a case with its own boundary test (for example a positional one that misses a run starting exactly on the boundary) files distance lengths under literal/length slots.")
}

func ruleR02_17(p *Program, r *Report) {
	r.Expect("R02.17", 1)
	fn := p.Method(flateRel, "inflate", "readLitDistLens")
	if fn == nil {
		r.Undecided("R02.17", "anchors", "-", "inflate.readLitDistLens exists", "not found")
		return
	}
	sideSig := func(v ssa.Value) (string, bool) {
		if _, ok := v.Type().Underlying().(*types.Pointer); ok {
			return "ptr", true
		}
		if _, ok := constInt(v); ok {
			return "k", false
		}
		l := linearizeWith(v, true)
		var ps []string
		other := false
		for t, c := range l.terms {
			if strings.HasPrefix(t, "param:") {
				ps = append(ps, itoa(int(c))+"*param")
			} else {
				other = true
			}
		}
		sort.Strings(ps)
		s := strings.Join(ps, "+")
		if other {
			s += "+v"
		}
		return s, len(ps) > 0
	}
	type site struct {
		at       ssa.Instruction
		carry    bool   // the cursor is carried over the gap (ADD); otherwise the gap is taken off a bound (SUB)
		table    string // tests on which count table is current (pointer comparisons)
		position string // tests of the cursor against the count parameter
	}
	var sites []site
	for _, b := range fn.Blocks {
		for _, in := range b.Instrs {
			bo, ok := in.(*ssa.BinOp)
			if !ok || (bo.Op != token.ADD && bo.Op != token.SUB) || intSize(bo.Type()) == 0 {
				continue
			}
			// cursor += constant - count parameter / bound -= constant - count parameter
			gap := false
			ops := []ssa.Value{bo.X, bo.Y}
			if bo.Op == token.SUB {
				ops = []ssa.Value{bo.Y}
			}
			for _, o := range ops {
				l := linearizeWith(o, true)
				if len(l.terms) == 1 && l.k != 0 {
					for t, c := range l.terms {
						if strings.HasPrefix(t, "param:") && c == -1 {
							gap = true
						}
					}
				}
			}
			if !gap {
				continue
			}
			var tbl, pos []string
			for _, f := range dominatingFacts(bo) {
				if f.Y == nil {
					continue
				}
				sx, rx := sideSig(f.X)
				sy, ry := sideSig(f.Y)
				if !rx && !ry {
					continue // tests that involve neither a count parameter nor a table address (symbol values, bit counts)
				}
				op := f.Op
				if sx > sy { // canonical order of the sides
					sx, sy = sy, sx
					switch op {
					case token.LSS:
						op = token.GTR
					case token.LEQ:
						op = token.GEQ
					case token.GTR:
						op = token.LSS
					case token.GEQ:
						op = token.LEQ
					}
				}
				sg := op.String() + "(" + sx + "," + sy + ")"
				if sx == "ptr" || sy == "ptr" {
					tbl = append(tbl, sg)
				} else {
					pos = append(pos, sg)
				}
			}
			sort.Strings(tbl)
			sort.Strings(pos)
			sites = append(sites, site{bo, bo.Op == token.ADD, strings.Join(tbl, " & "), strings.Join(pos, " & ")})
		}
	}
	if len(sites) < 2 {
		r.Undecided("R02.17", shortFn(fn)+"|gap sites", p.Pos(fn.Pos()), "at least two run-length cases account for the gap between the literal/length and the distance lengths (constant - count parameter)", itoa(len(sites))+" found")
		return
	}
	majority := func(get func(site) (string, bool)) (string, int, int) {
		count := map[string]int{}
		tot := 0
		for _, s := range sites {
			if v, ok := get(s); ok {
				count[v]++
				tot++
			}
		}
		ref, best := "", 0
		for sg, c := range count {
			if c > best || (c == best && sg < ref) {
				ref, best = sg, c
			}
		}
		return ref, best, tot
	}
	tRef, tBest, tTot := majority(func(s site) (string, bool) { return s.table, true })
	pRef, pBest, pTot := majority(func(s site) (string, bool) { return s.position, s.carry })
	lab := newLabeler()
	for _, s := range sites {
		why := ""
		if s.table != tRef || tBest*2 <= tTot && tBest != tTot {
			why = "this case decides whether the literal/length lengths are still being read by [" + s.table + "], the sibling cases by [" + tRef + "]: all run-length cases must use the same test of which count table is current"
		}
		if why == "" && s.carry && (s.position != pRef || pBest*2 <= pTot && pBest != pTot) {
			why = "this case carries the cursor over the gap under [" + s.position + "], the sibling case under [" + pRef + "]"
		}
		r.Check(why == "", "R02.17", shortFn(fn)+"|"+lab.get("gap site"), p.InstrPos(s.at), "the gap between literal/length and distance lengths is accounted for under the same tests as in the sibling cases [table: "+s.table+"; position: "+s.position+"]", why)
	}
}

// ---------- R10.13 / R01.15: bytes encoded into the output buffer are handed over before the buffer is rewound or the method returns ----------

func init() {
	const text = "no encoded bytes are dropped: in every method of a compressor that owns an output BitBuf, from each call that encodes into the buffer (a call taking the address of the receiver's buffer) every path to a rewind of the buffer (store of 0 to its index) or to a successful return passes a destination call; a first loop test that provably cannot fail (index from 0 against the length of a slice just appended to) is not a path. A tail left in the buffer 'for the next Write' is overwritten by the next block's rewind."
	extend("C10", Rule{ID: "R10.13", Configs: "all", Run: ruleR10_13}, "(R10.13) "+text)
	extend("C01", Rule{ID: "R01.15", Configs: "all", Run: ruleR10_13}, "(R01.15) = R10.13.")
}

func ruleR10_13(p *Program, r *Report) {
	id := "R10.13"
	if r.Prop == "C01" {
		id = "R01.15"
	}
	r.Expect(id, 4)
	sp := p.Pkg(deflRel)
	bitbuf := p.Named(deflRel, "BitBuf")
	if sp == nil || bitbuf == nil {
		r.Undecided(id, "anchors", "-", "the deflate package and its BitBuf type exist", "not found")
		return
	}
	n := 0
	for _, fn := range p.Funcs() {
		if fn.Pkg != sp || fn.Signature.Recv() == nil || len(fn.Params) == 0 || fn.Blocks == nil {
			continue
		}
		if fn.Name() == "Reset" || fn.Name() == "reset" {
			continue // a reset discards whatever is pending, by design
		}
		recv := fn.Params[0]
		rs := derefStruct(recv.Type())
		if rs == nil {
			continue
		}
		bufField := ""
		for i := 0; i < rs.NumFields(); i++ {
			if derefNamed(rs.Field(i).Type()) == bitbuf {
				if _, isPtr := rs.Field(i).Type().(*types.Pointer); !isPtr {
					bufField = "." + rs.Field(i).Name()
				}
			}
		}
		if bufField == "" {
			continue
		}
		isFill := func(in ssa.Instruction) bool {
			c, ok := in.(ssa.CallInstruction)
			if !ok {
				return false
			}
			for _, a := range c.Common().Args {
				if root, sel := accessPath(a); root == ssa.Value(recv) && sel == bufField {
					if _, isPtr := a.Type().Underlying().(*types.Pointer); isPtr {
						return true
					}
				}
			}
			return false
		}
		isWrite := func(in ssa.Instruction) bool {
			c, ok := in.(ssa.CallInstruction)
			if !ok {
				return false
			}
			d, _ := p.isDstCall(c)
			return d
		}
		isTarget := func(in ssa.Instruction) (bool, string) {
			switch x := in.(type) {
			case *ssa.Store:
				if root, sel := accessPath(x.Addr); root == ssa.Value(recv) && sel == bufField+".idx" {
					if k, ok := constInt(x.Val); ok && k == 0 {
						return true, "the buffer is rewound"
					}
				}
			case *ssa.Return:
				e := returnErr(x)
				if e == nil || p.mayBeNil(fn, e, x) {
					return true, "the method returns successfully"
				}
			}
			return false, ""
		}
		// loop headers whose first test cannot fail
		sure := map[*ssa.BasicBlock]*ssa.BasicBlock{} // header -> exit successor that is infeasible on first entry
		for _, h := range fn.Blocks {
			if !isLoopHeader(h) || len(h.Instrs) == 0 {
				continue
			}
			iff, ok := h.Instrs[len(h.Instrs)-1].(*ssa.If)
			if !ok {
				continue
			}
			bo, ok := iff.Cond.(*ssa.BinOp)
			if !ok || bo.Op != token.LSS {
				continue
			}
			phi, ok := bo.X.(*ssa.Phi)
			if !ok || phi.Block() != h {
				continue
			}
			zeroEntry := true
			for i, e := range phi.Edges {
				if !h.Dominates(h.Preds[i]) {
					if k, isK := constInt(e); !isK || k != 0 {
						zeroEntry = false
					}
				}
			}
			if !zeroEntry {
				continue
			}
			// index from 0 against a receiver field known to be non-zero (tested before, not stored since)
			if root, sel, isL := fieldLoad(stripConv(bo.Y)); isL && root == ssa.Value(recv) {
				known, stored := false, false
				for _, f := range dominatingFacts(iff) {
					if f.Y == nil {
						continue
					}
					// field != 0, field > 0, field >= 1 (and the mirrored spellings)
					for i, pair := range [][2]ssa.Value{{f.X, f.Y}, {f.Y, f.X}} {
						k, isK := constInt(pair[1])
						if !isK {
							continue
						}
						op := f.Op
						if i == 1 {
							switch op {
							case token.LSS:
								op = token.GTR
							case token.LEQ:
								op = token.GEQ
							case token.GTR:
								op = token.LSS
							case token.GEQ:
								op = token.LEQ
							}
						}
						if !((op == token.NEQ && k == 0) || (op == token.GTR && k >= 0) || (op == token.GEQ && k >= 1)) {
							continue
						}
						if r2, s2, ok := fieldLoad(stripConv(pair[0])); ok && r2 == ssa.Value(recv) && s2 == sel {
							known = true
						}
					}
				}
				for _, b := range fn.Blocks {
					for _, in := range b.Instrs {
						if st, ok := in.(*ssa.Store); ok && dominatesInstr(st, iff) {
							if r2, s2 := accessPath(st.Addr); r2 == ssa.Value(recv) && s2 == sel {
								stored = true
							}
						}
					}
				}
				if known && !stored {
					sure[h] = h.Succs[1]
				}
				continue
			}
			lc, ok := bo.Y.(*ssa.Call)
			if !ok {
				continue
			}
			if bi, isB := lc.Common().Value.(*ssa.Builtin); !isB || bi.Name() != "len" {
				continue
			}
			root, sel, isL := fieldLoad(lc.Common().Args[0])
			if !isL || root != ssa.Value(recv) {
				continue
			}
			appended, other := false, false
			for _, b := range fn.Blocks {
				for _, in := range b.Instrs {
					st, ok := in.(*ssa.Store)
					if !ok {
						continue
					}
					if r2, s2 := accessPath(st.Addr); r2 != ssa.Value(recv) || s2 != sel || !dominatesInstr(st, iff) {
						continue
					}
					if c, ok := st.Val.(*ssa.Call); ok {
						if bi, ok := c.Common().Value.(*ssa.Builtin); ok && bi.Name() == "append" && len(c.Common().Args) > 1 {
							appended = true
							continue
						}
					}
					other = true
				}
			}
			if appended && !other {
				sure[h] = h.Succs[1]
			}
		}
		lab := newLabeler()
		for _, b0 := range fn.Blocks {
			for i0, in0 := range b0.Instrs {
				if !isFill(in0) {
					continue
				}
				n++
				type node struct {
					b     *ssa.BasicBlock
					first bool // entered through a non-back edge
				}
				seen := map[node]bool{}
				var bad ssa.Instruction
				badWhat := ""
				var walk func(b *ssa.BasicBlock, from int, first bool)
				walk = func(b *ssa.BasicBlock, from int, first bool) {
					if bad != nil {
						return
					}
					for _, in := range b.Instrs[from:] {
						if isWrite(in) {
							return
						}
						if t, what := isTarget(in); t {
							bad, badWhat = in, what
							return
						}
					}
					for _, s := range b.Succs {
						if ex, ok := sure[b]; ok && first && s == ex {
							continue
						}
						nd := node{s, !s.Dominates(b)}
						if seen[nd] {
							continue
						}
						seen[nd] = true
						walk(s, 0, nd.first)
					}
				}
				walk(b0, i0+1, false)
				why := ""
				if bad != nil {
					why = badWhat + " at " + p.InstrPos(bad) + " on a path from this call without the encoded bytes having been handed to the destination"
				}
				r.Check(bad == nil, id, shortFn(fn)+"|"+lab.get("after "+calleeLabel(in0.(ssa.CallInstruction))), p.InstrPos(in0), "what this call encodes into the buffer reaches the destination before the buffer is rewound or the method returns", why)
			}
		}
	}
	if n == 0 {
		r.Undecided(id, "fills", "-", "compressor methods encode into their BitBuf", "no such call found")
	}
}

// ---------- R04.12: un-staging of a staged header is decided on the value the staging was decided on ----------
// ---------- R04.13 / R18.18: the header parser leaves only phases the dispatcher has an arm for ----------

func init() {
	extend("C04", Rule{ID: "R04.12", Configs: "all", Run: ruleR04_12},
		"(R04.12) in readHeader the re-slice of the real input after a staged header is guarded by a test of the very value (same SSA value: the phase saved at entry, or a flag computed from it) that guarded the staging; a fresh load of the phase after the parse sees what the parse changed, and the rest of the delivered chunk is dropped.")
	const t13 = "the header parser (readHeader and every function its receiver is passed to) stores into inflate.phase only constants the block dispatcher has an arm for: the phase compared before the stored-block copier, the phase the Go Huffman loop runs under, and the staging phase of the end-of-input edge. Any other phase would send the dispatcher into the Huffman decoder, whose assembly loop does not test the phase and decodes the next block's header bytes with the previous tables."
	extend("C04", Rule{ID: "R04.13", Configs: "all", Run: ruleR04_13}, "(R04.13) "+t13)
	extend("C18", Rule{ID: "R18.18", Configs: "all", Run: ruleR04_13}, "(R18.18) = R04.13.")
}

func ruleR04_12(p *Program, r *Report) {
	r.Expect("R04.12", 1)
	fn := p.Method(flateRel, "inflate", "readHeader")
	if fn == nil {
		r.Undecided("R04.12", "anchors", "-", "inflate.readHeader exists", "not found")
		return
	}
	// staging: the copy into the staging buffer, or the call of the helper that contains it
	var stageAt ssa.Instruction
	for _, rf := range recvRegion(fn) {
		for _, c := range allCalls(rf.fn) {
			call, ok := c.(*ssa.Call)
			if !ok {
				continue
			}
			if bi, ok := call.Common().Value.(*ssa.Builtin); ok && bi.Name() == "copy" {
				if sl, ok := call.Common().Args[1].(*ssa.Slice); ok && sl.High != nil && sl.Low == nil {
					if _, sel := accessPath(sl.X); strings.HasSuffix(sel, ".input") {
						if rf.fn == fn {
							stageAt = call
						} else {
							for _, c2 := range allCalls(fn) {
								if c2.Common().StaticCallee() == rf.fn {
									stageAt = c2
								}
							}
						}
					}
				}
			}
		}
	}
	if stageAt == nil {
		r.Undecided("R04.12", shortFn(fn)+"|staging", p.Pos(fn.Pos()), "readHeader stages input behind the bytes kept from earlier calls", "not found")
		return
	}
	n := 0
	for _, b := range fn.Blocks {
		for _, in := range b.Instrs {
			st, ok := in.(*ssa.Store)
			if !ok {
				continue
			}
			if _, sel := accessPath(st.Addr); !strings.HasSuffix(sel, ".input") {
				continue
			}
			sl, ok := st.Val.(*ssa.Slice)
			if !ok || sl.Low == nil || sl.High != nil {
				continue
			}
			if _, sel := accessPath(sl.X); strings.HasSuffix(sel, ".headerBuffer") {
				continue
			}
			if reach, _, _ := (PathQuery{Start: stageAt, Target: func(x ssa.Instruction) bool { return x == ssa.Instruction(st) }}).Find(fn); !reach {
				continue
			}
			n++
			same := false
			for _, f1 := range dominatingFacts(stageAt) {
				for _, f2 := range dominatingFacts(st) {
					if f1.Op != f2.Op || f1.X != f2.X {
						continue
					}
					if f1.Y == f2.Y {
						same = true
					} else if k1, ok1 := constInt(f1.Y); ok1 {
						if k2, ok2 := constInt(f2.Y); ok2 && k1 == k2 {
							same = true
						}
					}
				}
			}
			why := ""
			if !same {
				why = "the re-slice is not guarded by a test of the same value as the staging (a phase re-read after the parse has already been changed by it)"
			}
			r.Check(same, "R04.12", shortFn(fn)+"|un-staging under the staging's condition", p.InstrPos(st), "the real input is re-sliced under the same test, on the same value, that decided the staging", why)
		}
	}
	if n == 0 {
		r.Undecided("R04.12", shortFn(fn)+"|re-slice", p.Pos(fn.Pos()), "readHeader re-slices the real input after a staged header", "not found")
	}
}

func ruleR04_13(p *Program, r *Report) {
	id := "R04.13"
	if r.Prop == "C18" {
		id = "R18.18"
	}
	r.Expect(id, 3)
	fn := p.Method(flateRel, "inflate", "readHeader")
	lit := p.Method(flateRel, "inflate", "decodeLiteralBlock")
	loop := p.Func(flateRel, "decodeHuffmanLargeLoop")
	inf := p.Named(flateRel, "inflate")
	if fn == nil || lit == nil || loop == nil || inf == nil {
		r.Undecided(id, "anchors", "-", "readHeader, decodeLiteralBlock, decodeHuffmanLargeLoop and the inflate type exist", "not found")
		return
	}
	isPhaseLoad := func(v ssa.Value) bool {
		ld, ok := v.(*ssa.UnOp)
		if !ok || ld.Op != token.MUL {
			return false
		}
		fa, ok := ld.X.(*ssa.FieldAddr)
		return ok && derefNamed(fa.X.Type()) == inf && derefStruct(fa.X.Type()).Field(fa.Field).Name() == "phase"
	}
	allowed := map[int64]string{}
	// the dispatcher's arm for the stored-block copier
	for _, g := range p.Funcs() {
		for _, c := range allCalls(g) {
			if c.Common().StaticCallee() != lit || g == lit {
				continue
			}
			for _, f := range dominatingFacts(c) {
				if f.Y == nil || f.Op != token.EQL {
					continue
				}
				if k, ok := constInt(f.Y); ok && isPhaseLoad(f.X) {
					allowed[k] = "the dispatcher's stored-block arm"
				}
			}
		}
	}
	// the phase the Go Huffman loop runs under
	for _, b := range loop.Blocks {
		if len(b.Instrs) == 0 {
			continue
		}
		if iff, ok := b.Instrs[len(b.Instrs)-1].(*ssa.If); ok && isLoopHeader(b) {
			if bo, ok := iff.Cond.(*ssa.BinOp); ok && bo.Op == token.EQL && isPhaseLoad(bo.X) {
				if k, ok := constInt(bo.Y); ok {
					allowed[k] = "the guard of the Go Huffman loop"
				}
			}
		}
	}
	// the staging phase: the constant stored on the end-of-input edge of readHeader (directly or in its helper)
	for _, b := range fn.Blocks {
		for _, s := range b.Succs {
			br, ok := edgeCond(b, s)
			if !ok {
				continue
			}
			f, ok := branchFact(br)
			if !ok || f.Y == nil || f.Op != token.EQL {
				continue
			}
			isEOI := false
			for _, v := range []ssa.Value{f.X, f.Y} {
				if g := globalLoad(v); g != nil && g.Name() == "errEndInput" {
					isEOI = true
				}
			}
			if !isEOI {
				continue
			}
			instrs := append([]ssa.Instruction{}, s.Instrs...)
			for _, in := range s.Instrs {
				if c, ok := in.(*ssa.Call); ok {
					if h := c.Common().StaticCallee(); h != nil && h.Blocks != nil && h.Pkg == fn.Pkg && len(c.Common().Args) > 0 && c.Common().Args[0] == ssa.Value(fn.Params[0]) {
						for _, hb := range h.Blocks {
							instrs = append(instrs, hb.Instrs...)
						}
					}
				}
			}
			for _, in := range instrs {
				if st, ok := in.(*ssa.Store); ok {
					if _, sel := accessPath(st.Addr); sel == ".phase" {
						if k, ok := constInt(st.Val); ok {
							allowed[k] = "the staging phase of the end-of-input edge"
						}
					}
				}
			}
		}
	}
	if len(allowed) < 3 {
		r.Undecided(id, shortFn(fn)+"|dispatcher arms", p.Pos(fn.Pos()), "the stored-block arm, the Huffman loop guard and the staging phase are found", itoa(len(allowed))+" of 3 found")
		return
	}
	n := 0
	lab := newLabeler()
	for _, rf := range recvRegion(fn) {
		for _, b := range rf.fn.Blocks {
			for _, in := range b.Instrs {
				st, ok := in.(*ssa.Store)
				if !ok {
					continue
				}
				fa, ok := st.Addr.(*ssa.FieldAddr)
				if !ok || derefNamed(fa.X.Type()) != inf || derefStruct(fa.X.Type()).Field(fa.Field).Name() != "phase" {
					continue
				}
				n++
				k, isK := constInt(st.Val)
				_, okK := allowed[k]
				why := ""
				if !isK {
					why = "the header parser stores a computed value into phase"
				} else if !okK {
					why = "the header parser stores phase " + itoa(int(k)) + ", for which the dispatcher has no arm of its own: it would run the Huffman decoder, whose assembly loop does not test the phase"
				}
				r.Check(why == "", id, shortFn(rf.fn)+"|"+lab.get("phase store"), p.InstrPos(st), "the header parser leaves a phase the dispatcher has an arm for ("+allowed[k]+")", why)
			}
		}
	}
	if n == 0 {
		r.Undecided(id, shortFn(fn)+"|phase stores", p.Pos(fn.Pos()), "the header parser stores the next phase", "no store found")
	}
}

func init() {
	extend("C18", Rule{ID: "R18.19", Configs: "asm", Run: ruleR18_19},
		"(R18.19) in the assembly decode loop a conditional jump to the end-of-input exit that follows a comparison involving the bit counter is taken when the counter is the smaller operand (fewer bits buffered than the code needs), never the other way round.")
}

// ---------- R03.14: a partial Kraft sum is accepted only together with a second condition ----------

func init() {
	extend("C03", Rule{ID: "R03.14", Configs: "all", Run: ruleR03_14},
		"(R03.14) wherever a code-space (Kraft) sum is compared for equality with a constant other than the whole code space and zero (the degenerate 'single code of length 1' case, which takes exactly half of the space), the equal edge leads to a further test on a value that is not the sum (the number of 1-bit codes): half of the code space is also what two 2-bit codes take, and such an incomplete code is what compress/flate rejects.")
}

func ruleR03_14(p *Program, r *Report) {
	r.Expect("R03.14", 1)
	sp := p.Pkg(flateRel)
	whole := int64(1) << 15
	n := 0
	lab := newLabeler()
	for _, fn := range p.Funcs() {
		if fn.Pkg != sp {
			continue
		}
		// the Kraft sums of this function: values compared with the whole code space
		sums := map[ssa.Value]bool{}
		for _, b := range fn.Blocks {
			for _, in := range b.Instrs {
				bo, ok := in.(*ssa.BinOp)
				if !ok {
					continue
				}
				switch bo.Op {
				case token.GTR, token.GEQ, token.LSS, token.LEQ, token.EQL, token.NEQ:
				default:
					continue
				}
				if k, isK := constInt(bo.Y); isK && k == whole {
					sums[stripConv(bo.X)] = true
				} else if k, isK := constInt(bo.X); isK && k == whole {
					sums[stripConv(bo.Y)] = true
				}
			}
		}
		if len(sums) == 0 {
			continue
		}
		dependsOnSum := func(v ssa.Value) bool {
			seen := map[ssa.Value]bool{}
			var dep func(v ssa.Value, d int) bool
			dep = func(v ssa.Value, d int) bool {
				if v == nil || seen[v] || d > 8 {
					return false
				}
				seen[v] = true
				if sums[stripConv(v)] {
					return true
				}
				if in, ok := v.(ssa.Instruction); ok {
					for _, op := range in.Operands(nil) {
						if *op != nil && dep(*op, d+1) {
							return true
						}
					}
				}
				return false
			}
			return dep(v, 0)
		}
		for _, b := range fn.Blocks {
			if len(b.Instrs) == 0 {
				continue
			}
			iff, ok := b.Instrs[len(b.Instrs)-1].(*ssa.If)
			if !ok {
				continue
			}
			bo, ok := iff.Cond.(*ssa.BinOp)
			if !ok || (bo.Op != token.EQL && bo.Op != token.NEQ) {
				continue
			}
			var k int64
			var isK bool
			var x ssa.Value
			if k, isK = constInt(bo.Y); isK {
				x = bo.X
			} else if k, isK = constInt(bo.X); isK {
				x = bo.Y
			}
			if !isK || !sums[stripConv(x)] || k == 0 || k == whole {
				continue
			}
			n++
			eq := b.Succs[0]
			if bo.Op == token.NEQ {
				eq = b.Succs[1]
			}
			further := false
			if len(eq.Instrs) > 0 && len(eq.Preds) == 1 {
				if if2, ok := eq.Instrs[len(eq.Instrs)-1].(*ssa.If); ok && !dependsOnSum(if2.Cond) {
					further = true
				}
				// the last operand of a && chain is a value, not a branch: a comparison computed on the equal edge
				for _, in := range eq.Instrs {
					if c2, ok := in.(*ssa.BinOp); ok && isBoolType(c2.Type()) && !dependsOnSum(c2) {
						further = true
					}
				}
			}
			why := ""
			if !further {
				why = "a code-space sum of " + itoa(int(k)) + " (not the whole space) is accepted without a further test: every incomplete set of lengths with that sum passes, not only the single 1-bit code"
			}
			r.Check(further, "R03.14", shortFn(fn)+"|"+lab.get("partial sum "+itoa(int(k))), p.InstrPos(iff), "a partial code-space sum is accepted only together with a test on the number of codes", why)
		}
	}
	// the same comparison used as a value (the last operand of an || / && chain, or returned directly)
	for _, fn := range p.Funcs() {
		if fn.Pkg != sp {
			continue
		}
		sums := map[ssa.Value]bool{}
		for _, b := range fn.Blocks {
			for _, in := range b.Instrs {
				if bo, ok := in.(*ssa.BinOp); ok {
					switch bo.Op {
					case token.GTR, token.GEQ, token.LSS, token.LEQ, token.EQL, token.NEQ:
						if k, isK := constInt(bo.Y); isK && k == whole {
							sums[stripConv(bo.X)] = true
						} else if k, isK := constInt(bo.X); isK && k == whole {
							sums[stripConv(bo.Y)] = true
						}
					}
				}
			}
		}
		if len(sums) == 0 {
			continue
		}
		for _, b := range fn.Blocks {
			for _, in := range b.Instrs {
				bo, ok := in.(*ssa.BinOp)
				if !ok || bo.Op != token.EQL {
					continue
				}
				usedAsCond := false
				if refs := bo.Referrers(); refs != nil {
					for _, u := range *refs {
						if _, isIf := u.(*ssa.If); isIf {
							usedAsCond = true
						}
					}
				}
				if usedAsCond {
					continue
				}
				var k int64
				var isK bool
				var x ssa.Value
				if k, isK = constInt(bo.Y); isK {
					x = bo.X
				} else if k, isK = constInt(bo.X); isK {
					x = bo.Y
				}
				if !isK || !sums[stripConv(x)] || k == 0 || k == whole {
					continue
				}
				n++
				guarded := false
				for _, f := range dominatingFacts(bo) {
					onSum := sums[stripConv(f.X)] || (f.Y != nil && sums[stripConv(f.Y)])
					if !onSum {
						guarded = true
					}
				}
				why := ""
				if !guarded {
					why = "a code-space sum of " + itoa(int(k)) + " (not the whole space) is accepted on its own: every incomplete set of lengths with that sum passes, not only the single 1-bit code"
				}
				r.Check(guarded, "R03.14", shortFn(fn)+"|"+lab.get("partial sum "+itoa(int(k))), p.InstrPos(bo), "a partial code-space sum is accepted only together with a test on the number of codes", why)
			}
		}
	}
	if n == 0 {
		r.OK("R03.14", "census", "-", "no equality test of a code-space sum with a partial value (only complete or empty codes are accepted)")
	}
}

// ---------- R05.8 / R03.15: on the corrupt-input path the give-back is computed from a non-negative bit count ----------

func init() {
	const text = "in the inflater's step, every give-back (Discard) from which the construction of a CorruptInputError is reachable - the path taken when the decoder reported malformed input, possibly after reading past what it had - is preceded on all paths from the decoder call by a clamp of the bit count (a test bitsLen < 0 whose true edge stores 0): a negative count makes the give-back one byte too large and the source's io.EOF replaces the corrupt-input verdict."
	extend("C05", Rule{ID: "R05.8", Configs: "all", Run: ruleR05_8}, "(R05.8) "+text)
	extend("C03", Rule{ID: "R03.15", Configs: "all", Run: ruleR05_8}, "(R03.15) = R05.8.")
}

func ruleR05_8(p *Program, r *Report) {
	id := "R05.8"
	if r.Prop == "C03" {
		id = "R03.15"
	}
	r.Expect(id, 1)
	fn := p.Method(flateRel, "decompressor", "step")
	dec := p.Method(flateRel, "decompressor", "decomperss")
	if fn == nil || dec == nil {
		r.Undecided(id, "anchors", "-", "decompressor.step and the decoder it calls exist", "not found")
		return
	}
	isDiscard := func(in ssa.Instruction) bool {
		c, ok := in.(ssa.CallInstruction)
		if !ok {
			return false
		}
		f := c.Common().StaticCallee()
		return f != nil && isMethodOf(f, "bufio", "Reader", "Discard")
	}
	isClamp := func(in ssa.Instruction) bool {
		iff, ok := in.(*ssa.If)
		if !ok {
			return false
		}
		bo, ok := iff.Cond.(*ssa.BinOp)
		if !ok {
			return false
		}
		neg := func(x, y ssa.Value, op token.Token) bool {
			_, sel, isL := fieldLoad(stripConv(x))
			k, isK := constInt(y)
			if !isL || !strings.HasSuffix(sel, ".bitsLen") || !isK {
				return false
			}
			return (op == token.LSS && k == 0) || (op == token.LEQ && k == -1)
		}
		okCond := neg(bo.X, bo.Y, bo.Op)
		if !okCond {
			switch bo.Op {
			case token.GTR:
				okCond = neg(bo.Y, bo.X, token.LSS)
			case token.GEQ:
				okCond = neg(bo.Y, bo.X, token.LEQ)
			}
		}
		if !okCond {
			return false
		}
		for _, in2 := range iff.Block().Succs[0].Instrs {
			if st, ok := in2.(*ssa.Store); ok {
				if _, sel := accessPath(st.Addr); strings.HasSuffix(sel, ".bitsLen") {
					if k, isK := constInt(st.Val); isK && k == 0 {
						return true
					}
				}
			}
		}
		return false
	}
	// the decoder call and the corrupt-input construction in step
	var decCall, corrupt ssa.Instruction
	for _, b := range fn.Blocks {
		for _, in := range b.Instrs {
			if c, ok := in.(ssa.CallInstruction); ok && c.Common().StaticCallee() == dec {
				decCall = in
			}
			if v, ok := in.(ssa.Value); ok {
				var t types.Type
				switch x := in.(type) {
				case *ssa.Convert:
					t = x.Type()
				case *ssa.ChangeType:
					t = x.Type()
				case *ssa.MakeInterface:
					t = x.X.Type()
				}
				_ = v
				if t != nil && strings.HasSuffix(typeString(t), "CorruptInputError") {
					corrupt = in
				}
			}
		}
	}
	if decCall == nil || corrupt == nil {
		r.Undecided(id, shortFn(fn)+"|anchors", p.Pos(fn.Pos()), "step calls the decoder and constructs a CorruptInputError", "not found")
		return
	}
	n := 0
	lab := newLabeler()
	for _, b := range fn.Blocks {
		for _, in := range b.Instrs {
			site := false
			var helper *ssa.Function
			if isDiscard(in) {
				site = true
			} else if c, ok := in.(ssa.CallInstruction); ok {
				if h := c.Common().StaticCallee(); h != nil && h.Blocks != nil && h.Pkg == fn.Pkg && h != dec && len(c.Common().Args) > 0 && c.Common().Args[0] == ssa.Value(fn.Params[0]) {
					for _, hc := range allCalls(h) {
						if isDiscard(hc) {
							site, helper = true, h
						}
					}
				}
			}
			if !site {
				continue
			}
			if onErr, _, _ := (PathQuery{Start: in, Target: func(x ssa.Instruction) bool { return x == corrupt }}).Find(fn); !onErr {
				continue
			}
			n++
			open, _, _ := PathQuery{Start: decCall, Target: func(x ssa.Instruction) bool { return x == in }, Barrier: isClamp}.Find(fn)
			if open && helper != nil {
				// the clamp may sit in the helper, in front of its Discard
				inner := false
				for _, hc := range allCalls(helper) {
					if isDiscard(hc) {
						if o2, _, _ := (PathQuery{Target: func(x ssa.Instruction) bool { return x == ssa.Instruction(hc) }, Barrier: isClamp}).Find(helper); o2 {
							inner = true
						}
					}
				}
				open = inner
			}
			why := ""
			if open {
				why = "the give-back at this site is reachable from the decoder call without passing a clamp of a negative bit count, and a CorruptInputError is constructed afterwards: after a parser that read past its input the give-back is one byte too large"
			}
			r.Check(!open, id, shortFn(fn)+"|"+lab.get("give-back on the corrupt-input path"), p.InstrPos(in), "on the corrupt-input path the give-back is computed after the bit count has been clamped at zero", why)
		}
	}
	if n == 0 {
		r.Undecided(id, shortFn(fn)+"|sites", p.Pos(fn.Pos()), "a give-back lies on the corrupt-input path of step", "none found")
	}
}

// ---------- R02.18: a skipped copy of the fixed tables is coherent with every other writer of the tables ----------

func init() {
	extend("C02", Rule{ID: "R02.18", Configs: "all", Run: ruleR02_18},
		"(R02.18) the set-up of a fixed-Huffman block installs both lookup tables on every path, or - if a path skips the copy - the skip is decided by receiver fields each of which is stored by every other function that writes the tables without going through this set-up (the dynamic set-up): a 'tables already hold the fixed code' flag that the dynamic set-up does not clear makes a fixed block after a dynamic one decode with the wrong tables.")
	extend("C07", Rule{ID: "R07.5", Configs: "all", Run: ruleR02_18}, "(R07.5) = R02.18.")
}

func ruleR02_18(p *Program, r *Report) {
	id := "R02.18"
	if r.Prop == "C07" {
		id = "R07.5"
	}
	r.Expect(id, 2)
	fn := p.Method(flateRel, "inflate", "setupStaticHeader")
	inf := p.Named(flateRel, "inflate")
	if fn == nil || inf == nil {
		r.Undecided(id, "anchors", "-", "inflate.setupStaticHeader exists", "not found")
		return
	}
	recv := fn.Params[0]
	// the table fields: receiver fields stored in fn from package-level variables
	tables := map[string]bool{}
	for _, b := range fn.Blocks {
		for _, in := range b.Instrs {
			st, ok := in.(*ssa.Store)
			if !ok {
				continue
			}
			root, sel := accessPath(st.Addr)
			if root != ssa.Value(recv) || sel == "" {
				continue
			}
			// the value is a package-level table or a part of one
			fromGlobal := false
			if ld, ok := st.Val.(*ssa.UnOp); ok && ld.Op == token.MUL {
				if gr, _ := accessPath(ld.X); gr != nil {
					if _, isG := gr.(*ssa.Global); isG {
						fromGlobal = true
					}
				}
			}
			if fromGlobal && isAggregate(st.Val.Type()) {
				tables["."+strings.SplitN(strings.TrimPrefix(sel, "."), ".", 2)[0]] = true
			}
		}
	}
	if len(tables) < 2 {
		r.Undecided(id, shortFn(fn)+"|tables", p.Pos(fn.Pos()), "the fixed-block set-up copies the two precomputed tables into the decoder", itoa(len(tables))+" table stores from package variables found")
		return
	}
	callsFn := map[*ssa.Function]bool{}
	var reaches func(g *ssa.Function, d int) bool
	reaches = func(g *ssa.Function, d int) bool {
		if v, ok := callsFn[g]; ok {
			return v
		}
		callsFn[g] = false
		if d > 6 {
			return false
		}
		for _, c := range allCalls(g) {
			cs, _ := p.Callees(c)
			for _, h := range cs {
				if h == fn || reaches(h, d+1) {
					callsFn[g] = true
					return true
				}
			}
		}
		return false
	}
	eff := p.Effects()
	for _, tsel := range sortedKeys(tables) {
		key := shortFn(fn) + "|" + tsel
		isTableStore := func(in ssa.Instruction) bool {
			st, ok := in.(*ssa.Store)
			if !ok {
				return false
			}
			root, sel := accessPath(st.Addr)
			return root == ssa.Value(recv) && (sel == tsel || strings.HasPrefix(sel, tsel+"."))
		}
		skip, _, _ := PathQuery{Target: func(x ssa.Instruction) bool { _, ok := x.(*ssa.Return); return ok }, Barrier: isTableStore}.Find(fn)
		if !skip {
			r.OK(id, key, p.Pos(fn.Pos()), "the fixed table "+tsel+" is installed on every path of the fixed-block set-up")
			continue
		}
		// the receiver fields the skip is decided on
		guards := map[string]bool{}
		for _, b := range fn.Blocks {
			if len(b.Instrs) == 0 {
				continue
			}
			if iff, ok := b.Instrs[len(b.Instrs)-1].(*ssa.If); ok {
				var walk func(v ssa.Value, d int)
				walk = func(v ssa.Value, d int) {
					if d > 4 || v == nil {
						return
					}
					if root, sel, ok := fieldLoad(v); ok && root == ssa.Value(recv) {
						guards[sel] = true
						return
					}
					if in, ok := v.(ssa.Instruction); ok {
						for _, op := range in.Operands(nil) {
							if *op != nil {
								walk(*op, d+1)
							}
						}
					}
				}
				walk(iff.Cond, 0)
			}
		}
		why := ""
		if len(guards) == 0 {
			why = "a path skips the copy of " + tsel + " and the skip is not decided by a field of the decoder"
		}
		for _, g := range sortedKeys(guards) {
			for _, w := range p.Funcs() {
				if w == fn || w.Pkg != fn.Pkg || reaches(w, 0) {
					continue
				}
				writes := false
				for i, prm := range w.Params {
					if derefNamed(prm.Type()) != inf {
						continue
					}
					for _, sel := range eff.ParamWrites(w, i) {
						if sel == tsel || strings.HasPrefix(sel, tsel+".") || strings.HasPrefix(sel, tsel+"[") {
							writes = true
						}
					}
					if !writes {
						continue
					}
					stores := false
					for _, b := range w.Blocks {
						for _, in := range b.Instrs {
							if st, ok := in.(*ssa.Store); ok {
								if root, sel := accessPath(st.Addr); root == ssa.Value(prm) && sel == g {
									stores = true
								}
							}
						}
					}
					if !stores && why == "" {
						why = "the copy of " + tsel + " is skipped when " + g + " says so, but " + shortFn(w) + " rewrites the table and never stores " + g + ": a fixed block after it is decoded with that function's tables"
					}
				}
			}
		}
		r.Check(why == "", id, key, p.Pos(fn.Pos()), "a skipped copy of "+tsel+" is decided by fields that every other writer of the table updates", why)
	}
}

// ---------- R09.4: state changes in Accumulate are decided on what Accumulate itself does not advance ----------

func init() {
	extend("C09", Rule{ID: "R09.4", Configs: "all", Run: ruleR09_4},
		"(R09.4) in every Accumulate, a branch whose taken side changes the compressor's state (the window slide: stores to receiver fields) is decided only on receiver fields that Accumulate does not store outside that side; the fill cursor, which advances with every call, is what it looks like at call boundaries - a slide decided on it happens at different stream positions for different Write partitions.")
}

func ruleR09_4(p *Program, r *Report) {
	r.Expect("R09.4", 1)
	n := 0
	for _, tr := range p.CompressorTypes() {
		top := tr.Ops["Accumulate"]
		if top == nil {
			continue
		}
		// Accumulate itself, and the helpers it calls on its receiver (a slideWindow() step): in a helper the fields
		// "stored outside the branch" include what Accumulate stores around the call
		type unit struct {
			fn   *ssa.Function
			call ssa.CallInstruction
		}
		units := []unit{{top, nil}}
		for _, c := range allCalls(top) {
			if h := c.Common().StaticCallee(); h != nil && h.Blocks != nil && h.Pkg == top.Pkg && h.Signature.Recv() != nil && len(c.Common().Args) > 0 && c.Common().Args[0] == ssa.Value(top.Params[0]) {
				units = append(units, unit{h, c})
			}
		}
		for _, u := range units {
			fn := u.fn
			recv := fn.Params[0]
			outer := map[string]bool{}
			if u.call != nil {
				for _, b2 := range top.Blocks {
					for _, in := range b2.Instrs {
						if in == ssa.Instruction(u.call) {
							continue
						}
						if st, ok := in.(*ssa.Store); ok {
							if root, sel := accessPath(st.Addr); root == ssa.Value(top.Params[0]) && sel != "" {
								outer[strings.SplitN(strings.TrimPrefix(sel, "."), ".", 2)[0]] = true
							}
						}
						if c, ok := in.(ssa.CallInstruction); ok {
							if h := c.Common().StaticCallee(); h != nil && h.Blocks != nil && h.Pkg == top.Pkg && len(c.Common().Args) > 0 && c.Common().Args[0] == ssa.Value(top.Params[0]) {
								for _, sel := range p.Effects().ParamWrites(h, 0) {
									seg := strings.SplitN(strings.TrimPrefix(sel, "."), ".", 2)[0]
									if i := strings.IndexAny(seg, "[^~"); i >= 0 {
										seg = seg[:i]
									}
									if seg != "" {
										outer[seg] = true
									}
								}
							}
						}
					}
				}
			}
			fieldOfStore := func(in ssa.Instruction) string {
				st, ok := in.(*ssa.Store)
				if !ok {
					return ""
				}
				root, sel := accessPath(st.Addr)
				if root != ssa.Value(recv) || sel == "" {
					return ""
				}
				return strings.SplitN(strings.TrimPrefix(sel, "."), ".", 2)[0]
			}
			lab := newLabeler()
			for _, b := range fn.Blocks {
				if len(b.Instrs) == 0 {
					continue
				}
				iff, ok := b.Instrs[len(b.Instrs)-1].(*ssa.If)
				if !ok {
					continue
				}
				// fields the condition reads (through the && / || chain leading to this branch as well)
				reads := map[string]bool{}
				var walk func(v ssa.Value, d int)
				walk = func(v ssa.Value, d int) {
					if d > 6 || v == nil {
						return
					}
					if root, sel, ok := fieldLoad(v); ok && root == ssa.Value(recv) {
						reads[strings.SplitN(strings.TrimPrefix(sel, "."), ".", 2)[0]] = true
						return
					}
					if in, ok := v.(ssa.Instruction); ok {
						for _, op := range in.Operands(nil) {
							if *op != nil {
								walk(*op, d+1)
							}
						}
					}
				}
				walk(iff.Cond, 0)
				for _, f := range dominatingFacts(iff) {
					walk(f.X, 0)
					if f.Y != nil {
						walk(f.Y, 0)
					}
				}
				for si, side := range b.Succs {
					if len(side.Preds) != 1 {
						continue
					}
					inSide := func(x *ssa.BasicBlock) bool { return side.Dominates(x) }
					storedIn, storedOut := map[string]bool{}, map[string]bool{}
					for f := range outer {
						storedOut[f] = true
					}
					for _, b2 := range fn.Blocks {
						for _, in := range b2.Instrs {
							var fs []string
							if f := fieldOfStore(in); f != "" {
								fs = append(fs, f)
							}
							// a helper called on the same receiver stores what its effect summary says
							if c, ok := in.(ssa.CallInstruction); ok {
								if h := c.Common().StaticCallee(); h != nil && h.Blocks != nil && h.Pkg == fn.Pkg && len(c.Common().Args) > 0 && c.Common().Args[0] == ssa.Value(recv) {
									for _, sel := range p.Effects().ParamWrites(h, 0) {
										if seg := strings.SplitN(strings.TrimPrefix(sel, "."), ".", 2)[0]; seg != "" && !strings.ContainsAny(seg, "[^~") {
											fs = append(fs, seg)
										} else if i := strings.IndexAny(seg, "[^~"); i > 0 {
											fs = append(fs, seg[:i])
										}
									}
								}
							}
							for _, f := range fs {
								if inSide(b2) {
									storedIn[f] = true
								} else {
									storedOut[f] = true
								}
							}
						}
					}
					if len(storedIn) == 0 {
						continue // this side changes nothing (an early return, the buffer-full report)
					}
					n++
					var clash []string
					for f := range reads {
						if storedOut[f] {
							clash = append(clash, f)
						}
					}
					sort.Strings(clash)
					why := ""
					if len(clash) > 0 {
						why = "the branch that changes ." + strings.Join(sortedKeys(storedIn), ", .") + " is decided on ." + strings.Join(clash, ", .") + ", which Accumulate advances on every call: the change happens at a stream position that depends on how the data was split over Write calls"
					}
					_ = si
					r.Check(why == "", "R09.4", shortFn(fn)+"|"+lab.get("state change"), p.InstrPos(iff), "a state change in Accumulate is decided on fields that do not move with the Write partition (reads ."+strings.Join(sortedKeys(reads), ", .")+")", why)
				}
			}
		}
	}
	if n == 0 {
		r.Undecided("R09.4", "sites", "-", "some Accumulate has a guarded state change (the window slide)", "none found")
	}
}

// ---------- R14.8: the operation in progress reports the destination's failure ----------

func init() {
	extend("C14", Rule{ID: "R14.8", Configs: "all", Run: ruleR14_8},
		"(R14.8) in Write, Flush and Close of every Writer, on the paths on which a destination call has failed (edges contradicting 'its error is non-nil' pruned) every return carries that error, the sticky field, or a value that cannot be nil: a failure that is recorded but answered with a nil error (a shadowed result variable, a break out of the loop) makes the caller believe the bytes were accepted.")
}

func ruleR14_8(p *Program, r *Report) {
	r.Expect("R14.8", 8)
	n := 0
	for _, tr := range p.WriterTypes() {
		// the three operations, and every other method of the Writer type that reaches the destination and reports an
		// error (writeHeader, writeBytes ...)
		var fns []*ssa.Function
		seenFn := map[*ssa.Function]bool{}
		for _, opn := range []string{"Write", "Flush", "Close"} {
			if fn := tr.Ops[opn]; fn != nil && !seenFn[fn] {
				seenFn[fn] = true
				fns = append(fns, fn)
			}
		}
		for _, g := range p.Funcs() {
			if seenFn[g] || g.Signature.Recv() == nil || derefNamed(g.Signature.Recv().Type()) != tr.Named || !p.DstSet()[g] {
				continue
			}
			res := g.Signature.Results()
			if res.Len() == 0 || !isErrorType(res.At(res.Len()-1).Type()) {
				continue
			}
			seenFn[g] = true
			fns = append(fns, g)
		}
		for _, fn := range fns {
			recv := fn.Params[0]
			lab := newLabeler()
			for _, c := range allCalls(fn) {
				if ok, _ := p.isDstCall(c); !ok {
					continue
				}
				if _, has := hasErrorResult(c); !has {
					continue
				}
				n++
				key := shortFn(fn) + "|" + lab.get(calleeLabel(c))
				tk := NewErrTrack(p, fn, c, KindNonNil, tr)
				var bad *ssa.Return
				for _, b := range fn.Blocks {
					for _, in := range b.Instrs {
						ret, ok := in.(*ssa.Return)
						if !ok || !tk.inReach(ret) {
							continue
						}
						e := returnErr(ret)
						if e == nil {
							continue
						}
						if tk.Carriers[e] || (tr.Sticky != "" && isStickyLoad(e, recv, tr.Sticky)) || !p.mayBeNil(fn, e, ret) {
							continue
						}
						// a phi: every incoming value on a failure path is judged
						okPhi := false
						if phi, isPhi := e.(*ssa.Phi); isPhi {
							okPhi = true
							for i, ed := range phi.Edges {
								pred := phi.Block().Preds[i]
								if len(pred.Instrs) == 0 || !tk.inReach(pred.Instrs[len(pred.Instrs)-1]) {
									continue
								}
								if !(tk.Carriers[ed] || (tr.Sticky != "" && isStickyLoad(ed, recv, tr.Sticky)) || !isNil(ed) && !p.mayBeNil(fn, ed, pred.Instrs[len(pred.Instrs)-1])) {
									okPhi = false
								}
							}
						}
						if !okPhi {
							bad = ret
						}
					}
				}
				why := ""
				if bad != nil {
					why = "after this call has failed, the return at " + p.InstrPos(bad) + " can answer with a nil error"
				}
				r.Check(bad == nil, "R14.8", key, p.InstrPos(c), "when this destination call fails, the operation returns a non-nil error", why)
			}
		}
	}
	if n == 0 {
		r.Undecided("R14.8", "sites", "-", "Writer operations call the destination", "none found")
	}
}

// ---------- R19.6: the small-window constructor hands no matching level to a large-window encoder ----------

func init() {
	extend("C19", Rule{ID: "R19.6", Configs: "all", Run: ruleR19_6},
		"(R19.6) in the 4 KiB-window constructor, a call that builds anything other than the 4 KiB compressor - the ordinary constructor, compress/flate's NewWriter - is reachable only for levels that emit no back-references (NoCompression, HuffmanOnly): the level values under which each such call can execute are enumerated from the dominating comparisons of the level (parameter or its DefaultCompression-mapped value) with constants, for every level in [-2, 9]; a range test such as level <= NoCompression also lets DefaultCompression (-1) through.")
}

func ruleR19_6(p *Program, r *Report) {
	r.Expect("R19.6", 1)
	var ctor *ssa.Function
	for _, fn := range p.Funcs() {
		if fn.Pkg == p.Pkg(deflRel) && strings.Contains(fn.Name(), "4KWindow") && fn.Signature.Recv() == nil {
			ctor = fn
		}
	}
	nd := p.Func(deflRel, "NewDynCompressor")
	noComp, ok1 := constOf(p, deflRel, "NoCompression")
	huff, ok2 := constOf(p, deflRel, "HuffmanOnly")
	if ctor == nil || nd == nil || !ok1 || !ok2 {
		r.Undecided("R19.6", "anchors", "-", "the 4 KiB-window constructor, NewDynCompressor and the level constants exist", "not found")
		return
	}
	var level *ssa.Parameter
	for _, prm := range ctor.Params {
		if intSize(prm.Type()) > 0 {
			level = prm
		}
	}
	if level == nil {
		r.Undecided("R19.6", shortFn(ctor)+"|level", p.Pos(ctor.Pos()), "the constructor has an integer level parameter", "not found")
		return
	}
	// possible values of an SSA integer expression when the parameter is c
	var vals func(v ssa.Value, c int64, d int) (map[int64]bool, bool)
	vals = func(v ssa.Value, c int64, d int) (map[int64]bool, bool) {
		if d > 4 {
			return nil, false
		}
		v = stripConv(v)
		if v == ssa.Value(level) {
			return map[int64]bool{c: true}, true
		}
		if k, ok := constInt(v); ok {
			return map[int64]bool{k: true}, true
		}
		if phi, ok := v.(*ssa.Phi); ok {
			out := map[int64]bool{}
			for _, e := range phi.Edges {
				s, ok := vals(e, c, d+1)
				if !ok {
					return nil, false
				}
				for k := range s {
					out[k] = true
				}
			}
			return out, true
		}
		return nil, false
	}
	holds := func(f Fact, c int64) bool { // may the fact hold when the parameter is c? (unknown shapes: yes)
		if f.Y == nil {
			return true
		}
		xs, okx := vals(f.X, c, 0)
		ys, oky := vals(f.Y, c, 0)
		if !okx || !oky {
			return true
		}
		for x := range xs {
			for y := range ys {
				var t bool
				switch f.Op {
				case token.EQL:
					t = x == y
				case token.NEQ:
					t = x != y
				case token.LSS:
					t = x < y
				case token.LEQ:
					t = x <= y
				case token.GTR:
					t = x > y
				case token.GEQ:
					t = x >= y
				default:
					t = true
				}
				if t {
					return true
				}
			}
		}
		return false
	}
	n := 0
	lab := newLabeler()
	for _, c := range allCalls(ctor) {
		f := c.Common().StaticCallee()
		if f == nil || f == nd {
			continue
		}
		other := false
		if f.Pkg != nil && f.Pkg == ctor.Pkg && strings.HasPrefix(f.Name(), "NewWriter") {
			other = true // the ordinary constructor (32 KiB)
		}
		if isFunc(f, stdFlate, "NewWriter") || isFunc(f, stdFlate, "NewWriterDict") {
			other = true
		}
		if !other {
			continue
		}
		n++
		var leak []string
		facts := dominatingFacts(c)
		for lv := int64(-2); lv <= 9; lv++ {
			if lv == noComp || lv == huff {
				continue
			}
			reach := true
			for _, fc := range facts {
				if !holds(fc, lv) {
					reach = false
				}
			}
			if reach {
				leak = append(leak, itoa(int(lv)))
			}
		}
		why := ""
		if len(leak) > 0 {
			why = "the call can execute for level " + strings.Join(leak, ", ") + ": a level that searches for matches gets an encoder whose window is not 4 KiB"
		}
		r.Check(len(leak) == 0, "R19.6", shortFn(ctor)+"|"+lab.get(calleeLabel(c)), p.InstrPos(c), "an encoder other than the 4 KiB compressor is built only for NoCompression and HuffmanOnly", why)
	}
	if n == 0 {
		r.OK("R19.6", shortFn(ctor)+"|census", p.Pos(ctor.Pos()), "the 4 KiB-window constructor builds no other encoder")
	}
}

// ---------- R19.7: only the constructors hand a stream to compress/flate's encoder ----------

func init() {
	extend("C19", Rule{ID: "R19.7", Configs: "all", Run: ruleR19_7},
		"(R19.7) compress/flate's own encoder (NewWriter, NewWriterDict), whose window is always 32 KiB, is created only by the package's constructor functions, where the level decides; no method of a compressor creates one - a compressor built for a 4 KiB window that hands part of its input to the standard encoder emits distances beyond its window.")
}

func ruleR19_7(p *Program, r *Report) {
	r.Expect("R19.7", 1)
	n := 0
	lab := newLabeler()
	for _, fn := range p.Funcs() {
		if isExamples(fn) || fn.Pkg == nil || !strings.HasPrefix(fn.Pkg.Pkg.Path(), modPath+"/compress/flate") {
			continue
		}
		for _, c := range allCalls(fn) {
			f := c.Common().StaticCallee()
			if !(isFunc(f, stdFlate, "NewWriter") || isFunc(f, stdFlate, "NewWriterDict")) {
				continue
			}
			n++
			// a constructor function, or a private helper that only constructor functions reach
			ok := true
			for _, e := range p.apiEntries(fn) {
				if !(e.Signature.Recv() == nil && strings.HasPrefix(e.Name(), "New")) {
					ok = false
				}
			}
			why := ""
			if !ok {
				why = shortFn(fn) + " is not a constructor: an encoder with a 32 KiB window is created behind the level and window the writer was built for"
			}
			r.Check(ok, "R19.7", shortFn(fn)+"|"+lab.get(calleeLabel(c)), p.InstrPos(c), "compress/flate's encoder is created by a constructor function", why)
		}
	}
	if n == 0 {
		r.Undecided("R19.7", "sites", "-", "the constructors delegate some levels to compress/flate", "no call of compress/flate.NewWriter found")
	}
}

// ---------- R01.16: the histogram fold and its inverse agree on the specially placed symbol ----------

func init() {
	extend("C01", Rule{ID: "R01.16", Configs: "all", Run: ruleR01_16},
		"(R01.16) reduceCounts and expandCodes are inverse mappings between the raw length slots and the RFC length symbols; every slot that expandCodes fills outside its loops (literalCodes[K] = code of symbol S, K constant) has the mirror statement in reduceCounts (count of symbol S = count of slot K): the length-258 symbol 285 is emitted through slot 512, and a count that is not folded onto it leaves it without a code.")
}

func ruleR01_16(p *Program, r *Report) {
	r.Expect("R01.16", 1)
	red := p.Method(deflRel, "histogram", "reduceCounts")
	exp := p.Method(deflRel, "histogram", "expandCodes")
	if red == nil || exp == nil {
		r.Undecided("R01.16", "anchors", "-", "histogram.reduceCounts and expandCodes exist", "not found")
		return
	}
	// expandCodes: origin is a copy of literalCodes[base:]; a store literalCodes[K] = origin[J]
	base := int64(-1)
	for _, c := range allCalls(exp) {
		if bi, ok := c.Common().Value.(*ssa.Builtin); ok && bi.Name() == "copy" {
			if sl, ok := c.Common().Args[1].(*ssa.Slice); ok && sl.Low != nil {
				if k, isK := constInt(sl.Low); isK {
					if _, sel := accessPath(sl.X); strings.HasSuffix(sel, "literalCodes") {
						base = k
					}
				}
			}
		}
	}
	type pair struct{ slot, sym int64 }
	var special []pair
	var at []ssa.Instruction
	for _, b := range exp.Blocks {
		for _, in := range b.Instrs {
			st, ok := in.(*ssa.Store)
			if !ok {
				continue
			}
			ia, ok := st.Addr.(*ssa.IndexAddr)
			if !ok {
				continue
			}
			if _, sel := accessPath(ia.X); !strings.HasSuffix(sel, "literalCodes") {
				continue
			}
			k, isK := constInt(ia.Index)
			if !isK {
				continue
			}
			// value: load of origin[J]
			ld, ok := st.Val.(*ssa.UnOp)
			if !ok || ld.Op != token.MUL {
				continue
			}
			ja, ok := ld.X.(*ssa.IndexAddr)
			if !ok {
				continue
			}
			if _, isAlloc := ja.X.(*ssa.Alloc); !isAlloc {
				continue
			}
			j, isJ := constInt(ja.Index)
			if isJ && base >= 0 {
				special = append(special, pair{k, base + j})
				at = append(at, st)
			}
		}
	}
	if len(special) == 0 {
		r.Undecided("R01.16", shortFn(exp)+"|special slots", p.Pos(exp.Pos()), "expandCodes places some symbol's code in a constant slot outside its loops", "none found")
		return
	}
	for i, sp := range special {
		found := false
		for _, b := range red.Blocks {
			for _, in := range b.Instrs {
				st, ok := in.(*ssa.Store)
				if !ok {
					continue
				}
				ia, ok := st.Addr.(*ssa.IndexAddr)
				if !ok {
					continue
				}
				k, isK := constInt(ia.Index)
				if !isK || k != sp.sym {
					continue
				}
				for _, leaf := range p.valueSources(st.Val) {
					if ld, ok := leaf.(*ssa.UnOp); ok && ld.Op == token.MUL {
						if ja, ok := ld.X.(*ssa.IndexAddr); ok {
							if j, isJ := constInt(ja.Index); isJ && j == sp.slot {
								found = true
							}
						}
					}
				}
			}
		}
		why := ""
		if !found {
			why = "expandCodes gives slot " + itoa(int(sp.slot)) + " the code of symbol " + itoa(int(sp.sym)) + ", but reduceCounts never folds the count of slot " + itoa(int(sp.slot)) + " onto symbol " + itoa(int(sp.sym)) + ": a block that uses the slot gets a zero-length code for it"
		}
		r.Check(found, "R01.16", shortFn(red)+"|slot "+itoa(int(sp.slot))+" folds onto symbol "+itoa(int(sp.sym)), p.InstrPos(at[i]), "the fold of the raw histogram mirrors the special placement made by expandCodes", why)
	}
}

// ---------- round 14 ----------

func init() {
	extend("C03", Rule{ID: "R03.16", Configs: "all", Run: ruleR03_16},
		"(R03.16) the 'no codes' early exit of a lookup-table builder (a return that no copy-forward of the table reaches) is taken only when the code count is zero: the exit is dominated by an equality of an integer with 0 (or <= 0, < 1), not by a range that also takes a one-code tree - a block whose single distance code is used by its matches would meet an empty table.")
	extend("C02", Rule{ID: "R02.19", Configs: "all", Run: ruleR03_16}, "(R02.19) = R03.16.")
	extend("C15", Rule{ID: "R15.3", Configs: "all", Run: ruleR15_3},
		"(R15.3) in Read of every Reader type, a return of the constants (0, nil) - nothing delivered, no error - is behind the nil edge of the sticky-error test: an empty-buffer fast path in front of that test answers (0, nil) for ever after a failure.")
	extend("C11", Rule{ID: "R11.8", Configs: "all", Run: ruleR11_8},
		"(R11.8) in the inflater's step nothing stores into writePos after the decoder call: what a pass has decoded before the decoder met malformed input or ran out of input is delivered (R11.2 orders the error behind it), never taken back.")
	extend("C08", Rule{ID: "R08.5", Configs: "all", Run: ruleR08_5},
		"(R08.5) the stored-block copier returns a nil error with the block's phase already advanced only when nothing of the block is left: a return of a constant nil error that no store of the remaining length precedes is dominated by litBlockLength == 0 (a full output window is reported as output overflow, with the phase kept).")
	extend("C02", Rule{ID: "R02.20", Configs: "all", Run: ruleR08_5}, "(R02.20) = R08.5.")
}

func ruleR03_16(p *Program, r *Report) {
	id := "R03.16"
	if r.Prop == "C02" {
		id = "R02.19"
	}
	r.Expect(id, 1)
	n := 0
	for _, tn := range []string{"largeHuffCodeTable", "smallHuffCodeTable"} {
		named := p.Named(flateRel, tn)
		if named == nil {
			continue
		}
		for _, fn := range p.Funcs() {
			if fn.Signature.Recv() == nil || derefNamed(fn.Signature.Recv().Type()) != named {
				continue
			}
			recv := fn.Params[0]
			var copies []ssa.Instruction
			for _, c := range allCalls(fn) {
				if bi, ok := c.Common().Value.(*ssa.Builtin); ok && bi.Name() == "copy" {
					if r0, _ := accessPath(c.Common().Args[0]); r0 == ssa.Value(recv) {
						copies = append(copies, c)
					}
				}
			}
			if len(copies) == 0 {
				continue
			}
			lab := newLabeler()
			for _, b := range fn.Blocks {
				for _, in := range b.Instrs {
					ret, ok := in.(*ssa.Return)
					if !ok {
						continue
					}
					after := false
					for _, c := range copies {
						if reach, _, _ := (PathQuery{Start: c, Target: func(x ssa.Instruction) bool { return x == ssa.Instruction(ret) }}).Find(fn); reach {
							after = true
						}
					}
					if after {
						continue
					}
					// is the normal end of the function also reachable without a copy? then this is not an early exit
					n++
					zero := false
					rng := ""
					for _, f := range dominatingFacts(ret) {
						if f.Y == nil {
							continue
						}
						k, isK := constInt(f.Y)
						x := f.X
						op := f.Op
						if !isK {
							if k, isK = constInt(f.X); isK {
								x = f.Y
								switch op {
								case token.LSS:
									op = token.GTR
								case token.LEQ:
									op = token.GEQ
								case token.GTR:
									op = token.LSS
								case token.GEQ:
									op = token.LEQ
								}
							}
						}
						if !isK || intSize(x.Type()) == 0 {
							continue
						}
						switch {
						case op == token.EQL && k == 0, op == token.LEQ && k == 0, op == token.LSS && k == 1:
							zero = true
						case (op == token.LEQ && k >= 1) || (op == token.LSS && k >= 2):
							rng = op.String() + " " + itoa(int(k))
						}
					}
					why := ""
					if !zero {
						why = "the early exit is not behind 'count == 0'"
						if rng != "" {
							why += " but behind 'count " + rng + "': a tree with one code is treated as empty"
						}
					}
					r.Check(zero, id, shortFn(fn)+"|"+lab.get("no-codes exit"), p.InstrPos(ret), "the table builder leaves early only when there is no code at all", why)
				}
			}
		}
	}
	if n == 0 {
		r.Undecided(id, "builders", "-", "a lookup-table builder has a no-codes early exit", "none found")
	}
}

func ruleR15_3(p *Program, r *Report) {
	r.Expect("R15.3", 1)
	n := 0
	for _, tr := range p.ReaderTypes() {
		fn := tr.Ops["Read"]
		if fn == nil || !readerPkg(fn) || tr.Sticky == "" {
			continue
		}
		recv := fn.Params[0]
		n++
		lab := newLabeler()
		bad := ""
		for _, b := range fn.Blocks {
			for _, in := range b.Instrs {
				ret, ok := in.(*ssa.Return)
				if !ok || len(ret.Results) != 2 {
					continue
				}
				k, isK := constInt(ret.Results[0])
				if !isK || k != 0 || !isNil(ret.Results[1]) {
					continue
				}
				guarded := false
				for _, f := range dominatingFacts(ret) {
					if f.Op == token.EQL && f.Y != nil && ((isStickyLoad(f.X, recv, tr.Sticky) && isNil(f.Y)) || (isStickyLoad(f.Y, recv, tr.Sticky) && isNil(f.X))) {
						guarded = true
					}
				}
				if !guarded {
					bad = p.InstrPos(ret)
				}
				_ = lab
			}
		}
		why := ""
		if bad != "" {
			why = "the return (0, nil) at " + bad + " is not behind the nil edge of the ." + tr.Sticky + " test: after a failure such a Read reports no error"
		}
		r.Check(bad == "", "R15.3", shortFn(fn)+"|no (0, nil) in front of the sticky test", p.Pos(fn.Pos()), "Read answers (0, nil) only while no error has been recorded", why)
	}
	if n == 0 {
		r.Undecided("R15.3", "readers", "-", "Reader types with a sticky error exist", "none found")
	}
}

func ruleR11_8(p *Program, r *Report) {
	r.Expect("R11.8", 1)
	fn := p.Method(flateRel, "decompressor", "step")
	dec := p.Method(flateRel, "decompressor", "decomperss")
	if fn == nil || dec == nil {
		r.Undecided("R11.8", "anchors", "-", "decompressor.step and the decoder it calls exist", "not found")
		return
	}
	var decCall ssa.Instruction
	for _, c := range allCalls(fn) {
		if c.Common().StaticCallee() == dec {
			decCall = c
		}
	}
	if decCall == nil {
		r.Undecided("R11.8", shortFn(fn)+"|decoder call", p.Pos(fn.Pos()), "step calls the decoder", "not found")
		return
	}
	isStore := func(in ssa.Instruction) bool {
		if st, ok := in.(*ssa.Store); ok {
			root, sel := accessPath(st.Addr)
			return root == ssa.Value(fn.Params[0]) && sel == ".writePos"
		}
		// a same-receiver helper (other than the decoder) that stores it
		if c, ok := in.(ssa.CallInstruction); ok && in != decCall {
			if h := c.Common().StaticCallee(); h != nil && h.Blocks != nil && h.Pkg == fn.Pkg && h != dec && len(c.Common().Args) > 0 && c.Common().Args[0] == ssa.Value(fn.Params[0]) {
				for _, w := range p.Effects().ParamWrites(h, 0) {
					if w == ".writePos" {
						return true
					}
				}
			}
		}
		return false
	}
	found, hit, _ := PathQuery{Start: decCall, Target: isStore}.Find(fn)
	why := ""
	if found {
		why = "writePos is stored at " + p.InstrPos(hit) + " after the decoder has run: bytes already decoded in this pass (for example the data before a sync-flush point that is followed by foreign bytes) are taken back"
	}
	r.Check(!found, "R11.8", shortFn(fn)+"|decoded bytes are not taken back", p.InstrPos(decCall), "after the decoder call step does not move the write cursor", why)
}

func ruleR08_5(p *Program, r *Report) {
	id := "R08.5"
	if r.Prop == "C02" {
		id = "R02.20"
	}
	r.Expect(id, 1)
	fn := p.Method(flateRel, "inflate", "decodeLiteralBlock")
	if fn == nil {
		r.Undecided(id, "anchors", "-", "inflate.decodeLiteralBlock exists", "not found")
		return
	}
	isLenStore := func(in ssa.Instruction) bool {
		st, ok := in.(*ssa.Store)
		if !ok {
			return false
		}
		_, sel := accessPath(st.Addr)
		return strings.HasSuffix(sel, ".litBlockLength") || sel == ".litBlockLength"
	}
	n := 0
	lab := newLabeler()
	for _, b := range fn.Blocks {
		for _, in := range b.Instrs {
			ret, ok := in.(*ssa.Return)
			if !ok {
				continue
			}
			e := returnErr(ret)
			if e == nil || !isNil(e) {
				continue
			}
			// bookkeeping done before? (a store of the remaining length on every path to this return)
			early, _, _ := PathQuery{Target: func(x ssa.Instruction) bool { return x == ssa.Instruction(ret) }, Barrier: isLenStore}.Find(fn)
			if !early {
				continue
			}
			n++
			okFact := false
			for _, f := range dominatingFacts(ret) {
				if f.Y == nil || f.Op != token.EQL {
					continue
				}
				for _, pair := range [][2]ssa.Value{{f.X, f.Y}, {f.Y, f.X}} {
					if k, isK := constInt(pair[1]); isK && k == 0 {
						if _, sel, isL := fieldLoad(stripConv(pair[0])); isL && strings.HasSuffix(sel, "litBlockLength") {
							okFact = true
						}
					}
				}
			}
			why := ""
			if !okFact {
				why = "this return reports the stored block as finished (nil error, phase already advanced) on a path that is not behind litBlockLength == 0: with the output window full the block's payload is skipped and parsed as the next header"
			}
			r.Check(okFact, id, shortFn(fn)+"|"+lab.get("early nil return"), p.InstrPos(ret), "the stored-block copier finishes early only when the block is empty", why)
		}
	}
	if n == 0 {
		r.OK(id, shortFn(fn)+"|census", p.Pos(fn.Pos()), "no early nil return in the stored-block copier")
	}
}

func init() {
	extend("C17", Rule{ID: "R17.6", Configs: "all", Run: ruleR17_6},
		"(R17.6) the library performs no channel operation (make, send, receive, select) anywhere: a channel held in a package variable - a semaphore that decides which match finder a Writer may use - is shared state although nothing is imported from sync and no field is written; results would depend on what other goroutines do at that moment.")
	controlRegistry["C17"] = append(controlRegistry["C17"], Control{Rule: "R17.6", Run: ruleR17_6, MustFire: []string{"limited"}})
}

func ruleR17_6(p *Program, r *Report) {
	r.Expect("R17.6", 1)
	n := 0
	for _, fn := range p.Funcs() {
		if isExamples(fn) {
			continue
		}
		lab := newLabeler()
		var visit func(f *ssa.Function)
		visit = func(f *ssa.Function) {
			for _, b := range f.Blocks {
				for _, in := range b.Instrs {
					what := ""
					switch x := in.(type) {
					case *ssa.Send:
						what = "send"
					case *ssa.Select:
						what = "select"
					case *ssa.MakeChan:
						what = "make(chan)"
					case *ssa.UnOp:
						if x.Op == token.ARROW {
							what = "receive"
						}
					}
					if what != "" {
						n++
						r.Fail("R17.6", shortFn(fn)+"|"+lab.get(what), p.InstrPos(in), "the library uses no channels", "channel operation ("+what+"): state shared between instances through a channel")
					}
				}
			}
			for _, an := range f.AnonFuncs {
				visit(an)
			}
		}
		visit(fn)
	}
	// package initialisers (a channel made at package level)
	for _, sp := range p.SSA {
		if ini := sp.Func("init"); ini != nil {
			for _, b := range ini.Blocks {
				for _, in := range b.Instrs {
					if _, ok := in.(*ssa.MakeChan); ok {
						n++
						r.Fail("R17.6", sp.Pkg.Name()+".init|make(chan)", p.InstrPos(in), "the library uses no channels", "a channel is created at package level: every instance shares it")
					}
				}
			}
		}
	}
	if n == 0 {
		r.OK("R17.6", "census", "-", "no channel operation in the library packages")
	}
}

func init() {
	extend("C07", Rule{ID: "R07.6", Configs: "all", Run: ruleR07_6},
		"(R07.6) a container Reader never goes back to its caller with an unverified io.EOF in its sticky field: every return of Read that the inflater call can reach is behind the edge 'sticky != io.EOF', or behind the verified trailer, or returns the sticky field holding something that cannot be io.EOF; a return in between (for example when the inflater delivered the last bytes together with io.EOF and the caller's buffer is full) lets the next Read replay io.EOF without the checksum ever being read.")
	extend("C05", Rule{ID: "R05.9", Configs: "all", Run: ruleR05_9},
		"(R05.9) in the inflater no length (a value whose linear form contains len(...)) is converted to an integer type narrower than int: the give-back arithmetic is done on peek sizes, and a caller's bufio.Reader may hold 64 KiB or more.")
}

func ruleR07_6(p *Program, r *Report) {
	r.Expect("R07.6", 4)
	for _, ctx := range p.containerReaders(r, "R07.6") {
		fn := ctx.fn
		lab := newLabeler()
		for _, b := range fn.Blocks {
			for _, in := range b.Instrs {
				ret, ok := in.(*ssa.Return)
				if !ok {
					continue
				}
				if reach, _, _ := (PathQuery{Start: ctx.inner, Target: func(x ssa.Instruction) bool { return x == ssa.Instruction(ret) }}).Find(fn); !reach {
					continue
				}
				e := returnErr(ret)
				key := shortFn(fn) + "|" + lab.get("return "+retLabel(p, e))
				okRet := false
				for _, f := range dominatingFacts(ret) {
					if f.Y == nil || f.Op != token.NEQ {
						continue
					}
					if (isStickyLoad(f.X, ctx.recv, ctx.tr.Sticky) && isSentinel(f.Y, "io", "EOF")) || (isStickyLoad(f.Y, ctx.recv, ctx.tr.Sticky) && isSentinel(f.X, "io", "EOF")) {
						okRet = true
					}
				}
				if !okRet {
					if v, _ := ctx.verifiedAt(ret); v {
						okRet = true
					}
				}
				if !okRet && e != nil && isStickyLoad(e, ctx.recv, ctx.tr.Sticky) && !ctx.eofa.MayBeEOF(fn, e, ret) {
					okRet = true
				}
				if !okRet && ctx.vcall != nil {
					// behind the non-nil verdict of a verifying helper that records its own failures (never io.EOF)
					for _, f := range dominatingFacts(ret) {
						if f.Op == token.NEQ && f.Y != nil && ((f.X == ssa.Value(ctx.vcall) && isNil(f.Y)) || (f.Y == ssa.Value(ctx.vcall) && isNil(f.X))) {
							if recordsItself(ctx.tr, ctx.vcall) && !ctx.eofa.MayBeEOF(fn, ctx.vcall, ret) {
								okRet = true
							}
						}
					}
				}
				if !okRet {
					// every path from the inflater call to this return passes the equal side of the 'sticky != io.EOF' test
					// only together with a later store of something that is not io.EOF (the reset before the next member)
					safeStore := func(x ssa.Instruction) bool {
						st, ok := x.(*ssa.Store)
						if !ok || !isStickyStore(st, ctx.recv, ctx.tr.Sticky) {
							return false
						}
						return isNil(st.Val) || !ctx.eofa.MayBeEOF(fn, st.Val, st)
					}
					notEOFEdge := func(a, b2 *ssa.BasicBlock) bool { return true }
					_ = notEOFEdge
					// paths that leave through the 'sticky != io.EOF' edge are fine: stop them there
					stop := func(x ssa.Instruction) bool {
						if safeStore(x) {
							return true
						}
						return false
					}
					open, _, _ := PathQuery{Start: ctx.inner, Target: func(x ssa.Instruction) bool { return x == ssa.Instruction(ret) }, Barrier: stop, EdgeOK: func(a, b2 *ssa.BasicBlock) bool {
						if br, ok := edgeCond(a, b2); ok {
							if f, ok := branchFact(br); ok && f.Y != nil && f.Op == token.NEQ {
								if (isStickyLoad(f.X, ctx.recv, ctx.tr.Sticky) && isSentinel(f.Y, "io", "EOF")) || (isStickyLoad(f.Y, ctx.recv, ctx.tr.Sticky) && isSentinel(f.X, "io", "EOF")) {
									return false // on this edge the sticky field is known not to be io.EOF
								}
							}
						}
						return true
					}}.Find(fn)
					if !open {
						okRet = true
					}
				}
				why := ""
				if !okRet {
					why = "Read can return here after the inflater reported io.EOF (now in ." + ctx.tr.Sticky + ") and before the trailer has been read: the next Read replays io.EOF and the checksum is never compared"
				}
				r.Check(okRet, "R07.6", key, p.InstrPos(ret), "no return of Read leaves an unverified io.EOF in the sticky field", why)
			}
		}
	}
}

func ruleR05_9(p *Program, r *Report) {
	r.Expect("R05.9", 1)
	sp := p.Pkg(flateRel)
	n := 0
	lab := newLabeler()
	dn := p.Named(flateRel, "decompressor")
	for _, fn := range p.Funcs() {
		// the Reader's own bookkeeping (methods of the decompressor): the decode loops narrow match lengths, which are bounded
		if fn.Pkg != sp || fn.Signature.Recv() == nil || derefNamed(fn.Signature.Recv().Type()) != dn {
			continue
		}
		for _, b := range fn.Blocks {
			for _, in := range b.Instrs {
				cv, ok := in.(*ssa.Convert)
				if !ok {
					continue
				}
				from, to := intSize(cv.X.Type()), intSize(cv.Type())
				if from != 8 || to == 0 || to >= 8 {
					continue
				}
				l := linearizeWith(cv.X, true)
				hasLen := false
				for t := range l.terms {
					if strings.HasPrefix(t, "len(") {
						hasLen = true
					}
				}
				if !hasLen {
					continue
				}
				// a length that is provably small (bounded by a dominating comparison with a constant) is fine
				if ub, ok := upperBoundOf(cv.X, cv); ok && ub < (int64(1)<<(uint(to)*8-1)) {
					continue
				}
				n++
				r.Fail("R05.9", shortFn(fn)+"|"+lab.get("narrowed length"), p.InstrPos(cv), "lengths keep the width of int", "a length is converted to a "+itoa(int(to*8))+"-bit integer: a peek of 64 KiB or more wraps around and the give-back is computed from the wrapped value")
			}
		}
	}
	if n == 0 {
		r.OK("R05.9", "census", "-", "no length is narrowed below int in the inflater")
	}
}

// upperBoundOf: a constant upper bound of v at instruction `at` from a dominating comparison v < k / v <= k.
func upperBoundOf(v ssa.Value, at ssa.Instruction) (int64, bool) {
	for _, f := range dominatingFacts(at) {
		if f.Y == nil {
			continue
		}
		if stripConv(f.X) == stripConv(v) {
			if k, ok := constInt(f.Y); ok {
				switch f.Op {
				case token.LSS:
					return k - 1, true
				case token.LEQ, token.EQL:
					return k, true
				}
			}
		}
		if stripConv(f.Y) == stripConv(v) {
			if k, ok := constInt(f.X); ok {
				switch f.Op {
				case token.GTR:
					return k - 1, true
				case token.GEQ, token.EQL:
					return k, true
				}
			}
		}
	}
	return 0, false
}

// ---------- R04.14: the end-of-input roll-back of the Go decode loop is not unconditional for packed entries ----------

func init() {
	extend("C04", Rule{ID: "R04.14", Configs: "all", Run: ruleR04_14},
		"(R04.14) in the Go decode loop every place that reports errEndInput for a literal/length entry is immediately controlled (directly or through the other operand of an && chain) by a test of the number of symbols the table entry packs against 1: an entry that packs several short codes is not rolled back whole - a delivery that had stopped a few bits earlier would already have emitted its leading symbols - but retried one symbol at a time. (Found as defect #27; the rule fires on the tree before 61397fa.)")
}

func ruleR04_14(p *Program, r *Report) {
	r.Expect("R04.14", 2)
	fn := p.Func(flateRel, "decodeHuffmanLargeLoop")
	off, okO := constOf(p, flateRel, "largeSymCountOffset")
	if fn == nil || !okO {
		r.Undecided("R04.14", "anchors", "-", "decodeHuffmanLargeLoop and largeSymCountOffset exist", "not found")
		return
	}
	// is v derived from the packed-symbol count of a lookup entry (entry >> largeSymCountOffset)?
	var fromCount func(v ssa.Value, d int, seen map[ssa.Value]bool) bool
	fromCount = func(v ssa.Value, d int, seen map[ssa.Value]bool) bool {
		if v == nil || d > 8 || seen[v] {
			return false
		}
		seen[v] = true
		switch x := v.(type) {
		case *ssa.BinOp:
			if x.Op == token.SHR {
				if k, ok := constInt(x.Y); ok && k == off {
					return true
				}
			}
			return fromCount(x.X, d+1, seen) || fromCount(x.Y, d+1, seen)
		case *ssa.Phi:
			// a copy that a loop counts down is no longer the number of symbols the entry packed
			for _, e := range x.Edges {
				if bo, ok := stripConv(e).(*ssa.BinOp); ok && (bo.Op == token.SUB || bo.Op == token.ADD) {
					if _, isK := constInt(bo.Y); isK && stripConv(bo.X) == ssa.Value(x) {
						return false
					}
				}
			}
			for _, e := range x.Edges {
				if fromCount(e, d+1, seen) {
					return true
				}
			}
		case *ssa.Convert:
			return fromCount(x.X, d+1, seen)
		case *ssa.UnOp:
			return fromCount(x.X, d+1, seen)
		}
		return false
	}
	// a test of the count against 1: count > 1, count >= 2, count != 1 (or a boolean that holds such a comparison)
	var isPackedTest func(v ssa.Value, d int) bool
	isPackedTest = func(v ssa.Value, d int) bool {
		if d > 4 || v == nil {
			return false
		}
		switch x := v.(type) {
		case *ssa.BinOp:
			switch x.Op {
			case token.GTR, token.GEQ, token.NEQ, token.LSS, token.LEQ, token.EQL:
				for _, pair := range [][2]ssa.Value{{x.X, x.Y}, {x.Y, x.X}} {
					if k, ok := constInt(pair[1]); ok && (k == 1 || k == 2) && fromCount(pair[0], 0, map[ssa.Value]bool{}) {
						return true
					}
				}
			}
		case *ssa.Phi:
			for _, e := range x.Edges {
				if isPackedTest(e, d+1) {
					return true
				}
			}
		case *ssa.UnOp:
			return isPackedTest(x.X, d+1)
		}
		return false
	}
	pd := postDominators(fn)
	immediate := func(b *ssa.BasicBlock) []*ssa.BasicBlock {
		var out []*ssa.BasicBlock
		for _, a := range fn.Blocks {
			if len(a.Succs) != 2 {
				continue
			}
			for _, s := range a.Succs {
				if (s == b || pd.PostDominates(b, s)) && !(a != b && pd.PostDominates(b, a)) {
					out = append(out, a)
				}
			}
		}
		return out
	}
	condOf := func(a *ssa.BasicBlock) ssa.Value {
		if iff, ok := a.Instrs[len(a.Instrs)-1].(*ssa.If); ok {
			return iff.Cond
		}
		return nil
	}
	n := 0
	lab := newLabeler()
	for _, b := range fn.Blocks {
		for _, in := range b.Instrs {
			ld, ok := in.(*ssa.UnOp)
			if !ok || ld.Op != token.MUL {
				continue
			}
			g, ok := ld.X.(*ssa.Global)
			if !ok || g.Name() != "errEndInput" {
				continue
			}
			n++
			good := false
			for _, a := range immediate(b) {
				if isPackedTest(condOf(a), 0) {
					good = true
				}
				for _, a2 := range immediate(a) { // the other operand of an && / || chain
					if isPackedTest(condOf(a2), 0) {
						good = true
					}
				}
			}
			why := ""
			if !good {
				why = "end of input is reported here whatever the number of symbols the table entry packs: a packed entry that does not fit (or whose match is cut) is rolled back whole, and what a truncated stream decodes to depends on the delivery"
			}
			r.Check(good, "R04.14", shortFn(fn)+"|"+lab.get("end of input"), p.InstrPos(ld), "the roll-back at the end of the input is decided on whether the entry packs more than one symbol", why)
		}
	}
	if n == 0 {
		r.Undecided("R04.14", shortFn(fn)+"|sites", p.Pos(fn.Pos()), "the Go decode loop reports errEndInput", "no use found")
	}
}

// ---------- R04.15: a refill never puts more than 64 bits into the bit buffer ----------

func init() {
	extend("C04", Rule{ID: "R04.15", Configs: "all", Run: ruleR04_15},
		"(R04.15) every refill of the inflater's 64-bit bit buffer (a value shifted left by the bit count and OR-ed into the buffer) is one of the two shapes whose size is tied to the room left: a whole little-endian word, with the bit count advanced by 8*(8 - (bitsLen+7)/8), or single bytes taken from input[:size] with size the smaller of (64 - bitsLen)/8 and len(input). A byte count computed any other way (8 - bitsLen/8, 'all the bytes that are left') overfills the buffer when it is not byte aligned; only deliveries that leave fewer than 8 bytes visible take these paths, so the all-at-once run stays correct.")
}

func ruleR04_15(p *Program, r *Report) {
	r.Expect("R04.15", 6)
	sp := p.Pkg(flateRel)
	n := 0
	// is v (an int32 count, possibly converted) the room formula (64 - B)/8 ?
	isRoom := func(v ssa.Value) bool {
		v = stripConv(v)
		bo, ok := v.(*ssa.BinOp)
		if !ok {
			return false
		}
		if !((bo.Op == token.QUO && isConstVal(bo.Y, 8)) || (bo.Op == token.SHR && isConstVal(bo.Y, 3))) {
			return false
		}
		sub, ok := stripConv(bo.X).(*ssa.BinOp)
		return ok && sub.Op == token.SUB && isConstVal(sub.X, 64)
	}
	isLen := func(v ssa.Value) bool {
		c, ok := stripConv(v).(*ssa.Call)
		if !ok {
			return false
		}
		bi, ok := c.Common().Value.(*ssa.Builtin)
		return ok && bi.Name() == "len"
	}
	// consumed = 8 - (B+7)/8
	isConsumed := func(v ssa.Value) bool {
		sub, ok := stripConv(v).(*ssa.BinOp)
		if !ok || sub.Op != token.SUB || !isConstVal(sub.X, 8) {
			return false
		}
		q, ok := stripConv(sub.Y).(*ssa.BinOp)
		if !ok || !((q.Op == token.QUO && isConstVal(q.Y, 8)) || (q.Op == token.SHR && isConstVal(q.Y, 3))) {
			return false
		}
		add, ok := stripConv(q.X).(*ssa.BinOp)
		return ok && add.Op == token.ADD && (isConstVal(add.Y, 7) || isConstVal(add.X, 7))
	}
	for _, fn := range p.Funcs() {
		if fn.Pkg != sp {
			continue
		}
		lab := newLabeler()
		for _, b := range fn.Blocks {
			for _, in := range b.Instrs {
				or, ok := in.(*ssa.BinOp)
				if !ok || or.Op != token.OR || intSize(or.Type()) != 8 {
					continue
				}
				var shl *ssa.BinOp
				for _, o := range []ssa.Value{or.X, or.Y} {
					if s, ok := o.(*ssa.BinOp); ok && s.Op == token.SHL {
						if _, isK := constInt(s.Y); !isK && intSize(stripConv(s.Y).Type()) == 4 {
							shl = s
						}
					}
				}
				if shl == nil {
					continue
				}
				n++
				key := shortFn(fn) + "|" + lab.get("refill")
				x := stripConv(shl.X)
				why := ""
				switch src := x.(type) {
				case *ssa.Call:
					f := src.Common().StaticCallee()
					if f == nil || f.Name() != "Uint64" {
						why = "the value shifted into the bit buffer is the result of " + calleeLabel(src) + ", not a little-endian word load"
						break
					}
					// the bit count is advanced by 8*consumed in the same block
					okAdv := false
					for _, in2 := range b.Instrs {
						mul, ok := in2.(*ssa.BinOp)
						if !ok || !((mul.Op == token.MUL && (isConstVal(mul.Y, 8) || isConstVal(mul.X, 8))) || (mul.Op == token.SHL && isConstVal(mul.Y, 3))) {
							continue
						}
						k := mul.X
						if isConstVal(mul.X, 8) {
							k = mul.Y
						}
						if isConsumed(k) {
							okAdv = true
						}
					}
					if !okAdv {
						why = "after a word load the bit count is not advanced by 8*(8 - (bitsLen+7)/8)"
					}
				case *ssa.UnOp:
					// a byte of input[:size]: find the slice the element address indexes
					var sl *ssa.Slice
					var bound ssa.Value
					if ia, ok := src.X.(*ssa.IndexAddr); ok {
						sl, _ = ia.X.(*ssa.Slice)
						if sl != nil {
							bound = sl.High
						} else {
							// input[i] under a loop test i < size
							for _, f := range dominatingFacts(src) {
								if f.Y != nil && f.Op == token.LSS && stripConv(f.X) == stripConv(ia.Index) {
									bound = f.Y
								}
							}
						}
					}
					if bound == nil {
						why = "the byte shifted into the bit buffer does not come from a bounded prefix input[:size]"
						break
					}
					room, other := false, ""
					var edges []ssa.Value
					if phi, ok := bound.(*ssa.Phi); ok {
						edges = phi.Edges
					} else if args, ok := minCallArgs(bound); ok {
						edges = args // min(room, len(input)) through the builtin or a private two-way minimum
					} else {
						edges = []ssa.Value{bound}
					}
					for _, e := range edges {
						switch {
						case isRoom(e):
							room = true
						case isLen(e):
						default:
							other = describeValue(e)
						}
					}
					if !room || other != "" {
						why = "the number of bytes taken is not the smaller of (64 - bitsLen)/8 and len(input)"
						if other != "" {
							why += " (it can be " + other + ")"
						}
					}
				default:
					why = "the value shifted into the bit buffer is neither a word load nor a byte of a bounded prefix of the input (" + describeValue(x) + ")"
				}
				r.Check(why == "", "R04.15", key, p.InstrPos(or), "a refill adds no more bits than the 64-bit buffer has room for", why)
			}
		}
	}
	if n == 0 {
		r.Undecided("R04.15", "refills", "-", "the inflater refills its bit buffer by shifting input in at the bit count", "no such site found")
	}
}

func isConstVal(v ssa.Value, k int64) bool {
	c, ok := constInt(v)
	return ok && c == k
}

// ---------- R07.7: variable indexes into the container readers' fixed buffers are bounded ----------

func init() {
	extend("C07", Rule{ID: "R07.7", Configs: "all", Run: ruleR07_7},
		"(R07.7) in the gzip and zlib readers every variable index into a fixed-size array field of the receiver (the 512-byte header buffer) is dominated by a comparison that bounds it below the array's length: a header string without terminator ends in ErrHeader, not in an index panic - corruption ends in an error.")
}

func ruleR07_7(p *Program, r *Report) {
	r.Expect("R07.7", 1)
	n := 0
	for _, fn := range p.Funcs() {
		if !readerPkg(fn) || fn.Signature.Recv() == nil || len(fn.Params) == 0 {
			continue
		}
		if rel := fn.Pkg.Pkg.Path(); !strings.HasSuffix(rel, "/gzip") && !strings.HasSuffix(rel, "/zlib") {
			continue
		}
		recv := fn.Params[0]
		lab := newLabeler()
		for _, b := range fn.Blocks {
			for _, in := range b.Instrs {
				ia, ok := in.(*ssa.IndexAddr)
				if !ok {
					continue
				}
				if _, isK := constInt(ia.Index); isK {
					continue
				}
				root, sel := accessPath(ia.X)
				if root != ssa.Value(recv) || sel == "" {
					continue
				}
				arr, isArr := derefArray(ia.X.Type())
				if !isArr {
					continue
				}
				n++
				ub, okB := upperBoundOf(ia.Index, ia)
				why := ""
				if !okB {
					why = "the index is not bounded by a dominating comparison with a constant"
				} else if ub >= arr.Len() {
					why = "the index can be " + itoa(int(ub)) + " while " + sel + " has " + itoa(int(arr.Len())) + " elements: an unterminated header string runs off the buffer and panics"
				}
				r.Check(why == "", "R07.7", shortFn(fn)+"|"+lab.get("index into "+sel), p.InstrPos(ia), "a variable index into the fixed buffer "+sel+" stays below its length", why)
			}
		}
	}
	if n == 0 {
		r.Undecided("R07.7", "sites", "-", "a container reader indexes its header buffer with a variable", "none found")
	}
}

// ---------- R02.21 / R13.6: the dynamic set-up rebuilds both lookup tables on every success path ----------

func init() {
	const text = "every success path of the dynamic-block set-up passes a builder call on each of the two lookup tables the fixed set-up installs (a method called on the receiver's table field): a table that is not rebuilt - because the header declares no distance code, say - is the table of the previous block or of the previous stream, and a length symbol in such a block decodes against it."
	extend("C02", Rule{ID: "R02.21", Configs: "all", Run: ruleR02_21}, "(R02.21) "+text)
	extend("C13", Rule{ID: "R13.6", Configs: "all", Run: ruleR02_21}, "(R13.6) = R02.21.")
}

func ruleR02_21(p *Program, r *Report) {
	id := "R02.21"
	if r.Prop == "C13" {
		id = "R13.6"
	}
	r.Expect(id, 2)
	st := p.Method(flateRel, "inflate", "setupStaticHeader")
	dyn := p.Method(flateRel, "inflate", "setupDynamicHeader")
	if st == nil || dyn == nil {
		r.Undecided(id, "anchors", "-", "inflate.setupStaticHeader and setupDynamicHeader exist", "not found")
		return
	}
	// the table fields: what the fixed set-up installs
	tables := map[string]bool{}
	for _, b := range st.Blocks {
		for _, in := range b.Instrs {
			if s, ok := in.(*ssa.Store); ok {
				root, sel := accessPath(s.Addr)
				if root == ssa.Value(st.Params[0]) && sel != "" && isAggregate(s.Val.Type()) {
					tables["."+strings.SplitN(strings.TrimPrefix(sel, "."), ".", 2)[0]] = true
				}
			}
		}
	}
	if len(tables) < 2 {
		r.Undecided(id, shortFn(st)+"|tables", p.Pos(st.Pos()), "the fixed set-up installs two lookup tables", itoa(len(tables))+" found")
		return
	}
	recv := dyn.Params[0]
	succ := func(in ssa.Instruction) bool {
		ret, ok := in.(*ssa.Return)
		if !ok {
			return false
		}
		e := returnErr(ret)
		return e == nil || p.mayBeNil(dyn, e, ret)
	}
	for _, tsel := range sortedKeys(tables) {
		builds := func(in ssa.Instruction) bool {
			c, ok := in.(ssa.CallInstruction)
			if !ok || len(c.Common().Args) == 0 {
				return false
			}
			if h := c.Common().StaticCallee(); h == nil || h.Signature.Recv() == nil {
				return false
			}
			root, sel := accessPath(c.Common().Args[0])
			return root == ssa.Value(recv) && sel == tsel
		}
		open, hit, path := PathQuery{Target: succ, Barrier: builds}.Find(dyn)
		why := ""
		if open {
			why = "the success return at " + p.InstrPos(hit) + " is reachable (blocks " + fmtInts(path) + ") without a builder call on " + tsel + ": the block is decoded with the table an earlier block or stream left there"
		}
		r.Check(!open, id, shortFn(dyn)+"|"+tsel, p.Pos(dyn.Pos()), "the dynamic set-up rebuilds "+tsel+" on every success path", why)
	}
}

func init() {
	extend("C18", Rule{ID: "R18.20", Configs: "asm", Run: ruleR18_20},
		"(R18.20) in the assembly decode loop every memory read through the match-source pointer (output cursor minus distance) is reachable from the pointer's computation only through the look-back check; a branch to a copy routine placed in front of the check (the distance-1 broadcast, say) copies from in front of the output buffer for a stream whose first symbol is a match.")
	extend("C03", Rule{ID: "R03.17", Configs: "asm", Run: ruleR18_20}, "(R03.17) = R18.20.")
	extend("C18", Rule{ID: "R18.21", Configs: "asm", Run: ruleR18_21},
		"(R18.21) in the vector token encoders the lengths compared with the fast-path limit (VPCMPGTD ... JNZ long_codes) are the complete per-lane sum: the compared register has not already been folded into another register by a vector add before the compare.")
	extend("C01", Rule{ID: "R01.17", Configs: "asm", Run: ruleR18_21}, "(R01.17) = R18.21.")
}

// minCallArgs recognises v = min(a, b): the builtin, or a call of a call-free two-parameter function each of whose
// returns hands back one parameter under a dominating comparison that makes it the smaller (or equal) one.
func minCallArgs(v ssa.Value) ([]ssa.Value, bool) {
	c, ok := stripConv(v).(*ssa.Call)
	if !ok {
		return nil, false
	}
	com := c.Common()
	if b, ok := com.Value.(*ssa.Builtin); ok && b.Name() == "min" && len(com.Args) == 2 {
		return com.Args, true
	}
	h := com.StaticCallee()
	if h == nil || h.Blocks == nil || len(h.Params) != 2 || len(com.Args) != 2 || len(allCalls(h)) != 0 {
		return nil, false
	}
	p0, p1 := ssa.Value(h.Params[0]), ssa.Value(h.Params[1])
	nret := 0
	for _, b := range h.Blocks {
		for _, in := range b.Instrs {
			ret, ok := in.(*ssa.Return)
			if !ok {
				continue
			}
			if len(ret.Results) != 1 {
				return nil, false
			}
			res := ret.Results[0]
			if res != p0 && res != p1 {
				return nil, false
			}
			other := p1
			if res == p1 {
				other = p0
			}
			smaller := false
			for _, f := range dominatingFacts(ret) {
				if f.Y == nil {
					continue
				}
				switch {
				case f.X == res && f.Y == other && (f.Op == token.LSS || f.Op == token.LEQ):
					smaller = true
				case f.X == other && f.Y == res && (f.Op == token.GTR || f.Op == token.GEQ):
					smaller = true
				}
			}
			if !smaller {
				return nil, false
			}
			nret++
		}
	}
	return com.Args, nret == 2
}

// ---------- R15.4: no error dropped by a large io.ReadFull ----------

func init() {
	extend("C15", Rule{ID: "R15.4", Configs: "all", Run: ruleR15_4},
		"(R15.4) io.ReadFull drops an error that arrives together with the last bytes it asked for; through a bufio.Reader that is harmless only while the request is smaller than the smallest bufio buffer (16 bytes), because bufio keeps the error pending for reads it serves from its buffer and forgets it for reads it passes straight to the source. Every io.ReadFull / io.ReadAtLeast in the gzip and zlib readers therefore has a constant-size target below 16 bytes; a variable-length field (gzip FEXTRA) is read by a loop that keeps the error.")
}

func ruleR15_4(p *Program, r *Report) {
	r.Expect("R15.4", 5)
	const minBufio = 16
	gz, zl := p.Pkg(gzipRel), p.Pkg(zlibRel)
	for _, fn := range p.Funcs() {
		if fn.Pkg == nil || (fn.Pkg != gz && fn.Pkg != zl) {
			continue
		}
		lab := newLabeler()
		for _, c := range allCalls(fn) {
			f := c.Common().StaticCallee()
			if f == nil || !(isFunc(f, "io", "ReadFull") || isFunc(f, "io", "ReadAtLeast")) {
				continue
			}
			buf := c.Common().Args[1]
			_, _, lo, hi, fixed := sliceBounds(buf)
			why := ""
			switch {
			case !fixed:
				why = "the target " + describeArg(buf) + " has no constant size: once it is as large as the bufio buffer the read goes straight to the source, and an error the source returns with the last bytes (and not again) is dropped by " + f.Name() + " and forgotten by bufio"
			case hi-lo >= minBufio:
				why = "the target is " + itoa(int(hi-lo)) + " bytes, not below the smallest bufio buffer (" + itoa(minBufio) + ")"
			}
			r.Check(why == "", "R15.4", shortFn(fn)+"|"+lab.get(f.Name()), p.InstrPos(c), "io.ReadFull on the source only for constant sizes below the smallest bufio buffer", why)
		}
	}
}

// ---------- R02.22: no read of a scratch element right after clearing it ----------

func init() {
	extend("C02", Rule{ID: "R02.22", Configs: "all", Run: ruleR02_22},
		"(R02.22) in straight-line code no element of an object's state is read after the same block has stored the constant zero into it with no store or call in between: the value read is always 0, so either the clear or the read is misplaced (the carried count of the expanded length codes read below the block that resets it).")
	controlRegistry["C02"] = append(controlRegistry["C02"], Control{Rule: "R02.22", Run: ruleR02_22, MustFire: []string{"readAfterClear"}})
}

// exactAddr names an address built from field selections and constant indexes only.
func exactAddr(v ssa.Value) (ssa.Value, string, bool) {
	path := ""
	for depth := 0; depth < 16; depth++ {
		switch x := v.(type) {
		case *ssa.FieldAddr:
			path = "." + derefStruct(x.X.Type()).Field(x.Field).Name() + path
			v = x.X
		case *ssa.IndexAddr:
			k, ok := constInt(x.Index)
			if !ok {
				return nil, "", false
			}
			path = "[" + itoa(int(k)) + "]" + path
			v = x.X
		default:
			return v, path, path != ""
		}
	}
	return nil, "", false
}

func ruleR02_22(p *Program, r *Report) {
	r.Expect("R02.22", 1)
	n := 0
	type loc struct {
		root ssa.Value
		path string
	}
	for _, fn := range p.Funcs() {
		if isExamples(fn) {
			continue
		}
		lab := newLabeler()
		for _, b := range fn.Blocks {
			cleared := map[loc]ssa.Instruction{}
			for _, in := range b.Instrs {
				switch x := in.(type) {
				case *ssa.Store:
					root, path, ok := exactAddr(x.Addr)
					if !ok {
						// a store through a variable index or an unknown pointer may hit anything
						cleared = map[loc]ssa.Instruction{}
						continue
					}
					if k, isK := constInt(x.Val); isK && k == 0 {
						cleared[loc{root, path}] = in
					} else {
						delete(cleared, loc{root, path})
					}
				case ssa.CallInstruction:
					if _, isB := x.Common().Value.(*ssa.Builtin); !isB {
						cleared = map[loc]ssa.Instruction{}
					}
				case *ssa.UnOp:
					if x.Op != token.MUL {
						continue
					}
					root, path, ok := exactAddr(x.X)
					if !ok {
						continue
					}
					if st, was := cleared[loc{root, path}]; was {
						n++
						r.Fail("R02.22", shortFn(fn)+"|"+lab.get("read of "+path+" after its clear"), p.InstrPos(in), "no element is read right after the block has cleared it", "the load of "+path+" at "+p.InstrPos(in)+" follows the store of 0 at "+p.InstrPos(st)+" with nothing in between that could change it: the value is always 0, a count carried over from the previous step is lost")
					}
				}
			}
		}
	}
	if n == 0 {
		r.OK("R02.22", "census", "-", "no read of a state element directly after its clear")
	}
}

// ---------- R02.23: the base of a recurrence over persistent scratch is set before the loop ----------

func init() {
	extend("C02", Rule{ID: "R02.23", Configs: "all", Run: ruleR02_23},
		"(R02.23) a loop that fills an array field of a long-lived object by a recurrence (field[i+c] computed from field[i+d], d < c, i counting from a constant k) finds its base elements field[k+d .. k+c-1] stored earlier in the same function on every path to the loop: scratch that lives in the Reader still holds the previous block's values (nextCode[1] after a block with a one-bit code).")
}

func ruleR02_23(p *Program, r *Report) {
	r.Expect("R02.23", 1)
	// idx = phi + c
	split := func(v ssa.Value) (*ssa.Phi, int64, bool) {
		v = stripConv(v)
		if ph, ok := v.(*ssa.Phi); ok {
			return ph, 0, true
		}
		if bo, ok := v.(*ssa.BinOp); ok && (bo.Op == token.ADD || bo.Op == token.SUB) {
			if ph, ok := stripConv(bo.X).(*ssa.Phi); ok {
				if k, isK := constInt(bo.Y); isK {
					if bo.Op == token.SUB {
						k = -k
					}
					return ph, k, true
				}
			}
		}
		return nil, 0, false
	}
	for _, fn := range p.Funcs() {
		if isExamples(fn) || len(fn.Params) == 0 {
			continue
		}
		lab := newLabeler()
		type acc struct {
			in  ssa.Instruction
			off int64
		}
		type arr struct {
			root ssa.Value
			path string
			phi  *ssa.Phi
		}
		stores, loads := map[arr][]acc{}, map[arr][]acc{}
		for _, b := range fn.Blocks {
			for _, in := range b.Instrs {
				var addr ssa.Value
				isStore := false
				switch x := in.(type) {
				case *ssa.Store:
					addr, isStore = x.Addr, true
				case *ssa.UnOp:
					if x.Op == token.MUL {
						addr = x.X
					}
				}
				ia, ok := addr.(*ssa.IndexAddr)
				if !ok {
					continue
				}
				if _, isArr := derefArray(ia.X.Type()); !isArr {
					continue
				}
				root, path, exact := exactAddr(ia.X)
				if !exact {
					continue
				}
				if _, isParam := root.(*ssa.Parameter); !isParam {
					continue
				}
				ph, off, ok := split(ia.Index)
				if !ok || ph.Block() == nil {
					continue
				}
				k := arr{root, path, ph}
				if isStore {
					stores[k] = append(stores[k], acc{in, off})
				} else {
					loads[k] = append(loads[k], acc{in, off})
				}
			}
		}
		for k, sts := range stores {
			// the induction variable starts at a constant
			start, hasStart := int64(0), false
			for i, e := range k.phi.Edges {
				if c, isK := constInt(e); isK && !k.phi.Block().Dominates(k.phi.Block().Preds[i]) {
					start, hasStart = c, true
				}
			}
			if !hasStart {
				continue
			}
			for _, st := range sts {
				for _, ld := range loads[k] {
					if ld.off >= st.off || ld.in.Block() != st.in.Block() {
						continue
					}
					// a recurrence: the value stored is computed from the element loaded
					if !valueDependsOn(st.in.(*ssa.Store).Val, ld.in.(ssa.Value), 12) {
						continue
					}
					// base elements start+ld.off .. start+st.off-1
					var missing []string
					for j := start + ld.off; j < start+st.off; j++ {
						want := k.path + "[" + itoa(int(j)) + "]"
						found := false
						for _, b := range fn.Blocks {
							if !b.Dominates(k.phi.Block()) || b == k.phi.Block() {
								continue
							}
							for _, in := range b.Instrs {
								if s2, ok := in.(*ssa.Store); ok {
									// the element itself, or the whole array / enclosing struct assigned at once
									if r2, p2, ex := exactAddr(s2.Addr); ex && r2 == k.root && (p2 == want || strings.HasPrefix(k.path+"[", p2+"[") || strings.HasPrefix(k.path, p2+".")) {
										found = true
									}
								}
							}
						}
						if !found {
							missing = append(missing, want)
						}
					}
					why := ""
					if len(missing) > 0 {
						why = "the recurrence at " + p.InstrPos(st.in) + " reads " + strings.Join(missing, ", ") + " on its first round, and no statement in front of the loop stores it: the element still holds what the previous block (or stream) left there"
					}
					r.Check(why == "", "R02.23", shortFn(fn)+"|"+lab.get("recurrence over "+k.path), p.InstrPos(st.in), "the base elements of a recurrence over persistent scratch are stored before the loop", why)
				}
			}
		}
	}
}

// valueDependsOn: v is computed from target through at most depth operand steps (phis not crossed).
func valueDependsOn(v, target ssa.Value, depth int) bool {
	if v == target {
		return true
	}
	if depth == 0 {
		return false
	}
	in, ok := v.(ssa.Instruction)
	if !ok {
		return false
	}
	if _, isPhi := v.(*ssa.Phi); isPhi {
		return false
	}
	for _, op := range in.Operands(nil) {
		if *op != nil && valueDependsOn(*op, target, depth-1) {
			return true
		}
	}
	return false
}

// ---------- R03.18: the 5-bit counts of a dynamic header are range-checked against the RFC ----------

func init() {
	extend("C03", Rule{ID: "R03.18", Configs: "all", Run: ruleR03_18},
		"(R03.18) in the dynamic-header set-up every 5-bit count read from the stream (HLIT, HDIST) that is handed on to a parser is bounded by 29 at the call by a dominating comparison: RFC 1951 allows 257..286 literal/length codes and 1..30 distance codes, so 30 and 31 are malformed whatever follows (a limit written with a table-size constant that is one too large accepts 31 distance codes).")
}

func ruleR03_18(p *Program, r *Report) {
	r.Expect("R03.18", 2)
	fn := p.Method(flateRel, "inflate", "setupDynamicHeader")
	if fn == nil {
		r.Undecided("R03.18", "anchor", "-", "inflate.setupDynamicHeader exists", "not found")
		return
	}
	// values read with a 5-bit request
	five := map[ssa.Value]bool{}
	for _, c := range allCalls(fn) {
		f := c.Common().StaticCallee()
		if f == nil || !(f.Name() == "nextBits" || f.Name() == "readBits") || len(c.Common().Args) < 2 {
			continue
		}
		if k, ok := constInt(c.Common().Args[len(c.Common().Args)-1]); ok && k == 5 {
			if v := c.Value(); v != nil {
				five[v] = true
			}
		}
	}
	if len(five) < 2 {
		r.Undecided("R03.18", "anchor:reads", p.Pos(fn.Pos()), "the set-up reads two 5-bit counts", "found "+itoa(len(five)))
		return
	}
	lab := newLabeler()
	judged := map[ssa.Value]bool{}
	for _, c := range allCalls(fn) {
		f := c.Common().StaticCallee()
		if f == nil || f.Blocks == nil || !p.InRepo(f) || f.Name() == "nextBits" || f.Name() == "readBits" {
			continue
		}
		for _, a := range c.Common().Args {
			v := stripConv(a)
			if !five[v] || judged[v] {
				continue
			}
			judged[v] = true
			ub, has := upperBoundOf(v, c)
			why := ""
			switch {
			case !has:
				why = "no dominating comparison bounds the count before it reaches " + f.Name()
			case ub > 29:
				why = "the count is only known to be <= " + itoa(int(ub)) + " when it reaches " + f.Name() + ": 30 (and 31) codes are accepted"
			}
			r.Check(why == "", "R03.18", shortFn(fn)+"|"+lab.get("5-bit count"), p.InstrPos(c), "a 5-bit count of the dynamic header is at most 29 when it is handed to the parser", why)
		}
	}
	for v := range five {
		if !judged[v] {
			r.Undecided("R03.18", shortFn(fn)+"|"+lab.get("5-bit count unused"), p.Pos(fn.Pos()), "each 5-bit count reaches a parser call", "a count is not passed on: "+v.Name())
		}
	}
}

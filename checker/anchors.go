package main

// Rename-resilient anchors. Rules name the repository functions they are anchored in (step, readHeader,
// writeTo ...). A behaviour-preserving rename of such a function must not turn into an alarm, so a lookup by
// name that fails falls back on the *shape* the function had on the tree the rules were confirmed against
// (anchors.json, written by `fgcheck -dump-anchors`): same package, same receiver type, same signature, and the
// largest overlap of callee names; the candidate must be unique and must not itself be a known anchor name.

import (
	"encoding/json"
	"go/types"
	"os"
	"path/filepath"
	"sort"
	"strings"

	"golang.org/x/tools/go/ssa"
)

type anchorShape struct {
	Cfg     string   `json:"cfg"`
	Rel     string   `json:"rel"`
	Recv    string   `json:"recv"` // receiver type name, "" for functions
	Name    string   `json:"name"`
	Sig     string   `json:"sig"`
	Callees []string `json:"callees"`
	Callers []string `json:"callers"`
}

var anchorShapes map[string]anchorShape // key rel|recv|name
var anchorNotes []string

func anchorKey(rel, recv, name string) string { return rel + "|" + recv + "|" + name }

func loadAnchorShapes(path string) {
	anchorShapes = map[string]anchorShape{}
	b, err := os.ReadFile(filepath.Clean(path))
	if err != nil {
		return
	}
	var l []anchorShape
	if json.Unmarshal(b, &l) != nil {
		return
	}
	for _, a := range l {
		anchorShapes[a.Cfg+"|"+anchorKey(a.Rel, a.Recv, a.Name)] = a
	}
}

func sigString(fn *ssa.Function) string {
	sig := fn.Signature
	var parts []string
	for i := 0; i < sig.Params().Len(); i++ {
		parts = append(parts, typeString(sig.Params().At(i).Type()))
	}
	s := "(" + strings.Join(parts, ",") + ")"
	parts = nil
	for i := 0; i < sig.Results().Len(); i++ {
		parts = append(parts, typeString(sig.Results().At(i).Type()))
	}
	return s + "(" + strings.Join(parts, ",") + ")"
}

func recvName(fn *ssa.Function) string {
	if fn.Signature.Recv() == nil {
		return ""
	}
	if n := derefNamed(fn.Signature.Recv().Type()); n != nil {
		return n.Obj().Name()
	}
	return "?"
}

func (p *Program) shapeOf(fn *ssa.Function) anchorShape {
	a := anchorShape{Rel: relPath(fn.Pkg.Pkg), Recv: recvName(fn), Name: fn.Name(), Sig: sigString(fn)}
	seen := map[string]bool{}
	for _, c := range allCalls(fn) {
		if g := c.Common().StaticCallee(); g != nil {
			n := g.Name()
			if g.Pkg != nil && !p.InRepo(g) {
				n = g.Pkg.Pkg.Name() + "." + n
			}
			if !seen[n] {
				seen[n] = true
				a.Callees = append(a.Callees, n)
			}
		}
	}
	sort.Strings(a.Callees)
	cs := map[string]bool{}
	for _, g := range p.Funcs() {
		for _, c := range allCalls(g) {
			if c.Common().StaticCallee() == fn && !cs[g.Name()] {
				cs[g.Name()] = true
				a.Callers = append(a.Callers, g.Name())
			}
		}
	}
	sort.Strings(a.Callers)
	return a
}

// DumpAnchors writes the shapes of every repository function with a body, per configuration.
func DumpAnchors(progs []*Program, path string) error {
	var l []anchorShape
	for _, p := range progs {
		if p == nil {
			continue
		}
		for _, fn := range p.Funcs() {
			if fn.Pkg == nil || fn.Parent() != nil || strings.Contains(fn.Pkg.Pkg.Path(), "/examples") {
				continue
			}
			a := p.shapeOf(fn)
			a.Cfg = p.Cfg.Name
			l = append(l, a)
		}
	}
	sort.Slice(l, func(i, j int) bool {
		return l[i].Cfg+anchorKey(l[i].Rel, l[i].Recv, l[i].Name) < l[j].Cfg+anchorKey(l[j].Rel, l[j].Recv, l[j].Name)
	})
	b, _ := json.MarshalIndent(l, "", " ")
	return os.WriteFile(path, b, 0o644)
}

var anchorCache = map[*Program]map[string]*ssa.Function{}

// resolveRenamed: the function that has the recorded shape of rel/recv/name, when no function of that name exists.
func (p *Program) resolveRenamed(rel, recv, name string) *ssa.Function {
	key := anchorKey(rel, recv, name)
	if m := anchorCache[p]; m != nil {
		if fn, ok := m[key]; ok {
			return fn
		}
	} else {
		anchorCache[p] = map[string]*ssa.Function{}
	}
	want, ok := anchorShapes[p.Cfg.Name+"|"+key]
	var best *ssa.Function
	if ok {
		bestScore, ties := -1.0, 0
		for _, fn := range p.Funcs() {
			if fn.Pkg == nil || fn.Parent() != nil || relPath(fn.Pkg.Pkg) != rel || recvName(fn) != recv || sigString(fn) != want.Sig {
				continue
			}
			// a function that still carries a recorded anchor name keeps its own identity
			if _, taken := anchorShapes[p.Cfg.Name+"|"+anchorKey(rel, recv, fn.Name())]; taken {
				continue
			}
			have := p.shapeOf(fn)
			score := jaccard(have.Callees, want.Callees) + 0.5*jaccard(have.Callers, want.Callers)
			if score > bestScore {
				best, bestScore, ties = fn, score, 1
			} else if score == bestScore {
				ties++
			}
		}
		if ties != 1 || bestScore < 0.5 {
			best = nil
		}
		if best != nil {
			anchorNotes = append(anchorNotes, "anchor "+rel+"."+recv+"."+name+" not found by name; resolved by shape to "+best.Name())
		}
	}
	anchorCache[p][key] = best
	return best
}

func jaccard(a, b []string) float64 {
	if len(a) == 0 && len(b) == 0 {
		return 1
	}
	set := map[string]int{}
	for _, x := range a {
		set[x] |= 1
	}
	for _, x := range b {
		set[x] |= 2
	}
	inter := 0
	for _, v := range set {
		if v == 3 {
			inter++
		}
	}
	return float64(inter) / float64(len(set))
}

var _ = types.Typ

package main

import (
	"encoding/json"
	"golang.org/x/tools/go/ssa"
	"os"
	"os/exec"
	"path/filepath"
	"runtime/debug"
	"sort"
	"strings"
)

func jsonUnmarshal(b []byte, v interface{}) error { return json.Unmarshal(b, v) }

// runThoroughExtras is the hook for tier-specific deep work (exhaustive validators etc.);
// rules register themselves in thoroughExtras.
var thoroughExtras = map[string][]func(progs []*Program, cfgs []Config, r *Report, root string){}

func runThoroughExtras(spec *PropSpec, progs []*Program, cfgs []Config, r *Report, root string) {
	for _, f := range thoroughExtras[spec.ID] {
		f(progs, cfgs, r, root)
	}
}

// Positive controls: zero-expected rules are run against /verif/checker/controls, a tiny module that
// contains one instance of each forbidden construct. The rule must report a violation there.
type Control struct {
	Rule     string
	Run      func(p *Program, r *Report)
	MustFire []string // substrings of obligation keys that must be reported as violations
}

var controlRegistry = map[string][]Control{}

var controlProg *Program
var controlErr error
var controlLoaded bool

func runControls(spec *PropSpec, r *Report, controlsDir string) {
	ctls := controlRegistry[spec.ID]
	if len(ctls) == 0 {
		return
	}
	if !controlLoaded {
		controlLoaded = true
		controlProg, controlErr = Load(filepath.Clean(controlsDir), Config{Name: "control", Env: []string{"GOARCH=amd64", "GOOS=linux"}})
	}
	r.cur = "control"
	if controlErr != nil {
		r.Undecided("CONTROL", "load", "-", "positive-control module loads", controlErr.Error())
		return
	}
	for _, c := range ctls {
		sub := NewReport(spec.ID, "control", 0)
		sub.cur = "control"
		func() {
			defer func() {
				if e := recover(); e != nil {
					sub.Undecided(c.Rule, "panic", "-", "rule runs on the control", "panic")
				}
			}()
			c.Run(controlProg, sub)
		}()
		for _, want := range c.MustFire {
			fired := false
			for _, o := range sub.Obls {
				if o.Status == "violation" && o.Rule == c.Rule && containsStr(o.Key, want) {
					fired = true
				}
			}
			key := "control:" + want
			if fired {
				r.OK(c.Rule, key, "checker/controls", "positive control: the rule reports the forbidden construct "+want+" in the control package")
			} else {
				r.Undecided(c.Rule, key, "checker/controls", "positive control: the rule reports the forbidden construct "+want, "the rule did not fire on its control: it cannot be trusted to fire on /repo")
			}
		}
	}
}

func containsStr(s, sub string) bool {
	return len(sub) == 0 || (len(s) >= len(sub) && indexOf(s, sub) >= 0)
}

func indexOf(s, sub string) int {
	for i := 0; i+len(sub) <= len(s); i++ {
		if s[i:i+len(sub)] == sub {
			return i
		}
	}
	return -1
}

// ---------- thorough tier: self-test of the checker on one-instance mutants, seeded regressions and benign edits ----------

type selfEntry struct {
	ID       string   `json:"id"`
	Kind     string   `json:"kind"`
	MustFire []string `json:"must_fire"`
	patch    string
}

type selfResult struct {
	ID      string   `json:"id"`
	Kind    string   `json:"kind"`
	Expect  string   `json:"expect"`
	Fired   bool     `json:"fired"`
	Rules   []string `json:"rules,omitempty"`
	Outcome string   `json:"outcome"`
}

func loadSelfCatalogue(verif string) []selfEntry {
	var out []selfEntry
	if b, err := os.ReadFile(filepath.Join(verif, "checker", "selftest", "catalog.json")); err == nil {
		var cat []selfEntry
		if json.Unmarshal(b, &cat) == nil {
			for _, e := range cat {
				e.patch = filepath.Join(verif, "checker", "selftest", e.ID+".patch")
				out = append(out, e)
			}
		}
	}
	if b, err := os.ReadFile(filepath.Join(verif, "seeded", "expect.json")); err == nil {
		exp := map[string][]string{}
		if json.Unmarshal(b, &exp) == nil {
			var ids []string
			for id := range exp {
				ids = append(ids, id)
			}
			sort.Strings(ids)
			for _, id := range ids {
				out = append(out, selfEntry{ID: "seed:" + id, Kind: "mutant", MustFire: exp[id], patch: filepath.Join(verif, "seeded", id, "patch.diff")})
			}
		}
	}
	return out
}

// runSelfTest applies every catalogue entry that concerns spec to a scratch copy of the repository and runs
// spec's rules on it. Results go into the evidence; they never change the verdict on /repo.
func runSelfTest(spec *PropSpec, root, verif string) []selfResult {
	var res []selfResult
	for _, e := range loadSelfCatalogue(verif) {
		concerns := e.Kind == "benign"
		for _, p := range e.MustFire {
			if p == spec.ID {
				concerns = true
			}
		}
		if !concerns {
			continue
		}
		if only := os.Getenv("FG_SELFTEST_ONLY"); only != "" && !strings.Contains(","+only+",", ","+e.ID+",") {
			continue
		}
		sr := selfResult{ID: e.ID, Kind: e.Kind, Expect: "silent"}
		if e.Kind == "mutant" {
			sr.Expect = "reported"
		}
		tmp, err := os.MkdirTemp("", "fgself-")
		if err != nil {
			sr.Outcome = "skipped: " + err.Error()
			res = append(res, sr)
			continue
		}
		func() {
			defer os.RemoveAll(tmp)
			dst := filepath.Join(tmp, "repo")
			if out, err := exec.Command("cp", "-a", root, dst).CombinedOutput(); err != nil {
				sr.Outcome = "skipped: copy failed: " + string(out)
				return
			}
			os.RemoveAll(filepath.Join(dst, ".git"))
			cmd := exec.Command("git", "apply", "--whitespace=nowarn", e.patch)
			cmd.Dir = dst
			if out, err := cmd.CombinedOutput(); err != nil {
				sr.Outcome = "skipped: patch no longer applies (" + strings.TrimSpace(string(out)) + ")"
				return
			}
			sub := NewReport(spec.ID, "selftest", 0)
			for _, cfg := range []Config{cfgC0, cfgC1} {
				p, err := Load(dst, cfg)
				sub.cur = cfg.Name
				if err != nil {
					sub.Undecided("LOAD", "load", "-", "loads", err.Error())
					continue
				}
				for _, ru := range spec.Rules {
					if ru.Configs == "asm" && !cfg.Asm {
						continue
					}
					if ru.Configs == "first" && cfg.Name != cfgC0.Name {
						continue
					}
					runRule(ru, p, sub)
				}
				dropCaches(p)
			}
			known, _ := loadKnown(filepath.Join(verif, "known_findings.json"))
			kk := map[string]bool{}
			for _, k := range known {
				if k.Status == "known" {
					kk[k.Key] = true
				}
			}
			rules := map[string]bool{}
			for _, o := range sub.Obls {
				if (o.Status == "violation" && !kk[o.Key]) || o.Status == "undecided" {
					sr.Fired = true
					rules[o.Rule] = true
				}
			}
			sr.Rules = sortedKeys(rules)
			switch {
			case e.Kind == "mutant" && sr.Fired:
				sr.Outcome = "ok: reported"
			case e.Kind == "mutant":
				sr.Outcome = "MISS: the change was not reported"
			case sr.Fired:
				sr.Outcome = "FALSE-ALARM: a behaviour-preserving edit was reported"
			default:
				sr.Outcome = "ok: silent"
			}
		}()
		res = append(res, sr)
	}
	return res
}

// dropCaches forgets everything memoised for a loaded variant: the thorough tier loads a few hundred scratch
// copies in one process, and each retained Program keeps its syntax trees, type information and SSA alive.
func dropCaches(p *Program) {
	delete(anchorCache, p)
	delete(asmWorldCache, p)
	delete(effectsCache, p)
	delete(touchDstCache, p)
	delete(touchSrcCache, p)
	delete(dstSetCache, p)
	delete(srcSetCache, p)
	returnsParamCache = map[*ssa.Function]map[int]bool{}
	if activeProg == p {
		activeProg = nil
	}
	debug.FreeOSMemory()
}

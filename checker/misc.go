package main

import "encoding/json"

func jsonUnmarshal(b []byte, v interface{}) error { return json.Unmarshal(b, v) }

// runThoroughExtras is the hook for tier-specific deep work (exhaustive validators etc.);
// rules register themselves in thoroughExtras.
var thoroughExtras = map[string][]func(progs []*Program, cfgs []Config, r *Report, root string){}

func runThoroughExtras(spec *PropSpec, progs []*Program, cfgs []Config, r *Report, root string) {
	for _, f := range thoroughExtras[spec.ID] {
		f(progs, cfgs, r, root)
	}
}

package main

import (
	"encoding/json"
	"path/filepath"
)

func jsonUnmarshal(b []byte, v interface{}) error { return json.Unmarshal(b, v) }

// runThoroughExtras is the hook for tier-specific deep work (exhaustive validators etc.);
// rules register themselves in thoroughExtras.
var thoroughExtras = map[string][]func(progs []*Program, cfgs []Config, r *Report, root string){}

func runThoroughExtras(spec *PropSpec, progs []*Program, cfgs []Config, r *Report, root string) {
	for _, f := range thoroughExtras[spec.ID] {
		f(progs, cfgs, r, root)
	}
}

// Positive controls: zero-expected rules are run against /verif/checker/controls, a tiny module that
// contains one instance of each forbidden construct. The rule must report a violation there.
type Control struct {
	Rule     string
	Run      func(p *Program, r *Report)
	MustFire []string // substrings of obligation keys that must be reported as violations
}

var controlRegistry = map[string][]Control{}

var controlProg *Program
var controlErr error
var controlLoaded bool

func runControls(spec *PropSpec, r *Report, controlsDir string) {
	ctls := controlRegistry[spec.ID]
	if len(ctls) == 0 {
		return
	}
	if !controlLoaded {
		controlLoaded = true
		controlProg, controlErr = Load(filepath.Clean(controlsDir), Config{Name: "control", Env: []string{"GOARCH=amd64", "GOOS=linux"}})
	}
	r.cur = "control"
	if controlErr != nil {
		r.Undecided("CONTROL", "load", "-", "positive-control module loads", controlErr.Error())
		return
	}
	for _, c := range ctls {
		sub := NewReport(spec.ID, "control", 0)
		sub.cur = "control"
		func() {
			defer func() {
				if e := recover(); e != nil {
					sub.Undecided(c.Rule, "panic", "-", "rule runs on the control", "panic")
				}
			}()
			c.Run(controlProg, sub)
		}()
		for _, want := range c.MustFire {
			fired := false
			for _, o := range sub.Obls {
				if o.Status == "violation" && o.Rule == c.Rule && containsStr(o.Key, want) {
					fired = true
				}
			}
			key := "control:" + want
			if fired {
				r.OK(c.Rule, key, "checker/controls", "positive control: the rule reports the forbidden construct "+want+" in the control package")
			} else {
				r.Undecided(c.Rule, key, "checker/controls", "positive control: the rule reports the forbidden construct "+want, "the rule did not fire on its control: it cannot be trusted to fire on /repo")
			}
		}
	}
}

func containsStr(s, sub string) bool {
	return len(sub) == 0 || (len(s) >= len(sub) && indexOf(s, sub) >= 0)
}

func indexOf(s, sub string) int {
	for i := 0; i+len(sub) <= len(s); i++ {
		if s[i:i+len(sub)] == sub {
			return i
		}
	}
	return -1
}

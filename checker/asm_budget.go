package main

// R18.15 / R02.14: bit budget of the assembly decode loop.
//
// decodeHuffmanAsmArchV3 keeps the number of valid bits of its bit buffer in a register (loaded from and stored
// back to inflate.bitsLen). A refill ("start load in" ... "end load in") brings it to at least 57; every
// "readIn >>= n" takes n off. The rule runs a forward dataflow over the routine's CFG whose state is the
// guaranteed minimum of valid bits, with
//   - refill:      the counter register B is rewritten by LEAQ (B)(X*8), B with X = (64 - B) >> 3   -> 57
//   - consumption: SUBQ n, B, with n bounded by where it was loaded from:
//                    a lit/len table entry  -> 15 + 5  (longest code plus the most extra length bits, RFC 1951)
//                    a distance table entry -> 15      (longest code; the 13 extra distance bits are below that)
//                    a constant             -> itself
// and requires the state to stay >= 0 after every consumption: a decode step that takes more bits than are
// guaranteed valid reads zero bits past the end of the buffer and produces output that is not in the stream.
// The state at the loop head on the edges from the prologue is taken as 57 (the prologue's byte-wise preload; the
// Go caller's len(state.input) > inBufferSlop guard is checked by R03.5/R01.x) - the prologue is not analysed here.

import (
	"fmt"
	"strings"
)

const (
	tagLL = 1
	tagD  = 2
)

func ruleR18_15(p *Program, r *Report) {
	id := "R18.15"
	if r.Prop == "C02" {
		id = "R02.14"
	}
	r.Expect(id, 4)
	if asmLoadFailures(p, r, id) {
		return
	}
	for _, u := range p.Asm().Units {
		if u.Text.Name != "decodeHuffmanAsmArchV3" {
			continue
		}
		ins := u.Text.Instrs
		name := u.Text.Name
		// field addressed by a memory operand of instruction i (through a typed argument pointer)
		fieldOf := func(i int, op Operand) string {
			if op.Kind != OpMem || op.Base == "" {
				return ""
			}
			bv := u.Flow.Before[i][op.Base]
			T, _, ok := u.typedBase(bv)
			if !ok {
				return ""
			}
			res, err := resolveOffset(p.Sizes, T, op.Off+bv.Disp)
			if err != nil {
				return ""
			}
			return res.FieldSet
		}
		// the counter register: loaded from bitsLen
		B := ""
		for i, in := range ins {
			if strings.HasPrefix(in.Mnem, "MOV") && len(in.Ops) == 2 && in.Ops[1].Kind == OpReg && fieldOf(i, in.Ops[0]) == "bitsLen" {
				B = baseReg(in.Ops[1].Reg)
			}
		}
		if B == "" {
			r.Undecided(id, name+"|counter register", "-", "the routine loads inflate.bitsLen into a register", "no such load found")
			continue
		}
		// loop head: the label with the most backward jumps into it
		back := map[int]int{}
		for i, in := range ins {
			if asmJumps[in.Mnem] {
				if t, ok := u.Text.labelIdx[in.Ops[0].Name]; ok && t <= i {
					back[t]++
				}
			}
		}
		head, best := -1, 0
		for t, n := range back {
			if n > best || (n == best && t < head) {
				head, best = t, n
			}
		}
		if head < 0 {
			r.Undecided(id, name+"|loop head", "-", "the routine has a loop", "no backward jump")
			continue
		}
		// --- tag dataflow: which table a register's value was derived from
		n := len(ins)
		tags := make([]map[string]int, n)
		tags[0] = map[string]int{}
		work := []int{0}
		srcTags := func(i int, st map[string]int, op Operand) int {
			switch op.Kind {
			case OpReg:
				return st[baseReg(op.Reg)]
			case OpMem:
				f := fieldOf(i, op)
				switch {
				case strings.HasPrefix(f, "litLenTable"):
					return tagLL
				case strings.HasPrefix(f, "distTable"):
					return tagD
				}
			}
			return 0
		}
		for len(work) > 0 {
			i := work[len(work)-1]
			work = work[:len(work)-1]
			st := tags[i]
			in := ins[i]
			out := st
			if d := in.dest(); d >= 0 && in.Ops[d].Kind == OpReg && isGPR(in.Ops[d].Reg) {
				out = map[string]int{}
				for k, v := range st {
					out[k] = v
				}
				dst := baseReg(in.Ops[d].Reg)
				t := 0
				for oi, op := range in.Ops {
					if oi == d {
						continue
					}
					if in.Mnem == "LEAQ" && op.Kind == OpMem {
						t |= st[op.Base] | st[op.Index]
						continue
					}
					t |= srcTags(i, st, op)
				}
				switch {
				case strings.HasPrefix(in.Mnem, "MOV") || in.Mnem == "LEAQ" || len(in.Ops) == 3:
					// plain copy / three-operand form: the destination is fully rewritten
				case (in.Mnem == "XORQ" || in.Mnem == "XORL") && in.Ops[0].Kind == OpReg && baseReg(in.Ops[0].Reg) == dst:
					t = 0
				default:
					t |= st[dst]
				}
				out[dst] = t
			}
			for _, s := range u.Flow.Succs[i] {
				if tags[s] == nil {
					tags[s] = map[string]int{}
					for k, v := range out {
						tags[s][k] = v
					}
					work = append(work, s)
					continue
				}
				ch := false
				for k, v := range out {
					if tags[s][k]|v != tags[s][k] {
						tags[s][k] |= v
						ch = true
					}
				}
				if ch {
					work = append(work, s)
				}
			}
		}
		// --- classify the writes of B
		type ev struct {
			kind   string // refill | take | other
			weight int
			what   string
		}
		evs := map[int]ev{}
		nRefill, nTake := 0, 0
		writesReg := func(j int, rg string) bool {
			d := ins[j].dest()
			return d >= 0 && ins[j].Ops[d].Kind == OpReg && baseReg(ins[j].Ops[d].Reg) == rg
		}
		for i, in := range ins {
			if !u.Flow.Reach[i] || !writesReg(i, B) {
				continue
			}
			switch {
			case in.Mnem == "SUBQ" && len(in.Ops) == 2:
				e := ev{kind: "take"}
				switch in.Ops[0].Kind {
				case OpImm:
					e.weight, e.what = int(in.Ops[0].Imm), "constant"
				case OpReg:
					v := u.Flow.Before[i].valOf(in.Ops[0])
					t := 0
					if tags[i] != nil {
						t = tags[i][baseReg(in.Ops[0].Reg)]
					}
					switch {
					case v.Kind == AConst && !v.MayEntry && len(v.Consts) > 0:
						for _, c := range v.Consts {
							if int(c) > e.weight {
								e.weight = int(c)
							}
						}
						e.what = "constant"
					case t&tagLL != 0:
						e.weight, e.what = 20, "count from a lit/len table entry (15 + 5)"
					case t&tagD != 0:
						e.weight, e.what = 15, "count from a distance table entry (<= 15)"
					default:
						e.kind, e.what = "other", "count of unknown origin"
					}
				default:
					e.kind, e.what = "other", "count from memory"
				}
				evs[i] = e
				if e.kind == "take" {
					nTake++
				}
			case in.Mnem == "LEAQ" && in.Ops[0].Kind == OpMem && in.Ops[0].Base == B && in.Ops[0].Scale == 8 && in.Ops[0].Off == 0 && in.Ops[0].Index != "":
				// X = (64 - B) >> 3 computed by the straight-line code before
				X := in.Ops[0].Index
				stage := 0 // 0: want SHRQ $3,X  1: want SUBQ B,X  2: want MOVQ $64,X  3: done
				for j := i - 1; j >= 0 && stage < 3 && len(ins[j+1].Labels) == 0; j-- {
					pj := ins[j]
					if writesReg(j, B) {
						break
					}
					if !writesReg(j, X) {
						continue
					}
					ok := false
					switch stage {
					case 0:
						ok = pj.Mnem == "SHRQ" && pj.Ops[0].Kind == OpImm && pj.Ops[0].Imm == 3
					case 1:
						ok = pj.Mnem == "SUBQ" && pj.Ops[0].Kind == OpReg && baseReg(pj.Ops[0].Reg) == B
					case 2:
						ok = pj.Mnem == "MOVQ" && pj.Ops[0].Kind == OpImm && pj.Ops[0].Imm == 64
					}
					if !ok {
						break
					}
					stage++
				}
				if stage == 3 {
					evs[i] = ev{kind: "refill", weight: 57, what: "B += 8*((64-B)>>3)"}
					nRefill++
				} else {
					evs[i] = ev{kind: "other", what: "counter rewritten by a LEAQ that is not the refill idiom"}
				}
			default:
				evs[i] = ev{kind: "other", what: "counter rewritten by " + in.Mnem}
			}
		}
		// --- budget dataflow from the loop head
		const unk = 1 << 20
		state := make([]int, n)
		for i := range state {
			state[i] = unk
		}
		state[head] = 57
		work = []int{head}
		low := map[int]int{} // consumption -> lowest state after it
		otherInLoop := map[int]bool{}
		for len(work) > 0 {
			i := work[len(work)-1]
			work = work[:len(work)-1]
			s := state[i]
			if e, ok := evs[i]; ok {
				switch e.kind {
				case "refill":
					s = e.weight
				case "take":
					s -= e.weight
					if s < -1 {
						s = -1
					}
					if v, seen := low[i]; !seen || s < v {
						low[i] = s
					}
				default:
					otherInLoop[i] = true
				}
			}
			for _, sc := range u.Flow.Succs[i] {
				if s < state[sc] {
					state[sc] = s
					work = append(work, sc)
				}
			}
		}
		r.Check(nRefill >= 1, id, name+"|refill idiom", p.asmPos(u, ins[head]), fmt.Sprintf("the loop refills its bit buffer with the idiom B += 8*((64-B)>>3) (%d refills, counter register %s)", nRefill, B), "no refill idiom found")
		for i, e := range evs {
			if e.kind != "other" || state[i] == unk {
				continue
			}
			// reachable from the loop head: the stores back to memory at the exits do not write B, so any other write is unexpected
			if ins[i].Mnem == "MOVL" || ins[i].Mnem == "MOVQ" {
				if fieldOf(i, ins[i].Ops[0]) == "bitsLen" {
					continue
				}
			}
			r.Undecided(id, name+"|"+e.what, p.asmPos(u, ins[i]), "every write of the bit counter inside the loop is a refill or a consumption with a bounded count", e.what)
		}
		lab := newLabeler()
		takes := []int{}
		for i := range low {
			takes = append(takes, i)
		}
		sortInts(takes)
		for _, i := range takes {
			e := evs[i]
			key := name + "|" + lab.get("take "+e.what)
			why := ""
			if low[i] < 0 {
				why = fmt.Sprintf("on some path through the loop this consumption (%s, up to %d bits) can take more bits than are guaranteed valid since the last refill", e.what, e.weight)
			}
			r.Check(why == "", id, key, p.asmPos(u, ins[i]), fmt.Sprintf("at least %d valid bits remain after this consumption on every path (%s)", low[i], e.what), why)
		}
		if nTake == 0 {
			r.Undecided(id, name+"|consumptions", "-", "the loop consumes bits", "no SUBQ n, "+B+" found")
		}
	}
}

func sortInts(a []int) {
	for i := 1; i < len(a); i++ {
		for j := i; j > 0 && a[j] < a[j-1]; j-- {
			a[j], a[j-1] = a[j-1], a[j]
		}
	}
}

// R18.19: the end-of-input exits taken on a comparison of the bit counter are taken when the counter is the smaller.
func ruleR18_19(p *Program, r *Report) {
	r.Expect("R18.19", 1)
	if asmLoadFailures(p, r, "R18.19") {
		return
	}
	for _, u := range p.Asm().Units {
		if u.Text.Name != "decodeHuffmanAsmArchV3" {
			continue
		}
		ins := u.Text.Instrs
		B := ""
		for i, in := range ins {
			if strings.HasPrefix(in.Mnem, "MOV") && len(in.Ops) == 2 && in.Ops[1].Kind == OpReg && in.Ops[0].Kind == OpMem && in.Ops[0].Base != "" {
				bv := u.Flow.Before[i][in.Ops[0].Base]
				if T, _, ok := u.typedBase(bv); ok {
					if res, err := resolveOffset(p.Sizes, T, in.Ops[0].Off+bv.Disp); err == nil && res.FieldSet == "bitsLen" {
						B = baseReg(in.Ops[1].Reg)
					}
				}
			}
		}
		// the exit that reports "end of input": the label block that stores the errno constant errorNoEndInput
		eoi, okE := constOf(p, flateRel, "errorNoEndInput")
		target := -1
		for i, in := range ins {
			if len(in.Labels) == 0 {
				continue
			}
			for j := i; j < len(ins) && j < i+8; j++ {
				if ins[j].Mnem == "MOVQ" && ins[j].Ops[0].Kind == OpImm && ins[j].Ops[0].Imm == eoi && ins[j].Ops[1].Kind == OpReg && baseReg(ins[j].Ops[1].Reg) == "AX" {
					target = i
				}
				if asmJumps[ins[j].Mnem] {
					break
				}
			}
		}
		if B == "" || !okE || target < 0 {
			r.Undecided("R18.19", u.Text.Name+"|anchors", "-", "the bit counter register and the end-of-input exit are found", "not found")
			continue
		}
		n := 0
		lab := newLabeler()
		for i, in := range ins {
			if !u.Flow.Reach[i] || !asmJumps[in.Mnem] || in.Mnem == "JMP" || i == 0 {
				continue
			}
			if t, ok := u.Text.labelIdx[in.Ops[0].Name]; !ok || t != target {
				continue
			}
			cmp := ins[i-1]
			if cmp.Mnem != "CMPQ" || len(cmp.Ops) != 2 || cmp.Ops[0].Kind != OpReg || cmp.Ops[1].Kind != OpReg {
				continue
			}
			a, b := baseReg(cmp.Ops[0].Reg), baseReg(cmp.Ops[1].Reg)
			if a != B && b != B {
				continue // a comparison of cursors (input/output limits), not of the bit counter
			}
			n++
			// CMPQ a, b ; Jcc : JL/JLT jumps when a < b, JG when a > b
			okDir := (a == B && (in.Mnem == "JL" || in.Mnem == "JLT" || in.Mnem == "JB")) || (b == B && (in.Mnem == "JG" || in.Mnem == "JGT" || in.Mnem == "JA"))
			why := ""
			if !okDir {
				why = fmt.Sprintf("'%s ; %s' takes the end-of-input exit when the bit counter %s is the larger operand: a code that is merely invalid is reported as 'more input needed' and the Go loop resumes in the middle of the symbol", strings.TrimSpace(cmp.Raw), strings.TrimSpace(in.Raw), B)
			}
			r.Check(okDir, "R18.19", u.Text.Name+"|"+lab.get("end of input on bit counter"), p.asmPos(u, in), "the end-of-input exit is taken when fewer bits are buffered than the code needs", why)
		}
		if n == 0 {
			r.Undecided("R18.19", u.Text.Name+"|sites", "-", "some end-of-input exit is decided on the bit counter", "none found")
		}
	}
}

// R18.20: in the assembly decode loop no byte is read through the match-source pointer before the look-back check.
func ruleR18_20(p *Program, r *Report) {
	id := "R18.20"
	if r.Prop == "C03" {
		id = "R03.17"
	}
	r.Expect(id, 1)
	if asmLoadFailures(p, r, id) {
		return
	}
	lookback, ok := constOf(p, flateRel, "errorNoInvalidLookback")
	if !ok {
		r.Undecided(id, "anchors", "-", "errorNoInvalidLookback exists", "not found")
		return
	}
	for _, u := range p.Asm().Units {
		if u.Text.Name != "decodeHuffmanAsmArchV3" {
			continue
		}
		ins := u.Text.Instrs
		// the exit block of the look-back error and the conditional jumps into it
		exit := -1
		for i, in := range ins {
			if len(in.Labels) == 0 {
				continue
			}
			for j := i; j < len(ins) && j < i+6; j++ {
				x := ins[j]
				if x.Mnem == "MOVQ" && len(x.Ops) == 2 && x.Ops[0].Kind == OpImm && x.Ops[0].Imm == lookback && x.Ops[1].Kind == OpReg && baseReg(x.Ops[1].Reg) == "AX" {
					exit = i
				}
				if asmJumps[x.Mnem] || x.Mnem == "RET" {
					break
				}
			}
		}
		n := 0
		for j, in := range ins {
			if !u.Flow.Reach[j] || !asmJumps[in.Mnem] || in.Mnem == "JMP" || j == 0 {
				continue
			}
			if t, ok := u.Text.labelIdx[in.Ops[0].Name]; !ok || t != exit {
				continue
			}
			cmp := ins[j-1]
			if cmp.Mnem != "CMPQ" || cmp.Ops[0].Kind != OpReg {
				continue
			}
			src := baseReg(cmp.Ops[0].Reg) // the match-source pointer compared with the start of the output
			// its definition: the closest write of src before the comparison in straight-line code
			def := -1
			for k := j - 2; k >= 0 && len(ins[k+1].Labels) == 0; k-- {
				if d := ins[k].dest(); d >= 0 && ins[k].Ops[d].Kind == OpReg && baseReg(ins[k].Ops[d].Reg) == src {
					def = k
					break
				}
			}
			if def < 0 {
				r.Undecided(id, u.Text.Name+"|source pointer", p.asmPos(u, cmp), "the match-source pointer is computed in the block that checks it", "definition of "+src+" not found")
				continue
			}
			n++
			// a read through src reachable from its definition without passing the check
			isRead := func(i int) bool {
				x := ins[i]
				if strings.HasPrefix(x.Mnem, "PREFETCH") || x.Mnem == "LEAQ" {
					return false
				}
				d := x.dest()
				for oi, op := range x.Ops {
					if op.Kind == OpMem && op.Base == src && oi != d {
						return true
					}
				}
				return false
			}
			// the register is reused later: stop at its next plain redefinition
			redefined := func(i int) bool {
				if i == def {
					return false
				}
				x := ins[i]
				d := x.dest()
				return d >= 0 && x.Ops[d].Kind == OpReg && baseReg(x.Ops[d].Reg) == src && (strings.HasPrefix(x.Mnem, "MOV") || x.Mnem == "LEAQ" || x.Mnem == "XORQ") && !(len(x.Ops) == 2 && x.Ops[0].Kind == OpReg && baseReg(x.Ops[0].Reg) == src)
			}
			found, at := asmPathAvoiding(u.Flow, def+1, isRead, func(i int) bool { return i == j || redefined(i) })
			why := ""
			if found {
				why = fmt.Sprintf("the load at line %d (%s) reads through the match-source pointer on a path that has not passed the look-back check at line %d: a match whose distance exceeds what has been produced copies bytes from in front of the output buffer instead of being rejected", ins[at].Line, strings.TrimSpace(ins[at].Raw), in.Line)
			}
			r.Check(!found, id, u.Text.Name+"|window reads behind the look-back check", p.asmPos(u, in), "every read through the match-source pointer is behind the look-back check", why)
		}
		if n == 0 {
			r.Undecided(id, u.Text.Name+"|look-back check", "-", "the loop compares the match-source pointer with the start of the output", "not found")
		}
	}
}

// ---------- R18.21 = R01.17: the vector width test is applied to the full sum ----------

// ruleR18_21: the vector token encoders leave their fast path when some lane's code is too long for it
// (`VPCMPGTD limit, lens, mask; test mask; JNZ long_codes`). The lengths tested must be the complete sum: the register
// compared is not one that a later vector add has already folded into another register before the compare (testing
// the distance part alone keeps over-long codes in the fast path, where their high bits are shifted out).
func ruleR18_21(p *Program, r *Report) {
	id := "R18.21"
	if r.Prop == "C01" {
		id = "R01.17"
	}
	r.Expect(id, 2)
	if asmLoadFailures(p, r, id) {
		return
	}
	for _, u := range p.Asm().Units {
		ins := u.Text.Instrs
		for j, in := range ins {
			if !u.Flow.Reach[j] || in.Mnem != "VPCMPGTD" || len(in.Ops) != 3 || in.Ops[1].Kind != OpReg {
				continue
			}
			// followed by a test of the mask and a conditional jump
			guarded := false
			for k := j + 1; k < len(ins) && k <= j+2; k++ {
				if asmJumps[ins[k].Mnem] && ins[k].Mnem != "JMP" {
					guarded = true
				}
			}
			if !guarded {
				continue
			}
			reg := in.Ops[1].Reg
			def := -1
			for k := j - 1; k >= 0 && len(ins[k+1].Labels) == 0; k-- {
				if d := ins[k].dest(); d >= 0 && ins[k].Ops[d].Kind == OpReg && ins[k].Ops[d].Reg == reg {
					def = k
					break
				}
			}
			if def < 0 {
				r.Undecided(id, u.Text.Name+"|width test", p.asmPos(u, in), "the lengths compared with the fast-path limit are computed in the block that tests them", "definition of "+reg+" not found")
				continue
			}
			why := ""
			for k := def + 1; k < j; k++ {
				x := ins[k]
				if x.Mnem != "VPADDD" && x.Mnem != "VPADDQ" {
					continue
				}
				d := x.dest()
				if d < 0 || x.Ops[d].Kind != OpReg || x.Ops[d].Reg == reg {
					continue
				}
				for oi, op := range x.Ops {
					if oi != d && op.Kind == OpReg && op.Reg == reg {
						why = fmt.Sprintf("%s is compared with the fast-path limit at line %d, but line %d (%s) has already added it into %s: a partial sum is tested, lanes whose complete code is longer than the fast path can hold stay in it and lose their high bits", reg, in.Line, x.Line, strings.TrimSpace(x.Raw), x.Ops[d].Reg)
					}
				}
			}
			r.Check(why == "", id, u.Text.Name+"|width test on the complete sum", p.asmPos(u, in), "the code lengths compared with the fast-path limit are the complete per-lane sum", why)
		}
	}
}

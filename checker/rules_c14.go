package main

// C14 - failing destination: error discipline (R14.1 - R14.4).

import (
	"go/token"
	"go/types"
	"strings"

	"golang.org/x/tools/go/ssa"
)

func init() {
	register(&PropSpec{
		ID: "C14",
		Rules: []Rule{
			{ID: "R14.1", Configs: "all", Run: ruleR14_1},
			{ID: "R14.2", Configs: "all", Run: ruleR14_2},
			{ID: "R14.3", Configs: "all", Run: ruleR14_3},
			{ID: "R14.4", Configs: "all", Run: ruleR14_4},
			{ID: "R14.5", Configs: "all", Run: ruleR14_5},
		},
		Explanation: "Decides the error discipline that C14 rests on, for every path of every Writer operation in both dispatch arms: " +
			"(R14.1) in Write/Flush/Close of deflate.Writer, gzip.Writer, zlib.Writer the error of every call that can reach the destination is stored in the sticky field; " +
			"(R14.2) every such call is dominated by the nil edge of a test of the sticky field; " +
			"(R14.3) below the API no function drops the error of a destination call (it reaches a return or a sticky store); " +
			"(R14.4) on the failure edges of a destination call no second destination call is reachable; " +
			"(R14.5) after the staging buffer buf.output[:buf.idx] has been handed to the destination successfully, buf.idx is set back to 0 before the function returns or appends more bits (final-block paths excepted: nothing follows them) - otherwise the same bytes are emitted twice and the unchecked 8-byte stores of the encoders run past the 8 KiB buffer. " +
			"These are necessary conditions of 'returns that error, later calls fail without touching the destination again'; they are decided from SSA def-use, dominators and CFG reachability with edge pruning, not by running the writers.",
		NotDecided: []string{
			"never writes outside its own buffers (index arithmetic through unsafe stores and assembly)",
			"if every call returned nil the destination holds a complete valid stream (that is C01)",
			"absence of panics",
		},
	})
}

func isExamples(fn *ssa.Function) bool {
	return fn.Pkg != nil && strings.Contains(fn.Pkg.Pkg.Path(), "/examples/")
}

// isWriterValue: receiver of an io.Writer.Write invoke must be typed io.Writer (not hash.Hash etc.)
func dstDirect(ci CallInfo) (bool, string) {
	ok, what := directDst(ci)
	if ok && ci.IfaceM != nil {
		if typeString(ci.Recv.Type()) != "io.Writer" {
			return false, ""
		}
	}
	return ok, what
}

var dstSetCache = map[*Program]map[*ssa.Function]bool{}

func (p *Program) DstSet() map[*ssa.Function]bool {
	if m, ok := dstSetCache[p]; ok {
		return m
	}
	m := p.reachSet(dstDirect)
	dstSetCache[p] = m
	return m
}

func (p *Program) isDstCall(c ssa.CallInstruction) (bool, string) {
	return p.touchCall(c, dstDirect, p.DstSet())
}

// opMethodOf: is callee one of tr's own op methods?
func ownOp(tr *TypeRole, c ssa.CallInstruction) bool {
	f := c.Common().StaticCallee()
	if f == nil {
		return false
	}
	for _, name := range []string{"Write", "Flush", "Close"} {
		if tr.Ops[name] == f {
			return true
		}
	}
	return recordsItself(tr, c)
}

// recordsItself: the callee is a method of the same receiver every one of whose returns hands back nil or the
// sticky field it has just stored (a helper such as writeHeader() that keeps the failure in z.err itself).
func recordsItself(tr *TypeRole, c ssa.CallInstruction) bool {
	f := c.Common().StaticCallee()
	if f == nil || f.Blocks == nil || f.Signature.Recv() == nil || derefNamed(f.Signature.Recv().Type()) != tr.Named || tr.Sticky == "" {
		return false
	}
	n := 0
	for _, b := range f.Blocks {
		for _, in := range b.Instrs {
			ret, ok := in.(*ssa.Return)
			if !ok {
				continue
			}
			e := returnErr(ret)
			if e == nil {
				return false
			}
			n++
			if isNil(e) || isStickyLoad(e, f.Params[0], tr.Sticky) {
				continue
			}
			// the value returned is the one just stored in the sticky field
			stored := false
			for _, b2 := range f.Blocks {
				for _, in2 := range b2.Instrs {
					if st, ok := in2.(*ssa.Store); ok && st.Val == e && isStickyStore(st, f.Params[0], tr.Sticky) && dominatesInstr(st, ret) {
						stored = true
					}
				}
			}
			if stored {
				continue
			}
			return false
		}
	}
	return n > 0
}

func isStdFlateWriterCall(c ssa.CallInstruction) bool {
	f := c.Common().StaticCallee()
	return f != nil && f.Signature.Recv() != nil && isNamedType(f.Signature.Recv().Type(), stdFlate, "Writer")
}

// stickyStores: stores in fn to recv.<sticky>
func isStickyStore(in ssa.Instruction, recv ssa.Value, sticky string) bool {
	st, ok := in.(*ssa.Store)
	if !ok {
		return false
	}
	root, sel := accessPath(st.Addr)
	return root == recv && sel == "."+sticky
}

func isStickyLoad(v ssa.Value, recv ssa.Value, sticky string) bool {
	return isStickyLoadD(v, recv, sticky, 0)
}

// isStickyLoadD: a load of recv.<sticky>, or the error result of a method called on recv whose every return hands
// back such a load of its own receiver (ensureHeader() error { ...; return z.err }): testing that result is
// testing the sticky field as it stood when the helper returned.
func isStickyLoadD(v ssa.Value, recv ssa.Value, sticky string, depth int) bool {
	if root, sel, ok := fieldLoad(v); ok {
		return root == recv && sel == "."+sticky
	}
	if depth > 2 || v == nil {
		return false
	}
	var call *ssa.Call
	idx := 0
	switch x := v.(type) {
	case *ssa.Call:
		call = x
	case *ssa.Extract:
		if c, ok := x.Tuple.(*ssa.Call); ok {
			call, idx = c, x.Index
		}
	}
	if call == nil || !isErrorType(v.Type()) {
		return false
	}
	h := call.Common().StaticCallee()
	if h == nil || h.Blocks == nil || h.Signature.Recv() == nil || len(call.Common().Args) == 0 || call.Common().Args[0] != recv {
		return false
	}
	n := 0
	for _, b := range h.Blocks {
		for _, in := range b.Instrs {
			ret, ok := in.(*ssa.Return)
			if !ok {
				continue
			}
			if idx >= len(ret.Results) || !isStickyLoadD(ret.Results[idx], h.Params[0], sticky, depth+1) {
				return false
			}
			n++
		}
	}
	return n > 0
}

func ruleR14_1(p *Program, r *Report) {
	wts := p.WriterTypes()
	r.Expect("R14.1", 12)
	if len(wts) < 3 {
		r.Undecided("R14.1", "anchor:writer-types", "-", "three Writer types (deflate, gzip, zlib) expected", "found "+itoa(len(wts)))
	}
	for _, tr := range wts {
		if tr.Sticky == "" {
			r.Fail("R14.1", tr.Named.Obj().Name()+"|sticky-field", p.Pos(tr.Named.Obj().Pos()), "Writer type has exactly one field of type error (the sticky error)", "no unique error field")
			continue
		}
		for _, opn := range []string{"Write", "Flush", "Close"} {
			fn := tr.Ops[opn]
			recv := fn.Params[0]
			lab := newLabeler()
			for _, c := range allCalls(fn) {
				ok, what := p.isDstCall(c)
				if !ok {
					continue
				}
				key := shortFn(fn) + "|" + lab.get(calleeLabel(c))
				desc := "error of destination call (" + what + ") is recorded in ." + tr.Sticky
				if ownOp(tr, c) {
					r.OK("R14.1", key, p.InstrPos(c), desc+" [own op method: recorded by that method, checked there]")
					continue
				}
				if _, has := hasErrorResult(c); !has {
					r.OK("R14.1", key, p.InstrPos(c), "destination call without error result")
					continue
				}
				evs := errorResults(c)
				recorded, returned := false, false
				for _, ev := range evs {
					fl := p.flowForward(ev)
					for _, st := range fl.Stores {
						if isStickyStore(st, recv, tr.Sticky) {
							recorded = true
						}
					}
					if len(fl.Returns) > 0 {
						returned = true
					}
				}
				if recorded {
					r.OK("R14.1", key, p.InstrPos(c), desc)
				} else {
					// (a delegated call into compress/flate.Writer used to be accepted here on the belief that the
					// standard Writer latches every failure itself; it does not - a failure of the final writes of its
					// Close is returned but not latched - see DESIGN.md section 6 #19)
					_ = returned
					why := "the error value never reaches a store to the sticky field"
					if len(evs) == 0 {
						why = "the error result is discarded"
					}
					r.Fail("R14.1", key, p.InstrPos(c), desc, why)
				}
			}
		}
	}
}

// frozen exception of R14.2 (one named construct, with reason)
var r14_2Exceptions = map[string]string{
	"(*zlib.Writer).Write|(*zlib.Writer).writeHeader": "wroteHeader is false only before the first destination access, so no earlier failure can exist",
	"(*zlib.Writer).Flush|(*zlib.Writer).writeHeader": "same",
	"(*zlib.Writer).Close|(*zlib.Writer).writeHeader": "same",
}

func ruleR14_2(p *Program, r *Report) {
	r.Expect("R14.2", 12)
	for _, tr := range p.WriterTypes() {
		if tr.Sticky == "" {
			continue
		}
		for _, opn := range []string{"Write", "Flush", "Close"} {
			fn := tr.Ops[opn]
			recv := fn.Params[0]
			lab := newLabeler()
			for _, c := range allCalls(fn) {
				ok, what := p.isDstCall(c)
				if !ok {
					continue
				}
				key := shortFn(fn) + "|" + lab.get(calleeLabel(c))
				desc := "destination call (" + what + ") is dominated by the nil edge of a test of ." + tr.Sticky
				guarded := false
				for _, f := range dominatingFacts(c) {
					if f.Op == token.EQL && ((isStickyLoad(f.X, recv, tr.Sticky) && isNil(f.Y)) || (f.Y != nil && isStickyLoad(f.Y, recv, tr.Sticky) && isNil(f.X))) {
						guarded = true
					}
				}
				if guarded {
					r.OK("R14.2", key, p.InstrPos(c), desc)
				} else if why, ok := r14_2Exceptions[key]; ok && guardedByFalseField(c, recv, "wroteHeader") && setsFlagBeforeDst(p, c.Common().StaticCallee(), "wroteHeader") {
					r.OK("R14.2", key, p.InstrPos(c), desc+" [exception: under !wroteHeader - "+why+"; the callee sets the flag before its first destination call]")
				} else if h := c.Common().StaticCallee(); h != nil && r14_2HelperGuarded(p, tr, c, recv, 0) {
					r.OK("R14.2", key, p.InstrPos(c), desc+" [inside the private helper "+h.Name()+": each of its destination calls is behind the sticky test or under !wroteHeader with the flag set first]")
				} else {
					r.Fail("R14.2", key, p.InstrPos(c), desc, "no dominating test of the sticky error: the destination can be touched again after a failure")
				}
			}
		}
	}
}

// r14_2HelperGuarded: c calls an unexported method on the same receiver (not one of the operations) in which every
// destination call meets R14.2 itself: behind the nil edge of the sticky test, or the header write under !wroteHeader
// whose callee sets the flag before touching the destination, or again such a helper.
func r14_2HelperGuarded(p *Program, tr *TypeRole, c ssa.CallInstruction, recv ssa.Value, depth int) bool {
	h := c.Common().StaticCallee()
	if depth > 2 || h == nil || h.Blocks == nil || h.Signature.Recv() == nil || h.Object() == nil || h.Object().Exported() || len(c.Common().Args) == 0 || c.Common().Args[0] != recv {
		return false
	}
	for _, opn := range []string{"Write", "Flush", "Close"} {
		if tr.Ops[opn] == h {
			return false
		}
	}
	hrecv := ssa.Value(h.Params[0])
	n := 0
	for _, c2 := range allCalls(h) {
		if ok, _ := p.isDstCall(c2); !ok {
			continue
		}
		n++
		guarded := false
		for _, f := range dominatingFacts(c2) {
			if f.Op == token.EQL && ((isStickyLoad(f.X, hrecv, tr.Sticky) && isNil(f.Y)) || (f.Y != nil && isStickyLoad(f.Y, hrecv, tr.Sticky) && isNil(f.X))) {
				guarded = true
			}
		}
		if guarded {
			continue
		}
		if g := c2.Common().StaticCallee(); g != nil {
			key := "(*" + tr.Named.Obj().Pkg().Name() + "." + tr.Named.Obj().Name() + ").Write|" + shortFn(g)
			if _, ok := r14_2Exceptions[key]; ok && guardedByFalseField(c2, hrecv, "wroteHeader") && setsFlagBeforeDst(p, g, "wroteHeader") {
				continue
			}
		}
		if r14_2HelperGuarded(p, tr, c2, hrecv, depth+1) {
			continue
		}
		return false
	}
	return n > 0
}

// guardedByFalseField: call is dominated by the edge on which recv.<field> is false.
func guardedByFalseField(c ssa.Instruction, recv ssa.Value, field string) bool {
	for _, f := range dominatingFacts(c) {
		if f.Y == nil && f.Op == token.NEQ {
			if root, sel, ok := fieldLoad(f.X); ok && root == recv && sel == "."+field {
				return true
			}
		}
	}
	return false
}

func ruleR14_3(p *Program, r *Report) {
	r.Expect("R14.3", 10)
	opSet := map[*ssa.Function]bool{}
	roleOf := map[*ssa.Function]*TypeRole{}
	for _, tr := range p.WriterTypes() {
		for _, opn := range []string{"Write", "Flush", "Close"} {
			opSet[tr.Ops[opn]] = true
		}
	}
	_ = roleOf
	for _, fn := range p.Funcs() {
		if opSet[fn] || isExamples(fn) || !p.DstSet()[fn] {
			continue
		}
		lab := newLabeler()
		for _, c := range allCalls(fn) {
			ok, what := p.isDstCall(c)
			if !ok {
				continue
			}
			key := shortFn(fn) + "|" + lab.get(calleeLabel(c))
			if _, has := hasErrorResult(c); !has {
				continue
			}
			desc := "error of destination call (" + what + ") reaches a return or a sticky store"
			if fn.Signature.Recv() != nil {
				var own *TypeRole
				for _, tr := range p.WriterTypes() {
					if tr.Named == derefNamed(fn.Signature.Recv().Type()) {
						own = tr
					}
				}
				if own != nil && len(c.Common().Args) > 0 && c.Common().Args[0] == ssa.Value(fn.Params[0]) && ownOp(own, c) {
					r.OK("R14.3", key, p.InstrPos(c), desc+" [own operation of the same Writer: it records its failure in the sticky field itself]")
					continue
				}
			}
			good := false
			for _, ev := range errorResults(c) {
				fl := p.flowForward(ev)
				if len(fl.Returns) > 0 {
					good = true
				}
				for _, st := range fl.Stores {
					if _, sel := accessPath(st.Addr); sel != "" && isErrorType(st.Val.Type()) {
						good = true
					}
				}
			}
			r.Check(good, "R14.3", key, p.InstrPos(c), desc, "the error of a destination write is dropped: the caller cannot learn about the failure")
		}
	}
}

func ruleR14_4(p *Program, r *Report) {
	r.Expect("R14.4", 20)
	roleByType := map[*types.Named]*TypeRole{}
	for _, tr := range p.WriterTypes() {
		roleByType[tr.Named] = tr
	}
	for _, fn := range p.Funcs() {
		if isExamples(fn) || !p.DstSet()[fn] {
			continue
		}
		var tr *TypeRole
		if fn.Signature.Recv() != nil {
			tr = roleByType[derefNamed(fn.Signature.Recv().Type())]
		}
		lab := newLabeler()
		for _, c := range allCalls(fn) {
			ok, what := p.isDstCall(c)
			if !ok {
				continue
			}
			key := shortFn(fn) + "|" + lab.get(calleeLabel(c))
			if _, has := hasErrorResult(c); !has {
				continue
			}
			t := NewErrTrack(p, fn, c, KindNonNil, tr)
			target := func(in ssa.Instruction) bool {
				cc, ok := in.(ssa.CallInstruction)
				if !ok {
					return false
				}
				d, _ := p.isDstCall(cc)
				return d
			}
			found, hit, path := t.Find(target, nil)
			desc := "after a failure of destination call (" + what + ") no further destination call is reachable"
			if found {
				r.Fail("R14.4", key, p.InstrPos(c), desc, "on the failure edges the destination call at "+p.InstrPos(hit)+" ("+calleeLabel(hit.(ssa.CallInstruction))+") is reachable via blocks "+fmtInts(path))
			} else {
				r.OK("R14.4", key, p.InstrPos(c), desc)
			}
		}
	}
}

func fmtInts(a []int) string {
	var sb strings.Builder
	for i, x := range a {
		if i > 0 {
			sb.WriteString(">")
		}
		sb.WriteString(itoa(x))
	}
	return sb.String()
}

// R14.5: the staging index is reset after every successful hand-over of the staging buffer.
func ruleR14_5(p *Program, r *Report) {
	r.Expect("R14.5", 4)
	eff := p.Effects()
	for _, tr := range p.CompressorTypes() {
		for _, fn := range p.Funcs() {
			if fn.Signature.Recv() == nil || derefNamed(fn.Signature.Recv().Type()) != tr.Named {
				continue
			}
			recv := fn.Params[0]
			lab := newLabeler()
			if isPureHandOver(fn) {
				continue // the Write extracted into a helper: judged where the helper is called
			}
			for _, c := range allCalls(fn) {
				idxSel := ""
				if h := c.Common().StaticCallee(); h != nil && h.Blocks != nil && h.Signature.Recv() != nil && len(c.Common().Args) > 0 && c.Common().Args[0] == ssa.Value(recv) && isPureHandOver(h) {
					// the helper's own slice expression, relative to its receiver = this receiver
					for _, hc := range allCalls(h) {
						if d, _ := dstDirect(callInfo(hc)); d {
							if sl, ok := hc.Common().Args[len(hc.Common().Args)-1].(*ssa.Slice); ok {
								_, idxSel, _ = fieldLoad(sl.High)
							}
						}
					}
				}
				if idxSel == "" {
					if d, _ := dstDirect(callInfo(c)); !d {
						continue
					}
					args := c.Common().Args
					if len(args) == 0 {
						continue
					}
					sl, ok := args[len(args)-1].(*ssa.Slice)
					if !ok || sl.High == nil {
						continue
					}
					rootX, selX := accessPath(sl.X)
					_, selH, okH := fieldLoad(sl.High)
					if rootX != recv || !okH || !strings.HasSuffix(selX, ".output") || !strings.HasSuffix(selH, ".idx") {
						continue
					}
					idxSel = selH
				}
				key := shortFn(fn) + "|" + lab.get("hand-over")
				// exempt: the hand-over of a final block (dominated by a boolean parameter known true that is a "final" flag:
				// the parameter that R10.6 identifies flows to eos; here: any bool parameter asserted true together with the call to writeFinalEmptyBlock before it)
				final := false
				for _, o := range allCalls(fn) {
					if staticCalleeNamed(o, deflRel, "BitBuf", "writeFinalEmptyBlock") && dominatesInstr(o, c) && o.Block() == c.Block() {
						final = true
					}
				}
				if final {
					r.OK("R14.5", key, p.InstrPos(c), "hand-over of the final empty block: nothing is appended afterwards")
					continue
				}
				reset := func(in ssa.Instruction) bool {
					st, ok := in.(*ssa.Store)
					if !ok {
						return false
					}
					root, sel := accessPath(st.Addr)
					k, isK := constInt(st.Val)
					return root == recv && sel == idxSel && isK && k == 0
				}
				target := func(in ssa.Instruction) bool {
					if _, ok := in.(*ssa.Return); ok {
						return true
					}
					cc, ok := in.(ssa.CallInstruction)
					if !ok || cc == c {
						return false
					}
					// a call that appends to the staging buffer (its summary writes <buf>.idx)
					for _, g := range func() []*ssa.Function { cs, _ := p.Callees(cc); return cs }() {
						ges, ok := eff.calleeEffects(g)
						if !ok {
							continue
						}
						for ef := range ges {
							if ef.Param < 0 || !strings.HasSuffix(ef.Sel, ".idx") && ef.Sel != ".idx" {
								continue
							}
							var arg ssa.Value
							if cc.Common().IsInvoke() {
								continue
							}
							if ef.Param < len(cc.Common().Args) {
								arg = cc.Common().Args[ef.Param]
							}
							if arg == nil {
								continue
							}
							root, sel := accessPath(arg)
							if root == recv && sel+ef.Sel == idxSel {
								return true
							}
						}
					}
					return false
				}
				t := NewErrTrack(p, fn, c, KindSuccess, nil)
				found, hit, path := t.Find(target, reset)
				why := ""
				if found {
					why = "after a successful hand-over " + describeInstr(p, hit) + " is reached (blocks " + fmtInts(path) + ") with " + idxSel + " still pointing behind the bytes already written: they are emitted again and the buffer fills up"
				}
				r.Check(!found, "R14.5", key, p.InstrPos(c), "after the staging buffer was handed to the destination its index is reset before anything else is appended or the function returns", why)
			}
		}
	}
}

// setsFlagBeforeDst: in fn (a method), the store recv.<flag> = true dominates every destination call.
func setsFlagBeforeDst(p *Program, fn *ssa.Function, flag string) bool {
	if fn == nil || fn.Blocks == nil {
		return false
	}
	recv := fn.Params[0]
	var set ssa.Instruction
	for _, b := range fn.Blocks {
		for _, in := range b.Instrs {
			if st, ok := in.(*ssa.Store); ok {
				if root, sel := accessPath(st.Addr); root == recv && sel == "."+flag {
					if v, isB := constBool(st.Val); isB && v {
						set = in
					}
				}
			}
		}
	}
	if set == nil {
		return false
	}
	for _, c := range allCalls(fn) {
		if d, _ := p.isDstCall(c); d && !dominatesInstr(set, c) {
			return false
		}
	}
	return true
}

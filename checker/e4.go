package main

// E4: constants and composite-literal tables, read from the type-checked syntax (never from text).

import (
	"fmt"
	"go/ast"
	"go/constant"
	"go/types"

	"golang.org/x/tools/go/packages"
	"golang.org/x/tools/go/ssa"
)

func (p *Program) pkgOf(rel string) *packages.Package {
	path := modPath
	if rel != "" {
		path += "/" + rel
	}
	return p.ByPath[path]
}

// globalInitExpr returns the initialiser expression of package-level variable `name`.
func (p *Program) globalInitExpr(rel, name string) (ast.Expr, *packages.Package) {
	pk := p.pkgOf(rel)
	if pk == nil {
		return nil, nil
	}
	for _, f := range pk.Syntax {
		for _, d := range f.Decls {
			gd, ok := d.(*ast.GenDecl)
			if !ok {
				continue
			}
			for _, s := range gd.Specs {
				vs, ok := s.(*ast.ValueSpec)
				if !ok {
					continue
				}
				for i, n := range vs.Names {
					if n.Name == name && i < len(vs.Values) {
						return vs.Values[i], pk
					}
				}
			}
		}
	}
	return nil, pk
}

// litInts evaluates a composite literal of integers (array/slice, positional or keyed by index) into a slice.
func litInts(pk *packages.Package, e ast.Expr) ([]int64, error) {
	cl, ok := ast.Unparen(e).(*ast.CompositeLit)
	if !ok {
		return nil, fmt.Errorf("not a composite literal")
	}
	var out []int64
	idx := 0
	for _, el := range cl.Elts {
		val := el
		if kv, ok := el.(*ast.KeyValueExpr); ok {
			tv, ok := pk.TypesInfo.Types[kv.Key]
			if !ok || tv.Value == nil {
				return nil, fmt.Errorf("non-constant key")
			}
			k, _ := constant.Int64Val(tv.Value)
			idx = int(k)
			val = kv.Value
		}
		tv, ok := pk.TypesInfo.Types[val]
		if !ok || tv.Value == nil {
			return nil, fmt.Errorf("non-constant element %d", idx)
		}
		v, exact := constant.Int64Val(constant.ToInt(tv.Value))
		if !exact {
			u, _ := constant.Uint64Val(constant.ToInt(tv.Value))
			v = int64(u)
		}
		for len(out) <= idx {
			out = append(out, 0)
		}
		out[idx] = v
		idx++
	}
	// fixed-size arrays: pad to the declared length
	if t, ok := pk.TypesInfo.Types[cl]; ok {
		if arr, ok := t.Type.Underlying().(*types.Array); ok {
			for int64(len(out)) < arr.Len() {
				out = append(out, 0)
			}
		}
	}
	return out, nil
}

// litField returns the value expression of field `name` in a struct composite literal.
func litField(e ast.Expr, name string) ast.Expr {
	cl, ok := ast.Unparen(e).(*ast.CompositeLit)
	if !ok {
		return nil
	}
	for _, el := range cl.Elts {
		if kv, ok := el.(*ast.KeyValueExpr); ok {
			if id, ok := kv.Key.(*ast.Ident); ok && id.Name == name {
				return kv.Value
			}
		}
	}
	return nil
}

func (p *Program) globalInts(rel, name string, fields ...string) ([]int64, error) {
	e, pk := p.globalInitExpr(rel, name)
	if e == nil {
		return nil, fmt.Errorf("variable %s not found", name)
	}
	for _, f := range fields {
		e = litField(e, f)
		if e == nil {
			return nil, fmt.Errorf("field %s not found in literal of %s", f, name)
		}
	}
	return litInts(pk, e)
}

// localArrayConsts: the constants stored into a local array of the given length in fn (an array literal assigned to a local).
func localArrayConsts(fn *ssa.Function, length int64) [][]int64 {
	var out [][]int64
	for _, b := range fn.Blocks {
		for _, in := range b.Instrs {
			al, ok := in.(*ssa.Alloc)
			if !ok {
				continue
			}
			arr, ok := derefArray(al.Type())
			if !ok || arr.Len() != length {
				continue
			}
			vals := make([]int64, length)
			n := 0
			if refs := al.Referrers(); refs != nil {
				for _, u := range *refs {
					ia, ok := u.(*ssa.IndexAddr)
					if !ok {
						continue
					}
					k, isK := constInt(ia.Index)
					if !isK || ia.Referrers() == nil {
						continue
					}
					for _, u2 := range *ia.Referrers() {
						if st, ok := u2.(*ssa.Store); ok {
							if v, isV := constInt(st.Val); isV {
								vals[k] = v
								n++
							}
						}
					}
				}
			}
			if n > 0 {
				out = append(out, vals)
			}
		}
	}
	return out
}

func eqInts(a, b []int64) bool {
	if len(a) != len(b) {
		return false
	}
	for i := range a {
		if a[i] != b[i] {
			return false
		}
	}
	return true
}

// RFC 1951 reference data (embedded oracle)
var (
	rfcCodeLengthOrder = []int64{16, 17, 18, 0, 8, 7, 9, 6, 10, 5, 11, 4, 12, 3, 13, 2, 14, 1, 15}
	rfcDistBase        = []int64{1, 2, 3, 4, 5, 7, 9, 13, 17, 25, 33, 49, 65, 97, 129, 193, 257, 385, 513, 769, 1025, 1537, 2049, 3073, 4097, 6145, 8193, 12289, 16385, 24577}
	rfcDistExtra       = []int64{0, 0, 0, 0, 1, 1, 2, 2, 3, 3, 4, 4, 5, 5, 6, 6, 7, 7, 8, 8, 9, 9, 10, 10, 11, 11, 12, 12, 13, 13}
	rfcLenBase         = []int64{3, 4, 5, 6, 7, 8, 9, 10, 11, 13, 15, 17, 19, 23, 27, 31, 35, 43, 51, 59, 67, 83, 99, 115, 131, 163, 195, 227, 258}
	rfcLenExtra        = []int64{0, 0, 0, 0, 0, 0, 0, 0, 1, 1, 1, 1, 2, 2, 2, 2, 3, 3, 3, 3, 4, 4, 4, 4, 5, 5, 5, 5, 0}
)

package main

// Shared vocabulary of the rules (DESIGN.md section 3): who is a Writer/Reader type, which
// field is the sticky error, which calls touch the destination / the source.

import (
	"go/types"
	"sort"

	"golang.org/x/tools/go/ssa"
)

type TypeRole struct {
	Named  *types.Named
	Struct *types.Struct
	Rel    string // package path relative to module
	Sticky string // name of the unique field of type error ("" if none)
	Ops    map[string]*ssa.Function
}

func hasMethod(p *Program, n *types.Named, name string, check func(sig *types.Signature) bool) *ssa.Function {
	ms := p.Prog.MethodSets.MethodSet(types.NewPointer(n))
	for i := 0; i < ms.Len(); i++ {
		sel := ms.At(i)
		if sel.Obj().Name() != name {
			continue
		}
		fn := p.Prog.MethodValue(sel)
		if fn == nil {
			continue
		}
		if fn.Synthetic != "" {
			if m, ok := sel.Obj().(*types.Func); ok {
				if d := p.Prog.FuncValue(m); d != nil {
					fn = d
				}
			}
		}
		if fn.Blocks == nil {
			continue
		}
		if check == nil || check(fn.Signature) {
			return fn
		}
	}
	return nil
}

func sigIs(params []string, results []string) func(*types.Signature) bool {
	return func(sig *types.Signature) bool {
		if sig.Params().Len() != len(params) || sig.Results().Len() != len(results) {
			return false
		}
		for i, s := range params {
			if typeString(sig.Params().At(i).Type()) != s {
				return false
			}
		}
		for i, s := range results {
			if typeString(sig.Results().At(i).Type()) != s {
				return false
			}
		}
		return true
	}
}

func relPath(pkg *types.Package) string {
	path := pkg.Path()
	if path == modPath {
		return ""
	}
	if len(path) > len(modPath) {
		return path[len(modPath)+1:]
	}
	return path
}

func makeRole(p *Program, n *types.Named) *TypeRole {
	st, _ := n.Underlying().(*types.Struct)
	if st == nil {
		return nil
	}
	tr := &TypeRole{Named: n, Struct: st, Rel: relPath(n.Obj().Pkg()), Ops: map[string]*ssa.Function{}}
	errs := structFields(st, isErrorType)
	if len(errs) == 1 {
		tr.Sticky = errs[0]
	}
	return tr
}

// WriterTypes: exported-API writer types: Write([]byte)(int,error), Flush() error, Close() error, Reset(io.Writer).
func (p *Program) WriterTypes() []*TypeRole {
	var out []*TypeRole
	for _, n := range p.AllNamed() {
		w := hasMethod(p, n, "Write", sigIs([]string{"[]byte"}, []string{"int", "error"}))
		f := hasMethod(p, n, "Flush", sigIs(nil, []string{"error"}))
		c := hasMethod(p, n, "Close", sigIs(nil, []string{"error"}))
		rs := hasMethod(p, n, "Reset", sigIs([]string{"io.Writer"}, nil))
		if w == nil || f == nil || c == nil || rs == nil {
			continue
		}
		tr := makeRole(p, n)
		if tr == nil {
			continue
		}
		tr.Ops["Write"], tr.Ops["Flush"], tr.Ops["Close"], tr.Ops["Reset"] = w, f, c, rs
		out = append(out, tr)
	}
	return out
}

// CompressorTypes: implementations of deflate.LevelCompressor.
func (p *Program) CompressorTypes() []*TypeRole {
	ln := p.Named("compress/flate/internal/deflate", "LevelCompressor")
	if ln == nil {
		return nil
	}
	iface, _ := ln.Underlying().(*types.Interface)
	var out []*TypeRole
	for _, n := range p.AllNamed() {
		if _, isI := n.Underlying().(*types.Interface); isI {
			continue
		}
		if !types.Implements(types.NewPointer(n), iface) {
			continue
		}
		tr := makeRole(p, n)
		if tr == nil {
			continue
		}
		for _, m := range []string{"Reset", "Accumulate", "Compress", "Flush", "Close"} {
			tr.Ops[m] = hasMethod(p, n, m, nil)
		}
		out = append(out, tr)
	}
	return out
}

// ReaderTypes: types with Read([]byte)(int,error) and Close() error declared in flate, gzip, zlib.
func (p *Program) ReaderTypes() []*TypeRole {
	var out []*TypeRole
	for _, n := range p.AllNamed() {
		rd := hasMethod(p, n, "Read", sigIs([]string{"[]byte"}, []string{"int", "error"}))
		c := hasMethod(p, n, "Close", sigIs(nil, []string{"error"}))
		if rd == nil || c == nil {
			continue
		}
		tr := makeRole(p, n)
		if tr == nil {
			continue
		}
		tr.Ops["Read"], tr.Ops["Close"] = rd, c
		if rs := hasMethod(p, n, "Reset", nil); rs != nil {
			tr.Ops["Reset"] = rs
		}
		out = append(out, tr)
	}
	return out
}

// ---------- destination / source touching calls ----------

const stdFlate = "compress/flate"

// directDst: does this call hand bytes to (or flush/close) the destination outside the repository?
func directDst(ci CallInfo) (bool, string) {
	if isIfaceMethod(ci, "io", "Write") {
		return true, "io.Writer.Write"
	}
	if isFunc(ci.Static, "io", "WriteString") {
		return true, "io.WriteString"
	}
	for _, m := range []string{"Write", "Flush", "Close"} {
		if isMethodOf(ci.Static, stdFlate, "Writer", m) {
			return true, "std flate.(*Writer)." + m
		}
	}
	return false, ""
}

// directSrc: does this call acquire bytes from the source outside the repository?
func directSrc(ci CallInfo) (bool, string) {
	for _, m := range []string{"Peek", "Discard", "ReadByte", "Read", "ReadString", "ReadBytes", "ReadSlice", "ReadRune", "ReadLine", "WriteTo"} {
		if isMethodOf(ci.Static, "bufio", "Reader", m) {
			return true, "(*bufio.Reader)." + m
		}
	}
	for _, f := range []string{"ReadFull", "ReadAtLeast", "ReadAll", "Copy", "CopyN"} {
		if isFunc(ci.Static, "io", f) {
			return true, "io." + f
		}
	}
	if isFunc(ci.Static, "encoding/binary", "Read") {
		return true, "binary.Read"
	}
	if isIfaceMethod(ci, "io", "Read") || isIfaceMethod(ci, "io", "ReadByte") {
		return true, ci.FullName
	}
	return false, ""
}

// reachSet computes the set of repository functions from which a call satisfying `direct` is
// reachable through resolved calls.
func (p *Program) reachSet(direct func(CallInfo) (bool, string)) map[*ssa.Function]bool {
	set := map[*ssa.Function]bool{}
	callers := map[*ssa.Function][]*ssa.Function{}
	for _, fn := range p.Funcs() {
		for _, c := range allCalls(fn) {
			if ok, _ := direct(callInfo(c)); ok {
				set[fn] = true
			}
			cs, _ := p.Callees(c)
			for _, cal := range cs {
				callers[cal] = append(callers[cal], fn)
			}
		}
		// closures created inside fn count as reachable from fn
		for _, a := range fn.AnonFuncs {
			callers[a] = append(callers[a], fn)
		}
	}
	var work []*ssa.Function
	for f := range set {
		work = append(work, f)
	}
	for len(work) > 0 {
		f := work[len(work)-1]
		work = work[:len(work)-1]
		for _, c := range callers[f] {
			if !set[c] {
				set[c] = true
				work = append(work, c)
			}
		}
	}
	return set
}

var touchDstCache = map[*Program]map[*ssa.Function]bool{}
var touchSrcCache = map[*Program]map[*ssa.Function]bool{}

func (p *Program) TouchDst() map[*ssa.Function]bool {
	if m, ok := touchDstCache[p]; ok {
		return m
	}
	m := p.reachSet(directDst)
	touchDstCache[p] = m
	return m
}

func (p *Program) TouchSrc() map[*ssa.Function]bool {
	if m, ok := touchSrcCache[p]; ok {
		return m
	}
	m := p.reachSet(directSrc)
	touchSrcCache[p] = m
	return m
}

// touchCall: is this call instruction a destination touch (direct, or into a repo function that touches)?
func (p *Program) touchCall(c ssa.CallInstruction, direct func(CallInfo) (bool, string), set map[*ssa.Function]bool) (bool, string) {
	ci := callInfo(c)
	if ok, what := direct(ci); ok {
		return true, what
	}
	cs, _ := p.Callees(c)
	var names []string
	for _, f := range cs {
		if set[f] {
			names = append(names, shortFn(f))
		}
	}
	if len(names) > 0 {
		sort.Strings(names)
		s := names[0]
		if len(names) > 1 {
			s += " (+" + itoa(len(names)-1) + " more)"
		}
		return true, s
	}
	return false, ""
}

func itoa(i int) string {
	if i == 0 {
		return "0"
	}
	neg := i < 0
	if neg {
		i = -i
	}
	var b []byte
	for i > 0 {
		b = append([]byte{byte('0' + i%10)}, b...)
		i /= 10
	}
	if neg {
		b = append([]byte{'-'}, b...)
	}
	return string(b)
}

// calleeLabel gives a stable, line-free label for a call: the callee's name (static),
// interface method (invoke), or the global it is loaded from.
func calleeLabel(c ssa.CallInstruction) string {
	ci := callInfo(c)
	if ci.Static != nil {
		return shortFn(ci.Static)
	}
	if ci.IfaceM != nil {
		recv := ""
		if _, sel, ok := fieldLoad(ci.Recv); ok {
			recv = sel
		}
		return "invoke" + recv + "." + ci.IfaceM.Name()
	}
	if g := globalLoad(c.Common().Value); g != nil {
		return "via " + g.Name()
	}
	return ci.FullName
}

// nthLabel disambiguates repeated identical labels within a function in program order: label, label#2, ...
type labeler struct{ seen map[string]int }

func newLabeler() *labeler { return &labeler{seen: map[string]int{}} }
func (l *labeler) get(s string) string {
	l.seen[s]++
	if l.seen[s] == 1 {
		return s
	}
	return s + "#" + itoa(l.seen[s])
}

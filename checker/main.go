// fgcheck: repository-specific static analysis deciding structural clauses of the
// fastgo properties C01..C19 (see /verif/DESIGN.md). Nothing here runs fastgo.
package main

import (
	"flag"
	"fmt"
	"os"
	"path/filepath"
	"sort"
	"strconv"
	"sync"
	"time"
)

// A Rule examines one loaded configuration and records obligations.
type Rule struct {
	ID      string
	Configs string // "all" (every loaded config), "asm" (only configs with assembly arms), "first" (C0 only)
	Run     func(p *Program, r *Report)
}

type PropSpec struct {
	ID          string
	Rules       []Rule
	Explanation string
	NotDecided  []string
	Assumptions []string
}

var registry = map[string]*PropSpec{}

func register(s *PropSpec) { registry[s.ID] = s }

var commonAssumptions = []string{
	"go/packages + go/types + go/ssa (x/tools v0.29.0) represent /repo's source faithfully",
	"code outside the repository (std library) behaves as documented; calls leaving the repository are classified by their callee, not analysed",
	"build configurations analysed are the ones named in coverage.configs",
}

func main() {
	root := flag.String("root", "/repo", "repository root")
	prop := flag.String("prop", "", "property id (C01..C19) or 'all'")
	tier := flag.String("tier", "quick", "quick|thorough")
	verif := flag.String("verif", "/verif", "verification directory (evidence, known findings)")
	replay := flag.String("replay", "", "replay file: re-run the property it names and print its findings")
	list := flag.Bool("list", false, "list properties and rules")
	controls := flag.String("controls", "/verif/checker/controls", "positive-control module")
	anchorsFile := flag.String("anchors", "/verif/checker/anchors.json", "recorded shapes of the repository's functions (rename fallback)")
	dumpAnchors := flag.String("dump-anchors", "", "write the shapes of all repository functions (all configurations) to this file and exit")
	flag.Parse()
	t0 := time.Now()

	if *list {
		var ids []string
		for id := range registry {
			ids = append(ids, id)
		}
		sort.Strings(ids)
		for _, id := range ids {
			fmt.Printf("%s:", id)
			for _, ru := range registry[id].Rules {
				fmt.Printf(" %s", ru.ID)
			}
			fmt.Println()
		}
		return
	}
	if *replay != "" {
		id, err := replayProp(*replay)
		if err != nil {
			fmt.Println("ERROR", err)
			os.Exit(2)
		}
		*prop = id
	}
	if env := os.Getenv("VERIF_TIER"); env != "" && flag.Lookup("tier").Value.String() == "quick" {
		// explicit flag wins; the variable only fills the default
	}
	seed, _ := strconv.ParseInt(os.Getenv("VERIF_SEED"), 10, 64)
	abs, err := filepath.Abs(*root)
	if err != nil {
		fmt.Println("ERROR", err)
		os.Exit(2)
	}
	if l, err := filepath.EvalSymlinks(abs); err == nil {
		abs = l
	}

	var props []string
	if *prop == "all" {
		for id := range registry {
			props = append(props, id)
		}
		sort.Strings(props)
	} else {
		if registry[*prop] == nil {
			fmt.Printf("ERROR unknown property %q\n", *prop)
			os.Exit(2)
		}
		props = []string{*prop}
	}

	cfgs := []Config{cfgC0, cfgC1}
	if *tier == "thorough" {
		cfgs = append(cfgs, cfgC2, cfgC3)
	}
	progs := make([]*Program, len(cfgs))
	errs := make([]error, len(cfgs))
	var wg sync.WaitGroup
	for i := range cfgs {
		wg.Add(1)
		go func(i int) {
			defer wg.Done()
			progs[i], errs[i] = Load(abs, cfgs[i])
		}(i)
	}
	wg.Wait()
	if *dumpAnchors != "" {
		all := []Config{cfgC0, cfgC1, cfgC2, cfgC3}
		ps := make([]*Program, len(all))
		for i := range all {
			ps[i], _ = Load(abs, all[i])
		}
		if err := DumpAnchors(ps, *dumpAnchors); err != nil {
			fmt.Println("ERROR", err)
			os.Exit(2)
		}
		return
	}
	loadAnchorShapes(*anchorsFile)
	exit := 0
	for _, id := range props {
		spec := registry[id]
		r := NewReport(id, *tier, seed)
		r.Start = t0
		for i, p := range progs {
			r.cur = cfgs[i].Name
			if errs[i] != nil {
				r.Undecided("LOAD", "load:"+cfgs[i].Name, "-", "configuration must load and type-check", errs[i].Error())
				continue
			}
			r.Configs = append(r.Configs, cfgs[i].Name)
			if len(p.Funcs()) > r.Funcs {
				r.Funcs = len(p.Funcs())
			}
			for _, ru := range spec.Rules {
				if ru.Configs == "asm" && !cfgs[i].Asm {
					continue
				}
				if ru.Configs == "first" && i != 0 {
					continue
				}
				runRule(ru, p, r)
			}
		}
		runControls(spec, r, *controls)
		if spec.ID != "" && *tier == "thorough" {
			runThoroughExtras(spec, progs, cfgs, r, abs)
			if os.Getenv("FG_NO_SELFTEST") == "" {
				r.SelfTest = runSelfTest(spec, abs, *verif)
			}
		}
		seenNote := map[string]bool{}
		for _, n := range anchorNotes {
			if !seenNote[n] {
				seenNote[n] = true
				r.Note("%s", n)
			}
		}
		code := r.Finish(*verif, spec.Explanation, spec.NotDecided, append(append([]string{}, commonAssumptions...), spec.Assumptions...))
		if code > exit {
			exit = code
		}
	}
	os.Exit(exit)
}

// runRule isolates panics of one rule: a crash is an UNDECIDED obligation, never a pass.
// activeProg is the program the rule currently running analyses (rules run one at a time).
var activeProg *Program

func runRule(ru Rule, p *Program, r *Report) {
	activeProg = p
	defer func() {
		if e := recover(); e != nil {
			r.Undecided(ru.ID, "panic", "-", "rule must run to completion", fmt.Sprint(e))
		}
	}()
	ru.Run(p, r)
}

func replayProp(path string) (string, error) {
	b, err := os.ReadFile(path)
	if err != nil {
		return "", err
	}
	var v struct {
		Property string `json:"property"`
	}
	if err := jsonUnmarshal(b, &v); err != nil {
		return "", err
	}
	if v.Property == "" {
		return "", fmt.Errorf("no property in %s", path)
	}
	return v.Property, nil
}

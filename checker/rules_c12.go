package main

// C12 / C13 - Reset completeness (R12.1, R12.2, R13.1, R13.2).

import (
	"go/token"
	"go/types"
	"sort"
	"strings"

	"golang.org/x/tools/go/ssa"
)

func init() {
	register(&PropSpec{
		ID: "C12",
		Rules: []Rule{
			{ID: "R12.1", Configs: "all", Run: func(p *Program, r *Report) { ruleResetComplete(p, r, "R12.1", writerStateTypes, 9) }},
			{ID: "R12.2", Configs: "all", Run: func(p *Program, r *Report) { ruleNestedReset(p, r, "R12.2", writerStateTypes) }},
		},
		Explanation: "Decides Reset completeness for the nine stateful writer-side types (deflate.Writer, dynCompressor, huffmanOnly, level1context, level2context, BitBuf, histogram, gzip.Writer, zlib.Writer): every access path that any function holding a pointer to the object may write (field-effect summaries closed over resolved calls, assembly routines by their confirmed write sets) is re-initialised by Reset on every success path - by a store, a whole-object store, or a call whose summary writes it - unless the path is in the scratch table (each line with its reason) or is a nil-guarded lazy initialisation whose object Reset resets (R12.2). " +
			"A field that operations mutate and Reset forgets makes a reused Writer differ from a new one for some history; that is the clause decided. Equality of the reset values with the constructor's values is checked only in so far as a covering write exists.",
		NotDecided: []string{
			"that the values Reset stores equal those of a fresh object (byte-identical output after Reset)",
			"scratch-table entries are justified by reading, not by the checker",
			"must-coverage is decided in the Reset method itself; inside callees (BitBuf.reset, histogram.reset ...) may-write summaries are used",
		},
	})
	register(&PropSpec{
		ID: "C13",
		Rules: []Rule{
			{ID: "R13.1", Configs: "all", Run: func(p *Program, r *Report) { ruleResetComplete(p, r, "R13.1", readerStateTypes, 4) }},
			{ID: "R13.2", Configs: "all", Run: ruleR13_2},
			{ID: "R13.3", Configs: "all", Run: func(p *Program, r *Report) { ruleNestedReset(p, r, "R13.3", readerStateTypes) }},
		},
		Explanation: "Decides Reset completeness for the reader-side types (flate.decompressor with its inflate state, gzip.Reader, zlib.reader): every access path written by any function holding the object is re-initialised by Reset on every success path, except scratch lines with reasons (the history buffer contents are scratch only because the write position restarts at 0, which is itself required); " +
			"and (R13.2) a Resetter implementation that ignores its dictionary argument is only ever called with a nil dictionary, so a preset dictionary passed to zlib's Reset cannot be dropped silently.",
		NotDecided: []string{
			"that stale table/history contents can never be observed (that is R03.1 and the look-back test, C03)",
			"equality of results with a fresh Reader",
		},
	})
}

type stateType struct {
	rel, name string
}

var writerStateTypes = []stateType{
	{"compress/flate/internal/deflate", "Writer"},
	{"compress/flate/internal/deflate", "dynCompressor"},
	{"compress/flate/internal/deflate", "huffmanOnly"},
	{"compress/flate/internal/deflate", "level1context"},
	{"compress/flate/internal/deflate", "level2context"},
	{"compress/flate/internal/deflate", "BitBuf"},
	{"compress/flate/internal/deflate", "histogram"},
	{"compress/gzip", "Writer"},
	{"compress/zlib", "Writer"},
}

var readerStateTypes = []stateType{
	{"compress/flate", "decompressor"},
	{"compress/flate", "inflate"},
	{"compress/gzip", "Reader"},
	{"compress/zlib", "reader"},
}

// scratch table: type -> selector prefix -> reason. A path under such a prefix need not be reset.
var scratchTable = map[string]map[string]string{
	"dynCompressor": {
		".buffer[*]":     "input window: only [0,end) is ever read and Accumulate rewrites it from 0 after Reset (end=0)",
		".buf.output":    "slice header narrowed by 8 bytes around the encoder call and restored before encodeBlock returns",
		".buf.output[*]": "output staging bytes: written before they are handed to the destination, up to idx",
		".hdr^":          "dynamic-header scratch: prepareAlphabets/writeTo recompute every field from the histogram before use",
		".litGen^":       "Huffman generator scratch: Generate re-initialises its queues from the histogram",
		".distGen^":      "Huffman generator scratch: Generate re-initialises its queues from the histogram",
	},
	"huffmanOnly": {
		".buffer[*]":     "input block buffer: only [0,offset) is read; offset restarts at 0",
		".buf.output[*]": "output staging bytes: written before they are handed to the destination",
		".hdr^":          "dynamic-header scratch, recomputed by writeTo before use",
		".litGen^":       "Huffman generator scratch",
		".hist":          "histogram/code table: bytesFreq + reduceCounts rebuild it from the block's bytes in encodeBlock before use",
	},
	"BitBuf": {
		".output[*]": "output staging bytes: written before they are read, up to idx",
		".output":    "slice header narrowed by 8 bytes around the encoder call in dynCompressor.encodeBlock and restored before it returns",
	},
	"decompressor": {
		".historyBuffer[*]": "history bytes: readable only inside [writePos-dist, writePos) and the look-back test bounds dist by the write position - sound because writePos restarts at 0 (required separately)",
	},
	"inflate": {
		".litLenTable":     "lookup table rebuilt by readHeader for every block (phase restarts at phaseNewBlock); stale entries are R03.1's concern",
		".distTable":       "lookup table rebuilt by readHeader for every block",
		".dynHdr":          "header-parsing scratch, cleared/rebuilt by setupDynamicHeader",
		".headerBuffer[*]": "staging bytes valid only below headerBuffered, which restarts at 0",
	},
	"Reader": {},
	"reader": {},
}

// aliases: type -> selector prefix -> canonical prefix (checked by aliasChecked)
var aliasTable = map[string]map[string]string{
	"dynCompressor": {".hist^": ".lz77~.hist"},
}

func findReset(p *Program, n *types.Named) *ssa.Function {
	for _, name := range []string{"Reset", "reset"} {
		if fn := hasMethod(p, n, name, nil); fn != nil {
			// a Reset that only forwards to one helper of the same receiver (gzip.Writer.Reset -> init):
			// the helper is where the paths have to be judged
			if len(fn.Blocks) == 1 {
				var only *ssa.Function
				cnt := 0
				for _, c := range allCalls(fn) {
					cnt++
					if f := c.Common().StaticCallee(); f != nil && f.Blocks != nil && f.Signature.Recv() != nil && len(c.Common().Args) > 0 && c.Common().Args[0] == ssa.Value(fn.Params[0]) {
						only = f
					}
				}
				stores := 0
				for _, in := range fn.Blocks[0].Instrs {
					if _, ok := in.(*ssa.Store); ok {
						stores++
					}
				}
				if cnt == 1 && only != nil && stores == 0 {
					return only
				}
			}
			return fn
		}
	}
	return nil
}

func normSel(tname, s string) string {
	for from, to := range aliasTable[tname] {
		if strings.HasPrefix(s, from) {
			return to + s[len(from):]
		}
	}
	return s
}

// nestedTypes: repository struct types reachable at the first field of selector s from type n
// (through a by-value struct, a pointer, or an interface implemented by repository types).
func (p *Program) firstFieldTypes(n *types.Named, s string) (field string, rest string, nested []*types.Named) {
	if !strings.HasPrefix(s, ".") {
		return "", "", nil
	}
	end := len(s)
	for i := 1; i < len(s); i++ {
		if s[i] == '.' || s[i] == '[' || s[i] == '^' || s[i] == '~' {
			end = i
			break
		}
	}
	field = s[1:end]
	rest = s[end:]
	st, _ := n.Underlying().(*types.Struct)
	if st == nil {
		return field, rest, nil
	}
	for i := 0; i < st.NumFields(); i++ {
		if st.Field(i).Name() != field {
			continue
		}
		ft := types.Unalias(st.Field(i).Type())
		if pt, ok := ft.(*types.Pointer); ok {
			ft = types.Unalias(pt.Elem())
		}
		if nn, ok := ft.(*types.Named); ok {
			if iface, isI := nn.Underlying().(*types.Interface); isI {
				for _, c := range p.AllNamed() {
					if _, ci := c.Underlying().(*types.Interface); ci {
						continue
					}
					if types.Implements(types.NewPointer(c), iface) || types.Implements(c, iface) {
						nested = append(nested, c)
					}
				}
			} else if _, isS := nn.Underlying().(*types.Struct); isS && nn.Obj().Pkg() != nil && strings.HasPrefix(nn.Obj().Pkg().Path(), modPath) {
				nested = append(nested, nn)
			}
		}
	}
	if strings.HasPrefix(rest, "^") || strings.HasPrefix(rest, "~") {
		rest = rest[1:]
	}
	return field, rest, nested
}

func hasFieldPath(n *types.Named, s string) bool {
	if !strings.HasPrefix(s, ".") {
		return true
	}
	end := len(s)
	for i := 1; i < len(s); i++ {
		if s[i] == '.' || s[i] == '[' || s[i] == '^' || s[i] == '~' {
			end = i
			break
		}
	}
	st, _ := n.Underlying().(*types.Struct)
	if st == nil {
		return false
	}
	for i := 0; i < st.NumFields(); i++ {
		if st.Field(i).Name() == s[1:end] {
			return true
		}
	}
	return false
}

// scratchReason: is selector s of type n covered by the scratch table (directly or through a nested object)?
func (p *Program) scratchReason(n *types.Named, s string, depth int) (string, bool) {
	if depth > 6 {
		return "", false
	}
	for pre, why := range scratchTable[n.Obj().Name()] {
		if covers(pre, s) || (strings.HasPrefix(s, pre) && (strings.HasSuffix(pre, "^") || strings.HasSuffix(pre, "~"))) {
			return why, true
		}
	}
	return "", false
}

// lazyInit: every store of receiver field `field` performed by the operations of type n is dominated by field == nil.
func (p *Program) lazyInitOnly(n *types.Named, field string, reset *ssa.Function) bool {
	// only a field that holds an object (pointer or interface) can be "created on first use and kept"
	if st, ok := n.Underlying().(*types.Struct); ok {
		okT := false
		for i := 0; i < st.NumFields(); i++ {
			if st.Field(i).Name() == field {
				switch types.Unalias(st.Field(i).Type()).Underlying().(type) {
				case *types.Pointer, *types.Interface:
					okT = true
				}
			}
		}
		if !okT {
			return false
		}
	}
	found := false
	for _, fn := range p.Funcs() {
		if fn == reset || fn.Signature.Recv() == nil || derefNamed(fn.Signature.Recv().Type()) != n {
			continue
		}
		if p.reachableFromOnly(fn, reset) {
			continue
		}
		recv := fn.Params[0]
		for _, b := range fn.Blocks {
			for _, in := range b.Instrs {
				st, ok := in.(*ssa.Store)
				if !ok {
					continue
				}
				root, sel := accessPath(st.Addr)
				if root != recv || sel != "."+field {
					continue
				}
				found = true
				guarded := false
				for _, f := range dominatingFacts(st) {
					if f.Op == token.EQL && f.Y != nil {
						for _, pair := range [][2]ssa.Value{{f.X, f.Y}, {f.Y, f.X}} {
							r2, s2, ok := fieldLoad(pair[0])
							if !ok || r2 != recv || !isNil(pair[1]) {
								continue
							}
							if s2 == "."+field {
								guarded = true
							} else {
								// created together with another lazily created object: that object is stored under the same guard
								for _, b2 := range fn.Blocks {
									for _, in2 := range b2.Instrs {
										st2, ok := in2.(*ssa.Store)
										if !ok {
											continue
										}
										if r3, s3 := accessPath(st2.Addr); r3 == recv && s3 == s2 {
											for _, f2 := range dominatingFacts(st2) {
												if f2 == f {
													guarded = true
												}
											}
										}
									}
								}
							}
						}
					}
				}
				if !guarded {
					return false
				}
			}
		}
	}
	return found
}

// reachableFromOnly: fn is called only from `only` (helper of Reset such as gzip's init).
func (p *Program) reachableFromOnly(fn, only *ssa.Function) bool {
	callers := 0
	for _, g := range p.Funcs() {
		for _, c := range allCalls(g) {
			cs, _ := p.Callees(c)
			for _, x := range cs {
				if x == fn {
					if g != only && !(g == fn) {
						return false
					}
					callers++
				}
			}
		}
	}
	return callers > 0
}

func ruleResetComplete(p *Program, r *Report, rule string, list []stateType, minTypes int) {
	r.Expect(rule, minTypes*2)
	eff := p.Effects()
	for _, st := range list {
		n := p.Named(st.rel, st.name)
		if n == nil {
			r.Undecided(rule, st.name+"|type", "-", "stateful type exists", "not found in "+st.rel)
			continue
		}
		tname := n.Obj().Name()
		reset := findReset(p, n)
		pre := "" // path of the object inside the receiver of the Reset that is judged
		if reset == nil {
			// a stateful type without a reset of its own that lives by value in exactly one other object is
			// re-initialised by that owner's Reset, written out in place
			var owners []*ssa.Function
			for _, o := range p.AllNamed() {
				ost, ok := o.Underlying().(*types.Struct)
				if !ok || o == n {
					continue
				}
				for i := 0; i < ost.NumFields(); i++ {
					if types.Identical(ost.Field(i).Type(), n) {
						if or := findReset(p, o); or != nil {
							owners = append(owners, or)
							pre = "." + ost.Field(i).Name()
						}
					}
				}
			}
			if len(owners) == 1 {
				reset = owners[0]
			}
		}
		if reset == nil {
			r.Undecided(rule, tname+"|Reset", p.Pos(n.Obj().Pos()), "type has a Reset/reset method, or lives by value in exactly one object that has", "not found")
			continue
		}
		inObj := func(sel string) (string, bool) {
			if pre == "" {
				return sel, true
			}
			if sel == pre {
				return "", true
			}
			if strings.HasPrefix(sel, pre) && (sel[len(pre)] == '.' || sel[len(pre)] == '[') {
				return sel[len(pre):], true
			}
			return "", false
		}
		// operations: every repository function with a parameter of type *T/T, except Reset and its private helpers
		opsW := map[string][]string{} // selector -> writers
		for _, fn := range p.Funcs() {
			if fn == reset || isExamples(fn) {
				continue
			}
			if p.reachableFromOnly(fn, reset) {
				continue
			}
			for _, i := range paramsOfType(fn, n) {
				for _, sel := range eff.ParamWrites(fn, i) {
					s := normSel(tname, sel)
					opsW[s] = append(opsW[s], shortFn(fn))
				}
			}
		}
		// writes performed by any function directly into an object of this type that is nested in another object
		for s, ws := range p.nestedDirectWrites(n) {
			opsW[s] = append(opsW[s], ws...)
		}
		// what lies inside a nested stateful object is that object's business (its own instance of this rule,
		// and the nested-reset rule for the owner)
		for s := range opsW {
			if p.crossesNested(n, s, list) {
				delete(opsW, s)
			}
		}
		if len(eff.Unknown[reset]) > 0 {
			r.Undecided(rule, tname+"|reset-summary", p.Pos(reset.Pos()), "Reset's callees are all resolved", strings.Join(eff.Unknown[reset], "; "))
		}
		recv := reset.Params[0]
		// covering instructions of Reset for a selector
		coverInstr := func(s string) func(ssa.Instruction) bool {
			return func(in ssa.Instruction) bool {
				switch x := in.(type) {
				case *ssa.Store:
					root, sel := accessPath(x.Addr)
					if root != recv {
						return false
					}
					var in bool
					if sel, in = inObj(sel); !in {
						return false
					}
					sel = normSel(tname, sel)
					if covers(sel, s) {
						return true
					}
					// a store of a fresh object into a pointer/interface field covers what hangs below it
					if strings.HasPrefix(s, sel) && len(s) > len(sel) && (s[len(sel)] == '^' || s[len(sel)] == '~') && sel != "" {
						return p.isFresh(x.Val)
					}
					return false
				case ssa.CallInstruction:
					com := x.Common()
					if _, ok := com.Value.(*ssa.Builtin); ok {
						return false
					}
					callees, _ := p.Callees(x)
					for _, g := range callees {
						ges, ok := eff.calleeEffects(g)
						if !ok {
							continue
						}
						for ef := range ges {
							if ef.Param < 0 {
								continue
							}
							var arg ssa.Value
							if com.IsInvoke() {
								if ef.Param == 0 {
									arg = com.Value
								} else if ef.Param-1 < len(com.Args) {
									arg = com.Args[ef.Param-1]
								}
							} else if ef.Param < len(com.Args) {
								arg = com.Args[ef.Param]
							}
							if arg == nil {
								continue
							}
							root, sel := accessPath(arg)
							if root != recv {
								continue
							}
							var in bool
							if sel, in = inObj(sel); !in {
								continue
							}
							if _, isI := arg.Type().Underlying().(*types.Interface); isI {
								sel += "~"
							}
							if covers(normSel(tname, sel+ef.Sel), s) {
								return true
							}
						}
					}
					// delegation: Reset of a standard-library object held in a field takes over in that mode
					if f := com.StaticCallee(); f != nil && f.Name() == "Reset" && !p.InRepo(f) && f.Signature.Recv() != nil && len(com.Args) > 0 {
						if root, _, ok := fieldLoad(com.Args[0]); ok && root == recv {
							return true
						}
					}
				}
				return false
			}
		}
		var sels []string
		for s := range opsW {
			sels = append(sels, s)
		}
		sort.Strings(sels)
		for _, s := range sels {
			key := tname + "|" + s
			desc := "state path " + tname + s + " (written by " + summarize(opsW[s]) + ") is re-initialised by " + reset.Name() + " on every success path"
			if why, ok := p.scratchReason(n, s, 0); ok {
				r.OK(rule, key, p.Pos(reset.Pos()), desc+" [scratch: "+why+"]")
				continue
			}
			// success returns only (Reset methods that return an error leave the object in its error state otherwise)
			target := func(in ssa.Instruction) bool {
				ret, ok := in.(*ssa.Return)
				if !ok {
					return false
				}
				e := returnErr(ret)
				if e == nil {
					return true
				}
				return p.mayBeNil(reset, e, ret)
			}
			// paths on which the nested object does not exist have nothing to reset
			field, _, _ := p.firstFieldTypes(n, s)
			edgeOK := func(a, b *ssa.BasicBlock) bool {
				br, ok := edgeCond(a, b)
				if !ok {
					return true
				}
				f, ok := branchFact(br)
				if !ok || f.Y == nil || f.Op != token.EQL {
					return true
				}
				for _, pair := range [][2]ssa.Value{{f.X, f.Y}, {f.Y, f.X}} {
					if root, sel, ok := fieldLoad(pair[0]); ok && root == recv && sel == pre+"."+field && isNil(pair[1]) && s != "."+field {
						return false
					}
				}
				return true
			}
			found, hit, path := PathQuery{Target: target, Barrier: loopAware(reset, coverInstr(s)), EdgeOK: edgeOK}.Find(reset)
			if !found {
				r.OK(rule, key, p.Pos(reset.Pos()), desc)
				continue
			}
			// lazily initialised nested object: the pointer itself is kept for reuse
			if s == "."+field && p.lazyInitOnly(n, field, reset) {
				r.OK(rule, key, p.Pos(reset.Pos()), desc+" [the field is only ever set by a nil-guarded lazy initialisation; the object it holds is reset instead]")
				continue
			}
			r.Fail(rule, key, p.Pos(reset.Pos()), desc, "the return at "+p.InstrPos(hit)+" is reachable (blocks "+fmtInts(path)+") without any write covering "+s+": a reused object keeps what the previous stream left there")
		}
		if len(sels) == 0 {
			r.Undecided(rule, tname+"|ops", p.Pos(n.Obj().Pos()), "operations write some state", "no write effects found for the type: summaries are broken")
		}
	}
	// alias lines are checked
	for tname, m := range aliasTable {
		for from, to := range m {
			ok, why := p.aliasChecked(tname, from, to)
			if rule == "R12.1" {
				r.Check(ok, rule, tname+"|alias "+from+"="+to, "-", "alias "+tname+from+" == "+tname+to+" holds by construction", why)
			}
		}
	}
}

func summarize(l []string) string {
	m := map[string]bool{}
	for _, x := range l {
		m[x] = true
	}
	k := sortedKeys(m)
	if len(k) > 3 {
		return strings.Join(k[:3], ", ") + " +" + itoa(len(k)-3)
	}
	return strings.Join(k, ", ")
}

// isFresh: the value is a newly created object (constructor call, make, new, composite literal), not something loaded.
func (p *Program) isFresh(v ssa.Value) bool {
	for _, leaf := range p.valueSources(v) {
		switch x := leaf.(type) {
		case *ssa.Call:
			if _, ok := x.Common().Value.(*ssa.Builtin); ok {
				return false
			}
		case *ssa.Alloc, *ssa.MakeSlice, *ssa.MakeMap, *ssa.MakeInterface:
			if mi, ok := x.(*ssa.MakeInterface); ok {
				if !p.isFresh(mi.X) {
					return false
				}
			}
		default:
			return false
		}
	}
	return true
}

// aliasChecked: dynCompressor.hist is the histogram inside the lz77 context: the constructor stores
// lz77.histogram() into it, nobody else stores it, and every histogram() returns the address of the receiver's field.
func (p *Program) aliasChecked(tname, from, to string) (bool, string) {
	if tname != "dynCompressor" {
		return false, "unknown alias line"
	}
	n := p.Named("compress/flate/internal/deflate", tname)
	if n == nil {
		return false, "type not found"
	}
	field := strings.TrimSuffix(strings.TrimPrefix(from, "."), "^")
	stores := 0
	for _, fn := range p.Funcs() {
		for _, b := range fn.Blocks {
			for _, in := range b.Instrs {
				st, ok := in.(*ssa.Store)
				if !ok {
					continue
				}
				fa, ok := st.Addr.(*ssa.FieldAddr)
				if !ok || derefNamed(fa.X.Type()) != n || derefStruct(fa.X.Type()).Field(fa.Field).Name() != field {
					continue
				}
				stores++
				c, ok := st.Val.(*ssa.Call)
				if !ok || !c.Common().IsInvoke() || c.Common().Method.Name() != "histogram" {
					return false, "stored value at " + p.InstrPos(st) + " is not <lz77>.histogram()"
				}
				if _, sel, ok := fieldLoad(c.Common().Value); !ok || sel != ".lz77" {
					return false, "histogram() is not called on the lz77 field"
				}
				callees, _ := p.Callees(c)
				if len(callees) == 0 {
					return false, "histogram() has no implementation"
				}
				for _, g := range callees {
					for _, bb := range g.Blocks {
						for _, ii := range bb.Instrs {
							if ret, ok := ii.(*ssa.Return); ok {
								fa2, ok := ret.Results[0].(*ssa.FieldAddr)
								if !ok || fa2.X != ssa.Value(g.Params[0]) || derefStruct(fa2.X.Type()).Field(fa2.Field).Name() != "hist" {
									return false, shortFn(g) + " does not return &receiver.hist"
								}
							}
						}
					}
				}
			}
		}
	}
	if stores != 1 {
		return false, "expected exactly one store to the alias field, found " + itoa(stores)
	}
	return true, ""
}

// ruleNestedReset: a field holding a stateful repository object or a hash that operations use must be
// reset or replaced by Reset (a nil guard around that call is the one accepted condition).
func ruleNestedReset(p *Program, r *Report, rule string, list []stateType) {
	r.Expect(rule, 4)
	for _, st := range list {
		n := p.Named(st.rel, st.name)
		if n == nil {
			continue
		}
		reset := findReset(p, n)
		if reset == nil {
			continue
		}
		str, _ := n.Underlying().(*types.Struct)
		recv := reset.Params[0]
		for i := 0; i < str.NumFields(); i++ {
			f := str.Field(i)
			ft := f.Type()
			isHash := typeString(ft) == "hash.Hash32" || typeString(ft) == "hash.Hash"
			var nestedT *types.Named
			if nn := derefNamed(ft); nn != nil && nn.Obj().Pkg() != nil && strings.HasPrefix(nn.Obj().Pkg().Path(), modPath) {
				if _, isI := nn.Underlying().(*types.Interface); isI {
					// interface with a reset-like method
					nestedT = nn
				} else if findReset(p, nn) != nil {
					nestedT = nn
				}
			}
			isStdStateful := false
			if typeString(ft) == "io.ReadCloser" {
				isStdStateful = true // the inflater held by gzip/zlib readers
			}
			if isNamedType(ft, "bufio", "Reader") && n.Obj().Name() == "decompressor" {
				isStdStateful = true // the inflater's private read-ahead buffer
			}
			if !isHash && nestedT == nil && !isStdStateful {
				continue
			}
			if n.Obj().Name() == "dynCompressor" && f.Name() == "hist" {
				continue // alias of lz77's histogram, checked by the alias line of R12.1
			}
			if why, ok := scratchTable[n.Obj().Name()]["."+f.Name()]; ok {
				r.OK(rule, n.Obj().Name()+"|nested ."+f.Name(), p.Pos(reset.Pos()), "nested object ."+f.Name()+" need not be reset [scratch: "+why+"]")
				continue
			}
			key := n.Obj().Name() + "|nested ." + f.Name()
			if isNamedType(ft, "bufio", "Reader") && backingOnly(p, n, f.Name()) {
				// a private buffer that is only ever re-targeted and then installed in another field
				// (rBuf = own): it is judged where it is installed, and may lie dormant otherwise
				r.OK(rule, key, p.Pos(reset.Pos()), "backing buffer ."+f.Name()+" is used only through the field it is installed in; judged there")
				continue
			}
			// resetOf(g): barrier for "field g of the receiver is reset or replaced here"
			var resetOf func(cfn *ssa.Function, crecv ssa.Value, g string, depth int) func(in ssa.Instruction) bool
			// a call of a method named Reset/reset on the field value, or a store of a fresh value into it, on every success path
			barrierFor := func(cfn *ssa.Function, crecv ssa.Value, fname string, depth int) func(in ssa.Instruction) bool {
				return func(in ssa.Instruction) bool {
					switch x := in.(type) {
					case *ssa.Store:
						root, sel := accessPath(x.Addr)
						if root == crecv && sel == "."+fname {
							if p.isFresh(x.Val) {
								return true
							}
							// another field of the receiver that has definitely been reset/replaced since entry (rBuf = own)
							if depth < 2 {
								for _, leaf := range p.valueSources(x.Val) {
									if r2, s2, isL := fieldLoad(leaf); isL && r2 == crecv && s2 != sel && strings.Count(s2, ".") == 1 {
										if stale, _, _ := (PathQuery{Target: func(y ssa.Instruction) bool { return y == ssa.Instruction(x) }, Barrier: resetOf(cfn, crecv, s2[1:], depth+1)}).Find(cfn); !stale {
											return true
										}
									}
								}
							}
							// the caller's own object taken from a parameter (type assertion) replaces the old one
							for _, leaf := range p.valueSources(x.Val) {
								if ex, ok := leaf.(*ssa.Extract); ok {
									if ta, ok := ex.Tuple.(*ssa.TypeAssert); ok {
										if _, isPar := ta.X.(*ssa.Parameter); isPar {
											return true
										}
									}
								}
							}
						}
						return false
					case ssa.CallInstruction:
						com := x.Common()
						name := ""
						var on ssa.Value
						if com.IsInvoke() {
							name, on = com.Method.Name(), com.Value
						} else if fcal := com.StaticCallee(); fcal != nil && fcal.Signature.Recv() != nil && len(com.Args) > 0 {
							name, on = fcal.Name(), com.Args[0]
						} else if fcal := com.StaticCallee(); fcal != nil {
							// a helper of the same receiver that performs the reset (gzip init, readHeader)
							if len(com.Args) > 0 && com.Args[0] == crecv && fcal.Blocks != nil {
								for _, sel := range p.Effects().ParamWrites(fcal, 0) {
									if strings.HasPrefix(sel, "."+fname) {
										return true
									}
								}
							}
							return false
						}
						if (name == "Reset" || name == "reset") && on != nil {
							root, sel := accessPath(on)
							if root == crecv && (sel == "."+fname || sel == "."+fname+"^") {
								return true
							}
							// Reset through a selector helper (w.active().Reset(x)): the field is among those the helper hands
							// back, and the others are the standard-library delegate, whose presence is the delegation mode
							if sels, ok := selectorHelperFields(on, crecv); ok {
								has, othersDelegate := false, true
								for _, s2 := range sels {
									if s2 == "."+fname {
										has = true
									} else if st := derefStruct(crecv.Type()); st != nil {
										isDeleg := false
										for i := 0; i < st.NumFields(); i++ {
											if "."+st.Field(i).Name() == s2 && isNamedType(st.Field(i).Type(), stdFlate, "Writer") {
												isDeleg = true
											}
										}
										othersDelegate = othersDelegate && isDeleg
									}
								}
								if has && othersDelegate {
									return true
								}
							}
						}
						// helper method of the same receiver
						if fcal := com.StaticCallee(); fcal != nil && fcal.Blocks != nil && len(com.Args) > 0 && com.Args[0] == crecv && fcal != cfn {
							for _, sel := range p.Effects().ParamWrites(fcal, 0) {
								if strings.HasPrefix(sel, "."+fname) && len(sel) > len(fname)+1 {
									return true
								}
							}
							// a helper that resets or replaces the field itself on every path to its return
							if depth < 2 && len(fcal.Params) > 0 {
								isRet := func(y ssa.Instruction) bool { _, ok := y.(*ssa.Return); return ok }
								if open, _, _ := (PathQuery{Target: isRet, Barrier: resetOf(fcal, fcal.Params[0], fname, depth+1)}).Find(fcal); !open {
									return true
								}
							}
						}
					}
					return false
				}
			}
			resetOf = barrierFor
			barrier := barrierFor(reset, recv, f.Name(), 0)
			edgeOK := func(a, b *ssa.BasicBlock) bool {
				br, ok := edgeCond(a, b)
				if !ok {
					return true
				}
				fct, ok := branchFact(br)
				if !ok || fct.Y == nil || fct.Op != token.EQL {
					return true
				}
				for _, pair := range [][2]ssa.Value{{fct.X, fct.Y}, {fct.Y, fct.X}} {
					// nil guard on the field itself (or on a local copy of it)
					for _, leaf := range p.valueSources(pair[0]) {
						if root, sel, ok := fieldLoad(leaf); ok && root == recv && sel == "."+f.Name() && isNil(pair[1]) {
							return false
						}
					}
				}
				return true
			}
			target := func(in ssa.Instruction) bool {
				ret, ok := in.(*ssa.Return)
				if !ok {
					return false
				}
				e := returnErr(ret)
				return e == nil || p.mayBeNil(reset, e, ret)
			}
			// delegation mode of deflate.Writer: when the std writer exists the compressor does not
			delegOK := func(a, b *ssa.BasicBlock) bool {
				if !edgeOK(a, b) {
					return false
				}
				br, ok := edgeCond(a, b)
				if !ok {
					return true
				}
				fct, ok := branchFact(br)
				if !ok || fct.Y == nil || fct.Op != token.NEQ {
					return true
				}
				for _, pair := range [][2]ssa.Value{{fct.X, fct.Y}, {fct.Y, fct.X}} {
					if root, sel, ok := fieldLoad(pair[0]); ok && root == recv && isNil(pair[1]) && sel != "."+f.Name() {
						if isNamedType(pair[0].Type(), stdFlate, "Writer") {
							return false
						}
					}
				}
				return true
			}
			found, hit, path := PathQuery{Target: target, Barrier: barrier, EdgeOK: delegOK}.Find(reset)
			if _, byValue := ft.Underlying().(*types.Struct); found && nestedT != nil && byValue {
				// the nested object's own reset may have been written out in place: every selector that reset writes
				// is stored through this field on every success path
				if nr := findReset(p, nestedT); nr != nil {
					ws := p.Effects().ParamWrites(nr, 0)
					all := len(ws) > 0
					for _, wsel := range ws {
						want := "." + f.Name() + wsel
						covered := func(in ssa.Instruction) bool {
							st, ok := in.(*ssa.Store)
							if !ok {
								return barrier(in)
							}
							root, sel := accessPath(st.Addr)
							if root != recv {
								return false
							}
							if sel == "" || !strings.HasPrefix(sel, "."+f.Name()) {
								return barrier(in)
							}
							return sel == want || strings.HasPrefix(want, sel+".") || strings.HasPrefix(want, sel+"[") || barrier(in)
						}
						if miss, _, _ := (PathQuery{Target: target, Barrier: loopAware(reset, covered), EdgeOK: delegOK}).Find(reset); miss {
							all = false
						}
					}
					if all {
						found = false
					}
				}
			}
			if found {
				r.Fail(rule, key, p.Pos(reset.Pos()), "nested stateful object ."+f.Name()+" is reset or replaced by "+reset.Name()+" on every success path", "return at "+p.InstrPos(hit)+" reachable (blocks "+fmtInts(path)+") without resetting it")
			} else {
				r.OK(rule, key, p.Pos(reset.Pos()), "nested stateful object ."+f.Name()+" is reset or replaced by "+reset.Name()+" on every success path")
			}
		}
	}
}

// backingOnly: every load of field fname of type n (outside nil tests) is either the receiver of a Reset call or
// the value stored into another *bufio.Reader field of the same object.
func backingOnly(p *Program, n *types.Named, fname string) bool {
	loads, installs := 0, 0
	for _, fn := range p.Funcs() {
		for _, b := range fn.Blocks {
			for _, in := range b.Instrs {
				u, ok := in.(*ssa.UnOp)
				if !ok || u.Op != token.MUL {
					continue
				}
				root, sel, isL := fieldLoad(u)
				if !isL || root == nil || sel != "."+fname || derefNamed(root.Type()) != n {
					continue
				}
				loads++
				refs := u.Referrers()
				if refs == nil {
					continue
				}
				for _, ref := range *refs {
					switch x := ref.(type) {
					case *ssa.BinOp:
						// nil test
					case *ssa.Store:
						r2, s2 := accessPath(x.Addr)
						if x.Val == ssa.Value(u) && r2 == root && s2 != sel && s2 != "" {
							installs++
							continue
						}
						return false
					case ssa.CallInstruction:
						f := x.Common().StaticCallee()
						if isMethodOf(f, "bufio", "Reader", "Reset") && x.Common().Args[0] == ssa.Value(u) {
							continue
						}
						return false
					case *ssa.DebugRef:
					default:
						return false
					}
				}
			}
		}
	}
	return loads > 0 && installs > 0
}

func ruleR13_2(p *Program, r *Report) {
	r.Expect("R13.2", 2)
	// implementations of Reset(io.Reader, []byte) error in the repository
	for _, n := range p.AllNamed() {
		fn := hasMethod(p, n, "Reset", sigIs([]string{"io.Reader", "[]byte"}, []string{"error"}))
		if fn == nil {
			continue
		}
		dict := fn.Params[2]
		used := dict.Referrers() != nil && len(*dict.Referrers()) > 0
		key := shortFn(fn) + "|dict"
		if used {
			r.OK("R13.2", key, p.Pos(fn.Pos()), "Resetter implementation uses its dictionary argument")
			continue
		}
		// every call that can dispatch here passes nil
		bad := ""
		sites := 0
		for _, g := range p.Funcs() {
			for _, c := range allCalls(g) {
				cs, _ := p.Callees(c)
				hit := false
				for _, x := range cs {
					if x == fn {
						hit = true
					}
				}
				if !hit {
					continue
				}
				sites++
				args := c.Common().Args
				d := args[len(args)-1]
				if !isNil(d) {
					bad = "call at " + p.InstrPos(c) + " in " + shortFn(g) + " passes a dictionary (" + describeValue(d) + ") to an implementation that ignores it"
				}
			}
		}
		r.Check(bad == "", "R13.2", key, p.Pos(fn.Pos()), "this Resetter ignores its dictionary, so all "+itoa(sites)+" call sites that can reach it pass nil", bad)
	}
}

func (p *Program) isStateType(n *types.Named, list []stateType) bool {
	for _, st := range list {
		if p.Named(st.rel, st.name) == n {
			return true
		}
	}
	return false
}

// crossesNested: does selector s of type n continue into a nested stateful object (by value, pointer or interface)?
func (p *Program) crossesNested(n *types.Named, s string, list []stateType) bool {
	_, rest, nested := p.firstFieldTypes(n, s)
	if rest == "" || len(nested) == 0 {
		return false
	}
	all := append(append([]stateType{}, writerStateTypes...), readerStateTypes...)
	for _, nn := range nested {
		if p.isStateType(nn, all) {
			return true
		}
	}
	return false
}

// nestedDirectWrites: stores (and copy/append destinations) anywhere in the repository whose address
// passes through a field of type n held in another object: selector below that field -> writers.
func (p *Program) nestedDirectWrites(n *types.Named) map[string][]string {
	out := map[string][]string{}
	visit := func(fn *ssa.Function, addr ssa.Value, extra string) {
		root, sel := accessPath(addr)
		if sel == "" {
			return
		}
		if _, isPar := root.(*ssa.Parameter); !isPar {
			return // constructors build fresh objects; only writes through a parameter can touch a live one
		}
		sel += extra
		t := root.Type()
		// walk the selector with types
		i := 0
		for i < len(sel) {
			switch sel[i] {
			case '.':
				j := i + 1
				for j < len(sel) && sel[j] != '.' && sel[j] != '[' && sel[j] != '^' && sel[j] != '~' {
					j++
				}
				st := derefStruct(t)
				if st == nil {
					return
				}
				var ft types.Type
				for k := 0; k < st.NumFields(); k++ {
					if st.Field(k).Name() == sel[i+1:j] {
						ft = st.Field(k).Type()
					}
				}
				if ft == nil {
					return
				}
				t = ft
				i = j
				if derefNamed(t) == n && i < len(sel) {
					rest := sel[i:]
					if strings.HasPrefix(rest, "^") {
						rest = rest[1:]
					}
					if rest != "" {
						out[rest] = append(out[rest], shortFn(fn))
					}
					return
				}
			case '[':
				switch u := t.Underlying().(type) {
				case *types.Slice:
					t = u.Elem()
				case *types.Array:
					t = u.Elem()
				case *types.Pointer:
					if a, ok := u.Elem().Underlying().(*types.Array); ok {
						t = a.Elem()
					} else {
						return
					}
				default:
					return
				}
				i += 3
			case '^', '~':
				i++
			default:
				return
			}
		}
	}
	for _, fn := range p.Funcs() {
		if isExamples(fn) {
			continue
		}
		for _, b := range fn.Blocks {
			for _, in := range b.Instrs {
				switch x := in.(type) {
				case *ssa.Store:
					visit(fn, x.Addr, "")
				case ssa.CallInstruction:
					if bi, ok := x.Common().Value.(*ssa.Builtin); ok && (bi.Name() == "copy" || bi.Name() == "append") && len(x.Common().Args) > 0 {
						visit(fn, x.Common().Args[0], "[*]")
					}
				}
			}
		}
	}
	return out
}

// loopAware: a covering instruction inside a loop counts when the loop is entered (its header is passed):
// the clearing loops of this code base range over whole fixed-size arrays.
func loopAware(fn *ssa.Function, cover func(ssa.Instruction) bool) func(ssa.Instruction) bool {
	headers := map[*ssa.BasicBlock]bool{}
	for _, b := range fn.Blocks {
		has := false
		for _, in := range b.Instrs {
			if cover(in) {
				has = true
			}
		}
		if !has {
			continue
		}
		for _, h := range fn.Blocks {
			if h == b || !h.Dominates(b) {
				continue
			}
			// b reaches h again: h heads a loop containing b
			f, _, _ := PathQuery{Target: func(x ssa.Instruction) bool { return x.Block() == h }}.findFromBlock(fn, b)
			if f && len(b.Succs) > 0 {
				// exclude the trivial case where h is only reached by leaving and re-entering: require a back edge into h from a block dominated by h
				for _, pr := range h.Preds {
					if h.Dominates(pr) {
						headers[h] = true
					}
				}
			}
		}
	}
	return func(in ssa.Instruction) bool {
		if cover(in) {
			return true
		}
		if headers[in.Block()] && in.Block().Instrs[0] == in {
			return true
		}
		return false
	}
}

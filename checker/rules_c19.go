package main

// C19 - the 4 KiB-window writer never refers back more than 4096 bytes.

import (
	"fmt"
	"go/token"
	"go/types"

	"golang.org/x/tools/go/ssa"
)

func init() {
	register(&PropSpec{
		ID: "C19",
		Rules: []Rule{
			{ID: "R19.1", Configs: "all", Run: ruleR19_1},
			{ID: "R19.2", Configs: "all", Run: ruleR19_2},
			{ID: "R19.3", Configs: "all", Run: ruleR19_3},
			{ID: "R19.4", Configs: "asm", Run: ruleR19_4},
		},
		Explanation: "Decides that the window size chosen by the constructor is the bound every match finder applies: (R19.1) the 4 KiB constructor passes 4096 and the ordinary one 32768 to every NewDynCompressor call; (R19.2) the size reaches the match finder unchanged: NewDynCompressor hands its parameter to buildLZ77, every arm stores TrailingZeros(windowSize) as windowLevel, every generate passes 1<<windowLevel as the history size of the Go finder; " +
			"(R19.3) in the Go finder every match token is dominated by a comparison that normalises to 1 <= dist <= historySize on the very value encoded as the distance; (R19.4) the assembly variant called under windowLevel==12 masks distances with 4095 and the other with 32767, the mask being read from the instructions (all ANDQ $m,R;NEGQ R sites of a routine agree), not from the routine's name.",
		NotDecided: []string{
			"16-bit position wrap-around and the candidate arithmetic of the assembly finders beyond their distance mask",
			"that the decoder-visible distance equals the value tested (getDistSymbol arithmetic)",
		},
	})
}

func ruleR19_1(p *Program, r *Report) {
	r.Expect("R19.1", 2) // one per constructor; duplicate switch arms may be merged
	nd := p.Func(deflRel, "NewDynCompressor")
	if nd == nil {
		r.Undecided("R19.1", "anchor:NewDynCompressor", "-", "constructor exists", "not found")
		return
	}
	for _, t := range []struct {
		ctor string
		want int64
	}{{"NewWriterwWith4KWindow", 4096}, {"NewWriter", 32768}} {
		fn := p.Func(deflRel, t.ctor)
		if fn == nil {
			r.Undecided("R19.1", t.ctor, "-", "constructor exists", "not found")
			continue
		}
		n := 0
		lab := newLabeler()
		for _, c := range allCalls(fn) {
			if c.Common().StaticCallee() != nd {
				continue
			}
			n++
			k, ok := constInt(c.Common().Args[2])
			r.Check(ok && k == t.want, "R19.1", t.ctor+"|"+lab.get("NewDynCompressor"), p.InstrPos(c), fmt.Sprintf("%s creates its compressor with a %d-byte window", t.ctor, t.want), "window argument is "+describeValue(c.Common().Args[2]))
		}
		if n == 0 {
			r.Undecided("R19.1", t.ctor+"|calls", p.Pos(fn.Pos()), "constructor creates a dynCompressor", "no NewDynCompressor call")
		}
	}
}

func ruleR19_2(p *Program, r *Report) {
	r.Expect("R19.2", 3) // the portable finder may be reached through a forwarding helper
	nd := p.Func(deflRel, "NewDynCompressor")
	bl := p.Func(deflRel, "buildLZ77")
	lz := p.Func(deflRel, "lz77")
	if nd == nil || bl == nil || lz == nil {
		r.Undecided("R19.2", "anchors", "-", "NewDynCompressor, buildLZ77, lz77 exist", "not found")
		return
	}
	// NewDynCompressor -> buildLZ77(level, windowSize)
	ok := false
	for _, c := range allCalls(nd) {
		if c.Common().StaticCallee() == bl && c.Common().Args[1] == ssa.Value(nd.Params[2]) {
			ok = true
		}
	}
	r.Check(ok, "R19.2", "NewDynCompressor|buildLZ77(windowSize)", p.Pos(nd.Pos()), "the constructor hands its window size to buildLZ77 unchanged", "buildLZ77 does not receive the windowSize parameter")
	// buildLZ77: every composite literal's windowLevel = TrailingZeros(uint(windowSize))
	n := 0
	for _, b := range bl.Blocks {
		for _, in := range b.Instrs {
			st, isSt := in.(*ssa.Store)
			if !isSt {
				continue
			}
			fa, isFa := st.Addr.(*ssa.FieldAddr)
			if !isFa || derefStruct(fa.X.Type()).Field(fa.Field).Name() != "windowLevel" {
				continue
			}
			n++
			good := false
			if c, isC := st.Val.(*ssa.Call); isC {
				if f := c.Common().StaticCallee(); f != nil && f.Pkg != nil && f.Pkg.Pkg.Path() == "math/bits" && f.Name() == "TrailingZeros" {
					for _, leaf := range p.valueSources(stripConv(c.Common().Args[0])) {
						if leaf == ssa.Value(bl.Params[1]) {
							good = true
						}
					}
				}
			}
			r.Check(good, "R19.2", "buildLZ77|windowLevel#"+itoa(n), p.InstrPos(st), "windowLevel is TrailingZeros(windowSize)", "stored value is "+describeValue(st.Val))
		}
	}
	if n < 2 {
		r.Undecided("R19.2", "buildLZ77|windowLevel", p.Pos(bl.Pos()), "each context is built with a windowLevel", "found "+itoa(n)+" stores")
	}
	// every context returned by buildLZ77 has windowLevel set: each MakeInterface'd allocation has such a store
	// generate: lz77(..., historySize = 1 << c.windowLevel, ...)
	// every call of the Go finder, in generate or in a helper it is reached through: the history size is
	// 1 << X where X is the context's windowLevel (directly, or a helper parameter that every caller binds to it)
	var isWindowLevel func(v ssa.Value, fn *ssa.Function, depth int) bool
	isWindowLevel = func(v ssa.Value, fn *ssa.Function, depth int) bool {
		v = stripConv(v)
		if _, sel, isL := fieldLoad(v); isL && sel == ".windowLevel" {
			return true
		}
		prm, isP := v.(*ssa.Parameter)
		if !isP || depth > 3 {
			return false
		}
		idx := -1
		for i, q := range fn.Params {
			if q == prm {
				idx = i
			}
		}
		if idx < 0 {
			return false
		}
		sites := 0
		for _, g := range p.Funcs() {
			for _, cc := range allCalls(g) {
				if cc.Common().StaticCallee() != fn || idx >= len(cc.Common().Args) {
					continue
				}
				sites++
				if !isWindowLevel(cc.Common().Args[idx], g, depth+1) {
					return false
				}
			}
		}
		return sites > 0
	}
	for _, fn := range p.Funcs() {
		if fn.Pkg != p.Pkg(deflRel) {
			continue
		}
		lab := newLabeler()
		for _, c := range allCalls(fn) {
			if c.Common().StaticCallee() != lz {
				continue
			}
			a := c.Common().Args[3]
			good := false
			if bo, isB := stripConv(a).(*ssa.BinOp); isB && bo.Op == token.SHL {
				if k, isK := constInt(bo.X); isK && k == 1 && isWindowLevel(bo.Y, fn, 0) {
					good = true
				}
			} else if isP := func() bool { _, ok := stripConv(a).(*ssa.Parameter); return ok }(); isP {
				// the size itself is a parameter: every caller must pass 1 << windowLevel
				good = sizeFromWindowLevel(p, stripConv(a).(*ssa.Parameter), fn, isWindowLevel)
			}
			r.Check(good, "R19.2", shortFn(fn)+"|"+lab.get("lz77 historySize"), p.InstrPos(c), "the Go match finder is given 1 << windowLevel as its history size", "history size argument is "+a.String()+", which is not 1 << (the context's windowLevel) on every way into this call")
		}
	}
}

// sizeFromWindowLevel: parameter prm of fn receives `1 << windowLevel` at every call site.
func sizeFromWindowLevel(p *Program, prm *ssa.Parameter, fn *ssa.Function, isWL func(ssa.Value, *ssa.Function, int) bool) bool {
	idx := -1
	for i, q := range fn.Params {
		if q == prm {
			idx = i
		}
	}
	if idx < 0 {
		return false
	}
	sites := 0
	for _, g := range p.Funcs() {
		for _, cc := range allCalls(g) {
			if cc.Common().StaticCallee() != fn || idx >= len(cc.Common().Args) {
				continue
			}
			sites++
			bo, isB := stripConv(cc.Common().Args[idx]).(*ssa.BinOp)
			if !isB || bo.Op != token.SHL {
				return false
			}
			if k, isK := constInt(bo.X); !isK || k != 1 || !isWL(bo.Y, g, 0) {
				return false
			}
		}
	}
	return sites > 0
}

func stripConv(v ssa.Value) ssa.Value {
	for {
		switch x := v.(type) {
		case *ssa.Convert:
			v = x.X
		case *ssa.ChangeType:
			v = x.X
		default:
			return v
		}
	}
}

func isUnsigned(t types.Type) bool {
	b, ok := t.Underlying().(*types.Basic)
	return ok && b.Info()&types.IsUnsigned != 0
}

func ruleR19_3(p *Program, r *Report) {
	r.Expect("R19.3", 2)
	lz := p.Func(deflRel, "lz77")
	nt := p.Func(deflRel, "newToken")
	gds := p.Func(deflRel, "getDistSymbol")
	if lz == nil || nt == nil || gds == nil {
		r.Undecided("R19.3", "anchors", "-", "lz77, newToken, getDistSymbol exist", "not found")
		return
	}
	hist := lz.Params[3] // historySize
	fromHist := func(v ssa.Value) bool {
		for _, leaf := range p.valueSources(stripConv(v)) {
			if stripConv(leaf) != ssa.Value(hist) {
				return false
			}
		}
		return true
	}
	invalid, _ := constOf(p, deflRel, "InvalidDist")
	lab := newLabeler()
	n := 0
	for _, c := range allCalls(lz) {
		if c.Common().StaticCallee() != nt {
			continue
		}
		dsym := c.Common().Args[1]
		if k, isK := constInt(dsym); isK && k == invalid {
			continue // literal token
		}
		n++
		key := "lz77|" + lab.get("match token")
		// the distance value behind the symbol: getDistSymbol(d)
		var d ssa.Value
		for _, leaf := range p.valueSources(stripConv(dsym)) {
			if ex, isE := leaf.(*ssa.Extract); isE {
				if gc, isC := ex.Tuple.(*ssa.Call); isC && gc.Common().StaticCallee() == gds {
					d = stripConv(gc.Common().Args[0])
				}
			}
		}
		if d == nil {
			r.Undecided("R19.3", key, p.InstrPos(c), "the token's distance symbol comes from getDistSymbol(dist)", "unrecognised derivation of "+dsym.String())
			continue
		}
		facts := dominatingFacts(c)
		ok := false
		// form (a): unsigned(d - 1) < unsigned(H)
		for _, f := range facts {
			if f.Y == nil || f.Op != token.LSS || !isUnsigned(f.X.Type()) || !fromHist(f.Y) {
				continue
			}
			if bo, isB := stripConv(f.X).(*ssa.BinOp); isB && bo.Op == token.SUB && stripConv(bo.X) == d {
				if k, isK := constInt(bo.Y); isK && k == 1 {
					ok = true
				}
			}
		}
		// form (b): d >= 1 (or != 0 / > 0) and d <= H (or < H+1)
		lower, upper := false, false
		for _, f := range facts {
			if f.Y == nil || stripConv(f.X) != d {
				continue
			}
			if k, isK := constInt(f.Y); isK {
				if (f.Op == token.NEQ && k == 0) || (f.Op == token.GTR && k == 0) || (f.Op == token.GEQ && k == 1) {
					lower = true
				}
			}
			if f.Op == token.LEQ && fromHist(f.Y) {
				upper = true
			}
			if f.Op == token.LSS {
				if bo, isB := stripConv(f.Y).(*ssa.BinOp); isB && bo.Op == token.ADD && fromHist(bo.X) {
					if k, isK := constInt(bo.Y); isK && k == 1 {
						upper = true
					}
				}
			}
		}
		if lower && upper {
			ok = true
		}
		r.Check(ok, "R19.3", key, p.InstrPos(c), "a match token is emitted only under 1 <= dist <= historySize for the very distance it encodes", "no dominating comparison normalises to that window test: a candidate outside the window can become a back-reference")
	}
	if n < 2 {
		r.Undecided("R19.3", "lz77|match tokens", p.Pos(lz.Pos()), "the finder has match-token sites", "found "+itoa(n))
	}
}

// R19.4: assembly variant selection by window level and the masks read from the instructions.
func ruleR19_4(p *Program, r *Report) {
	r.Expect("R19.4", 4)
	if asmLoadFailures(p, r, "R19.4") {
		return
	}
	masks := map[*ssa.Function]int64{}
	for _, u := range p.Asm().Units {
		if len(u.Text.Name) < 7 || u.Text.Name[:7] != "lz77Asm" {
			continue
		}
		m, n, ok := asmDistanceMask(u)
		key := u.Text.Name + "|distance mask"
		if !ok {
			r.Fail("R19.4", key, p.asmPos(u, u.Text.Instrs[0]), "all distance-masking sites (ANDQ $m, R; NEGQ R) of the routine use one mask", fmt.Sprintf("%d different masks (or none) found", n))
			continue
		}
		if n < 2 {
			r.Undecided("R19.4", key, p.asmPos(u, u.Text.Instrs[0]), "at least two masking sites", "found "+itoa(n))
			continue
		}
		masks[u.Fn] = m
		r.OK("R19.4", key, p.asmPos(u, u.Text.Instrs[0]), fmt.Sprintf("all %d distance-masking sites use mask %d", n, m))
	}
	for _, fn := range p.Funcs() {
		if fn.Name() != "generate" || fn.Signature.Recv() == nil {
			continue
		}
		recv := fn.Params[0]
		for _, c := range allCalls(fn) {
			f := c.Common().StaticCallee()
			m, isAsm := masks[f]
			if !isAsm {
				continue
			}
			key := shortFn(fn) + "|" + f.Name()
			// under which windowLevel facts is the call made?
			var eq, ne []int64
			for _, ft := range dominatingFacts(c) {
				if ft.Y == nil {
					continue
				}
				if root, sel, ok := fieldLoad(ft.X); ok && root == recv && sel == ".windowLevel" {
					if k, isK := constInt(ft.Y); isK {
						if ft.Op == token.EQL {
							eq = append(eq, k)
						}
						if ft.Op == token.NEQ {
							ne = append(ne, k)
						}
					}
				}
			}
			why := ""
			switch {
			case len(eq) == 1:
				if m != (1<<uint(eq[0]))-1 {
					why = fmt.Sprintf("called when windowLevel == %d but masks distances with %d", eq[0], m)
				}
			case len(ne) >= 1:
				// the remaining level is the other window (15)
				if m != 32767 {
					why = fmt.Sprintf("called for the large window but masks distances with %d", m)
				}
				for _, k := range ne {
					if k != 12 {
						why = "unexpected window level test"
					}
				}
			default:
				why = "the call is not selected by a test of windowLevel"
			}
			r.Check(why == "", "R19.4", key, p.InstrPos(c), fmt.Sprintf("the assembly finder chosen for this window masks distances with window-1 (mask %d)", m), why)
		}
	}
}

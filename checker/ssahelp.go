package main

import (
	"fmt"
	"go/ast"
	"go/constant"
	"go/token"
	"go/types"
	"sort"
	"strings"

	"golang.org/x/tools/go/ssa"
)

// ---------- access paths ----------

// accessPath resolves an address or value to (root, selector). The selector is a string of
// ".field", "[*]" (any element) and "^" (pointee of a pointer-typed field) steps.
// Roots are Parameters, Allocs, Globals, call results, etc.
func accessPath(v ssa.Value) (ssa.Value, string) {
	var steps []string
	for depth := 0; depth < 64; depth++ {
		switch x := v.(type) {
		case *ssa.FieldAddr:
			st := derefStruct(x.X.Type())
			steps = append(steps, "."+st.Field(x.Field).Name())
			v = x.X
		case *ssa.Field:
			st, _ := x.X.Type().Underlying().(*types.Struct)
			steps = append(steps, "."+st.Field(x.Field).Name())
			v = x.X
		case *ssa.IndexAddr:
			steps = append(steps, "[*]")
			v = x.X
		case *ssa.Index:
			steps = append(steps, "[*]")
			v = x.X
		case *ssa.Slice:
			v = x.X
		case *ssa.UnOp:
			if x.Op == token.MUL {
				// load: the value stored at an address; continue through it (pointer-typed field)
				if _, isPtr := x.Type().Underlying().(*types.Pointer); isPtr {
					steps = append(steps, "^")
				}
				v = x.X
				continue
			}
			return v, joinRev(steps)
		case *ssa.ChangeType:
			v = x.X
		case *ssa.Convert:
			// unsafe.Pointer conversions keep the base
			v = x.X
		case *ssa.ChangeInterface:
			v = x.X
		case *ssa.TypeAssert:
			v = x.X
		case *ssa.Extract:
			if ta, ok := x.Tuple.(*ssa.TypeAssert); ok && x.Index == 0 {
				v = ta.X
				continue
			}
			return v, joinRev(steps)
		case *ssa.BinOp:
			// pointer arithmetic through uintptr: keep the pointer operand
			if x.Op == token.ADD || x.Op == token.SUB {
				if isPtrDerived(x.X) {
					steps = append(steps, "[*]")
					v = x.X
					continue
				}
				if isPtrDerived(x.Y) {
					steps = append(steps, "[*]")
					v = x.Y
					continue
				}
			}
			return v, joinRev(steps)
		default:
			return v, joinRev(steps)
		}
	}
	return v, joinRev(steps)
}

func isPtrDerived(v ssa.Value) bool {
	for i := 0; i < 8; i++ {
		switch x := v.(type) {
		case *ssa.Convert:
			if b, ok := x.X.Type().Underlying().(*types.Basic); ok && b.Kind() == types.UnsafePointer {
				return true
			}
			if _, ok := x.X.Type().Underlying().(*types.Pointer); ok {
				return true
			}
			v = x.X
		default:
			return false
		}
	}
	return false
}

func joinRev(steps []string) string {
	var sb strings.Builder
	for i := len(steps) - 1; i >= 0; i-- {
		sb.WriteString(steps[i])
	}
	return sb.String()
}

func derefStruct(t types.Type) *types.Struct {
	if p, ok := t.Underlying().(*types.Pointer); ok {
		t = p.Elem()
	}
	st, _ := t.Underlying().(*types.Struct)
	return st
}

func derefNamed(t types.Type) *types.Named {
	t = types.Unalias(t)
	if p, ok := t.(*types.Pointer); ok {
		t = types.Unalias(p.Elem())
	}
	n, _ := t.(*types.Named)
	return n
}

// fieldLoad: v is a load (*addr) of root.sel; returns root and sel.
func fieldLoad(v ssa.Value) (ssa.Value, string, bool) {
	u, ok := v.(*ssa.UnOp)
	if !ok || u.Op != token.MUL {
		return nil, "", false
	}
	root, sel := accessPath(u.X)
	if sel == "" {
		return root, sel, false
	}
	return root, sel, true
}

func isNil(v ssa.Value) bool {
	c, ok := v.(*ssa.Const)
	return ok && c.IsNil()
}

func constInt(v ssa.Value) (int64, bool) {
	for {
		switch x := v.(type) {
		case *ssa.Const:
			if x.Value == nil {
				return 0, false
			}
			if x.Value.Kind() == constant.Int {
				i, ok := constant.Int64Val(x.Value)
				return i, ok
			}
			if x.Value.Kind() == constant.Bool {
				if constant.BoolVal(x.Value) {
					return 1, true
				}
				return 0, true
			}
			return 0, false
		case *ssa.Convert:
			v = x.X
		case *ssa.ChangeType:
			v = x.X
		default:
			return 0, false
		}
	}
}

func constBool(v ssa.Value) (bool, bool) {
	c, ok := v.(*ssa.Const)
	if !ok || c.Value == nil || c.Value.Kind() != constant.Bool {
		return false, false
	}
	return constant.BoolVal(c.Value), true
}

// globalLoad: v is a load of package-level variable; returns it.
func globalLoad(v ssa.Value) *ssa.Global {
	u, ok := v.(*ssa.UnOp)
	if !ok || u.Op != token.MUL {
		return nil
	}
	g, _ := u.X.(*ssa.Global)
	return g
}

func globalName(g *ssa.Global) string {
	if g == nil {
		return ""
	}
	return g.Pkg.Pkg.Path() + "." + g.Name()
}

// ---------- calls ----------

// callee description for calls leaving the repository or going through interfaces
type CallInfo struct {
	Instr    ssa.CallInstruction
	Static   *ssa.Function // non-nil for static calls
	IfaceM   *types.Func   // non-nil for invoke
	Recv     ssa.Value     // receiver (invoke) or first arg of method call
	FullName string        // e.g. "io.Writer.Write", "(*bufio.Reader).Peek", "io.ReadFull"
}

func callInfo(c ssa.CallInstruction) CallInfo {
	com := c.Common()
	ci := CallInfo{Instr: c}
	if com.IsInvoke() {
		ci.IfaceM = com.Method
		ci.Recv = com.Value
		recvT := com.Value.Type()
		ci.FullName = typeString(recvT) + "." + com.Method.Name()
		return ci
	}
	if f := com.StaticCallee(); f != nil {
		ci.Static = f
		if f.Signature.Recv() != nil && len(com.Args) > 0 {
			ci.Recv = com.Args[0]
		}
		ci.FullName = f.String()
		return ci
	}
	ci.FullName = "dynamic:" + com.Value.String()
	return ci
}

func typeString(t types.Type) string {
	return types.TypeString(t, func(p *types.Package) string { return p.Path() })
}

// isMethodOf reports whether the (static) callee is method name of the named type pkgpath.T (pointer or value receiver).
func isMethodOf(f *ssa.Function, pkgPath, typ, name string) bool {
	if f == nil || f.Signature.Recv() == nil || f.Name() != name {
		return false
	}
	n := derefNamed(f.Signature.Recv().Type())
	if n == nil || n.Obj().Pkg() == nil {
		return false
	}
	return n.Obj().Pkg().Path() == pkgPath && n.Obj().Name() == typ
}

func isFunc(f *ssa.Function, pkgPath, name string) bool {
	return f != nil && f.Signature.Recv() == nil && f.Pkg != nil && f.Pkg.Pkg.Path() == pkgPath && f.Name() == name && f.Parent() == nil
}

// isIfaceMethod: invoke of method `name` where the interface method object belongs to pkgPath.iface (possibly embedded).
func isIfaceMethod(ci CallInfo, pkgPath, name string) bool {
	if ci.IfaceM == nil || ci.IfaceM.Name() != name {
		return false
	}
	return ci.IfaceM.Pkg() != nil && ci.IfaceM.Pkg().Path() == pkgPath
}

// Callees resolves a call to the repository functions it may enter:
// static callee; for an invoke every repository type implementing the interface;
// for a call through a package-level func variable every function ever stored into it.
func (p *Program) Callees(c ssa.CallInstruction) (fns []*ssa.Function, resolved bool) {
	com := c.Common()
	if com.IsInvoke() {
		iface, _ := com.Value.Type().Underlying().(*types.Interface)
		if iface == nil {
			return nil, false
		}
		if ts, complete := p.concreteTypesOf(com.Value); complete {
			for _, t := range ts {
				sel := p.Prog.MethodSets.MethodSet(t).Lookup(com.Method.Pkg(), com.Method.Name())
				if sel == nil {
					continue
				}
				fn := p.Prog.MethodValue(sel)
				if fn != nil && fn.Synthetic != "" {
					if m, ok := sel.Obj().(*types.Func); ok {
						if d := p.Prog.FuncValue(m); d != nil {
							fn = d
						}
					}
				}
				if fn != nil && fn.Blocks != nil {
					fns = appendUniqueFn(fns, fn)
				}
			}
			return fns, true
		}
		for _, n := range p.AllNamed() {
			for _, t := range []types.Type{n, types.NewPointer(n)} {
				if _, isIface := n.Underlying().(*types.Interface); isIface {
					continue
				}
				if types.Implements(t, iface) {
					sel := p.Prog.MethodSets.MethodSet(t).Lookup(com.Method.Pkg(), com.Method.Name())
					if sel == nil {
						continue
					}
					if fn := p.Prog.MethodValue(sel); fn != nil {
						// unwrap synthetic wrappers to the declared method
						if fn.Synthetic != "" {
							if m, ok := sel.Obj().(*types.Func); ok {
								if d := p.Prog.FuncValue(m); d != nil {
									fn = d
								}
							}
						}
						if p.InRepo(fn) || fn.Blocks != nil {
							fns = appendUniqueFn(fns, fn)
						}
					}
					break
				}
			}
		}
		return fns, true
	}
	if f := com.StaticCallee(); f != nil {
		return []*ssa.Function{f}, true
	}
	// call through a value: package-level function variable?
	if g := globalLoad(com.Value); g != nil {
		return p.FuncValuesOf(g), true
	}
	if _, ok := com.Value.(*ssa.Builtin); ok {
		return nil, true
	}
	return nil, false
}

func appendUniqueFn(l []*ssa.Function, f *ssa.Function) []*ssa.Function {
	for _, x := range l {
		if x == f {
			return l
		}
	}
	return append(l, f)
}

// FuncValuesOf: every function value stored into global g anywhere in the repository.
func (p *Program) FuncValuesOf(g *ssa.Global) []*ssa.Function {
	if p.fnValues == nil {
		p.fnValues = map[*ssa.Global][]*ssa.Function{}
		for _, fn := range p.Funcs() {
			for _, b := range fn.Blocks {
				for _, in := range b.Instrs {
					st, ok := in.(*ssa.Store)
					if !ok {
						continue
					}
					gg, ok := st.Addr.(*ssa.Global)
					if !ok {
						continue
					}
					switch v := st.Val.(type) {
					case *ssa.Function:
						p.fnValues[gg] = appendUniqueFn(p.fnValues[gg], v)
					case *ssa.MakeClosure:
						if f, ok := v.Fn.(*ssa.Function); ok {
							p.fnValues[gg] = appendUniqueFn(p.fnValues[gg], f)
						}
					}
				}
			}
		}
	}
	return p.fnValues[g]
}

// allCalls lists call instructions (Call, Defer, Go) of a function in block order.
func allCalls(fn *ssa.Function) []ssa.CallInstruction {
	var out []ssa.CallInstruction
	for _, b := range fn.Blocks {
		for _, in := range b.Instrs {
			if c, ok := in.(ssa.CallInstruction); ok {
				out = append(out, c)
			}
		}
	}
	return out
}

// ---------- CFG helpers ----------

type edge struct{ from, to *ssa.BasicBlock }

// instrIndex returns the index of an instruction in its block.
func instrIndex(in ssa.Instruction) int {
	for i, x := range in.Block().Instrs {
		if x == in {
			return i
		}
	}
	return -1
}

// PathQuery searches for a path in fn's CFG at instruction granularity.
type PathQuery struct {
	// Start: begin right after this instruction; nil = function entry
	Start ssa.Instruction
	// Target: the search succeeds when an instruction satisfying Target is reached
	Target func(ssa.Instruction) bool
	// Barrier: paths stop at an instruction satisfying Barrier (it is not crossed)
	Barrier func(ssa.Instruction) bool
	// EdgeOK: if non-nil, an edge is followed only if EdgeOK returns true
	EdgeOK func(from, to *ssa.BasicBlock) bool
}

// Find returns a witness path (sequence of block indexes) if a path exists.
func (q PathQuery) Find(fn *ssa.Function) (found bool, hit ssa.Instruction, blocks []int) {
	type item struct {
		b    *ssa.BasicBlock
		idx  int
		prev *item
	}
	var startB *ssa.BasicBlock
	startI := 0
	if q.Start != nil {
		startB = q.Start.Block()
		startI = instrIndex(q.Start) + 1
	} else {
		if len(fn.Blocks) == 0 {
			return false, nil, nil
		}
		startB = fn.Blocks[0]
	}
	visited := map[*ssa.BasicBlock]bool{}
	work := []*item{{b: startB, idx: startI}}
	first := true
	for len(work) > 0 {
		it := work[len(work)-1]
		work = work[:len(work)-1]
		if !first || q.Start == nil {
			if it.idx == 0 {
				if visited[it.b] {
					continue
				}
				visited[it.b] = true
			}
		}
		first = false
		stopped := false
		for i := it.idx; i < len(it.b.Instrs); i++ {
			in := it.b.Instrs[i]
			if q.Target != nil && q.Target(in) {
				var path []int
				for x := it; x != nil; x = x.prev {
					path = append([]int{x.b.Index}, path...)
				}
				return true, in, path
			}
			if q.Barrier != nil && q.Barrier(in) {
				stopped = true
				break
			}
		}
		if stopped {
			continue
		}
		for _, s := range it.b.Succs {
			if q.EdgeOK != nil && !q.EdgeOK(it.b, s) {
				continue
			}
			if visited[s] {
				continue
			}
			work = append(work, &item{b: s, idx: 0, prev: it})
		}
	}
	return false, nil, nil
}

// dominatesInstr: a executes before b on every path from entry to b.
func dominatesInstr(a, b ssa.Instruction) bool {
	if a.Block() == b.Block() {
		return instrIndex(a) < instrIndex(b)
	}
	return a.Block().Dominates(b.Block())
}

// Branch describes the condition that holds on a CFG edge out of an If.
type Branch struct {
	Cond ssa.Value
	True bool
}

// edgeCond returns the branch condition for edge from->to when from ends in an If with distinct successors.
func edgeCond(from, to *ssa.BasicBlock) (Branch, bool) {
	if len(from.Instrs) == 0 {
		return Branch{}, false
	}
	iff, ok := from.Instrs[len(from.Instrs)-1].(*ssa.If)
	if !ok || len(from.Succs) != 2 || from.Succs[0] == from.Succs[1] {
		return Branch{}, false
	}
	if to == from.Succs[0] {
		return Branch{Cond: iff.Cond, True: true}, true
	}
	if to == from.Succs[1] {
		return Branch{Cond: iff.Cond, True: false}, true
	}
	return Branch{}, false
}

// normCond strips logical negations: returns the underlying comparison/value and the sense.
func normCond(b Branch) Branch {
	for {
		u, ok := b.Cond.(*ssa.UnOp)
		if !ok || u.Op != token.NOT {
			return b
		}
		b = Branch{Cond: u.X, True: !b.True}
	}
}

// Fact: what a branch asserts about a value: X op Y holds.
type Fact struct {
	X, Y ssa.Value
	Op   token.Token // EQL, NEQ, LSS, LEQ, GTR, GEQ ; for plain boolean values: X is the value, Y nil, Op EQL means X==true
}

func negateOp(op token.Token) token.Token {
	switch op {
	case token.EQL:
		return token.NEQ
	case token.NEQ:
		return token.EQL
	case token.LSS:
		return token.GEQ
	case token.GEQ:
		return token.LSS
	case token.GTR:
		return token.LEQ
	case token.LEQ:
		return token.GTR
	}
	return token.ILLEGAL
}

func branchFact(b Branch) (Fact, bool) {
	b = normCond(b)
	if bo, ok := b.Cond.(*ssa.BinOp); ok {
		switch bo.Op {
		case token.EQL, token.NEQ, token.LSS, token.LEQ, token.GTR, token.GEQ:
			op := bo.Op
			if !b.True {
				op = negateOp(op)
			}
			return Fact{X: bo.X, Y: bo.Y, Op: op}, true
		}
		return Fact{}, false
	}
	// plain boolean
	op := token.EQL
	if !b.True {
		op = token.NEQ
	}
	return Fact{X: b.Cond, Y: nil, Op: op}, true
}

// edgesInto: the facts that hold on every path into instruction `at`, derived from If edges
// that dominate it: an edge (B->S) counts when S dominates at's block and S's only predecessor is B.
func dominatingFacts(at ssa.Instruction) []Fact {
	return expandBoolPhiFacts(dominatingFacts0(at), 0)
}

// expandBoolPhiFacts: a boolean local that holds the value of `a && b` is a phi of the constant false (the
// short-circuit edge) and of b, evaluated where a is known to hold. A fact "that phi is true" therefore implies
// every fact that dominates the block b comes from, and b itself. (`truncated := err == errEndInput && f.eof`.)
func expandBoolPhiFacts(facts []Fact, depth int) []Fact {
	if depth > 2 {
		return facts
	}
	out := facts
	for _, f := range facts {
		if f.Y != nil || f.Op != token.EQL {
			continue
		}
		phi, ok := f.X.(*ssa.Phi)
		if !ok || !isBoolType(phi.Type()) {
			continue
		}
		var live []int
		for i, e := range phi.Edges {
			if k, isK := constInt(e); isK && k == 0 {
				continue
			}
			live = append(live, i)
		}
		if len(live) != 1 {
			continue
		}
		pred := phi.Block().Preds[live[0]]
		var more []Fact
		if len(pred.Instrs) > 0 {
			more = append(more, dominatingFacts0(pred.Instrs[len(pred.Instrs)-1])...)
		}
		e := phi.Edges[live[0]]
		if k, isK := constInt(e); !isK || k != 1 {
			if bf, ok := branchFact(Branch{Cond: e, True: true}); ok {
				more = append(more, bf)
			}
		}
		out = append(out, expandBoolPhiFacts(more, depth+1)...)
	}
	return out
}

func dominatingFacts0(at ssa.Instruction) []Fact {
	var facts []Fact
	blk := at.Block()
	fn := blk.Parent()
	if len(fn.Blocks) == 0 {
		return nil
	}
	entry := fn.Blocks[0]
	for _, a := range fn.Blocks {
		if len(a.Succs) != 2 || a.Succs[0] == a.Succs[1] || !a.Dominates(blk) {
			continue
		}
		for _, s := range a.Succs {
			br, ok := edgeCond(a, s)
			if !ok {
				continue
			}
			f, ok := branchFact(br)
			if !ok {
				continue
			}
			// the edge a->s dominates blk iff blk is unreachable from the entry once the edge is removed
			if a == blk {
				continue
			}
			if !reachableWithoutEdge(entry, blk, a, s) {
				facts = append(facts, f)
			}
		}
	}
	return facts
}

func reachableWithoutEdge(entry, target, ea, eb *ssa.BasicBlock) bool {
	seen := map[*ssa.BasicBlock]bool{}
	work := []*ssa.BasicBlock{entry}
	for len(work) > 0 {
		b := work[len(work)-1]
		work = work[:len(work)-1]
		if seen[b] {
			continue
		}
		seen[b] = true
		if b == target {
			return true
		}
		for _, s := range b.Succs {
			if b == ea && s == eb {
				continue
			}
			if !seen[s] {
				work = append(work, s)
			}
		}
	}
	return false
}

// postDominators computes post-dominance sets for fn (exit = Return/Panic blocks, virtual exit joins them).
type pdom struct {
	fn  *ssa.Function
	set map[*ssa.BasicBlock]map[*ssa.BasicBlock]bool
}

func postDominators(fn *ssa.Function) *pdom {
	n := len(fn.Blocks)
	all := func() map[*ssa.BasicBlock]bool {
		m := make(map[*ssa.BasicBlock]bool, n)
		for _, b := range fn.Blocks {
			m[b] = true
		}
		return m
	}
	pd := &pdom{fn: fn, set: map[*ssa.BasicBlock]map[*ssa.BasicBlock]bool{}}
	for _, b := range fn.Blocks {
		if len(b.Succs) == 0 {
			pd.set[b] = map[*ssa.BasicBlock]bool{b: true}
		} else {
			pd.set[b] = all()
		}
	}
	changed := true
	for changed {
		changed = false
		for i := n - 1; i >= 0; i-- {
			b := fn.Blocks[i]
			if len(b.Succs) == 0 {
				continue
			}
			var inter map[*ssa.BasicBlock]bool
			for _, s := range b.Succs {
				if inter == nil {
					inter = map[*ssa.BasicBlock]bool{}
					for k := range pd.set[s] {
						inter[k] = true
					}
				} else {
					for k := range inter {
						if !pd.set[s][k] {
							delete(inter, k)
						}
					}
				}
			}
			inter[b] = true
			if len(inter) != len(pd.set[b]) {
				pd.set[b] = inter
				changed = true
			}
		}
	}
	return pd
}

func (pd *pdom) PostDominates(a, b *ssa.BasicBlock) bool { return pd.set[b][a] }

// controlDeps: the set of (If-block, branch taken) pairs that instruction `at` is control dependent on,
// transitively up to the entry.
func controlDeps(fn *ssa.Function, at *ssa.BasicBlock) []Branch {
	pd := postDominators(fn)
	var out []Branch
	seen := map[*ssa.BasicBlock]bool{}
	var visit func(b *ssa.BasicBlock)
	visit = func(b *ssa.BasicBlock) {
		if seen[b] {
			return
		}
		seen[b] = true
		for _, a := range fn.Blocks {
			if len(a.Succs) != 2 {
				continue
			}
			for _, s := range a.Succs {
				// b is control dependent on edge a->s if b postdominates s (or is s) and b does not postdominate a
				if (s == b || pd.PostDominates(b, s)) && !(a != b && pd.PostDominates(b, a)) {
					if br, ok := edgeCond(a, s); ok {
						out = append(out, br)
						visit(a)
					}
				}
			}
		}
	}
	visit(at)
	return out
}

// ---------- value flow ----------

// flowForward computes the set of values that may carry v (through Phi, interface conversions,
// Extract, and repo functions that return one of their parameters), and collects sinks.
type Flow struct {
	Values  map[ssa.Value]bool
	Stores  []*ssa.Store
	Returns []*ssa.Return
	Calls   []ssa.CallInstruction // calls receiving the value as an argument (not pass-through)
	Other   []ssa.Instruction
}

func (p *Program) flowForward(start ssa.Value) *Flow {
	fl := &Flow{Values: map[ssa.Value]bool{}}
	var work []ssa.Value
	push := func(v ssa.Value) {
		if v != nil && !fl.Values[v] {
			fl.Values[v] = true
			work = append(work, v)
		}
	}
	push(start)
	for len(work) > 0 {
		v := work[len(work)-1]
		work = work[:len(work)-1]
		refs := v.Referrers()
		if refs == nil {
			continue
		}
		for _, in := range *refs {
			switch x := in.(type) {
			case *ssa.Phi:
				push(x)
			case *ssa.MakeInterface:
				push(x)
			case *ssa.ChangeInterface:
				push(x)
			case *ssa.ChangeType:
				push(x)
			case *ssa.Convert:
				push(x)
			case *ssa.Extract:
				push(x)
			case *ssa.Store:
				if x.Val == v {
					fl.Stores = append(fl.Stores, x)
					// a local slot: later loads of the slot carry the value
					if a, ok := x.Addr.(*ssa.Alloc); ok {
						if ar := a.Referrers(); ar != nil {
							for _, u := range *ar {
								if ld, ok := u.(*ssa.UnOp); ok && ld.Op == token.MUL {
									push(ld)
								}
							}
						}
					}
				}
			case *ssa.Return:
				fl.Returns = append(fl.Returns, x)
			case ssa.CallInstruction:
				com := x.Common()
				passed := false
				if f := com.StaticCallee(); f != nil && f.Blocks != nil && p.InRepo(f) {
					for i, a := range com.Args {
						if a == v && p.returnsParam(f, i) {
							if val := x.Value(); val != nil {
								push(val)
								passed = true
							}
						}
					}
				}
				if !passed {
					fl.Calls = append(fl.Calls, x)
				}
			case *ssa.BinOp, *ssa.If, *ssa.TypeAssert:
				// comparisons / assertions do not carry the value
			default:
				fl.Other = append(fl.Other, in)
			}
		}
	}
	return fl
}

var returnsParamCache = map[*ssa.Function]map[int]bool{}

// returnsParam: may fn return its i-th parameter unchanged (through phis)?
func (p *Program) returnsParam(fn *ssa.Function, i int) bool {
	if m, ok := returnsParamCache[fn]; ok {
		if r, ok := m[i]; ok {
			return r
		}
	} else {
		returnsParamCache[fn] = map[int]bool{}
	}
	res := false
	if i < len(fn.Params) {
		par := fn.Params[i]
		for _, b := range fn.Blocks {
			for _, in := range b.Instrs {
				if ret, ok := in.(*ssa.Return); ok {
					for _, r := range ret.Results {
						if valueMayBe(r, par, map[ssa.Value]bool{}) {
							res = true
						}
					}
				}
			}
		}
	}
	returnsParamCache[fn][i] = res
	return res
}

func valueMayBe(v, target ssa.Value, seen map[ssa.Value]bool) bool {
	if v == target {
		return true
	}
	if seen[v] {
		return false
	}
	seen[v] = true
	switch x := v.(type) {
	case *ssa.Phi:
		for _, e := range x.Edges {
			if valueMayBe(e, target, seen) {
				return true
			}
		}
	case *ssa.MakeInterface:
		return valueMayBe(x.X, target, seen)
	case *ssa.ChangeInterface:
		return valueMayBe(x.X, target, seen)
	case *ssa.ChangeType:
		return valueMayBe(x.X, target, seen)
	}
	return false
}

// sources: backward closure of a value through phi / conversions / pass-through calls; returns leaf values.
func (p *Program) valueSources(v ssa.Value) []ssa.Value {
	var leaves []ssa.Value
	seen := map[ssa.Value]bool{}
	var walk func(v ssa.Value)
	walk = func(v ssa.Value) {
		if v == nil || seen[v] {
			return
		}
		seen[v] = true
		switch x := v.(type) {
		case *ssa.Phi:
			for _, e := range x.Edges {
				walk(e)
			}
		case *ssa.MakeInterface:
			if _, isI := x.X.Type().Underlying().(*types.Interface); isI {
				walk(x.X)
			} else {
				leaves = append(leaves, v) // a concrete value boxed into the interface: that is the source
			}
		case *ssa.ChangeInterface:
			walk(x.X)
		case *ssa.ChangeType:
			walk(x.X)
		case *ssa.Call:
			if f := x.Common().StaticCallee(); f != nil && f.Blocks != nil && p.InRepo(f) {
				any := false
				for i, a := range x.Common().Args {
					if p.returnsParam(f, i) {
						walk(a)
						any = true
					}
				}
				if any {
					// plus whatever else the function may return (constants, globals)
					for _, b := range f.Blocks {
						for _, in := range b.Instrs {
							if ret, ok := in.(*ssa.Return); ok {
								for _, r := range ret.Results {
									if types.Identical(r.Type(), x.Type()) {
										for _, l := range p.valueSources(r) {
											if _, isPar := l.(*ssa.Parameter); !isPar {
												leaves = append(leaves, l)
											}
										}
									}
								}
							}
						}
					}
					return
				}
			}
			leaves = append(leaves, v)
		case *ssa.UnOp:
			if x.Op == token.MUL {
				if a, ok := x.X.(*ssa.Alloc); ok {
					// local slot: every store into it
					if ar := a.Referrers(); ar != nil {
						found := false
						for _, u := range *ar {
							if st, ok := u.(*ssa.Store); ok && st.Addr == a {
								walk(st.Val)
								found = true
							}
						}
						if found {
							return
						}
					}
				}
			}
			leaves = append(leaves, v)
		default:
			leaves = append(leaves, v)
		}
	}
	walk(v)
	return leaves
}

// errorResult returns the value carrying the error result of a call (the call itself or an Extract), if any.
func errorResults(c ssa.CallInstruction) []ssa.Value {
	val := c.Value()
	if val == nil {
		return nil
	}
	sig := c.Common().Signature()
	res := sig.Results()
	var out []ssa.Value
	if res.Len() == 1 {
		if isErrorType(res.At(0).Type()) {
			out = append(out, val)
		}
		return out
	}
	for i := 0; i < res.Len(); i++ {
		if !isErrorType(res.At(i).Type()) {
			continue
		}
		if refs := val.Referrers(); refs != nil {
			for _, r := range *refs {
				if ex, ok := r.(*ssa.Extract); ok && ex.Index == i {
					if er := ex.Referrers(); er != nil && len(*er) > 0 {
						out = append(out, ex)
					}
				}
			}
		}
	}
	return out
}

// hasErrorResult: does the call's signature include an error result?
func hasErrorResult(c ssa.CallInstruction) (idx int, ok bool) {
	res := c.Common().Signature().Results()
	for i := 0; i < res.Len(); i++ {
		if isErrorType(res.At(i).Type()) {
			return i, true
		}
	}
	return -1, false
}

var errorType = types.Universe.Lookup("error").Type()

func isErrorType(t types.Type) bool { return types.Identical(t, errorType) }

// structFieldsOfType lists names of fields of struct st whose type satisfies pred.
func structFields(st *types.Struct, pred func(types.Type) bool) []string {
	var out []string
	for i := 0; i < st.NumFields(); i++ {
		if pred(st.Field(i).Type()) {
			out = append(out, st.Field(i).Name())
		}
	}
	return out
}

func isNamedType(t types.Type, pkgPath, name string) bool {
	n := derefNamed(t)
	if n == nil || n.Obj().Pkg() == nil {
		return false
	}
	return n.Obj().Pkg().Path() == pkgPath && n.Obj().Name() == name
}

func describeValue(v ssa.Value) string {
	if v == nil {
		return "<nil>"
	}
	if root, sel, ok := fieldLoad(v); ok {
		return fmt.Sprintf("load %s%s", root.Name(), sel)
	}
	if g := globalLoad(v); g != nil {
		return "load " + globalName(g)
	}
	if c, ok := v.(*ssa.Const); ok {
		return c.String()
	}
	return v.Name() + "=" + v.String()
}

func sortedKeys(m map[string]bool) []string {
	var out []string
	for k := range m {
		out = append(out, k)
	}
	sort.Strings(out)
	return out
}

// concreteTypesOf: the dynamic types an interface value may hold, found by tracing it back through
// phis, type assertions, repository functions' returns, and every store into the struct field or
// package variable it is loaded from (a small type-flow analysis over the repository). Types defined
// outside the repository contribute no repository callee and are dropped. complete=false when some
// source cannot be resolved (a parameter, an unknown load) - the caller then falls back to all
// implementing repository types.
func (p *Program) concreteTypesOf(v ssa.Value) ([]types.Type, bool) {
	var out []types.Type
	complete := true
	seen := map[ssa.Value]bool{}
	seenField := map[string]bool{}
	addT := func(t types.Type) {
		for _, x := range out {
			if types.Identical(x, t) {
				return
			}
		}
		out = append(out, t)
	}
	var walk func(v ssa.Value, depth int)
	walkField := func(owner *types.Named, field string, depth int) {
		key := owner.String() + "." + field
		if seenField[key] {
			return
		}
		seenField[key] = true
		n := 0
		for _, fn := range p.Funcs() {
			for _, b := range fn.Blocks {
				for _, in := range b.Instrs {
					st, ok := in.(*ssa.Store)
					if !ok {
						continue
					}
					fa, ok := st.Addr.(*ssa.FieldAddr)
					if !ok {
						continue
					}
					on := derefNamed(fa.X.Type())
					if on != owner {
						continue
					}
					if derefStruct(fa.X.Type()).Field(fa.Field).Name() != field {
						continue
					}
					n++
					walk(st.Val, depth+1)
				}
			}
		}
		_ = n
	}
	walk = func(v ssa.Value, depth int) {
		if v == nil || seen[v] {
			return
		}
		seen[v] = true
		if depth > 40 {
			complete = false
			return
		}
		switch x := v.(type) {
		case *ssa.Const:
			// nil interface: no dynamic type
		case *ssa.MakeInterface:
			addT(x.X.Type())
		case *ssa.Phi:
			for _, e := range x.Edges {
				walk(e, depth+1)
			}
		case *ssa.ChangeInterface:
			walk(x.X, depth+1)
		case *ssa.TypeAssert:
			walk(x.X, depth+1)
		case *ssa.Extract:
			if c, ok := x.Tuple.(*ssa.Call); ok {
				p.walkCallResult(c, x.Index, walk, &complete, depth)
			} else if ta, ok := x.Tuple.(*ssa.TypeAssert); ok && x.Index == 0 {
				walk(ta.X, depth+1)
			} else {
				complete = false
			}
		case *ssa.Call:
			p.walkCallResult(x, 0, walk, &complete, depth)
		case *ssa.UnOp:
			if x.Op != token.MUL {
				complete = false
				return
			}
			switch a := x.X.(type) {
			case *ssa.FieldAddr:
				owner := derefNamed(a.X.Type())
				if owner == nil {
					complete = false
					return
				}
				walkField(owner, derefStruct(a.X.Type()).Field(a.Field).Name(), depth)
			case *ssa.Global:
				for _, fn := range p.Funcs() {
					for _, b := range fn.Blocks {
						for _, in := range b.Instrs {
							if st, ok := in.(*ssa.Store); ok && st.Addr == ssa.Value(a) {
								walk(st.Val, depth+1)
							}
						}
					}
				}
			case *ssa.Alloc:
				if refs := a.Referrers(); refs != nil {
					for _, u := range *refs {
						if st, ok := u.(*ssa.Store); ok && st.Addr == ssa.Value(a) {
							walk(st.Val, depth+1)
						}
					}
				}
			default:
				complete = false
			}
		default:
			complete = false
		}
	}
	walk(v, 0)
	return out, complete
}

func (p *Program) walkCallResult(c *ssa.Call, idx int, walk func(ssa.Value, int), complete *bool, depth int) {
	callees, ok := p.Callees(c)
	if !ok {
		*complete = false
		return
	}
	if c.Common().IsInvoke() && len(callees) == 0 {
		*complete = false
		return
	}
	for _, f := range callees {
		if f.Blocks == nil {
			// a function outside the repository returns a type defined outside the repository
			// (std constructors) - unless its result type is an interface a repository value could be passed through
			continue
		}
		for _, b := range f.Blocks {
			for _, in := range b.Instrs {
				if ret, ok := in.(*ssa.Return); ok && idx < len(ret.Results) {
					walk(ret.Results[idx], depth+1)
				}
			}
		}
	}
}

// interveningWriter: is there an instruction w satisfying isWriter that can execute after `from`
// and before `to` on some path (from -> w without passing `to`, then w -> to)?
func interveningWriter(fn *ssa.Function, from, to ssa.Instruction, isWriter func(ssa.Instruction) bool, edgeOK func(a, b *ssa.BasicBlock) bool) bool {
	isTo := func(x ssa.Instruction) bool { return x == to }
	for _, b := range fn.Blocks {
		for _, w := range b.Instrs {
			if w == from || w == to || !isWriter(w) {
				continue
			}
			w := w
			isW := func(x ssa.Instruction) bool { return x == w }
			f1, _, _ := PathQuery{Start: from, Target: isW, Barrier: isTo, EdgeOK: edgeOK}.Find(fn)
			if !f1 {
				continue
			}
			// passing through `from` again re-establishes the value: not an intervening write
			f2, _, _ := PathQuery{Start: w, Target: isTo, Barrier: func(x ssa.Instruction) bool { return x == from }, EdgeOK: edgeOK}.Find(fn)
			if f2 {
				return true
			}
		}
	}
	return false
}

// ---------- correlated-branch reachability ----------

// AssumeReach decides whether `target` can execute when the function is entered with the field
// whose selector ends in assumeSuffix equal to the constant assumeVal. It is a depth-first search
// over the CFG that carries the set of equalities known on the current path: an If on a comparison
// already decided on the path (same field location with no store in between, same SSA value, same
// constant) is followed only along the consistent edge. Facts about a field are dropped at a store
// to that field and, for repository callees, at any call (std calls cannot write repository state).
type condKey struct{ x, y string }

func operandKey(v ssa.Value) string {
	if k, ok := constInt(v); ok {
		return "k:" + itoa(int(k))
	}
	if c, ok := v.(*ssa.Const); ok && c.IsNil() {
		return "nil"
	}
	if root, sel, ok := fieldLoad(v); ok {
		return "f:" + root.Name() + sel
	}
	return "v:" + v.Name()
}

func (p *Program) AssumeReach(fn *ssa.Function, target ssa.Instruction, assumeSuffix string, assumeVal int64) bool {
	type known map[condKey]bool // (x,y) -> x == y ?
	enc := func(k known) string {
		var parts []string
		for c, t := range k {
			s := c.x + "=" + c.y
			if !t {
				s = c.x + "!" + c.y
			}
			parts = append(parts, s)
		}
		sort.Strings(parts)
		return strings.Join(parts, ";")
	}
	copyK := func(k known) known {
		n := known{}
		for c, t := range k {
			n[c] = t
		}
		return n
	}
	dropField := func(k known, suffix string, all bool) {
		for c := range k {
			for _, s := range []string{c.x, c.y} {
				if strings.HasPrefix(s, "f:") && (all || strings.HasSuffix(s, suffix)) {
					delete(k, c)
				}
			}
		}
	}
	assumed := true // the entry assumption still holds (no store to the assumed field so far)
	_ = assumed
	seen := map[string]bool{}
	var dfs func(b *ssa.BasicBlock, k known, holds bool) bool
	dfs = func(b *ssa.BasicBlock, k known, holds bool) bool {
		key := itoa(b.Index) + "|" + enc(k)
		if holds {
			key += "|A"
		}
		if seen[key] {
			return false
		}
		seen[key] = true
		k = copyK(k)
		for _, in := range b.Instrs {
			if in == target {
				return true
			}
			switch x := in.(type) {
			case *ssa.Store:
				_, sel := accessPath(x.Addr)
				if sel != "" {
					dropField(k, sel, false)
					if strings.HasSuffix(sel, assumeSuffix) {
						holds = false
					}
				} else {
					dropField(k, "", true)
				}
			case ssa.CallInstruction:
				cs, _ := p.Callees(x)
				if len(cs) > 0 {
					dropField(k, "", true)
					holds = false
				}
			}
		}
		if len(b.Succs) != 2 {
			for _, s := range b.Succs {
				if dfs(s, k, holds) {
					return true
				}
			}
			return false
		}
		for _, s := range b.Succs {
			br, ok := edgeCond(b, s)
			nk := k
			if ok {
				if f, okf := branchFact(br); okf && f.Y != nil && (f.Op == token.EQL || f.Op == token.NEQ) {
					kx, ky := operandKey(f.X), operandKey(f.Y)
					if ky < kx {
						kx, ky = ky, kx
					}
					ck := condKey{kx, ky}
					want := f.Op == token.EQL
					// the entry assumption
					if holds {
						fk, other := "", ""
						if strings.HasPrefix(kx, "f:") && strings.HasSuffix(kx, assumeSuffix) {
							fk, other = kx, ky
						} else if strings.HasPrefix(ky, "f:") && strings.HasSuffix(ky, assumeSuffix) {
							fk, other = ky, kx
						}
						if fk != "" && strings.HasPrefix(other, "k:") {
							truth := other == "k:"+itoa(int(assumeVal))
							if truth != want {
								continue // edge contradicts the assumption
							}
						}
					}
					if t, have := k[ck]; have {
						if t != want {
							continue // edge contradicts what the path already decided
						}
					} else {
						nk = copyK(k)
						nk[ck] = want
					}
				}
			}
			if dfs(s, nk, holds) {
				return true
			}
		}
		return false
	}
	if len(fn.Blocks) == 0 {
		return false
	}
	return dfs(fn.Blocks[0], known{}, true)
}

// ---------- regions: a function together with the helpers its body was split into ----------

// regionCall is a call found in fn or in a same-package helper reached from fn through static calls
// (depth <= 3). bind maps the helper's parameters to the argument values at the (unique) call site it was
// reached through, so a value used inside the helper can be traced back to a parameter of fn.
type regionCall struct {
	call ssa.CallInstruction
	in   *ssa.Function
	bind map[*ssa.Parameter]ssa.Value
	via  ssa.CallInstruction // the call in the root function through which a helper was entered (nil in the root)
}

func (p *Program) regionCalls(fn *ssa.Function) []regionCall {
	var out []regionCall
	seen := map[*ssa.Function]bool{}
	var walk func(g *ssa.Function, bind map[*ssa.Parameter]ssa.Value, depth int, via ssa.CallInstruction)
	walk = func(g *ssa.Function, bind map[*ssa.Parameter]ssa.Value, depth int, via ssa.CallInstruction) {
		if seen[g] || depth > 3 {
			return
		}
		seen[g] = true
		for _, c := range allCalls(g) {
			out = append(out, regionCall{c, g, bind, via})
			h := c.Common().StaticCallee()
			if h == nil || h.Blocks == nil || !p.InRepo(h) || h.Pkg != fn.Pkg || h == fn {
				continue
			}
			nb := map[*ssa.Parameter]ssa.Value{}
			for k, v := range bind {
				nb[k] = v
			}
			for i, prm := range h.Params {
				if i < len(c.Common().Args) {
					nb[prm] = c.Common().Args[i]
				}
			}
			v := via
			if v == nil {
				v = c
			}
			walk(h, nb, depth+1, v)
		}
	}
	walk(fn, map[*ssa.Parameter]ssa.Value{}, 0, nil)
	return out
}

// boundTo: v is target, or a helper parameter bound (transitively) to target.
func boundTo(v ssa.Value, target ssa.Value, bind map[*ssa.Parameter]ssa.Value) bool {
	for i := 0; i < 5; i++ {
		if v == target {
			return true
		}
		prm, ok := v.(*ssa.Parameter)
		if !ok {
			return false
		}
		nv, ok := bind[prm]
		if !ok {
			return false
		}
		v = nv
	}
	return false
}

// helperPostFacts: facts that hold at `at` because a dominating branch tested the result of a same-package
// helper: when `at` is behind "result i of h(...) is (not) the constant c", the facts dominating every return
// of h that can produce such a result hold when h returned (about h's own values - rules that match facts by
// shape, such as "a load of inflate.bitsLen compared with 0", can use them; rules matching SSA values cannot).
func (p *Program) helperPostFacts(at ssa.Instruction) []Fact {
	var out []Fact
	fn := at.Parent()
	for _, f := range dominatingFacts(at) {
		var v ssa.Value
		want, neg := int64(0), false
		switch {
		case f.Y == nil:
			v, want, neg = f.X, 1, f.Op == token.NEQ
		default:
			if k, ok := constInt(f.Y); ok && (f.Op == token.EQL || f.Op == token.NEQ) {
				v, want, neg = f.X, k, f.Op == token.NEQ
			} else if k, ok := constInt(f.X); ok && (f.Op == token.EQL || f.Op == token.NEQ) {
				v, want, neg = f.Y, k, f.Op == token.NEQ
			}
		}
		if v == nil {
			continue
		}
		var call *ssa.Call
		idx := 0
		switch x := v.(type) {
		case *ssa.Call:
			call = x
		case *ssa.Extract:
			if c, ok := x.Tuple.(*ssa.Call); ok {
				call, idx = c, x.Index
			}
		}
		if call == nil {
			continue
		}
		h := call.Common().StaticCallee()
		if h == nil || h.Blocks == nil || h.Pkg != fn.Pkg || !p.InRepo(h) {
			continue
		}
		var common []Fact
		first := true
		for _, b := range h.Blocks {
			for _, in := range b.Instrs {
				ret, ok := in.(*ssa.Return)
				if !ok || idx >= len(ret.Results) {
					continue
				}
				if k, isK := constInt(ret.Results[idx]); isK && ((k == want) == neg) {
					continue // this return cannot produce the tested outcome
				}
				fs := dominatingFacts(ret)
				if first {
					common, first = fs, false
					continue
				}
				var keep []Fact
				for _, a := range common {
					for _, b2 := range fs {
						if a.Op == b2.Op && a.X == b2.X && a.Y == b2.Y {
							keep = append(keep, a)
							break
						}
					}
				}
				common = keep
			}
		}
		out = append(out, common...)
	}
	return out
}

// apiEntries: the functions of fn's package through which fn is reached from outside - fn itself when it is
// exported, a Reset method or a constructor (New*); otherwise the entries of its static same-package callers
// (depth <= 3). A private helper shared by NewReader and Reset is thereby judged as part of both.
func (p *Program) apiEntries(fn *ssa.Function) []*ssa.Function {
	isEntry := func(f *ssa.Function) bool {
		return ast.IsExported(f.Name()) || f.Name() == "Reset" || strings.HasPrefix(f.Name(), "New")
	}
	var walk func(f *ssa.Function, depth int, seen map[*ssa.Function]bool) []*ssa.Function
	walk = func(f *ssa.Function, depth int, seen map[*ssa.Function]bool) []*ssa.Function {
		if isEntry(f) || depth > 3 || seen[f] {
			return []*ssa.Function{f}
		}
		seen[f] = true
		var out []*ssa.Function
		for _, g := range p.Funcs() {
			if g.Pkg != f.Pkg || g == f {
				continue
			}
			for _, c := range allCalls(g) {
				if c.Common().StaticCallee() == f {
					out = append(out, walk(g, depth+1, seen)...)
					break
				}
			}
		}
		if len(out) == 0 {
			return []*ssa.Function{f}
		}
		return out
	}
	return walk(fn, 0, map[*ssa.Function]bool{})
}

// selectorHelperFields: v is the result of a call-free method called on recv that, on every path, returns one of its
// receiver's fields (as it is, or wrapped in an interface): `active()` picking between the delegate and the
// compressor. It returns the selectors (".w", ".lc") the helper can hand back.
func selectorHelperFields(v ssa.Value, recv ssa.Value) ([]string, bool) {
	c, ok := v.(*ssa.Call)
	if !ok {
		return nil, false
	}
	h := c.Common().StaticCallee()
	if h == nil || h.Blocks == nil || h.Signature.Recv() == nil || len(c.Common().Args) != 1 || c.Common().Args[0] != recv || len(allCalls(h)) != 0 {
		return nil, false
	}
	var out []string
	for _, b := range h.Blocks {
		for _, in := range b.Instrs {
			ret, ok := in.(*ssa.Return)
			if !ok {
				continue
			}
			if len(ret.Results) != 1 {
				return nil, false
			}
			x := ret.Results[0]
			for {
				if mi, ok := x.(*ssa.MakeInterface); ok {
					x = mi.X
					continue
				}
				if ci, ok := x.(*ssa.ChangeInterface); ok {
					x = ci.X
					continue
				}
				break
			}
			root, sel, ok := fieldLoad(x)
			if !ok || root != ssa.Value(h.Params[0]) {
				return nil, false
			}
			out = append(out, sel)
		}
	}
	return out, len(out) > 0
}

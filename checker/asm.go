package main

// E6: front end for the Go assembler dialect used by the repository's .s files:
// parser (TEXT / labels / instructions / operands), per-TEXT CFG, and a forward dataflow over registers.
// An unknown mnemonic or operand form aborts the analysis of the file (it is never skipped silently).

import (
	"bufio"
	"fmt"
	"os"
	"regexp"
	"strconv"
	"strings"
)

type OpKind int

const (
	OpImm OpKind = iota
	OpReg
	OpFP  // name+off(FP)
	OpSym // sym+off(SB)
	OpMem // disp(base)(index*scale)
	OpLabel
)

type Operand struct {
	Kind  OpKind
	Imm   int64
	Reg   string
	Name  string // FP arg name / symbol name / label
	Off   int64  // FP offset / symbol offset / displacement
	Base  string
	Index string
	Scale int64
	Raw   string
}

type AsmInstr struct {
	Mnem   string // without .Z suffix
	Suffix string
	Ops    []Operand
	Line   int
	Labels []string // labels attached to this instruction
	Raw    string
}

type AsmText struct {
	Name      string
	File      string
	Line      int
	FrameSize int64
	ArgSize   int64
	Instrs    []*AsmInstr
	labelIdx  map[string]int
	Requires  []string // generator comment (cross-reference only)
}

type AsmFile struct {
	Path  string
	Texts []*AsmText
	Data  map[string]bool // DATA/GLOBL symbols
}

var (
	reText  = regexp.MustCompile(`^TEXT\s+([^\s,(]+)\(SB\)\s*,\s*(?:([A-Z|]+)\s*,\s*)?\$(-?\d+)(?:-(\d+))?`)
	reLabel = regexp.MustCompile(`^([A-Za-z_][A-Za-z0-9_]*):\s*(.*)$`)
	reFP    = regexp.MustCompile(`^([A-Za-z_][A-Za-z0-9_]*)\+(-?\d+)\(FP\)$`)
	reSym   = regexp.MustCompile(`^([^\s()+\-]+?)(<>)?(?:([+-]\d+))?\(SB\)$`)
	reMem   = regexp.MustCompile(`^(-?(?:0x[0-9a-fA-F]+|\d+))?\(([A-Z0-9]+)\)(?:\(([A-Z0-9]+)\*(\d+)\))?$`)
	reMemNB = regexp.MustCompile(`^(-?(?:0x[0-9a-fA-F]+|\d+))?\(([A-Z0-9]+)\*(\d+)\)$`)
	reReg   = regexp.MustCompile(`^(AX|BX|CX|DX|SI|DI|BP|SP|R(?:8|9|1[0-5])|AL|BL|CL|DL|[XYZ](?:[0-9]|[12][0-9]|3[01])|K[0-7])$`)
	reIdent = regexp.MustCompile(`^[A-Za-z_][A-Za-z0-9_]*$`)
)

func parseImm(s string) (int64, bool) {
	s = strings.TrimPrefix(s, "$")
	neg := false
	if strings.HasPrefix(s, "+") {
		s = s[1:]
	} else if strings.HasPrefix(s, "-") {
		neg = true
		s = s[1:]
	}
	if strings.HasPrefix(s, "~") {
		v, err := strconv.ParseUint(strings.TrimPrefix(s[1:], "0x"), 16, 64)
		if err != nil {
			return 0, false
		}
		return int64(^v), true
	}
	var v uint64
	var err error
	if strings.HasPrefix(s, "0x") || strings.HasPrefix(s, "0X") {
		v, err = strconv.ParseUint(s[2:], 16, 64)
	} else {
		v, err = strconv.ParseUint(s, 10, 64)
	}
	if err != nil {
		return 0, false
	}
	r := int64(v)
	if neg {
		r = -r
	}
	return r, true
}

func parseOperand(s string) (Operand, error) {
	s = strings.TrimSpace(s)
	op := Operand{Raw: s}
	switch {
	case strings.HasPrefix(s, "$"):
		v, ok := parseImm(s)
		if !ok {
			return op, fmt.Errorf("bad immediate %q", s)
		}
		op.Kind, op.Imm = OpImm, v
		return op, nil
	case reReg.MatchString(s):
		op.Kind, op.Reg = OpReg, s
		return op, nil
	}
	if m := reFP.FindStringSubmatch(s); m != nil {
		off, _ := strconv.ParseInt(m[2], 10, 64)
		op.Kind, op.Name, op.Off = OpFP, m[1], off
		return op, nil
	}
	if m := reSym.FindStringSubmatch(s); m != nil {
		op.Kind, op.Name = OpSym, m[1]+m[2]
		if m[3] != "" {
			op.Off, _ = strconv.ParseInt(m[3], 10, 64)
		}
		return op, nil
	}
	if m := reMem.FindStringSubmatch(s); m != nil {
		op.Kind = OpMem
		if m[1] != "" {
			v, ok := parseImm(m[1])
			if !ok {
				return op, fmt.Errorf("bad displacement %q", s)
			}
			op.Off = v
		}
		op.Base = m[2]
		if !reReg.MatchString(op.Base) {
			return op, fmt.Errorf("bad base register in %q", s)
		}
		if m[3] != "" {
			op.Index = m[3]
			op.Scale, _ = strconv.ParseInt(m[4], 10, 64)
			if !reReg.MatchString(op.Index) {
				return op, fmt.Errorf("bad index register in %q", s)
			}
		}
		return op, nil
	}
	if m := reMemNB.FindStringSubmatch(s); m != nil {
		op.Kind = OpMem
		if m[1] != "" {
			op.Off, _ = parseImm(m[1])
		}
		op.Index = m[2]
		op.Scale, _ = strconv.ParseInt(m[3], 10, 64)
		return op, nil
	}
	if reIdent.MatchString(s) {
		op.Kind, op.Name = OpLabel, s
		return op, nil
	}
	return op, fmt.Errorf("unknown operand form %q", s)
}

func splitOperands(s string) []string {
	var out []string
	depth := 0
	cur := ""
	for _, c := range s {
		switch c {
		case '(':
			depth++
		case ')':
			depth--
		case ',':
			if depth == 0 {
				out = append(out, strings.TrimSpace(cur))
				cur = ""
				continue
			}
		}
		cur += string(c)
	}
	if strings.TrimSpace(cur) != "" {
		out = append(out, strings.TrimSpace(cur))
	}
	return out
}

func ParseAsmFile(path string) (*AsmFile, error) {
	f, err := os.Open(path)
	if err != nil {
		return nil, err
	}
	defer f.Close()
	af := &AsmFile{Path: path, Data: map[string]bool{}}
	sc := bufio.NewScanner(f)
	sc.Buffer(make([]byte, 1<<20), 1<<20)
	var cur *AsmText
	var pendingLabels []string
	var lastComment []string
	line := 0
	for sc.Scan() {
		line++
		raw := sc.Text()
		txt := raw
		if i := strings.Index(txt, "//"); i >= 0 {
			c := strings.TrimSpace(txt[i+2:])
			if strings.HasPrefix(c, "Requires:") {
				lastComment = strings.Split(strings.TrimSpace(strings.TrimPrefix(c, "Requires:")), ",")
			}
			txt = txt[:i]
		}
		txt = strings.TrimSpace(txt)
		if txt == "" || strings.HasPrefix(txt, "#") {
			continue
		}
		if strings.HasPrefix(txt, "TEXT") {
			m := reText.FindStringSubmatch(txt)
			if m == nil {
				return nil, fmt.Errorf("%s:%d: cannot parse TEXT directive %q", path, line, txt)
			}
			cur = &AsmText{Name: strings.TrimPrefix(m[1], "·"), File: path, Line: line, labelIdx: map[string]int{}}
			cur.FrameSize, _ = strconv.ParseInt(m[3], 10, 64)
			if m[4] != "" {
				cur.ArgSize, _ = strconv.ParseInt(m[4], 10, 64)
			}
			for _, r := range lastComment {
				cur.Requires = append(cur.Requires, strings.TrimSpace(r))
			}
			lastComment = nil
			af.Texts = append(af.Texts, cur)
			pendingLabels = nil
			continue
		}
		if strings.HasPrefix(txt, "DATA") || strings.HasPrefix(txt, "GLOBL") {
			fields := strings.Fields(strings.TrimPrefix(strings.TrimPrefix(txt, "DATA"), "GLOBL"))
			if len(fields) > 0 {
				name := fields[0]
				if i := strings.IndexAny(name, "+(<,"); i > 0 {
					name = name[:i]
				}
				af.Data[name] = true
			}
			continue
		}
		if m := reLabel.FindStringSubmatch(txt); m != nil && !strings.Contains(m[1], " ") {
			pendingLabels = append(pendingLabels, m[1])
			txt = strings.TrimSpace(m[2])
			if txt == "" {
				continue
			}
		}
		if cur == nil {
			return nil, fmt.Errorf("%s:%d: instruction outside TEXT: %q", path, line, txt)
		}
		fields := strings.SplitN(txt, " ", 2)
		mn := fields[0]
		if i := strings.IndexAny(mn, "\t"); i >= 0 {
			fields = []string{mn[:i], strings.TrimSpace(mn[i:] + " " + strings.Join(fields[1:], " "))}
			mn = fields[0]
		}
		in := &AsmInstr{Line: line, Raw: txt, Labels: pendingLabels}
		pendingLabels = nil
		if i := strings.Index(mn, "."); i > 0 {
			in.Mnem, in.Suffix = mn[:i], mn[i:]
		} else {
			in.Mnem = mn
		}
		if len(fields) > 1 {
			for _, os := range splitOperands(fields[1]) {
				op, err := parseOperand(os)
				if err != nil {
					return nil, fmt.Errorf("%s:%d: %v in %q", path, line, err, txt)
				}
				in.Ops = append(in.Ops, op)
			}
		}
		for _, l := range in.Labels {
			cur.labelIdx[l] = len(cur.Instrs)
		}
		cur.Instrs = append(cur.Instrs, in)
	}
	if err := sc.Err(); err != nil {
		return nil, err
	}
	return af, nil
}

// ---------- mnemonic classes ----------

var asmJumps = map[string]bool{"JMP": true, "JG": true, "JGE": true, "JL": true, "JLE": true, "JE": true, "JNE": true, "JZ": true, "JNZ": true,
	"JA": true, "JAE": true, "JB": true, "JBE": true, "JC": true, "JNC": true, "JS": true, "JNS": true, "JHI": true, "JLS": true, "JCS": true, "JCC": true, "JEQ": true, "JLT": true, "JGT": true}

// instructions that write no operand (flags only / hints)
var asmReadOnly = map[string]bool{"CMPQ": true, "CMPL": true, "CMPW": true, "CMPB": true, "TESTQ": true, "TESTL": true, "TESTW": true, "TESTB": true,
	"PREFETCHT0": true, "PREFETCHT1": true, "PREFETCHT2": true, "PREFETCHNTA": true, "VPTEST": true, "KTESTQ": true, "KTESTD": true, "KTESTW": true, "KTESTB": true,
	"KORTESTQ": true, "KORTESTD": true, "PTEST": true, "NOP": true}

// complete table of mnemonics this front end understands (anything else aborts)
var asmKnown = map[string]bool{}

func init() {
	for _, m := range strings.Fields(`MOVQ ADDQ CMPQ SHRQ XORQ LEAQ MOVW ADDL JMP CRC32L ANDQ ANDL MOVL SUBQ JG ORQ SHLQ MOVOU DECQ SHRXQ NEGQ JZ JNZ BZHIQ VMOVQ MOVBQZX BSRQ BSFQ JLE JL JA SHLXQ VPEXTRQ CMOVQGT JGE TESTL SUBW RET PSRLDQ INCQ VPADDQ KMOVQ VPSRLQ VPSLLVQ VEXTRACTI32X4 TESTQ PREFETCHT0 VPSRLD KNOTQ XORL VPERMQ JE INCL VMOVDQU VEXTRACTI128 VPXOR VPGATHERDD VMOVDQU64 JBE VPBROADCASTD VPAND JNE VPCMPB VPBLENDD VMOVDQU8 VMOVDQA32 PMOVMSKB PCMPEQB KTESTQ BSFL VPANDD VPORQ VPADDD VPXORD KTESTD CPUID VSHUFI64X2 VPSLLVD VPMOVMSKB VPCMPEQQ VPCMPEQB VPANDQ TZCNTQ MOVWQZX CMPL VPSRLVQ VPXORQ VPTEST VPTERNLOGD VPSUBQ VPSRLDQ VPSCATTERQQ VPORD VPOR VPMOVZXBD VPCMPQ VPCMPGTD VPBROADCASTQ VMOVDQA VEXTRACTI64X2 PSHUFB KXORQ KSHIFTLQ KANDQ VPSLLDQ VPSHUFB VPBLENDW VMOVDQU16 MOVB SHLL SHRL SUBL ORL DECL MOVLQZX MOVBLZX CMOVQLT CMOVQLE CMOVQGE CMOVQEQ CMOVQNE ADDW INCW SARQ IMULQ NOTQ ANDNQ LZCNTQ POPCNTQ MOVLQSX MOVQ2 JB JAE`) {
		asmKnown[m] = true
	}
}

// successors of instruction i in text t
func (t *AsmText) succs(i int) ([]int, error) {
	in := t.Instrs[i]
	if in.Mnem == "RET" {
		return nil, nil
	}
	if asmJumps[in.Mnem] {
		if len(in.Ops) != 1 || in.Ops[0].Kind != OpLabel {
			return nil, fmt.Errorf("%s:%d: jump without label operand", t.File, in.Line)
		}
		tgt, ok := t.labelIdx[in.Ops[0].Name]
		if !ok {
			return nil, fmt.Errorf("%s:%d: unknown label %s", t.File, in.Line, in.Ops[0].Name)
		}
		if in.Mnem == "JMP" {
			return []int{tgt}, nil
		}
		if i+1 < len(t.Instrs) {
			return []int{tgt, i + 1}, nil
		}
		return []int{tgt}, nil
	}
	if i+1 < len(t.Instrs) {
		return []int{i + 1}, nil
	}
	return nil, fmt.Errorf("%s: TEXT %s falls off its end", t.File, t.Name)
}

// dest returns the index of the operand written by the instruction, or -1.
func (in *AsmInstr) dest() int {
	if asmJumps[in.Mnem] || asmReadOnly[in.Mnem] || in.Mnem == "RET" || in.Mnem == "CPUID" || len(in.Ops) == 0 {
		return -1
	}
	return len(in.Ops) - 1
}

// width in bytes of a scalar access implied by the mnemonic (0 = vector / unknown)
func (in *AsmInstr) scalarWidth() int64 {
	m := in.Mnem
	switch {
	case m == "MOVBQZX" || m == "MOVBLZX" || m == "MOVB":
		return 1
	case m == "MOVWQZX" || m == "MOVW" || m == "SUBW" || m == "ADDW" || m == "INCW":
		return 2
	case m == "MOVLQZX" || m == "MOVLQSX":
		return 4
	case m == "MOVOU":
		return 16
	case strings.HasPrefix(m, "V") || strings.HasPrefix(m, "K") || strings.HasPrefix(m, "P"):
		return 0
	case strings.HasSuffix(m, "Q"):
		return 8
	case strings.HasSuffix(m, "L"):
		return 4
	case strings.HasSuffix(m, "W"):
		return 2
	case strings.HasSuffix(m, "B"):
		return 1
	}
	return 0
}

func baseReg(r string) string {
	switch r {
	case "AL":
		return "AX"
	case "BL":
		return "BX"
	case "CL":
		return "CX"
	case "DL":
		return "DX"
	}
	return r
}

package main

import (
	"encoding/json"
	"fmt"
	"os"
	"path/filepath"
	"sort"
	"strings"
	"time"
)

// An Obligation is one rule instance examined on one construct.
type Obligation struct {
	Rule   string `json:"rule"`
	Key    string `json:"key"` // rule|construct - never a line number
	Config string `json:"config,omitempty"`
	Pos    string `json:"pos,omitempty"`
	Desc   string `json:"desc"`
	Status string `json:"status"` // ok | violation | undecided | known
	Why    string `json:"why,omitempty"`
}

type Report struct {
	Prop      string
	Tier      string
	Seed      int64
	Start     time.Time
	Obls      []Obligation
	Configs   []string
	Funcs     int
	Notes     []string
	SelfTest  []selfResult
	minCounts map[string]int
	cur       string // current config name
	seenKey   map[string]bool
}

func NewReport(prop, tier string, seed int64) *Report {
	return &Report{Prop: prop, Tier: tier, Seed: seed, Start: time.Now(), minCounts: map[string]int{}, seenKey: map[string]bool{}}
}

func (r *Report) add(o Obligation) {
	o.Config = r.cur
	o.Key = o.Rule + "|" + o.Key
	// the same construct examined in several configurations is one obligation per configuration
	k := o.Config + "|" + o.Key + "|" + o.Status
	if r.seenKey[k] {
		return
	}
	r.seenKey[k] = true
	r.Obls = append(r.Obls, o)
}

func (r *Report) OK(rule, key, pos, desc string) {
	r.add(Obligation{Rule: rule, Key: key, Pos: pos, Desc: desc, Status: "ok"})
}
func (r *Report) Fail(rule, key, pos, desc, why string) {
	r.add(Obligation{Rule: rule, Key: key, Pos: pos, Desc: desc, Status: "violation", Why: why})
}
func (r *Report) Undecided(rule, key, pos, desc, why string) {
	r.add(Obligation{Rule: rule, Key: key, Pos: pos, Desc: desc, Status: "undecided", Why: why})
}

// Check is OK/Fail in one call.
func (r *Report) Check(cond bool, rule, key, pos, desc, why string) bool {
	if cond {
		r.OK(rule, key, pos, desc)
	} else {
		r.Fail(rule, key, pos, desc, why)
	}
	return cond
}

// Expect registers the minimum number of instances a rule must examine per configuration
// (the number confirmed by hand on today's tree); fewer is a failure, never a pass.
func (r *Report) Expect(rule string, min int) { r.minCounts[r.cur+"|"+rule] = min }

func (r *Report) Note(format string, a ...interface{}) {
	r.Notes = append(r.Notes, fmt.Sprintf(format, a...))
}

type KnownFinding struct {
	Property string `json:"property"`
	Status   string `json:"status"` // known | fixed
	Key      string `json:"key,omitempty"`
	Commit   string `json:"commit,omitempty"`
	What     string `json:"what"`
}

func loadKnown(path string) ([]KnownFinding, error) {
	b, err := os.ReadFile(path)
	if err != nil {
		if os.IsNotExist(err) {
			return nil, nil
		}
		return nil, err
	}
	var k struct {
		Findings []KnownFinding `json:"findings"`
	}
	if err := json.Unmarshal(b, &k); err != nil {
		return nil, err
	}
	return k.Findings, nil
}

// Finish prints the report, writes evidence and replay files, and returns the exit code.
func (r *Report) Finish(verifDir string, explanation string, notDecided []string, assumptions []string) int {
	known, err := loadKnown(filepath.Join(verifDir, "known_findings.json"))
	if err != nil {
		fmt.Printf("ERROR cannot read known_findings.json: %v\n", err)
		return 2
	}
	knownKeys := map[string]KnownFinding{}
	for _, k := range known {
		if k.Status == "known" && k.Property == r.Prop {
			knownKeys[k.Key] = k
		}
	}
	// instance-count floor
	counts := map[string]int{}
	for _, o := range r.Obls {
		counts[o.Config+"|"+o.Rule]++
	}
	var floorKeys []string
	for k := range r.minCounts {
		floorKeys = append(floorKeys, k)
	}
	sort.Strings(floorKeys)
	for _, k := range floorKeys {
		if counts[k] < r.minCounts[k] {
			parts := strings.SplitN(k, "|", 2)
			r.cur = parts[0]
			r.add(Obligation{Rule: parts[1], Key: "instance-floor", Desc: fmt.Sprintf("rule %s examined %d instances, at least %d were confirmed by hand", parts[1], counts[k], r.minCounts[k]), Status: "undecided", Why: "anchors not found: the rule would pass vacuously"})
		}
	}
	nOK, nViol, nUnd, nKnown := 0, 0, 0, 0
	var bad []Obligation
	printedKnown := map[string]bool{}
	for i := range r.Obls {
		o := &r.Obls[i]
		switch o.Status {
		case "ok":
			nOK++
		case "violation":
			if kf, ok := knownKeys[o.Key]; ok {
				o.Status = "known"
				nKnown++
				if !printedKnown[o.Key] {
					printedKnown[o.Key] = true
					fmt.Printf("KNOWN-FINDING: property=%s %s [%s] %s\n", r.Prop, kf.What, o.Key, o.Pos)
				}
				continue
			}
			nViol++
			bad = append(bad, *o)
		case "undecided":
			nUnd++
			bad = append(bad, *o)
		}
	}
	rules := map[string][3]int{}
	for _, o := range r.Obls {
		c := rules[o.Rule]
		c[0]++
		if o.Status == "ok" {
			c[1]++
		}
		if o.Status == "known" {
			c[2]++
		}
		rules[o.Rule] = c
	}
	var rnames []string
	for k := range rules {
		rnames = append(rnames, k)
	}
	sort.Strings(rnames)
	fmt.Printf("property %s tier %s: configs=%v repo-functions-analysed=%d\n", r.Prop, r.Tier, r.Configs, r.Funcs)
	for _, k := range rnames {
		c := rules[k]
		fmt.Printf("  rule %-7s obligations=%-4d discharged=%-4d known=%d\n", k, c[0], c[1], c[2])
	}
	for _, n := range r.Notes {
		fmt.Printf("  note: %s\n", n)
	}
	sort.SliceStable(bad, func(i, j int) bool { return bad[i].Key < bad[j].Key })
	for _, o := range bad {
		tag := "VIOLATED"
		if o.Status == "undecided" {
			tag = "UNDECIDED"
		}
		fmt.Printf("%s %s  rule=%s  construct=%s  config=%s\n    %s\n    why: %s\n", tag, o.Pos, o.Rule, o.Key, o.Config, o.Desc, o.Why)
	}

	// samples: a few obligations of each rule, and all bad ones
	var samples []Obligation
	perRule := map[string]int{}
	for _, o := range r.Obls {
		if o.Status != "ok" || o.Config == "control" || perRule[o.Rule] < 3 {
			samples = append(samples, o)
			perRule[o.Rule]++
		}
	}
	if len(samples) > 120 {
		samples = samples[:120]
	}
	ev := map[string]interface{}{
		"property_id": r.Prop,
		"tier":        r.Tier,
		"seed":        r.Seed,
		"level":       "other",
		"coverage": map[string]interface{}{
			"explanation":        explanation,
			"obligations":        len(r.Obls),
			"discharged":         nOK,
			"known_findings":     nKnown,
			"undecided":          nUnd,
			"configs":            r.Configs,
			"functions_analysed": r.Funcs,
			"rules":              rules,
			"not_decided":        notDecided,
			"samples":            samples,
			"exhaustive":         false,
			"checker_cmd":        fmt.Sprintf("/verif/run.sh %s %s", r.Prop, r.Tier),
			"notes":              r.Notes,
		},
		"assumptions": assumptions,
		"wall_s":      time.Since(r.Start).Seconds(),
		"violations":  nViol + nUnd,
	}
	if len(r.SelfTest) > 0 {
		okN, missN, faN, skipN := 0, 0, 0, 0
		for _, s := range r.SelfTest {
			switch {
			case strings.HasPrefix(s.Outcome, "ok"):
				okN++
			case strings.HasPrefix(s.Outcome, "MISS"):
				missN++
				fmt.Printf("SELFTEST-MISS %s: %s\n", s.ID, s.Outcome)
			case strings.HasPrefix(s.Outcome, "FALSE-ALARM"):
				faN++
				fmt.Printf("SELFTEST-FALSE-ALARM %s: rules %v\n", s.ID, s.Rules)
			default:
				skipN++
			}
		}
		fmt.Printf("  self-test: %d variants of the repository analysed (mutants reported / benign edits silent: %d, missed: %d, false alarms: %d, skipped: %d)\n", len(r.SelfTest), okN, missN, faN, skipN)
		cov := ev["coverage"].(map[string]interface{})
		cov["selftest"] = r.SelfTest
		cov["selftest_summary"] = map[string]int{"variants": len(r.SelfTest), "as_expected": okN, "missed": missN, "false_alarms": faN, "skipped": skipN}
	}
	os.MkdirAll(filepath.Join(verifDir, "evidence", "replay"), 0o755)
	b, _ := json.MarshalIndent(ev, "", " ")
	if err := os.WriteFile(filepath.Join(verifDir, "evidence", r.Prop+".json"), b, 0o644); err != nil {
		fmt.Printf("ERROR writing evidence: %v\n", err)
		return 2
	}
	replay := filepath.Join(verifDir, "evidence", "replay", r.Prop+".json")
	if len(bad) > 0 {
		rb, _ := json.MarshalIndent(map[string]interface{}{"property": r.Prop, "tier": r.Tier, "findings": bad}, "", " ")
		os.WriteFile(replay, rb, 0o644)
		fmt.Printf("VIOLATION property=%s replay=%s\n", r.Prop, replay)
		return 1
	}
	os.Remove(replay)
	fmt.Printf("OK property=%s obligations=%d discharged=%d known-findings=%d wall=%.1fs\n", r.Prop, len(r.Obls), nOK, nKnown, time.Since(r.Start).Seconds())
	return 0
}

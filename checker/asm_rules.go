package main

// Rules that read the assembly files: R18.1 R18.2 R18.6 R18.7 (C18), R03.5 (C03), R17.3 (C17), R19.2 masks (C19).

import (
	"fmt"
	"go/types"
	"os"
	"path/filepath"
	"sort"
	"strings"

	"golang.org/x/tools/go/ssa"
)

type asmUnit struct {
	Rel   string
	Text  *AsmText
	Flow  *AsmFlow
	Fn    *ssa.Function // Go declaration
	Slots []frameSlot
}

type asmWorld struct {
	Units []*asmUnit
	Errs  []string
	Files int
}

var asmWorldCache = map[*Program]*asmWorld{}

var asmPkgs = []string{"internal/cpu", "compress/flate", "compress/flate/internal/deflate"}

func (p *Program) Asm() *asmWorld {
	if w, ok := asmWorldCache[p]; ok {
		return w
	}
	w := &asmWorld{}
	asmWorldCache[p] = w
	for _, rel := range asmPkgs {
		for _, path := range p.AsmFiles(rel) {
			w.Files++
			af, err := ParseAsmFile(path)
			if err != nil {
				w.Errs = append(w.Errs, err.Error())
				continue
			}
			for _, t := range af.Texts {
				u := &asmUnit{Rel: rel, Text: t}
				fl, err := analyseText(t)
				if err != nil {
					w.Errs = append(w.Errs, err.Error())
					continue
				}
				u.Flow = fl
				u.Fn = p.Func(rel, t.Name)
				if u.Fn == nil {
					w.Errs = append(w.Errs, fmt.Sprintf("%s: TEXT %s has no Go declaration in %s", path, t.Name, rel))
					continue
				}
				u.Slots = frameLayout(u.Fn.Signature, p.Sizes)
				w.Units = append(w.Units, u)
			}
		}
	}
	sort.Slice(w.Units, func(i, j int) bool { return w.Units[i].Text.Name < w.Units[j].Text.Name })
	return w
}

func (p *Program) asmPos(u *asmUnit, in *AsmInstr) string {
	rel, err := filepath.Rel(p.Root, u.Text.File)
	if err != nil {
		rel = u.Text.File
	}
	return fmt.Sprintf("%s:%d", rel, in.Line)
}

func (u *asmUnit) slotAt(off int64) *frameSlot {
	for i := range u.Slots {
		if u.Slots[i].Off == off {
			return &u.Slots[i]
		}
	}
	return nil
}

func asmLoadFailures(p *Program, r *Report, rule string) bool {
	w := p.Asm()
	for _, e := range w.Errs {
		r.Undecided(rule, "asm-front-end|"+shorten(e, 60), "-", "every assembly file is parsed and analysed completely", e)
	}
	if w.Files < 5 {
		r.Undecided(rule, "asm-files", "-", "the five assembly files of the repository are analysed", "found "+itoa(w.Files))
		return true
	}
	return len(w.Errs) > 0
}

func shorten(s string, n int) string {
	if len(s) <= n {
		return s
	}
	return s[len(s)-n:]
}

// typedBase: if v is a pointer loaded from an FP slot holding *T (T struct), returns T.
func (u *asmUnit) typedBase(v AVal) (types.Type, string, bool) {
	if v.Kind != AArg {
		return nil, "", false
	}
	sl := u.slotAt(v.ArgOff)
	if sl == nil || sl.Comp != "" {
		return nil, "", false
	}
	pt, ok := sl.Type.Underlying().(*types.Pointer)
	if !ok {
		return nil, "", false
	}
	if _, isS := pt.Elem().Underlying().(*types.Struct); !isS {
		return nil, "", false
	}
	return pt.Elem(), sl.Name, true
}

// ---------- R18.1 layout agreement ----------

// expected field sets per assembly routine (by field NAME, so that reordering a struct without regenerating the
// assembly is reported and regenerating both is not), with the constant element indexes used into arrays.
type fieldUse struct {
	Indexes []int64 // allowed constant element indexes (nil: any)
}

func lzExpect() map[string]fieldUse {
	return map[string]fieldUse{
		"base:table":              {Indexes: []int64{0}},
		"base:hist.distanceCodes": {Indexes: []int64{0}},
		"base:hist.literalCodes":  {Indexes: []int64{0, 254, 512}},
	}
}

var asmFieldExpect = map[string]map[string]fieldUse{}

func init() {
	for _, w := range []string{"4k", "32k"} {
		for _, l := range []string{"L12", "L15"} {
			for _, v := range []string{"V1", "V3", "V4"} {
				asmFieldExpect["lz77Asm"+w+l+v] = lzExpect()
			}
		}
	}
	asmFieldExpect["decodeHuffmanAsmArchV3"] = map[string]fieldUse{
		"state:input.ptr": {}, "state:input.len": {}, "state:input.cap": {},
		"state:bits": {}, "state:bitsLen": {},
		"state:writeOverflowLits": {}, "state:writeOverflowLen": {}, "state:copyOverflowLength": {}, "state:copyOverflowDistance": {},
		"state:litLenTable.shortCodeLookup": {Indexes: []int64{0}}, "state:litLenTable.longCodeLookup": {Indexes: []int64{0}},
		"state:distTable.ShortCodeLookup": {Indexes: []int64{0}},
		"·rfcLookupTable:DistStart":       {Indexes: []int64{0}},
	}
	enc := func(dist bool) map[string]fieldUse {
		m := map[string]fieldUse{
			"buf:output.ptr": {}, "buf:output.len": {}, "buf:idx": {}, "buf:bits": {}, "buf:bitLen": {},
			"hist:literalCodes": {Indexes: []int64{0}},
		}
		if dist {
			m["hist:distanceCodes"] = fieldUse{Indexes: []int64{0}}
		}
		return m
	}
	asmFieldExpect["encodeTokensArchV3"] = enc(true)
	asmFieldExpect["encodeTokensArchV4"] = enc(true)
	asmFieldExpect["encodeHuffmansArchV4"] = enc(false)
	asmFieldExpect["cpuArchLevel"] = map[string]fieldUse{}
}

func ruleR18_1(p *Program, r *Report) {
	r.Expect("R18.1", 17)
	if asmLoadFailures(p, r, "R18.1") {
		return
	}
	w := p.Asm()
	totalOps := 0
	for _, u := range w.Units {
		name := u.Text.Name
		used := map[string]map[int64]bool{}
		bad := 0
		for i, in := range u.Text.Instrs {
			if !u.Flow.Reach[i] {
				continue
			}
			st := u.Flow.Before[i]
			for oi, op := range in.Ops {
				if op.Kind != OpMem || op.Base == "" {
					continue
				}
				if in.Mnem == "LEAQ" && oi == 0 {
					continue // address computation: the access that uses the result is what gets checked
				}
				bv := st[op.Base]
				var T types.Type
				var owner string
				disp := op.Off
				scales := []int64{}
				if op.Index != "" {
					scales = append(scales, op.Scale)
				}
				if t, nm, ok := u.typedBase(bv); ok {
					T, owner = t, nm
					disp += bv.Disp
					if bv.ExtraScale != 0 {
						scales = append(scales, bv.ExtraScale)
					}
				} else if bv.Kind == AGlobal && strings.HasPrefix(bv.Sym, "·") {
					g := p.Global(u.Rel, strings.TrimPrefix(bv.Sym, "·"))
					if g == nil {
						r.Fail("R18.1", name+"|global "+bv.Sym, p.asmPos(u, in), "global symbol used as a base exists in the Go package", "not found")
						bad++
						continue
					}
					T, owner = g.Type().(*types.Pointer).Elem(), bv.Sym
					disp += bv.Disp
				} else {
					continue
				}
				totalOps++
				res, err := resolveOffset(p.Sizes, T, disp)
				key := name + "|" + owner + "+" + itoa(int(disp))
				if err != nil {
					bad++
					r.Fail("R18.1", key, p.asmPos(u, in), "memory operand "+op.Raw+" addresses exactly one field of "+typeString(T), err.Error())
					continue
				}
				why := ""
				wd := in.scalarWidth()
				isLEA := in.Mnem == "LEAQ" && oi == 0
				if wd > 0 && !isLEA && wd != res.LeafSize && !(in.Mnem == "MOVOU") {
					why = fmt.Sprintf("%d-byte access to %s, which is %d bytes wide", wd, res.Path, res.LeafSize)
				}
				for _, sc := range scales {
					if !res.InArray {
						why = "indexed access into " + res.Path + ", which is not an array"
					} else if sc != res.ElemSize && !(isVectorIndex(op.Index)) {
						why = fmt.Sprintf("index scale %d on %s whose elements are %d bytes", sc, res.FieldSet, res.ElemSize)
					}
				}
				if why != "" {
					bad++
					r.Fail("R18.1", key, p.asmPos(u, in), "memory operand "+op.Raw+" matches the Go layout of "+typeString(T), why)
					continue
				}
				fk := owner + ":" + res.FieldSet
				if used[fk] == nil {
					used[fk] = map[int64]bool{}
				}
				if res.InArray {
					used[fk][res.Index] = true
				}
			}
		}
		// cross-check of the write summaries that the field-effect engine (E1) uses for this routine
		written := map[string]bool{}
		for i, in := range u.Text.Instrs {
			if !u.Flow.Reach[i] {
				continue
			}
			d := in.dest()
			if d < 0 || in.Ops[d].Kind != OpMem || in.Ops[d].Base == "" {
				continue
			}
			op := in.Ops[d]
			bv := u.Flow.Before[i][op.Base]
			if t, nm, ok := u.typedBase(bv); ok {
				if res, err := resolveOffset(p.Sizes, t, op.Off+bv.Disp); err == nil {
					sel := "." + res.FieldSet
					if res.InArray {
						sel += "[*]"
					}
					sel = strings.Replace(strings.Replace(strings.Replace(sel, ".ptr", "", 1), ".len", "", 1), ".cap", "", 1)
					written[nm+sel] = true
				}
			}
		}
		summ := map[string]bool{}
		for _, ef := range asmWrites[name] {
			if ef.Param < len(u.Fn.Params) {
				par := u.Fn.Params[ef.Param]
				if _, isPtr := par.Type().Underlying().(*types.Pointer); isPtr {
					summ[par.Name()+ef.Sel] = true
				}
			}
		}
		var miss []string
		for wsel := range written {
			if !summ[wsel] {
				miss = append(miss, wsel)
			}
		}
		sort.Strings(miss)
		r.Check(len(miss) == 0, "R18.1", name+"|write summary", p.asmPos(u, u.Text.Instrs[0]), "every struct field this routine stores to is in the write summary used by the Reset-completeness and shared-state rules", "stores to "+strings.Join(miss, ", ")+" which the summary (effects.go asmWrites) does not list")
		exp, ok := asmFieldExpect[name]
		if !ok {
			r.Undecided("R18.1", name+"|expect", "-", "assembly routine has a confirmed field table", "new routine: confirm the fields it may touch and add a line")
			continue
		}
		var diffs []string
		for fk, idxs := range used {
			e, ok := exp[fk]
			if !ok {
				diffs = append(diffs, "touches "+fk+" (not in the confirmed table)")
				continue
			}
			if e.Indexes != nil {
				for ix := range idxs {
					okI := false
					for _, a := range e.Indexes {
						if a == ix {
							okI = true
						}
					}
					if !okI {
						diffs = append(diffs, fmt.Sprintf("%s is addressed at element %d (confirmed: %v)", fk, ix, e.Indexes))
					}
				}
			}
		}
		for fk := range exp {
			if _, ok := used[fk]; !ok {
				diffs = append(diffs, "no longer touches "+fk)
			}
		}
		sort.Strings(diffs)
		if os.Getenv("FG_DEBUG_ASM") != "" {
			var ks []string
			for fk, idxs := range used {
				var ix []int
				for k := range idxs {
					ix = append(ix, int(k))
				}
				sort.Ints(ix)
				ks = append(ks, fmt.Sprintf("%s%v", fk, ix))
			}
			sort.Strings(ks)
			fmt.Println("ASM", name, ks)
		}
		if bad == 0 {
			r.Check(len(diffs) == 0, "R18.1", name+"|field set", p.asmPos(u, u.Text.Instrs[0]), "the struct fields hard-coded in the assembly are exactly the confirmed ones (by name and element index)", strings.Join(diffs, "; "))
		}
	}
	r.Note("R18.1: %d assembly routines, %d typed memory operands resolved against types.Sizes(amd64)", len(w.Units), totalOps)
}

func isVectorIndex(r string) bool {
	return strings.HasPrefix(r, "X") || strings.HasPrefix(r, "Y") || strings.HasPrefix(r, "Z")
}

// ---------- R18.2 frame agreement ----------

func ruleR18_2(p *Program, r *Report) {
	r.Expect("R18.2", 17)
	if asmLoadFailures(p, r, "R18.2") {
		return
	}
	for _, u := range p.Asm().Units {
		bad := ""
		n := 0
		for _, in := range u.Text.Instrs {
			for _, op := range in.Ops {
				if op.Kind != OpFP {
					continue
				}
				n++
				sl := u.slotAt(op.Off)
				if sl == nil {
					bad = fmt.Sprintf("%s at line %d: no parameter or result starts at offset %d", op.Raw, in.Line, op.Off)
				} else if sl.Name != op.Name {
					bad = fmt.Sprintf("%s at line %d: offset %d is %s in the Go declaration", op.Raw, in.Line, op.Off, sl.Name)
				}
			}
		}
		// declared argument size
		var want int64
		for _, s := range u.Slots {
			if e := s.Off + 8; e > want {
				want = e
			}
		}
		if u.Text.ArgSize != want && bad == "" {
			bad = fmt.Sprintf("TEXT declares %d bytes of arguments, the Go signature needs %d", u.Text.ArgSize, want)
		}
		r.Check(bad == "", "R18.2", u.Text.Name+"|frame", p.asmPos(u, u.Text.Instrs[0]), "FP names/offsets and argument size agree with the Go declaration ("+itoa(n)+" FP operands)", bad)
	}
}

// ---------- asm CFG path helper ----------

// asmPathAvoiding: is there a path from instruction `from` to an instruction satisfying target that passes no barrier?
func asmPathAvoiding(fl *AsmFlow, from int, target, barrier func(i int) bool) (bool, int) {
	seen := map[int]bool{}
	work := []int{from}
	for len(work) > 0 {
		i := work[len(work)-1]
		work = work[:len(work)-1]
		if seen[i] {
			continue
		}
		seen[i] = true
		if target(i) {
			return true, i
		}
		if barrier(i) {
			continue
		}
		work = append(work, fl.Succs[i]...)
	}
	return false, -1
}

// ---------- R18.6 state write-back ----------

func ruleR18_6(p *Program, r *Report) {
	r.Expect("R18.6", 7)
	if asmLoadFailures(p, r, "R18.6") {
		return
	}
	for _, u := range p.Asm().Units {
		if u.Text.Name != "decodeHuffmanAsmArchV3" {
			continue
		}
		isRet := func(i int) bool { return u.Text.Instrs[i].Mnem == "RET" }
		type tgt struct {
			name string
			hit  func(i int) bool
		}
		storeTo := func(field string) func(i int) bool {
			return func(i int) bool {
				in := u.Text.Instrs[i]
				d := in.dest()
				if d < 0 || in.Ops[d].Kind != OpMem {
					return false
				}
				op := in.Ops[d]
				T, _, ok := u.typedBase(u.Flow.Before[i][op.Base])
				if !ok {
					return false
				}
				res, err := resolveOffset(p.Sizes, T, op.Off+u.Flow.Before[i][op.Base].Disp)
				return err == nil && res.FieldSet == field
			}
		}
		resultSlot := func(name string) func(i int) bool {
			return func(i int) bool {
				in := u.Text.Instrs[i]
				d := in.dest()
				return d >= 0 && in.Ops[d].Kind == OpFP && in.Ops[d].Name == name
			}
		}
		for _, t := range []tgt{{"state.bits", storeTo("bits")}, {"state.bitsLen", storeTo("bitsLen")}, {"state.input.ptr", storeTo("input.ptr")},
			{"state.input.len", storeTo("input.len")}, {"state.input.cap", storeTo("input.cap")}, {"result written", resultSlot("written")}, {"result errno", resultSlot("errno")}} {
			found, at := asmPathAvoiding(u.Flow, 0, isRet, t.hit)
			why := ""
			if found {
				why = fmt.Sprintf("RET at line %d is reachable without writing %s back: the Go loop would continue from a stale state", u.Text.Instrs[at].Line, t.name)
			}
			r.Check(!found, "R18.6", u.Text.Name+"|write-back "+t.name, p.asmPos(u, u.Text.Instrs[0]), "every path to RET stores "+t.name, why)
		}
	}
}

// ---------- R03.5 errno constants ----------

func asmRuleR03_5(p *Program, r *Report) {
	r.Expect("R03.5", 1)
	if asmLoadFailures(p, r, "R03.5") {
		return
	}
	allowed := map[int64]string{0: "success"}
	for _, n := range []string{"errorNoEndInput", "errorNoOutOverflow", "errorNoInvalidBlock", "errorNoInvalidSymbol", "errorNoInvalidLookback"} {
		if v, ok := constOf(p, flateRel, n); ok {
			allowed[v] = n
		} else {
			r.Undecided("R03.5", "const "+n, "-", "errno constant exists", "not found")
		}
	}
	for _, u := range p.Asm().Units {
		if u.Text.Name != "decodeHuffmanAsmArchV3" {
			continue
		}
		n := 0
		for i, in := range u.Text.Instrs {
			d := in.dest()
			if d < 0 || in.Ops[d].Kind != OpFP || in.Ops[d].Name != "errno" {
				continue
			}
			n++
			v := u.Flow.Before[i].valOf(in.Ops[0])
			why := ""
			if v.Kind == AConst && v.MayEntry {
				// the register is never written on some path: accepted only for the prologue's short-input exit,
				// which the Go caller excludes (len(state.input) > inBufferSlop >= 8)
				if msg := entryPathOnlyFromPrologue(u, i, baseReg(in.Ops[0].Reg)); msg != "" {
					why = msg
				} else if !p.callerGuaranteesInput(u.Fn, 8) {
					why = "errno can be whatever the caller left in the register when the prologue's short-input exit is taken, and the Go caller does not exclude inputs shorter than 8 bytes"
				}
			}
			if why != "" {
			} else if v.Kind != AConst {
				why = "the value stored in errno is not a compile-time constant on every path (for example computed from a distance): Go maps only the listed codes"
			} else {
				for _, c := range v.Consts {
					if _, ok := allowed[c]; !ok {
						why = fmt.Sprintf("errno can be %d, which is none of the errorNo* constants", c)
					}
				}
			}
			r.Check(why == "", "R03.5", u.Text.Name+"|errno values", p.asmPos(u, in), fmt.Sprintf("the outcome code handed to Go is one of the errorNo* constants (values reaching the store: %v)", v.Consts), why)
		}
		if n == 0 {
			r.Undecided("R03.5", u.Text.Name+"|errno store", "-", "the routine stores its errno result", "no store found")
		}
	}
}

// ---------- R17.3 no stores through global bases ----------

func asmRuleR17_3(p *Program, r *Report) {
	r.Expect("R17.3", 17)
	if asmLoadFailures(p, r, "R17.3") {
		return
	}
	for _, u := range p.Asm().Units {
		stores := 0
		bad := ""
		for i, in := range u.Text.Instrs {
			if !u.Flow.Reach[i] {
				continue
			}
			d := in.dest()
			if d < 0 {
				continue
			}
			op := in.Ops[d]
			switch op.Kind {
			case OpSym:
				bad = fmt.Sprintf("line %d stores to the global symbol %s", in.Line, op.Name)
			case OpMem:
				stores++
				b := u.Flow.Before[i][op.Base]
				if b.Kind == AGlobal || b.FromGlobal {
					bad = fmt.Sprintf("line %d stores through %s, whose value derives from the address of a global symbol", in.Line, op.Base)
				}
				if op.Index != "" && isGPR(op.Index) {
					ix := u.Flow.Before[i][op.Index]
					if ix.Kind == AGlobal || ix.FromGlobal {
						bad = fmt.Sprintf("line %d stores through index %s, which derives from the address of a global symbol", in.Line, op.Index)
					}
				}
			}
		}
		r.Check(bad == "", "R17.3", u.Text.Name+"|stores", p.asmPos(u, u.Text.Instrs[0]), "none of the "+itoa(stores)+" memory stores of this routine goes through an address derived from a global symbol", bad)
	}
}

// ---------- R18.7 feature gating ----------

// minimum psABI level that guarantees the extension an instruction needs
func instrLevel(in *AsmInstr) (int, string) {
	m := in.Mnem
	usesZK, usesY, usesX := false, false, false
	for _, op := range in.Ops {
		for _, rg := range []string{op.Reg, op.Index, op.Base} {
			switch {
			case strings.HasPrefix(rg, "Z") || (strings.HasPrefix(rg, "K") && len(rg) == 2):
				usesZK = true
			case strings.HasPrefix(rg, "Y"):
				usesY = true
			case strings.HasPrefix(rg, "X") && len(rg) <= 3:
				usesX = true
			}
		}
	}
	switch {
	case usesZK || in.Suffix == ".Z" || strings.HasPrefix(m, "VMOVDQU8") || strings.HasPrefix(m, "VMOVDQU16") || strings.HasPrefix(m, "VMOVDQU64") || strings.HasPrefix(m, "VMOVDQA32") ||
		m == "VPTERNLOGD" || m == "VPSCATTERQQ" || strings.HasPrefix(m, "VEXTRACTI32X4") || strings.HasPrefix(m, "VEXTRACTI64X2") || m == "VSHUFI64X2" || m == "VPCMPB" || m == "VPCMPQ" ||
		m == "VPANDD" || m == "VPANDQ" || m == "VPORD" || m == "VPORQ" || m == "VPXORD" || m == "VPXORQ" || (strings.HasPrefix(m, "K") && m != "KMOV"):
		return 4, "AVX-512"
	case strings.HasPrefix(m, "V") && (usesY || usesX):
		return 3, "AVX/AVX2"
	case strings.HasPrefix(m, "BZHI") || strings.HasPrefix(m, "SHRX") || strings.HasPrefix(m, "SHLX") || strings.HasPrefix(m, "SARX") || strings.HasPrefix(m, "PDEP") || strings.HasPrefix(m, "PEXT") || strings.HasPrefix(m, "MULX") || strings.HasPrefix(m, "RORX"):
		return 3, "BMI2"
	case strings.HasPrefix(m, "TZCNT") || strings.HasPrefix(m, "ANDN") || strings.HasPrefix(m, "BLSR") || strings.HasPrefix(m, "BEXTR"):
		return 3, "BMI1"
	case strings.HasPrefix(m, "LZCNT"):
		return 3, "LZCNT"
	case strings.HasPrefix(m, "CRC32"):
		return 2, "SSE4.2"
	case strings.HasPrefix(m, "POPCNT"):
		return 2, "POPCNT"
	case m == "PSHUFB" || m == "PALIGNR":
		return 2, "SSSE3"
	case strings.HasPrefix(m, "PEXTR") || strings.HasPrefix(m, "PINSR") || strings.HasPrefix(m, "PMOVZX"):
		return 2, "SSE4.1"
	}
	return 1, "baseline"
}

// guardLowerBound: the lowest cpu.ArchLevel for which instruction `at` can execute, from dominating comparisons.
func (p *Program) guardLowerBound(at ssa.Instruction) int {
	return lowerBoundFromFacts(dominatingFacts(at), 0)
}

func archLevelBound(f Fact) (int, bool) {
	if f.Y == nil {
		return 0, false
	}
	g := globalLoad(f.X)
	if g == nil || g.Name() != "ArchLevel" {
		return 0, false
	}
	k, ok := constInt(f.Y)
	if !ok {
		return 0, false
	}
	switch f.Op.String() {
	case ">=", "==":
		return int(k), true
	case ">":
		return int(k) + 1, true
	}
	return 0, false
}

// lowerBoundFromFacts: the lowest cpu.ArchLevel consistent with the facts. A boolean that is known true and is
// the phi of a short-circuit `a && b` carries the facts of the edges over which it can be true.
func lowerBoundFromFacts(facts []Fact, depth int) int {
	lb := 0
	for _, f := range facts {
		if b, ok := archLevelBound(f); ok {
			if b > lb {
				lb = b
			}
			continue
		}
		if f.Y != nil || depth > 3 {
			continue
		}
		phi, ok := f.X.(*ssa.Phi)
		if !ok || !isBoolType(phi.Type()) {
			continue
		}
		wantTrue := f.Op.String() == "=="
		best := -1
		for i, e := range phi.Edges {
			if c, isC := constBool(e); isC && c != wantTrue {
				continue // this incoming value contradicts the fact
			}
			pred := phi.Block().Preds[i]
			ef := dominatingFacts(pred.Instrs[len(pred.Instrs)-1])
			if br, ok := edgeCond(pred, phi.Block()); ok {
				if bf, ok := branchFact(br); ok {
					ef = append(ef, bf)
				}
			}
			// the incoming value itself is a comparison that holds
			if bo, isB := e.(*ssa.BinOp); isB {
				if bf, ok := branchFact(Branch{Cond: bo, True: wantTrue}); ok {
					ef = append(ef, bf)
				}
			}
			l := lowerBoundFromFacts(ef, depth+1)
			if best < 0 || l < best {
				best = l
			}
		}
		if best > lb {
			lb = best
		}
	}
	return lb
}

func ruleR18_7(p *Program, r *Report) {
	r.Expect("R18.7", 8)
	if asmLoadFailures(p, r, "R18.7") {
		return
	}
	// (a) what the detection routine guarantees at each level
	guaranteed, why := cpuidGuarantees(p)
	if why != "" {
		r.Undecided("R18.7", "cpuArchLevel|masks", "-", "the CPUID masks of cpuArchLevel can be read", why)
		return
	}
	need := map[int][]string{2: {"SSE3", "SSSE3", "SSE4.1", "SSE4.2", "POPCNT"}, 3: {"AVX", "AVX2", "BMI1", "BMI2", "FMA", "MOVBE", "LZCNT"}, 4: {"AVX512F", "AVX512BW", "AVX512DQ", "AVX512VL"}}
	for lvl := 2; lvl <= 4; lvl++ {
		var missing []string
		for _, f := range need[lvl] {
			if !guaranteed[lvl][f] {
				missing = append(missing, f)
			}
		}
		r.Check(len(missing) == 0, "R18.7", "cpuArchLevel|level "+itoa(lvl), "internal/cpu/detect_amd64.s", "reaching ArchLevel "+itoa(lvl)+" implies the CPUID bits of "+strings.Join(need[lvl], ", "), "not tested before level "+itoa(lvl)+" is returned: "+strings.Join(missing, ", "))
	}
	// (b) every assembly routine is only reachable at a level that has what its instructions need
	for _, u := range p.Asm().Units {
		if u.Text.Name == "cpuArchLevel" {
			continue
		}
		reqLvl, reqWhy, reqLine := 1, "baseline", 0
		for _, in := range u.Text.Instrs {
			if l, wy := instrLevel(in); l > reqLvl {
				reqLvl, reqWhy, reqLine = l, wy, in.Line
			}
		}
		// use sites
		minGuard := 99
		sites := 0
		where := ""
		for _, fn := range p.Funcs() {
			for _, b := range fn.Blocks {
				for _, in := range b.Instrs {
					uses := false
					if c, ok := in.(ssa.CallInstruction); ok && c.Common().StaticCallee() == u.Fn {
						uses = true
					}
					if st, ok := in.(*ssa.Store); ok && st.Val == ssa.Value(u.Fn) {
						uses = true
					}
					if !uses {
						for _, op := range in.Operands(nil) {
							if *op == ssa.Value(u.Fn) {
								if _, isCall := in.(ssa.CallInstruction); !isCall {
									uses = true
								}
							}
						}
					}
					if !uses {
						continue
					}
					sites++
					g := p.guardLowerBound(in)
					// a function value stored into a package variable is later called under the guards of that call: take the assignment's guard
					if g < minGuard {
						minGuard = g
						where = p.InstrPos(in)
					}
				}
			}
		}
		key := u.Text.Name + "|gate"
		if sites == 0 {
			r.OK("R18.7", key, p.asmPos(u, u.Text.Instrs[0]), fmt.Sprintf("needs level %d (%s); never referenced from Go code", reqLvl, reqWhy))
			continue
		}
		r.Check(minGuard >= reqLvl, "R18.7", key, p.asmPos(u, u.Text.Instrs[0]), fmt.Sprintf("instructions need ArchLevel >= %d (%s, line %d); every Go use site is guarded by at least that level", reqLvl, reqWhy, reqLine),
			fmt.Sprintf("the use at %s is reachable with cpu.ArchLevel >= %d only: on such a CPU the %s instruction at line %d raises an illegal-instruction fault", where, minGuard, reqWhy, reqLine))
	}
}

// cpuidGuarantees reads the mask tests of cpuArchLevel: for each `MOVQ $mask, CX; MOVQ src, DX; ANDQ CX, DX; CMPQ DX, CX; JNE level_k`
// the bits of mask are guaranteed for every level above k.
func cpuidGuarantees(p *Program) (map[int]map[string]bool, string) {
	var u *asmUnit
	for _, x := range p.Asm().Units {
		if x.Text.Name == "cpuArchLevel" {
			u = x
		}
	}
	if u == nil {
		return nil, "TEXT cpuArchLevel not found"
	}
	// which register holds which CPUID leaf: SI = leaf1 (EDX<<32|ECX), DI = leaf 0x80000001 (EDX<<32|ECX), AX = leaf7 (ECX<<32|EBX)
	bit := map[string]map[uint]string{
		"SI": {0: "SSE3", 9: "SSSE3", 12: "FMA", 13: "CX16", 19: "SSE4.1", 20: "SSE4.2", 22: "MOVBE", 23: "POPCNT", 27: "OSXSAVE", 28: "AVX", 29: "F16C"},
		"DI": {0: "LAHF", 5: "LZCNT"},
		"AX": {3: "BMI1", 5: "AVX2", 8: "BMI2", 16: "AVX512F", 17: "AVX512DQ", 28: "AVX512CD", 30: "AVX512BW", 31: "AVX512VL"},
	}
	// confirm the register roles: SI/DI are built right after CPUID with leaf constants 1 / 0x80000001, AX after leaf 7
	leafOf := map[string]int64{}
	var lastLeaf int64 = -1
	ins := u.Text.Instrs
	for i, in := range ins {
		if in.Mnem == "MOVQ" && len(in.Ops) == 2 && in.Ops[0].Kind == OpImm && in.Ops[1].Kind == OpReg && in.Ops[1].Reg == "AX" {
			// candidate leaf number if a CPUID follows within 3 instructions
			for j := i + 1; j < len(ins) && j <= i+3; j++ {
				if ins[j].Mnem == "CPUID" {
					lastLeaf = in.Ops[0].Imm
				}
			}
		}
		if in.Mnem == "ORQ" && len(in.Ops) == 2 && in.Ops[1].Kind == OpReg {
			leafOf[in.Ops[1].Reg] = lastLeaf
		}
	}
	if leafOf["SI"] != 1 || leafOf["DI"] != 0x80000001 || leafOf["AX"] != 7 {
		return nil, fmt.Sprintf("unexpected CPUID leaf assignment %v", leafOf)
	}
	levelOfLabel := map[string]int{}
	for l, idx := range u.Text.labelIdx {
		// the label's block stores a constant into ret
		for j := idx; j < len(ins) && j < idx+3; j++ {
			if ins[j].Mnem == "MOVQ" && ins[j].Ops[0].Kind == OpImm && ins[j].Ops[1].Kind == OpReg {
				levelOfLabel[l] = int(ins[j].Ops[0].Imm)
				break
			}
		}
	}
	type test struct {
		src   string
		mask  uint64
		level int
	}
	var tests []test
	for i := 0; i+4 < len(ins); i++ {
		a, b, c, d, e := ins[i], ins[i+1], ins[i+2], ins[i+3], ins[i+4]
		if a.Mnem == "MOVQ" && a.Ops[0].Kind == OpImm && a.Ops[1].Reg == "CX" && b.Mnem == "MOVQ" && b.Ops[0].Kind == OpReg && b.Ops[1].Reg == "DX" &&
			c.Mnem == "ANDQ" && d.Mnem == "CMPQ" && e.Mnem == "JNE" {
			lv, ok := levelOfLabel[e.Ops[0].Name]
			if !ok {
				return nil, "JNE target " + e.Ops[0].Name + " does not return a constant level"
			}
			tests = append(tests, test{b.Ops[0].Reg, uint64(a.Ops[0].Imm), lv})
		}
		// in-place form: MOVQ $mask, CX; ANDQ CX, AX; CMPQ AX, CX; JNE
		if a.Mnem == "MOVQ" && a.Ops[0].Kind == OpImm && a.Ops[1].Reg == "CX" && b.Mnem == "ANDQ" && b.Ops[0].Reg == "CX" && b.Ops[1].Kind == OpReg && c.Mnem == "CMPQ" && d.Mnem == "JNE" {
			lv, ok := levelOfLabel[d.Ops[0].Name]
			if ok {
				tests = append(tests, test{b.Ops[1].Reg, uint64(a.Ops[0].Imm), lv})
			}
		}
	}
	if len(tests) < 5 {
		return nil, "fewer mask tests than expected: " + itoa(len(tests))
	}
	out := map[int]map[string]bool{}
	for lvl := 1; lvl <= 4; lvl++ {
		out[lvl] = map[string]bool{}
		for _, t := range tests {
			if t.level < lvl {
				for b, name := range bit[t.src] {
					sh := b
					if t.mask&(1<<sh) != 0 {
						out[lvl][name] = true
					}
				}
			}
		}
	}
	return out, ""
}

// ---------- R19.2 (assembly part): distance masks of the match finders ----------

func asmDistanceMask(u *asmUnit) (int64, int, bool) {
	// the idiom "ANDQ $m, R ; NEGQ R" (dist = -(dist & mask))
	masks := map[int64]int{}
	ins := u.Text.Instrs
	for i := 0; i+1 < len(ins); i++ {
		a, b := ins[i], ins[i+1]
		if a.Mnem == "ANDQ" && len(a.Ops) == 2 && a.Ops[0].Kind == OpImm && a.Ops[1].Kind == OpReg && b.Mnem == "NEGQ" && b.Ops[0].Kind == OpReg && b.Ops[0].Reg == a.Ops[1].Reg {
			masks[a.Ops[0].Imm]++
		}
	}
	if len(masks) != 1 {
		return 0, len(masks), false
	}
	for m, n := range masks {
		return m, n, true
	}
	return 0, 0, false
}

// entryPathOnlyFromPrologue: the paths on which register rg is never written before instruction `at`
// leave the straight-line prologue (before the first label) directly - i.e. only an entry guard can skip the assignment.
func entryPathOnlyFromPrologue(u *asmUnit, at int, rg string) string {
	firstLabel := len(u.Text.Instrs)
	for i, in := range u.Text.Instrs {
		if len(in.Labels) > 0 {
			firstLabel = i
			break
		}
	}
	writes := func(i int) bool {
		in := u.Text.Instrs[i]
		d := in.dest()
		return d >= 0 && in.Ops[d].Kind == OpReg && baseReg(in.Ops[d].Reg) == rg
	}
	// walk the straight-line prologue while rg is unwritten
	for i := 0; i < firstLabel && i < len(u.Text.Instrs); i++ {
		if writes(i) {
			return ""
		}
		for _, s := range u.Flow.Succs[i] {
			if s == i+1 && s < firstLabel {
				continue
			}
			// leaves the prologue: either straight into the epilogue that ends in the store (the entry guard),
			// or into the body, where rg must be assigned before the store on every path
			straight := true
			for j := s; j != at; {
				sc := u.Flow.Succs[j]
				if writes(j) {
					break
				}
				if len(sc) != 1 {
					straight = false
					break
				}
				j = sc[0]
			}
			if straight {
				continue
			}
			if reachesWithoutWrite(u, s, at, writes) {
				return fmt.Sprintf("from line %d a path reaches the errno store without ever assigning %s", u.Text.Instrs[s].Line, rg)
			}
		}
	}
	return ""
}

func reachesWithoutWrite(u *asmUnit, from, to int, writes func(int) bool) bool {
	found, _ := asmPathAvoiding(u.Flow, from, func(i int) bool { return i == to }, writes)
	return found
}

// callerGuaranteesInput: every Go call of fn is dominated by len(<first arg>.input) > k with k >= min.
func (p *Program) callerGuaranteesInput(fn *ssa.Function, min int64) bool {
	sites := 0
	for _, g := range p.Funcs() {
		for _, c := range allCalls(g) {
			if c.Common().StaticCallee() != fn {
				continue
			}
			sites++
			ok := false
			for _, f := range dominatingFacts(c) {
				if f.Y == nil || f.Op.String() != ">" {
					continue
				}
				k, isK := constInt(f.Y)
				if !isK || k < min {
					continue
				}
				if call, isC := f.X.(*ssa.Call); isC {
					if bi, isB := call.Common().Value.(*ssa.Builtin); isB && bi.Name() == "len" {
						if _, sel, isL := fieldLoad(call.Common().Args[0]); isL && sel == ".input" {
							ok = true
						}
					}
				}
			}
			if !ok {
				return false
			}
		}
	}
	return sites > 0
}

// ---------- R18.10 output position at the exits of the decode loop ----------

// The decode loop stores a packed table entry through its output cursor and then advances the cursor by the
// entry's symbol count; when the last symbol of the entry is not a literal (end-of-block or a length) the
// cursor is moved back by one. Whatever else is added while a match is prepared has to be taken back before
// the routine leaves through an error exit. The rule explores every path from the symbol boundary (the loop
// head) to the common exit and checks the net movement of the cursor:
//
//	only symbol-count terms, minus one exactly when the path took the "last symbol is not a literal" branch.
func ruleR18_10(p *Program, r *Report) {
	r.Expect("R18.10", 1)
	if asmLoadFailures(p, r, "R18.10") {
		return
	}
	for _, u := range p.Asm().Units {
		if u.Text.Name != "decodeHuffmanAsmArchV3" {
			continue
		}
		ins := u.Text.Instrs
		key := u.Text.Name + "|output position at exits"
		// cursor register: the one stored to the `written` result
		cur := ""
		exitIdx := -1
		for i, in := range ins {
			if d := in.dest(); d >= 0 && in.Ops[d].Kind == OpFP && in.Ops[d].Name == "written" && in.Ops[0].Kind == OpReg {
				cur = baseReg(in.Ops[0].Reg)
				exitIdx = i
			}
		}
		// the exit sequence starts at the label block containing that store
		exitStart := exitIdx
		for exitStart > 0 && len(ins[exitStart].Labels) == 0 {
			exitStart--
		}
		// loop head: the label with the most backward jumps into it
		back := map[int]int{}
		for i, in := range ins {
			if asmJumps[in.Mnem] {
				if t, ok := u.Text.labelIdx[in.Ops[0].Name]; ok && t <= i {
					back[t]++
				}
			}
		}
		head, best := -1, 0
		for t, n := range back {
			if n > best || (n == best && t < head) {
				head, best = t, n
			}
		}
		if cur == "" || head < 0 || exitIdx < 0 {
			r.Undecided("R18.10", key, p.asmPos(u, ins[0]), "cursor register, loop head and exit sequence are identified", fmt.Sprintf("cursor=%q head=%d exit=%d", cur, head, exitIdx))
			continue
		}
		type state struct {
			idx        int
			k          int64  // constant part
			counts     int    // number of symbol-count additions
			pending    string // other terms, canonical: "+R15;-R14;..." ; "!" marks a term that can no longer be cancelled
			nonLit     bool
			afterStore bool   // previous instruction stored through the cursor
			cmp256     string // register compared with $256 by the previous CMPQ ("" if none)
		}
		seen := map[state]bool{}
		var bad []string
		var work []state
		work = append(work, state{idx: head})
		addTerm := func(pend string, sign string, reg string) string {
			opp := "+"
			if sign == "+" {
				opp = "-"
			}
			parts := []string{}
			cancelled := false
			for _, t := range strings.Split(pend, ";") {
				if t == "" {
					continue
				}
				if !cancelled && t == opp+reg {
					cancelled = true
					continue
				}
				parts = append(parts, t)
			}
			if !cancelled {
				parts = append(parts, sign+reg)
			}
			sort.Strings(parts)
			return strings.Join(parts, ";")
		}
		staleReg := func(pend string, reg string) string {
			parts := []string{}
			for _, t := range strings.Split(pend, ";") {
				if t == "" {
					continue
				}
				if strings.TrimLeft(t, "+-") == reg {
					t = t + "!"
				}
				parts = append(parts, t)
			}
			sort.Strings(parts)
			return strings.Join(parts, ";")
		}
		steps := 0
		for len(work) > 0 && steps < 200000 {
			steps++
			st := work[len(work)-1]
			work = work[:len(work)-1]
			if seen[st] {
				continue
			}
			seen[st] = true
			if st.idx >= exitStart && st.idx <= exitIdx {
				// reached the exit sequence: judge
				okK := (st.nonLit && st.k == -1) || (!st.nonLit && st.k == 0)
				if st.pending != "" || !okK {
					bad = append(bad, fmt.Sprintf("net cursor movement %+d with %d symbol-count term(s), extra terms [%s], last symbol %s", st.k, st.counts, st.pending, map[bool]string{true: "not a literal", false: "literal/none"}[st.nonLit]))
				}
				continue
			}
			in := ins[st.idx]
			nx := st
			nx.afterStore = false
			nx.cmp256 = ""
			d := in.dest()
			// store through the cursor: the next addition of a register is the symbol count
			if d >= 0 && in.Ops[d].Kind == OpMem && in.Ops[d].Base == cur && in.Ops[d].Index == "" && in.Ops[d].Off == 0 {
				nx.afterStore = true
			}
			if in.Mnem == "CMPQ" && len(in.Ops) == 2 && in.Ops[0].Kind == OpReg && in.Ops[1].Kind == OpImm && in.Ops[1].Imm == 256 {
				nx.cmp256 = baseReg(in.Ops[0].Reg)
			}
			if d >= 0 && in.Ops[d].Kind == OpReg {
				dr := baseReg(in.Ops[d].Reg)
				if dr == cur {
					switch {
					case (in.Mnem == "ADDQ" || in.Mnem == "SUBQ") && in.Ops[0].Kind == OpImm:
						if in.Mnem == "ADDQ" {
							nx.k += in.Ops[0].Imm
						} else {
							nx.k -= in.Ops[0].Imm
						}
					case (in.Mnem == "ADDQ" || in.Mnem == "SUBQ") && in.Ops[0].Kind == OpReg:
						reg := baseReg(in.Ops[0].Reg)
						if in.Mnem == "ADDQ" && st.afterStore {
							nx.counts++
						} else if in.Mnem == "ADDQ" {
							nx.pending = addTerm(nx.pending, "+", reg)
						} else {
							nx.pending = addTerm(nx.pending, "-", reg)
						}
					case in.Mnem == "LEAQ" && in.Ops[0].Kind == OpMem && in.Ops[0].Base == cur:
						nx.k += in.Ops[0].Off
						if in.Ops[0].Index != "" {
							if in.Ops[0].Scale != 1 {
								nx.pending = addTerm(nx.pending, "+", fmt.Sprintf("%d*%s", in.Ops[0].Scale, in.Ops[0].Index))
							} else {
								nx.pending = addTerm(nx.pending, "+", baseReg(in.Ops[0].Index))
							}
						}
					case in.Mnem == "INCQ":
						nx.k++
					case in.Mnem == "DECQ":
						nx.k--
					default:
						nx.pending = addTerm(nx.pending, "+", "?"+in.Mnem)
					}
					if st.afterStore && !(in.Mnem == "ADDQ" && in.Ops[0].Kind == OpReg) {
						nx.afterStore = false
					}
				} else if nx.pending != "" {
					nx.pending = staleReg(nx.pending, dr)
				}
			}
			for _, s := range u.Flow.Succs[st.idx] {
				n2 := nx
				n2.idx = s
				// taken branch of JE/JG after CMPQ reg,$256: the last symbol is not a literal
				if asmJumps[in.Mnem] && in.Mnem != "JMP" && st.cmp256 != "" {
					t, ok := u.Text.labelIdx[in.Ops[0].Name]
					taken := ok && t == s
					switch in.Mnem {
					case "JE", "JG", "JGE":
						if taken {
							n2.nonLit = true // symbol == 256 or > 256
						}
					case "JL":
						if !taken {
							n2.nonLit = true // not below 256
						}
					}
				}
				if asmJumps[in.Mnem] {
					n2.cmp256 = st.cmp256
				}
				if s == head {
					continue // next symbol boundary: a new exploration starts there
				}
				work = append(work, n2)
			}
		}
		sort.Strings(bad)
		if len(bad) > 3 {
			bad = append(bad[:3], fmt.Sprintf("... %d more", len(bad)-3))
		}
		r.Check(len(bad) == 0 && steps < 200000, "R18.10", key, p.asmPos(u, ins[head]), fmt.Sprintf("on every path from the symbol boundary to the exit the output cursor %s has moved only by symbol counts, minus one exactly when the last symbol is not a literal (%d states explored)", cur, len(seen)), strings.Join(bad, " | "))
	}
}

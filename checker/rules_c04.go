package main

// C04 - output independent of how input arrives: rollback discipline of the Go decode loop and header parser.

import (
	"go/token"
	"go/types"
	"strings"

	"golang.org/x/tools/go/ssa"
)

func init() {
	register(&PropSpec{
		ID: "C04",
		Rules: []Rule{
			{ID: "R04.1", Configs: "all", Run: ruleR04_1},
			{ID: "R04.2", Configs: "all", Run: ruleR04_2},
			{ID: "R04.3", Configs: "all", Run: ruleR04_3},
			{ID: "R04.4", Configs: "all", Run: ruleR04_4},
			{ID: "R04.5", Configs: "all", Run: ruleR04_5},
			{ID: "R04.6", Configs: "all", Run: ruleR04_6},
		},
		Explanation: "Decides only the rollback discipline that makes decoding restartable at any input boundary, not schedule independence itself: (R04.1) in decodeHuffmanLargeLoop every exit that reports end-of-input hands back a consistent, unconsumed triple (bits, bitsLen, input) - all three defined at one and the same program point, with no lookup-table value in their computation since the loop head - and an output position that dominates every output store of the iteration; " +
			"(R04.2) in the header parser every call that consumes bits is followed, before any success return, by a test of the bit count (or by another consuming call that carries the same obligation), so a header parsed from too few bits is staged instead of accepted; (R04.3) an end-of-input rollback that can follow, within the same iteration, the parking of literals in the overflow carry clears the carry (the symbol is decoded again after the refill); " +
			"(R04.4) inflate.readHeader, on its end-of-input edge, restores bits and bitsLen to their values at entry, stages the unread input behind the bytes already staged and advances the staging count by exactly that copy; (R04.5) the inflater acquires input only through Peek/Buffered/Discard on its bufio.Reader (non-destructive acquisition); (R04.6) the scratch counters that the code-length parser increments are cleared on every attempt to parse a dynamic header, so a header that is re-parsed after a refill is not counted twice.",
		NotDecided: []string{
			"that the staged header and the carry are interpreted correctly when decoding resumes",
			"the assembly loop's end_of_input path beyond R18.6 (state write-back)",
			"equality of outputs for two delivery schedules",
		},
	})
}

type exitPhis struct {
	blk                                *ssa.BasicBlock
	err, written, bits, bitsLen, input *ssa.Phi
	loopHead                           *ssa.BasicBlock
}

func findExitPhis(fn *ssa.Function) *exitPhis {
	var best *ssa.BasicBlock
	for _, b := range fn.Blocks {
		if len(b.Preds) >= 4 && (best == nil || len(b.Preds) > len(best.Preds)) {
			// must lead to the return without looping back
			best = b
		}
	}
	if best == nil {
		return nil
	}
	ep := &exitPhis{blk: best, loopHead: best.Idom()}
	for _, in := range best.Instrs {
		phi, ok := in.(*ssa.Phi)
		if !ok {
			continue
		}
		switch {
		case isErrorType(phi.Type()):
			ep.err = phi
		case phi.Comment == "written":
			ep.written = phi
		case phi.Comment == "bits":
			ep.bits = phi
		case phi.Comment == "bitsLen":
			ep.bitsLen = phi
		case phi.Comment == "input":
			ep.input = phi
		}
	}
	// roles by type when names changed
	for _, in := range best.Instrs {
		phi, ok := in.(*ssa.Phi)
		if !ok || phi == ep.err || phi == ep.written || phi == ep.bits || phi == ep.bitsLen || phi == ep.input {
			continue
		}
		switch typeString(phi.Type()) {
		case "uint64":
			if ep.bits == nil {
				ep.bits = phi
			}
		case "int32":
			if ep.bitsLen == nil {
				ep.bitsLen = phi
			}
		case "[]byte":
			if ep.input == nil {
				ep.input = phi
			}
		case "int":
			if ep.written == nil {
				ep.written = phi
			}
		}
	}
	if ep.err == nil || ep.written == nil || ep.bits == nil || ep.bitsLen == nil || ep.input == nil {
		return nil
	}
	return ep
}

func onlySentinel(p *Program, v ssa.Value, names ...string) bool {
	leaves := p.valueSources(v)
	if len(leaves) == 0 {
		return false
	}
	for _, l := range leaves {
		ok := false
		for _, n := range names {
			if n == "nil" && isNil(l) {
				ok = true
			}
			if g := globalLoad(l); g != nil && g.Name() == n {
				ok = true
			}
		}
		if !ok {
			return false
		}
	}
	return true
}

func isTableLoad(v ssa.Value) bool {
	u, ok := v.(*ssa.UnOp)
	if !ok || u.Op != token.MUL {
		return false
	}
	root, sel := accessPath(u.X)
	if strings.Contains(sel, "CodeLookup") {
		return true
	}
	if g, ok := root.(*ssa.Global); ok && g.Name() == "rfcLookupTable" {
		return true
	}
	return false
}

func ruleR04_1(p *Program, r *Report) {
	r.Expect("R04.1", 2)
	fn := p.Func(flateRel, "decodeHuffmanLargeLoop")
	if fn == nil {
		r.Undecided("R04.1", "anchor", "-", "decodeHuffmanLargeLoop exists", "not found")
		return
	}
	ep := findExitPhis(fn)
	if ep == nil {
		r.Undecided("R04.1", "exit block", p.Pos(fn.Pos()), "the common exit block with phis for bits, bitsLen, input, written, err is identified", "not found")
		return
	}
	output := fn.Params[1]
	var outStores []ssa.Instruction
	for _, b := range fn.Blocks {
		for _, in := range b.Instrs {
			switch x := in.(type) {
			case *ssa.Store:
				if root, sel := accessPath(x.Addr); root == ssa.Value(output) && sel == "[*]" {
					outStores = append(outStores, in)
				}
			case ssa.CallInstruction:
				if len(x.Common().Args) > 0 {
					if root, _ := accessPath(x.Common().Args[0]); root == ssa.Value(output) {
						if bi, ok := x.Common().Value.(*ssa.Builtin); ok && bi.Name() == "copy" {
							outStores = append(outStores, in)
						}
						if f := x.Common().StaticCallee(); f != nil && f.Name() == "byteCopy" {
							outStores = append(outStores, in)
						}
					}
				}
			}
		}
	}
	n := 0
	for i, e := range ep.err.Edges {
		if !onlySentinel(p, e, "errEndInput") {
			continue
		}
		n++
		pred := ep.blk.Preds[i]
		key := "decodeHuffmanLargeLoop|rollback#" + itoa(n)
		pos := p.InstrPos(pred.Instrs[len(pred.Instrs)-1])
		why := ""
		trip := []ssa.Value{ep.bits.Edges[i], ep.bitsLen.Edges[i], ep.input.Edges[i]}
		// (b) consistent triple
		var blk *ssa.BasicBlock
		for _, v := range trip {
			in, ok := v.(ssa.Instruction)
			if !ok {
				why = "a rolled-back value is not an SSA instruction: " + v.String()
				break
			}
			if blk == nil {
				blk = in.Block()
			} else if in.Block() != blk {
				why = "bits, bitsLen and input handed back on this end-of-input exit were taken at different program points (blocks " + itoa(blk.Index) + " and " + itoa(in.Block().Index) + "): bytes moved from the input into the bit buffer would be counted twice or lost"
			}
		}
		// (a) unconsumed since the loop head
		if why == "" {
			seen := map[ssa.Value]bool{}
			var walk func(v ssa.Value) string
			walk = func(v ssa.Value) string {
				if v == nil || seen[v] {
					return ""
				}
				seen[v] = true
				if isTableLoad(v) {
					return "the value handed back depends on a lookup-table entry (" + describeValue(v) + "): bits of a symbol have already been consumed"
				}
				in, ok := v.(ssa.Instruction)
				if !ok {
					return ""
				}
				if phi, ok := v.(*ssa.Phi); ok && phi.Block() == ep.loopHead {
					return ""
				}
				for _, op := range in.Operands(nil) {
					if *op != nil {
						if s := walk(*op); s != "" {
							return s
						}
					}
				}
				return ""
			}
			for _, v := range trip {
				if s := walk(v); s != "" {
					why = s
				}
			}
		}
		// (c) the output position handed back precedes every output store of the iteration
		if why == "" {
			w := ep.written.Edges[i]
			win, ok := w.(ssa.Instruction)
			if ok && blk != nil && !(win.Block() == blk || win.Block().Dominates(blk)) {
				why = "the output position handed back is taken later than the saved bit-buffer state (block " + itoa(win.Block().Index) + " vs " + itoa(blk.Index) + "): literals of the packed entry that were already written would be written again after the refill"
			}
			if ok && why == "" {
				for _, st := range outStores {
					if !(win.Block().Dominates(st.Block())) {
						why = "the output position handed back is not taken before the output store at " + p.InstrPos(st) + ": bytes written for the unfinished symbol would be counted"
					}
				}
			}
		}
		r.Check(why == "", "R04.1", key, pos, "an end-of-input exit hands back an unconsumed, consistent (bits, bitsLen, input) triple and the output position from before the symbol", why)
	}
	if n < 2 {
		r.Undecided("R04.1", "decodeHuffmanLargeLoop|rollback edges", p.Pos(fn.Pos()), "at least two end-of-input exits", "found "+itoa(n))
	}
}

// consumesBits: does fn (or a callee) decrease inflate.bitsLen?
func (p *Program) consumesBits(fn *ssa.Function, seen map[*ssa.Function]bool) bool {
	if fn == nil || fn.Blocks == nil || seen[fn] {
		return false
	}
	seen[fn] = true
	for _, b := range fn.Blocks {
		for _, in := range b.Instrs {
			switch x := in.(type) {
			case *ssa.Store:
				fa, ok := x.Addr.(*ssa.FieldAddr)
				if !ok || derefStruct(fa.X.Type()).Field(fa.Field).Name() != "bitsLen" {
					continue
				}
				// value derives from a subtraction
				sub := false
				vis := map[ssa.Value]bool{}
				var walk func(v ssa.Value)
				walk = func(v ssa.Value) {
					if v == nil || vis[v] {
						return
					}
					vis[v] = true
					switch y := v.(type) {
					case *ssa.BinOp:
						if y.Op == token.SUB {
							sub = true
						}
						walk(y.X)
						walk(y.Y)
					case *ssa.Phi:
						for _, e := range y.Edges {
							walk(e)
						}
					case *ssa.Convert:
						walk(y.X)
					}
				}
				walk(x.Val)
				if sub {
					return true
				}
			case ssa.CallInstruction:
				if f := x.Common().StaticCallee(); f != nil && p.consumesBits(f, seen) {
					return true
				}
			}
		}
	}
	return false
}

func ruleR04_2(p *Program, r *Report) {
	r.Expect("R04.2", 6)
	start := p.Method(flateRel, "inflate", "tryDecodeHeader")
	if start == nil {
		r.Undecided("R04.2", "anchor", "-", "inflate.tryDecodeHeader exists", "not found")
		return
	}
	seen := map[*ssa.Function]bool{}
	var fns []*ssa.Function
	var visit func(f *ssa.Function)
	visit = func(f *ssa.Function) {
		if f == nil || f.Blocks == nil || seen[f] || !p.InRepo(f) {
			return
		}
		seen[f] = true
		fns = append(fns, f)
		for _, c := range allCalls(f) {
			visit(c.Common().StaticCallee())
		}
	}
	visit(start)
	for _, fn := range fns {
		// only functions that report success/failure
		if fn.Signature.Results().Len() == 0 || !isErrorType(fn.Signature.Results().At(fn.Signature.Results().Len()-1).Type()) {
			continue
		}
		lab := newLabeler()
		for _, c := range allCalls(fn) {
			f := c.Common().StaticCallee()
			if f == nil || !p.consumesBits(f, map[*ssa.Function]bool{}) {
				continue
			}
			key := shortFn(fn) + "|" + lab.get(f.Name())
			// is the error operand e of a return the result of this very call (directly, or through the phi of a
			// single-exit `err = f(); ...; return err` on every edge the call can arrive by)?
			isResultOfCall := func(e ssa.Value) bool {
				cv := c.Value()
				if e == nil || cv == nil {
					return false
				}
				if e == ssa.Value(cv) {
					return true
				}
				phi, ok := e.(*ssa.Phi)
				if !ok {
					return false
				}
				hit := false
				for i, pred := range phi.Block().Preds {
					from := c.Block() == pred || c.Block().Dominates(pred)
					if !from {
						// a predecessor the call cannot arrive by
						if reach, _, _ := (PathQuery{Start: c, Target: func(x ssa.Instruction) bool { return x.Block() == pred }}).Find(fn); !reach {
							continue
						}
					}
					if phi.Edges[i] != ssa.Value(cv) {
						return false
					}
					hit = true
				}
				return hit
			}
			isTest := func(in ssa.Instruction) bool {
				switch x := in.(type) {
				case *ssa.If:
					bo, ok := x.Cond.(*ssa.BinOp)
					if !ok {
						return false
					}
					for _, v := range []ssa.Value{bo.X, bo.Y} {
						if _, sel, ok := fieldLoad(stripConv(v)); ok && strings.HasSuffix(sel, ".bitsLen") || sel == ".bitsLen" {
							return true
						}
						// a value computed from bitsLen (bitsLen/8 < 4)
						if b2, ok := stripConv(v).(*ssa.BinOp); ok {
							if _, sel, ok := fieldLoad(stripConv(b2.X)); ok && sel == ".bitsLen" {
								return true
							}
						}
					}
				case ssa.CallInstruction:
					if x == c {
						return false
					}
					if g := x.Common().StaticCallee(); g != nil && p.consumesBits(g, map[*ssa.Function]bool{}) {
						return true
					}
				case *ssa.Return:
					// `return f()` - the callee carries the obligation
					if e := returnErr(x); isResultOfCall(e) {
						return true
					}
				}
				return false
			}
			succ := func(in ssa.Instruction) bool {
				ret, ok := in.(*ssa.Return)
				if !ok {
					return false
				}
				e := returnErr(ret)
				if isResultOfCall(e) {
					return false // `return f()`: the callee's own returns carry the obligation
				}
				return e != nil && p.mayBeNil(fn, e, ret)
			}
			found, hit, path := PathQuery{Start: c, Target: succ, Barrier: isTest}.Find(fn)
			why := ""
			if found {
				why = "after " + f.Name() + " consumed bits the success return at " + p.InstrPos(hit) + " is reachable (blocks " + fmtInts(path) + ") without a test of the bit count: with the input cut at that point the header is accepted with the missing bits read as zero"
			}
			r.Check(!found, "R04.2", key, p.InstrPos(c), "a bit-consuming step of the header parser is followed by an end-of-input test before success is reported", why)
		}
	}
}

func ruleR04_3(p *Program, r *Report) {
	r.Expect("R04.3", 2)
	fn := p.Func(flateRel, "decodeHuffmanLargeLoop")
	if fn == nil {
		r.Undecided("R04.3", "anchor", "-", "decodeHuffmanLargeLoop exists", "not found")
		return
	}
	ep := findExitPhis(fn)
	if ep == nil {
		r.Undecided("R04.3", "exit block", p.Pos(fn.Pos()), "exit block identified", "not found")
		return
	}
	badPred := map[*ssa.BasicBlock]bool{}
	for i, e := range ep.err.Edges {
		if onlySentinel(p, e, "errEndInput") {
			badPred[ep.blk.Preds[i]] = true
		}
	}
	output := fn.Params[1]
	carrySel := func(in ssa.Instruction) (string, ssa.Value, bool) {
		st, ok := in.(*ssa.Store)
		if !ok {
			return "", nil, false
		}
		_, sel := accessPath(st.Addr)
		if sel == ".writeOverflowLen" || sel == ".writeOverflowLits" {
			return sel, st.Val, true
		}
		return "", nil, false
	}
	lab := newLabeler()
	n := 0
	for _, b := range fn.Blocks {
		for _, in := range b.Instrs {
			sel, val, ok := carrySel(in)
			if !ok || sel != ".writeOverflowLen" {
				continue
			}
			if k, isK := constInt(val); isK && k == 0 {
				continue
			}
			n++
			key := "decodeHuffmanLargeLoop|" + lab.get("carry set")
			barrier := func(x ssa.Instruction) bool {
				// a new iteration of the symbol loop starts: whatever it does is judged from its own carry stores
				if x.Block() == ep.loopHead && x == ep.loopHead.Instrs[0] {
					return true
				}
				if s2, v2, ok := carrySel(x); ok && s2 == ".writeOverflowLen" {
					if k, isK := constInt(v2); isK && k == 0 {
						return true
					}
				}
				// a write to the output: cannot happen while the window is full (the condition under which the carry is set)
				switch y := x.(type) {
				case *ssa.Store:
					if root, s3 := accessPath(y.Addr); root == ssa.Value(output) && s3 == "[*]" {
						return true
					}
				case ssa.CallInstruction:
					if len(y.Common().Args) > 0 {
						if root, _ := accessPath(y.Common().Args[0]); root == ssa.Value(output) {
							return true
						}
					}
				}
				return false
			}
			target := func(x ssa.Instruction) bool {
				// the terminator of a predecessor of the exit block whose err operand is nil / errEndInput
				blk := x.Block()
				if !badPred[blk] || x != blk.Instrs[len(blk.Instrs)-1] {
					return false
				}
				for _, s := range blk.Succs {
					if s == ep.blk {
						return true
					}
				}
				return false
			}
			found, hit, path := PathQuery{Start: in, Target: target, Barrier: barrier}.Find(fn)
			why := ""
			if found {
				why = "from the carry store the end-of-input exit at " + p.InstrPos(hit) + " is reachable (blocks " + fmtInts(path) + ") with the carry still set: the symbol is rolled back and decoded again after the refill, but the caller has already flushed the parked literals"
			}
			r.Check(!found, "R04.3", key, p.InstrPos(in), "an end-of-input rollback that can follow the parking of literals in the overflow carry clears the carry", why)
		}
	}
	if n == 0 {
		r.Undecided("R04.3", "decodeHuffmanLargeLoop|carry", p.Pos(fn.Pos()), "the loop parks literals in writeOverflowLen somewhere", "no store found")
	}
}

func ruleR04_4(p *Program, r *Report) {
	r.Expect("R04.4", 1)
	fn := p.Method(flateRel, "inflate", "readHeader")
	if fn == nil {
		r.Undecided("R04.4", "anchor", "-", "inflate.readHeader exists", "not found")
		return
	}
	recv := fn.Params[0]
	entry := fn.Blocks[0]
	entryLoad := func(sel string) ssa.Value {
		for _, in := range entry.Instrs {
			if u, ok := in.(*ssa.UnOp); ok {
				if root, s, ok := fieldLoad(u); ok && root == ssa.Value(recv) && s == sel {
					return u
				}
			}
		}
		return nil
	}
	savedBits, savedLen, savedInput := entryLoad(".bits"), entryLoad(".bitsLen"), entryLoad(".input")
	// the end-of-input edge
	var eoiBlock *ssa.BasicBlock
	for _, b := range fn.Blocks {
		for _, s := range b.Succs {
			if br, ok := edgeCond(b, s); ok {
				if f, ok := branchFact(br); ok && f.Y != nil && f.Op == token.EQL {
					for _, v := range []ssa.Value{f.X, f.Y} {
						if g := globalLoad(v); g != nil && g.Name() == "errEndInput" {
							eoiBlock = s
						}
					}
				}
			}
		}
	}
	key := shortFn(fn) + "|end-of-input edge"
	if eoiBlock == nil || savedBits == nil || savedLen == nil || savedInput == nil {
		r.Undecided("R04.4", key, p.Pos(fn.Pos()), "entry loads of bits/bitsLen/input and the err == errEndInput edge are found", "not found")
		return
	}
	got := map[string]ssa.Value{}
	var copyCall *ssa.Call
	// the restoration may be written out on the edge or live in a helper method called there on the same receiver:
	// the helper's parameters are then read through their binding at the call
	bind := map[ssa.Value]ssa.Value{}
	res := func(v ssa.Value) ssa.Value {
		if a, ok := bind[v]; ok {
			return a
		}
		return v
	}
	instrs := append([]ssa.Instruction{}, eoiBlock.Instrs...)
	roots := map[ssa.Value]bool{ssa.Value(recv): true}
	for _, in := range eoiBlock.Instrs {
		c, ok := in.(*ssa.Call)
		if !ok {
			continue
		}
		h := c.Common().StaticCallee()
		if h == nil || h.Blocks == nil || h.Pkg != fn.Pkg || len(h.Params) == 0 || len(c.Common().Args) == 0 || c.Common().Args[0] != ssa.Value(recv) {
			continue
		}
		for i, prm := range h.Params {
			if i < len(c.Common().Args) {
				bind[prm] = c.Common().Args[i]
			}
		}
		roots[h.Params[0]] = true
		for _, hb := range h.Blocks {
			instrs = append(instrs, hb.Instrs...)
		}
	}
	for _, in := range instrs {
		switch x := in.(type) {
		case *ssa.Store:
			if root, sel := accessPath(x.Addr); roots[root] {
				got[sel] = res(x.Val)
			}
		case *ssa.Call:
			if bi, ok := x.Common().Value.(*ssa.Builtin); ok && bi.Name() == "copy" {
				copyCall = x
			}
		}
	}
	why := ""
	switch {
	case got[".bits"] != savedBits:
		why = "bits is not restored to its value at entry"
	case got[".bitsLen"] != savedLen:
		why = "bitsLen is not restored to its value at entry"
	case copyCall == nil:
		why = "the unread input is not copied into the staging buffer"
	default:
		// copy(headerBuffer[headerBuffered:], input)
		dst, okD := copyCall.Common().Args[0].(*ssa.Slice)
		if !okD {
			why = "copy destination is not a slice of the staging buffer"
		} else {
			_, selD := accessPath(dst.X)
			lowOK := false
			if dst.Low != nil {
				if _, s, ok := fieldLoad(stripConv(dst.Low)); ok && s == ".headerBuffered" {
					lowOK = true
				}
			}
			if selD != ".headerBuffer" || !lowOK {
				why = "the input is not staged at headerBuffer[headerBuffered:]"
			}
		}
		if why == "" && res(copyCall.Common().Args[1]) != savedInput {
			why = "what is staged is not the input as it was at entry"
		}
		if why == "" {
			hb, ok := got[".headerBuffered"].(*ssa.BinOp)
			if !ok || hb.Op != token.ADD || stripConv(hb.Y) != ssa.Value(copyCall) {
				why = "headerBuffered is not advanced by exactly the number of bytes staged"
			}
		}
		if why == "" {
			k, isK := constInt(got[".phase"])
			want, _ := constOf(p, flateRel, "phaseDecodingHeader")
			if !isK || k != want {
				why = "phase is not set to phaseDecodingHeader"
			}
		}
	}
	r.Check(why == "", "R04.4", key, p.InstrPos(eoiBlock.Instrs[0]), "on end of input the header parser restores bits/bitsLen, stages the unread input behind what is already staged and advances the staging count by that copy", why)
}

func ruleR04_5(p *Program, r *Report) {
	r.Expect("R04.5", 3)
	allowed := map[string]bool{"Peek": true, "Size": true, "Buffered": true, "Discard": true, "Reset": true}
	sp := p.Pkg(flateRel)
	for _, fn := range p.Funcs() {
		if fn.Pkg != sp {
			continue
		}
		lab := newLabeler()
		for _, c := range allCalls(fn) {
			f := c.Common().StaticCallee()
			if f == nil || f.Signature.Recv() == nil || !isNamedType(f.Signature.Recv().Type(), "bufio", "Reader") {
				continue
			}
			ok := allowed[f.Name()]
			if f.Name() == "Reset" {
				// re-targeting the buffer belongs to Reset and the constructors (or a private helper only they reach)
				for _, e := range p.apiEntries(fn) {
					if e.Name() != "Reset" && !strings.HasPrefix(e.Name(), "New") {
						ok = false
					}
				}
			}
			r.Check(ok, "R04.5", shortFn(fn)+"|"+lab.get("bufio."+f.Name()), p.InstrPos(c), "the inflater takes input only through Peek/Buffered/Discard, so unconsumed bytes stay in the source", "(*bufio.Reader)."+f.Name()+" consumes input destructively")
		}
	}
	_ = types.Typ
}

// R04.6: scratch state that readLitDistLens accumulates into is cleared on every attempt.
func ruleR04_6(p *Program, r *Report) {
	r.Expect("R04.6", 2)
	setup := p.Method(flateRel, "inflate", "setupDynamicHeader")
	rd := p.Method(flateRel, "inflate", "readLitDistLens")
	if setup == nil || rd == nil {
		r.Undecided("R04.6", "anchors", "-", "setupDynamicHeader and readLitDistLens exist", "not found")
		return
	}
	// which fields of the header scratch does the parser write? (relative to its ctx parameter)
	eff := p.Effects()
	fields := map[string]bool{}
	for i, par := range rd.Params {
		if isNamedType(par.Type(), modPath+"/"+flateRel, "dynamicHeaderReader") {
			for _, sel := range eff.ParamWrites(rd, i) {
				f := sel
				if j := strings.IndexAny(f[1:], ".[^~"); j >= 0 {
					f = f[:j+1]
				}
				fields[f] = true
			}
		}
	}
	var call ssa.CallInstruction
	for _, c := range allCalls(setup) {
		if c.Common().StaticCallee() == rd {
			call = c
		}
	}
	if call == nil || len(fields) == 0 {
		r.Undecided("R04.6", "setupDynamicHeader|parser call", p.Pos(setup.Pos()), "the header setup calls the code-length parser, which writes scratch fields", "not found")
		return
	}
	for _, f := range sortedKeys(fields) {
		zero := func(in ssa.Instruction) bool {
			st, ok := in.(*ssa.Store)
			if !ok {
				return false
			}
			_, sel := accessPath(st.Addr)
			if !strings.HasSuffix(sel, ".dynHdr"+f) {
				return false
			}
			c, isC := st.Val.(*ssa.Const)
			return isC && c.Value == nil
		}
		found, _, path := PathQuery{Target: func(x ssa.Instruction) bool { return x == ssa.Instruction(call) }, Barrier: zero}.Find(setup)
		why := ""
		if found {
			why = "the parser is reached (blocks " + fmtInts(path) + ") without clearing dynHdr" + f + ": when a header is parsed again after a refill its code lengths are counted on top of the first attempt's"
		}
		r.Check(!found, "R04.6", "setupDynamicHeader|clear dynHdr"+f, p.InstrPos(call), "scratch field dynHdr"+f+" is cleared on every path to the code-length parser", why)
	}
}

package main

// C17 - distinct instances do not interfere: no shared writable state.

import (
	"go/token"
	"go/types"
	"strings"

	"golang.org/x/tools/go/ssa"
)

func init() {
	register(&PropSpec{
		ID: "C17",
		Rules: []Rule{
			{ID: "R17.1", Configs: "all", Run: ruleR17_1},
			{ID: "R17.2", Configs: "all", Run: ruleR17_2},
			{ID: "R17.3", Configs: "asm", Run: ruleR17_3},
			{ID: "R17.4", Configs: "all", Run: ruleR17_4},
		},
		Explanation: "Decides a sufficient condition for non-interference of distinct Writer/Reader values in Go code: (R17.1) no function that can run after package initialisation writes memory reachable from a package-level variable (field-effect summaries closed over resolved calls: direct stores, stores through values loaded from reference-typed globals, copy/append destinations, and arguments passed to callees that write them); " +
			"(R17.2) no address derived from a package variable, and no reference-typed value loaded from one, is stored into an instance field or returned by a constructor (no shared scratch); (R17.3) no store in any assembly routine has a base register derived from a global symbol; (R17.4) the library starts no goroutines and uses no sync primitives, so there is no other channel of interaction. " +
			"With no shared writable memory reachable from two instances there is nothing to race on; equality of per-instance outputs under concurrency follows but is not itself checked.",
		NotDecided: []string{
			"writes performed by assembly routines beyond their base registers (R17.3 covers the address bases only)",
			"the standard library's own internal synchronisation",
		},
	})
}

// initOnlyFuncs: package initialisers and functions reachable only from them.
func (p *Program) initOnlyFuncs() map[*ssa.Function]bool {
	isInit := func(f *ssa.Function) bool {
		return f.Parent() == nil && f.Signature.Recv() == nil && (f.Name() == "init" || strings.HasPrefix(f.Name(), "init#"))
	}
	callers := map[*ssa.Function][]*ssa.Function{}
	for _, fn := range p.Funcs() {
		for _, c := range allCalls(fn) {
			cs, _ := p.Callees(c)
			for _, x := range cs {
				callers[x] = append(callers[x], fn)
			}
		}
	}
	out := map[*ssa.Function]bool{}
	for _, fn := range p.Funcs() {
		if isInit(fn) {
			out[fn] = true
		}
	}
	// closures defined in init functions are values that can be called later: not init-only
	changed := true
	for changed {
		changed = false
		for _, fn := range p.Funcs() {
			if out[fn] || fn.Parent() != nil {
				continue
			}
			if fn.Object() != nil && fn.Object().Exported() {
				continue
			}
			if fn.Signature.Recv() != nil {
				continue
			}
			cs := callers[fn]
			if len(cs) == 0 {
				continue
			}
			all := true
			for _, c := range cs {
				if !out[c] {
					all = false
				}
			}
			if all {
				out[fn] = true
				changed = true
			}
		}
	}
	return out
}

func ruleR17_1(p *Program, r *Report) {
	r.Expect("R17.1", 100)
	eff := p.Effects()
	initOnly := p.initOnlyFuncs()
	globals := 0
	for _, sp := range p.SSA {
		for _, m := range sp.Members {
			if _, ok := m.(*ssa.Global); ok {
				globals++
			}
		}
	}
	r.Note("R17.1: %d package-level variables, %d functions examined, %d init-only", globals, len(p.Funcs()), len(initOnly))
	for _, fn := range p.Funcs() {
		if isExamples(fn) {
			continue
		}
		key := shortFn(fn)
		if initOnly[fn] {
			r.OK("R17.1", key, p.Pos(fn.Pos()), "package initialiser (or reachable only from one): may write package variables")
			continue
		}
		gw := eff.GlobalWrites(fn)
		if len(eff.Unknown[fn]) > 0 {
			r.Undecided("R17.1", key+"|summary", p.Pos(fn.Pos()), "all callees resolved", strings.Join(eff.Unknown[fn], "; "))
		}
		if len(gw) == 0 {
			r.OK("R17.1", key, p.Pos(fn.Pos()), "writes no memory reachable from a package variable")
			continue
		}
		var what []string
		for _, g := range gw {
			what = append(what, g.Global.Name()+g.Sel)
		}
		r.Fail("R17.1", key, p.Pos(fn.Pos()), "writes no memory reachable from a package variable", "may write "+strings.Join(what, ", ")+" after initialisation: shared by all instances")
	}
}

func isRefType(t types.Type) bool {
	switch t.Underlying().(type) {
	case *types.Pointer, *types.Slice, *types.Map, *types.Chan:
		return true
	}
	return false
}

func isAggregate(t types.Type) bool {
	switch t.Underlying().(type) {
	case *types.Struct, *types.Array:
		return true
	}
	return false
}

// containsRef: does a value of type t carry a reference (slice, map, pointer, chan, func, interface) somewhere inside?
func containsRef(t types.Type, depth int) bool {
	if depth > 6 {
		return false
	}
	switch u := t.Underlying().(type) {
	case *types.Pointer, *types.Slice, *types.Map, *types.Chan, *types.Signature, *types.Interface:
		return true
	case *types.Struct:
		for i := 0; i < u.NumFields(); i++ {
			if containsRef(u.Field(i).Type(), depth+1) {
				return true
			}
		}
	case *types.Array:
		return containsRef(u.Elem(), depth+1)
	}
	return false
}

// aggregateFromGlobal: v is (a phi/conversion of) a struct or array value loaded from a repository package variable.
func aggregateFromGlobal(p *Program, v ssa.Value) *ssa.Global {
	for _, leaf := range p.valueSources(v) {
		u, ok := leaf.(*ssa.UnOp)
		if !ok || u.Op != token.MUL {
			continue
		}
		root, _ := accessPath(u.X)
		if g, ok := root.(*ssa.Global); ok && g.Pkg != nil && strings.HasPrefix(g.Pkg.Pkg.Path(), modPath) {
			return g
		}
	}
	return nil
}

// globalDerived: is v an address inside a package variable, or a reference loaded from one?
func globalDerived(p *Program, v ssa.Value) (*ssa.Global, bool) {
	for _, leaf := range p.valueSources(v) {
		if !isRefType(leaf.Type()) {
			continue
		}
		root, _ := accessPath(leaf)
		if g, ok := root.(*ssa.Global); ok {
			if g.Pkg != nil && strings.HasPrefix(g.Pkg.Pkg.Path(), modPath) {
				return g, true
			}
		}
	}
	return nil, false
}

func ruleR17_2(p *Program, r *Report) {
	r.Expect("R17.2", 50)
	for _, fn := range p.Funcs() {
		if isExamples(fn) {
			continue
		}
		lab := newLabeler()
		for _, b := range fn.Blocks {
			for _, in := range b.Instrs {
				switch x := in.(type) {
				case *ssa.Store:
					root, sel := accessPath(x.Addr)
					if _, isG := root.(*ssa.Global); !isG && isAggregate(x.Val.Type()) && containsRef(x.Val.Type(), 0) {
						// a struct/array value copied out of a package variable takes the variable's
						// slices, maps and pointers with it: the copy is shallow
						if g := aggregateFromGlobal(p, x.Val); g != nil {
							r.Fail("R17.2", shortFn(fn)+"|"+lab.get("copy of "+g.Name()), p.InstrPos(x), "an instance never shares memory with a package variable", "copies the value of "+g.Name()+" ("+typeString(x.Val.Type())+"), which contains slices/maps/pointers: every instance made from it shares their backing store")
							continue
						}
					}
					if _, isG := root.(*ssa.Global); isG || sel == "" {
						continue
					}
					key := shortFn(fn) + "|" + lab.get("store "+sel)
					if g, bad := globalDerived(p, x.Val); bad {
						r.Fail("R17.2", key, p.InstrPos(x), "an instance field never refers to memory of a package variable", "stores a reference into "+g.Name()+" in field "+sel+": every instance would share it")
					} else if isRefType(x.Val.Type()) {
						r.OK("R17.2", key, p.InstrPos(x), "an instance field never refers to memory of a package variable")
					}
				case *ssa.Return:
					for _, res := range x.Results {
						if !isRefType(res.Type()) {
							continue
						}
						key := shortFn(fn) + "|" + lab.get("return")
						if g, bad := globalDerived(p, res); bad {
							r.Fail("R17.2", key, p.InstrPos(x), "no function hands out a reference into a package variable", "returns a reference into "+g.Name())
						} else {
							r.OK("R17.2", key, p.InstrPos(x), "no function hands out a reference into a package variable")
						}
					}
				}
			}
		}
	}
}

func ruleR17_4(p *Program, r *Report) {
	r.Expect("R17.4", 1)
	n := 0
	for _, fn := range p.Funcs() {
		if isExamples(fn) {
			continue
		}
		for _, b := range fn.Blocks {
			for _, in := range b.Instrs {
				if g, ok := in.(*ssa.Go); ok {
					n++
					r.Fail("R17.4", shortFn(fn)+"|go", p.InstrPos(g), "the library starts no goroutines", "go statement: instances could share work behind the caller's back")
				}
			}
		}
	}
	for _, pk := range p.Pkgs {
		if strings.Contains(pk.PkgPath, "/examples/") {
			continue
		}
		for imp := range pk.Imports {
			if imp == "sync" || imp == "sync/atomic" {
				n++
				r.Fail("R17.4", pk.PkgPath+"|import "+imp, "-", "the library uses no synchronisation primitives", "imports "+imp+": shared state is being coordinated somewhere")
			}
		}
	}
	if n == 0 {
		r.OK("R17.4", "census", "-", "no go statements and no sync imports in the library packages")
	}
}

func init() {
	controlRegistry["C17"] = []Control{
		{Rule: "R17.1", Run: ruleR17_1, MustFire: []string{"sharedScratchWrite", "viaCallee"}},
		{Rule: "R17.2", Run: ruleR17_2, MustFire: []string{"newCodec", "fromTemplate"}},
		{Rule: "R17.4", Run: ruleR17_4, MustFire: []string{"background"}},
	}
}

func ruleR17_3(p *Program, r *Report) {
	asmRuleR17_3(p, r)
}

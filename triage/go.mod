module triage

go 1.16

require github.com/intel/fastgo v0.0.0

replace github.com/intel/fastgo => /repo

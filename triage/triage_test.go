package triage

import (
	"bufio"
	"bytes"
	stdflate "compress/flate"
	stdzlib "compress/zlib"
	"errors"
	"io"
	"math/rand"
	"os"
	"testing"
	"time"

	"github.com/intel/fastgo/compress/flate"
	"github.com/intel/fastgo/compress/gzip"
	"github.com/intel/fastgo/compress/zlib"
)

func stdInflate(b []byte) ([]byte, error) {
	return io.ReadAll(stdflate.NewReader(bytes.NewReader(b)))
}

func randText(n int, seed int64) []byte {
	r := rand.New(rand.NewSource(seed))
	b := make([]byte, n)
	for i := range b {
		b[i] = "abcdefgh"[r.Intn(8)]
	}
	return b
}

// 1: C12 dynCompressor.Reset does not clear pending tokens.
func TestT01WriterResetTokens(t *testing.T) {
	var sink bytes.Buffer
	w, _ := flate.NewWriter(&sink, 1)
	w.Write(randText(70000, 1))
	var out bytes.Buffer
	w.Reset(&out)
	w.Write([]byte("hello hello hello"))
	if err := w.Close(); err != nil {
		t.Fatal(err)
	}
	got, err := stdInflate(out.Bytes())
	if err != nil || string(got) != "hello hello hello" {
		t.Fatalf("after Reset: %q %v", got, err)
	}
}

// 2: C13 decompressor.Reset does not clear writePos/readPos.
func TestT02ReaderResetPositions(t *testing.T) {
	mk := func(s string) []byte {
		var b bytes.Buffer
		w, _ := stdflate.NewWriter(&b, 6)
		w.Write([]byte(s))
		w.Close()
		return b.Bytes()
	}
	a, b := mk("AAAAAAAAAAAAAAAAAAAAAAAAAAAAAAAA-first-stream"), mk("second")
	r := flate.NewReader(bytes.NewReader(a))
	p := make([]byte, 5)
	io.ReadFull(r, p)
	r.(flate.Resetter).Reset(bytes.NewReader(b), nil)
	got, err := io.ReadAll(r)
	if err != nil || string(got) != "second" {
		t.Fatalf("after Reset: %q %v", got, err)
	}
}

// 3: C13 zlib.reader.Reset drops the dictionary.
func TestT03ZlibResetDict(t *testing.T) {
	dict := []byte("the quick brown fox jumps over the lazy dog")
	var plain, withDict bytes.Buffer
	w := stdzlib.NewWriter(&plain)
	w.Write([]byte("plain"))
	w.Close()
	wd, _ := stdzlib.NewWriterLevelDict(&withDict, 6, dict)
	wd.Write([]byte("the quick brown fox jumps over the lazy dog again"))
	wd.Close()
	r, err := zlib.NewReader(bytes.NewReader(plain.Bytes()))
	if err != nil {
		t.Fatal(err)
	}
	io.ReadAll(r)
	if err := r.(zlib.Resetter).Reset(bytes.NewReader(withDict.Bytes()), dict); err != nil {
		t.Fatal(err)
	}
	got, err := io.ReadAll(r)
	if err != nil || string(got) != "the quick brown fox jumps over the lazy dog again" {
		t.Fatalf("dict stream after Reset: %q %v", got, err)
	}
}

type failAt struct {
	n, calls int
	buf      bytes.Buffer
}

var errBoom = errors.New("boom")

func (f *failAt) Write(p []byte) (int, error) {
	f.calls++
	if f.calls == f.n {
		return 0, errBoom
	}
	return f.buf.Write(p)
}

// 4: C14 a failure inside Flush/Close is not sticky.
func TestT04StickyFlushError(t *testing.T) {
	for _, lvl := range []int{1, 2, -2} {
		d := &failAt{n: 1}
		w, _ := flate.NewWriter(d, lvl)
		w.Write([]byte("some data"))
		if err := w.Flush(); err != errBoom {
			t.Fatalf("lvl %d Flush: %v", lvl, err)
		}
		calls := d.calls
		if _, err := w.Write([]byte("more")); err != errBoom {
			t.Errorf("lvl %d Write after failed Flush: %v", lvl, err)
		}
		if err := w.Flush(); err != errBoom {
			t.Errorf("lvl %d Flush after failed Flush: %v", lvl, err)
		}
		if err := w.Close(); err != errBoom {
			t.Errorf("lvl %d Close after failed Flush: %v", lvl, err)
		}
		if d.calls != calls {
			t.Errorf("lvl %d destination touched again (%d -> %d)", lvl, calls, d.calls)
		}
	}
}

// 5: C16 Close is not idempotent, write after close is accepted.
func TestT05CloseTwice(t *testing.T) {
	for _, lvl := range []int{1, 2, -2, -1} {
		func() {
			defer func() {
				if r := recover(); r != nil {
					t.Errorf("lvl %d panic: %v", lvl, r)
				}
			}()
			var b bytes.Buffer
			w, _ := flate.NewWriter(&b, lvl)
			w.Write([]byte("abc"))
			if err := w.Close(); err != nil {
				t.Fatal(err)
			}
			n := b.Len()
			if err := w.Close(); err != nil {
				t.Errorf("lvl %d second Close: %v", lvl, err)
			}
			if b.Len() != n {
				t.Errorf("lvl %d second Close emitted %d bytes", lvl, b.Len()-n)
			}
			if _, err := w.Write([]byte("x")); err == nil {
				t.Errorf("lvl %d Write after Close = nil", lvl)
			}
			if err := w.Flush(); err == nil {
				t.Errorf("lvl %d Flush after Close = nil", lvl)
			}
			if b.Len() != n {
				t.Errorf("lvl %d bytes after Close", lvl)
			}
			// std agrees
			var sb bytes.Buffer
			sw, _ := stdflate.NewWriter(&sb, lvl)
			sw.Write([]byte("abc"))
			sw.Close()
			if err := sw.Close(); err != nil {
				t.Fatalf("std second close %v", err)
			}
			if _, err := sw.Write([]byte("x")); err == nil {
				t.Fatalf("std write after close nil")
			}
		}()
	}
}

// 6+7: C10 Huffman-only Flush.
func TestT06HuffmanOnlyFlush(t *testing.T) {
	for _, n := range []int{0, 1, 2, 3, 7, 100, 65536, 65537, 131072} {
		for seed := int64(0); seed < 6; seed++ {
			data := randText(n, seed)
			var b bytes.Buffer
			w, _ := flate.NewWriter(&b, -2)
			w.Write(data)
			if err := w.Flush(); err != nil {
				t.Fatal(err)
			}
			// prefix must decode to data then want more input
			got, err := stdInflate(b.Bytes())
			if !bytes.Equal(got, data) || err != io.ErrUnexpectedEOF {
				t.Errorf("n=%d seed=%d after Flush: len %d err %v", n, seed, len(got), err)
				continue
			}
			w.Flush()
			w.Write([]byte("tail"))
			w.Close()
			got, err = stdInflate(b.Bytes())
			if err != nil || !bytes.Equal(got, append(data, "tail"...)) {
				t.Errorf("n=%d seed=%d whole stream: len %d err %v", n, seed, len(got), err)
			}
		}
	}
}

// 8: C07 gzip truncated trailer returns the trailer byte count as n.
func TestT08GzipTruncatedTrailer(t *testing.T) {
	var b bytes.Buffer
	w := gzip.NewWriter(&b)
	payload := []byte("payload payload payload")
	w.Write(payload)
	w.Close()
	cut := b.Bytes()[:b.Len()-3]
	r, err := gzip.NewReader(bytes.NewReader(cut))
	if err != nil {
		t.Fatal(err)
	}
	var got []byte
	p := make([]byte, 4096)
	for {
		n, err := r.Read(p)
		got = append(got, p[:n]...)
		if err != nil {
			if err != io.ErrUnexpectedEOF {
				t.Errorf("err %v", err)
			}
			break
		}
	}
	if !bytes.Equal(got, payload) {
		t.Errorf("handed out %q", got)
	}
}

type bitw struct {
	b    []byte
	acc  uint64
	nacc uint
}

func (w *bitw) bits(v uint64, n uint) {
	w.acc |= v << w.nacc
	w.nacc += n
	for w.nacc >= 8 {
		w.b = append(w.b, byte(w.acc))
		w.acc >>= 8
		w.nacc -= 8
	}
}
func (w *bitw) code(c uint64, n uint) { // huffman codes are msb first
	for i := int(n) - 1; i >= 0; i-- {
		w.bits((c>>uint(i))&1, 1)
	}
}
func (w *bitw) flush() []byte {
	if w.nacc > 0 {
		w.bits(0, 8-w.nacc)
	}
	return w.b
}
func (w *bitw) fixedLit(v int) {
	switch {
	case v < 144:
		w.code(uint64(0x30+v), 8)
	case v < 256:
		w.code(uint64(0x190+v-144), 9)
	case v < 280:
		w.code(uint64(v-256), 7)
	default:
		w.code(uint64(0xc0+v-280), 8)
	}
}

// 10: C03/C18 look-back beyond the data produced must be rejected without inventing bytes.
func TestT10InvalidLookBack(t *testing.T) {
	for _, nlit := range []int{20, 200, 3000} {
		w := &bitw{}
		w.bits(1, 1)
		w.bits(1, 2) // final, fixed
		for i := 0; i < nlit; i++ {
			w.fixedLit('a' + i%7)
		}
		w.fixedLit(257) // len 3
		w.code(29, 5)   // dist sym 29: 24577 + 13 extra bits
		w.bits(0, 13)
		for i := 0; i < 400; i++ { // enough trailing input for the asm loop slack
			w.fixedLit('z')
		}
		w.fixedLit(256)
		stream := w.flush()
		want, werr := stdInflate(stream)
		got, err := io.ReadAll(flate.NewReader(bytes.NewReader(stream)))
		var ce flate.CorruptInputError
		if !errors.As(err, &ce) {
			t.Errorf("nlit=%d: err=%v (std: %v)", nlit, err, werr)
		}
		if len(got) > len(want) || !bytes.Equal(got, want[:len(got)]) {
			t.Errorf("nlit=%d: handed out %d bytes, std %d", nlit, len(got), len(want))
		}
	}
}

// 9: C03 stale lookup-table entries from the previous block.
// block 1: dynamic, complete codes. block 2: dynamic with a single distance code of
// length 1 (incomplete), and a match that uses the unassigned distance code "1".
func TestT09StaleDistTable(t *testing.T) {
	// Build with the std-compatible hand encoder: code length code lengths etc. are
	// tedious; instead craft blocks with fixed structure using a tiny canonical builder.
	stream := buildStaleDistStream()
	want, werr := stdInflate(stream)
	if werr == nil {
		t.Fatalf("std accepted the crafted stream (%d bytes) - bad crafting", len(want))
	}
	got, err := io.ReadAll(flate.NewReader(bytes.NewReader(stream)))
	if err == nil {
		t.Errorf("accepted: %d bytes (std: %d bytes, %v)", len(got), len(want), werr)
	}
	if len(got) > len(want) || !bytes.Equal(got, want[:len(got)]) {
		t.Errorf("fabricated bytes: got %d std %d", len(got), len(want))
	}
}

// dynamic block writer for tiny alphabets: lit/len lengths ll (len 257..), dist lengths dl.
func dynHeader(w *bitw, final bool, ll []int, dl []int) (litCodes, distCodes []uint64) {
	if final {
		w.bits(1, 1)
	} else {
		w.bits(0, 1)
	}
	w.bits(2, 2)
	w.bits(uint64(len(ll)-257), 5)
	w.bits(uint64(len(dl)-1), 5)
	// code length code: give every symbol 0..18 length 5 (19 codes of len 5 <= 32: incomplete but std
	// rejects incomplete CL codes?) -> use lengths: symbols 0..15 len 4 => complete with 16 codes.
	order := []int{16, 17, 18, 0, 8, 7, 9, 6, 10, 5, 11, 4, 12, 3, 13, 2, 14, 1, 15}
	w.bits(uint64(19-4), 4)
	for _, s := range order {
		if s < 16 {
			w.bits(4, 3)
		} else {
			w.bits(0, 3)
		}
	}
	// canonical codes for 16 symbols of length 4: code = symbol
	all := append(append([]int{}, ll...), dl...)
	for _, l := range all {
		w.code(uint64(l), 4)
	}
	return canon(ll), canon(dl)
}

func canon(lens []int) []uint64 {
	var cnt [16]int
	for _, l := range lens {
		cnt[l]++
	}
	cnt[0] = 0
	var next [17]uint64
	code := uint64(0)
	for b := 1; b <= 15; b++ {
		code = (code + uint64(cnt[b-1])) << 1
		next[b] = code
	}
	out := make([]uint64, len(lens))
	for i, l := range lens {
		if l != 0 {
			out[i] = next[l]
			next[l]++
		}
	}
	return out
}

func buildStaleDistStream() []byte {
	w := &bitw{}
	// block 1: literals 'a','b' (len 2 each), EOB(len 2), len sym 257 (len 2); dist: syms 0,1 len 1 each
	ll := make([]int, 258)
	ll['a'], ll['b'], ll[256], ll[257] = 2, 2, 2, 2
	lc, dc := dynHeader(w, false, ll, []int{1, 1})
	for i := 0; i < 8; i++ {
		w.code(lc['a'], 2)
		w.code(lc['b'], 2)
	}
	w.code(lc[257], 2)
	w.code(dc[1], 1) // dist 2
	w.code(lc[256], 2)
	// block 2: same lit/len code; dist: single code sym 0 len 1 (code "0"); use code "1" (unassigned)
	lc, _ = dynHeader(w, true, ll, []int{1})
	w.code(lc['a'], 2)
	w.code(lc[257], 2)
	w.code(1, 1) // unassigned distance code
	w.code(lc[256], 2)
	return w.flush()
}

// 11: C05 NewReader must not re-wrap a small caller-supplied bufio.Reader.
func TestT11SmallBufio(t *testing.T) {
	var b bytes.Buffer
	w, _ := stdflate.NewWriter(&b, 6)
	data := randText(5000, 3)
	w.Write(data)
	w.Close()
	trailer := []byte("TRAILING-DATA-0123456789")
	src := append(b.Bytes(), trailer...)
	for _, size := range []int{16, 17, 64, 1000, 4096, 8192} {
		br := bufio.NewReaderSize(bytes.NewReader(src), size)
		got, err := io.ReadAll(flate.NewReader(br))
		if err != nil || !bytes.Equal(got, data) {
			t.Errorf("size %d: decode %d bytes err %v", size, len(got), err)
			continue
		}
		rest, _ := io.ReadAll(br)
		if !bytes.Equal(rest, trailer) {
			t.Errorf("size %d: %d trailing bytes left, want %d", size, len(rest), len(trailer))
		}
	}
}

// 13: C11 Reader must deliver data up to a sync flush without more input.
func TestT13NoWaiting(t *testing.T) {
	pr, pw := io.Pipe()
	var b bytes.Buffer
	w, _ := stdflate.NewWriter(&b, 6)
	w.Write([]byte("request-1"))
	w.Flush()
	go pw.Write(b.Bytes()) // and then the producer waits for the answer
	r := flate.NewReader(pr)
	done := make(chan string, 1)
	go func() {
		p := make([]byte, 100)
		n, _ := io.ReadAtLeast(r, p, 9)
		done <- string(p[:n])
	}()
	select {
	case s := <-done:
		if s != "request-1" {
			t.Errorf("got %q", s)
		}
	case <-time.After(2 * time.Second):
		t.Errorf("Read blocks although a complete sync-flushed prefix was delivered")
	}
}

// 9c: C03 stale long-table entries of the lit/len table.
func TestT09cStaleLongTable(t *testing.T) {
	lens := func(withM bool) []int {
		ll := make([]int, 257)
		for i := 0; i < 12; i++ {
			ll['a'+i] = i + 1
		}
		if withM {
			ll['m'] = 13
		}
		ll[256] = 13
		return ll
	}
	w := &bitw{}
	lc, _ := dynHeader(w, false, lens(true), []int{1, 1})
	for i := 0; i < 5; i++ {
		w.code(lc['a'], 1)
		w.code(lc['c'], 3)
		w.code(lc['m'], 13)
	}
	w.code(lc[256], 13)
	lc, _ = dynHeader(w, true, lens(false), []int{1, 1})
	w.code(lc['a'], 1)
	w.code(0x1fff, 13) // unassigned in this block; was EOB in the previous one
	w.code(lc['b'], 2)
	w.code(lc[256], 13)
	stream := w.flush()
	got, err := io.ReadAll(flate.NewReader(bytes.NewReader(stream)))
	if err == nil {
		t.Errorf("accepted a block that uses an unassigned code: %q", got)
	}
	if !bytes.HasPrefix([]byte("acmacmacmacmacma"), got) {
		t.Errorf("fabricated: %q", got)
	}
}

type chunkReader struct {
	data  []byte
	r     *rand.Rand
	max   int
	withE bool
}

func (c *chunkReader) Read(p []byte) (int, error) {
	if len(c.data) == 0 {
		return 0, io.EOF
	}
	n := 1 + c.r.Intn(c.max)
	if n > len(p) {
		n = len(p)
	}
	if n > len(c.data) {
		n = len(c.data)
	}
	copy(p, c.data[:n])
	c.data = c.data[n:]
	if len(c.data) == 0 && c.withE {
		return n, io.EOF
	}
	return n, nil
}

// differential sanity run for the input-acquisition repair (13): delivery schedule independence
func TestT13bChunkedSources(t *testing.T) {
	r := rand.New(rand.NewSource(7))
	for iter := 0; iter < 1500; iter++ {
		n := r.Intn(200000)
		data := randText(n, int64(iter))
		if iter%3 == 0 {
			r.Read(data[:n/2])
		}
		var b bytes.Buffer
		w, _ := stdflate.NewWriter(&b, []int{0, 1, 6, 9, -2}[iter%5])
		w.Write(data[:n/2])
		if iter%2 == 0 {
			w.Flush()
		}
		w.Write(data[n/2:])
		w.Close()
		stream := b.Bytes()
		cut := len(stream)
		if iter%4 == 1 {
			cut = r.Intn(len(stream))
		}
		want, werr := stdInflate(stream[:cut])
		var src io.Reader = &chunkReader{data: stream[:cut], r: r, max: 1 + r.Intn(5000), withE: iter%2 == 1}
		if iter%7 == 3 {
			src = bufio.NewReaderSize(src, 16+r.Intn(100))
		}
		fr := flate.NewReader(src)
		var got []byte
		var err error
		p := make([]byte, 1+r.Intn(70000))
		for err == nil {
			var k int
			k, err = fr.Read(p)
			got = append(got, p[:k]...)
		}
		if err == io.EOF {
			err = nil
		}
		if werr != nil && bytes.HasPrefix(want, got) && len(want)-len(got) <= 3 {
			// truncated stream: fastgo may withhold the symbols of a partly read table entry
			// (schedule dependent; observed on the pinned tree too - not decided by any static rule)
			got = want
		}
		if werr != nil && len(got) > len(want) {
			t.Logf("iter %d: MORE than std: %d vs %d; correct prefix of data: %v", iter, len(got), len(want), bytes.HasPrefix(data, got))
			got = want
		}
		if !bytes.Equal(got, want) || (err == nil) != (werr == nil) || (err != nil && err != werr) {
			t.Fatalf("iter %d: got %d bytes err %v; std %d bytes err %v", iter, len(got), err, len(want), werr)
		}
	}
}

// 12 (KNOWN FINDING, not repaired): a plain io.ByteReader source is drained beyond the stream end.
// Runs only with TRIAGE_KNOWN=1 and is expected to fail.
func TestK12ByteReaderSources(t *testing.T) {
	if os.Getenv("TRIAGE_KNOWN") == "" {
		t.Skip("known finding; set TRIAGE_KNOWN=1 to see it fail")
	}
	var b bytes.Buffer
	w, _ := stdflate.NewWriter(&b, 6)
	w.Write([]byte("hello"))
	w.Close()
	src := bytes.NewReader(append(b.Bytes(), "TRAILING"...))
	io.ReadAll(flate.NewReader(src))
	if src.Len() != len("TRAILING") {
		t.Errorf("flate.NewReader(bytes.Reader): %d bytes left, want 8", src.Len())
	}
	var g bytes.Buffer
	gw := gzip.NewWriter(&g)
	gw.Write([]byte("hello"))
	gw.Close()
	src = bytes.NewReader(append(g.Bytes(), "TRAILING"...))
	gr, _ := gzip.NewReader(src)
	gr.Multistream(false)
	io.ReadAll(gr)
	if src.Len() != len("TRAILING") {
		t.Errorf("gzip.NewReader(bytes.Reader): %d bytes left, want 8", src.Len())
	}
}

// 10b: C03/C18 an invalid distance symbol must not hand out an extra byte (AVX2 loop un-writes the length symbol).
func TestT10bInvalidDistSymbol(t *testing.T) {
	for _, nlit := range []int{10, 300} {
		w := &bitw{}
		w.bits(1, 1)
		w.bits(1, 2)
		for i := 0; i < nlit; i++ {
			w.fixedLit('a' + i%5)
		}
		w.fixedLit(257)
		w.code(30, 5) // distance symbol 30 does not exist
		for i := 0; i < 400; i++ {
			w.fixedLit('z')
		}
		w.fixedLit(256)
		stream := w.flush()
		want, _ := stdInflate(stream)
		got, err := io.ReadAll(flate.NewReader(bytes.NewReader(stream)))
		var ce flate.CorruptInputError
		if !errors.As(err, &ce) {
			t.Errorf("nlit=%d err=%v", nlit, err)
		}
		if !bytes.Equal(got, want) {
			t.Errorf("nlit=%d: handed out %d bytes (%q...), std %d", nlit, len(got), got[len(got)-3:], len(want))
		}
	}
}

// 14: C11 the end of the stream must be reported without the source delivering anything further
// (raw flate: a source that blocks right after the last byte; zlib: trailer delivered with the last bytes).
func TestT14EOFWithoutMoreInput(t *testing.T) {
	mkFlate := func() []byte {
		var b bytes.Buffer
		w, _ := stdflate.NewWriter(&b, 6)
		w.Write([]byte("the whole answer"))
		w.Close()
		return b.Bytes()
	}
	mkZlib := func() []byte {
		var b bytes.Buffer
		w := stdzlib.NewWriter(&b)
		w.Write([]byte("the whole answer"))
		w.Close()
		return b.Bytes()
	}
	run := func(name string, open func(io.Reader) (io.Reader, error), stream []byte) {
		pr, pw := io.Pipe()
		go pw.Write(stream) // never closed: the producer keeps the connection open
		type res struct {
			s   string
			err error
		}
		done := make(chan res, 1)
		go func() {
			r, err := open(pr)
			if err != nil {
				done <- res{"", err}
				return
			}
			b, err := io.ReadAll(r)
			done <- res{string(b), err}
		}()
		select {
		case g := <-done:
			if g.s != "the whole answer" || g.err != nil {
				t.Errorf("%s: got %q %v", name, g.s, g.err)
			}
		case <-time.After(2 * time.Second):
			t.Errorf("%s: the complete stream was delivered but io.EOF is not reported until the source delivers more", name)
		}
	}
	run("flate", func(r io.Reader) (io.Reader, error) { return flate.NewReader(r), nil }, mkFlate())
	run("zlib", func(r io.Reader) (io.Reader, error) { rc, err := zlib.NewReader(r); return rc, err }, mkZlib())
}

// 14b: sweep - every two-chunk split of flate, zlib and gzip streams; after the last chunk the source
// fails with its own error. All data and io.EOF must come out without that error ever surfacing
// (C11: "without requiring the source to deliver further bytes ... or to stay error-free afterwards").
type chunkThenFail struct {
	chunks [][]byte
	asked  int
}

var errSourceGone = errors.New("source gone")

func (c *chunkThenFail) Read(p []byte) (int, error) {
	for len(c.chunks) > 0 && len(c.chunks[0]) == 0 {
		c.chunks = c.chunks[1:]
	}
	if len(c.chunks) == 0 {
		c.asked++
		return 0, errSourceGone
	}
	n := copy(p, c.chunks[0])
	c.chunks[0] = c.chunks[0][n:]
	return n, nil
}

func TestT14bEOFSweep(t *testing.T) {
	payload := randText(3000, 7)
	var fl, zl, gz bytes.Buffer
	fw, _ := stdflate.NewWriter(&fl, 6)
	fw.Write(payload)
	fw.Close()
	zw := stdzlib.NewWriter(&zl)
	zw.Write(payload)
	zw.Close()
	gw := gzip.NewWriter(&gz)
	gw.Write(payload)
	gw.Close()
	type opener func(io.Reader) (io.Reader, error)
	cases := []struct {
		name   string
		stream []byte
		open   opener
	}{
		{"flate", fl.Bytes(), func(r io.Reader) (io.Reader, error) { return flate.NewReader(r), nil }},
		{"zlib", zl.Bytes(), func(r io.Reader) (io.Reader, error) { return zlib.NewReader(r) }},
		{"gzip1", gz.Bytes(), func(r io.Reader) (io.Reader, error) {
			g, err := gzip.NewReader(r)
			if err == nil {
				g.Multistream(false)
			}
			return g, err
		}},
	}
	for _, c := range cases {
		bad := 0
		for split := 1; split < len(c.stream); split++ {
			src := &chunkThenFail{chunks: [][]byte{append([]byte(nil), c.stream[:split]...), append([]byte(nil), c.stream[split:]...)}}
			r, err := c.open(src)
			if err != nil {
				bad++
				if bad < 4 {
					t.Errorf("%s split %d: open: %v", c.name, split, err)
				}
				continue
			}
			got, err := io.ReadAll(r)
			if err != nil || !bytes.Equal(got, payload) {
				bad++
				if bad < 4 {
					t.Errorf("%s split %d: %d bytes, err %v (source asked beyond the end %d times)", c.name, split, len(got), err, src.asked)
				}
			}
		}
		if bad > 0 {
			t.Errorf("%s: %d of %d splits fail", c.name, bad, len(c.stream)-1)
		}
	}
}

// 14c: sweep - prefixes ending at a sync-flush point, delivered in two chunks, then the source fails:
// everything written before the Flush must come out before the source's error.
func TestT14cFlushPrefixSweep(t *testing.T) {
	for _, lvl := range []int{1, 6, -2, 0} {
		for _, sz := range []int{1, 9, 300, 5000, 70000} {
			part1 := randText(sz, int64(sz))
			var b bytes.Buffer
			w, _ := stdflate.NewWriter(&b, lvl)
			w.Write(part1)
			w.Flush()
			prefix := append([]byte(nil), b.Bytes()...)
			step := 1
			if len(prefix) > 400 {
				step = len(prefix) / 200
			}
			bad := 0
			for split := 1; split < len(prefix); split += step {
				src := &chunkThenFail{chunks: [][]byte{append([]byte(nil), prefix[:split]...), append([]byte(nil), prefix[split:]...)}}
				r := flate.NewReader(src)
				got := make([]byte, 0, sz)
				buf := make([]byte, 777)
				var err error
				for err == nil {
					var n int
					n, err = r.Read(buf)
					got = append(got, buf[:n]...)
				}
				if !bytes.Equal(got, part1) || err != errSourceGone {
					bad++
					if bad < 3 {
						t.Errorf("level %d size %d split %d: got %d of %d bytes, err %v", lvl, sz, split, len(got), len(part1), err)
					}
				}
			}
			if bad > 0 {
				t.Errorf("level %d size %d: %d splits fail", lvl, sz, bad)
			}
		}
	}
}

package triage

import (
	"bufio"
	"bytes"
	stdflate "compress/flate"
	stdgzip "compress/gzip"
	stdzlib "compress/zlib"
	"errors"
	"fmt"
	"io"
	"math/rand"
	"os"
	"runtime/debug"
	"testing"
	"time"

	"github.com/intel/fastgo/compress/flate"
	"github.com/intel/fastgo/compress/gzip"
	"github.com/intel/fastgo/compress/zlib"
)

func stdInflate(b []byte) ([]byte, error) {
	return io.ReadAll(stdflate.NewReader(bytes.NewReader(b)))
}

func randText(n int, seed int64) []byte {
	r := rand.New(rand.NewSource(seed))
	b := make([]byte, n)
	for i := range b {
		b[i] = "abcdefgh"[r.Intn(8)]
	}
	return b
}

// 1: C12 dynCompressor.Reset does not clear pending tokens.
func TestT01WriterResetTokens(t *testing.T) {
	var sink bytes.Buffer
	w, _ := flate.NewWriter(&sink, 1)
	w.Write(randText(70000, 1))
	var out bytes.Buffer
	w.Reset(&out)
	w.Write([]byte("hello hello hello"))
	if err := w.Close(); err != nil {
		t.Fatal(err)
	}
	got, err := stdInflate(out.Bytes())
	if err != nil || string(got) != "hello hello hello" {
		t.Fatalf("after Reset: %q %v", got, err)
	}
}

// 2: C13 decompressor.Reset does not clear writePos/readPos.
func TestT02ReaderResetPositions(t *testing.T) {
	mk := func(s string) []byte {
		var b bytes.Buffer
		w, _ := stdflate.NewWriter(&b, 6)
		w.Write([]byte(s))
		w.Close()
		return b.Bytes()
	}
	a, b := mk("AAAAAAAAAAAAAAAAAAAAAAAAAAAAAAAA-first-stream"), mk("second")
	r := flate.NewReader(bytes.NewReader(a))
	p := make([]byte, 5)
	io.ReadFull(r, p)
	r.(flate.Resetter).Reset(bytes.NewReader(b), nil)
	got, err := io.ReadAll(r)
	if err != nil || string(got) != "second" {
		t.Fatalf("after Reset: %q %v", got, err)
	}
}

// 3: C13 zlib.reader.Reset drops the dictionary.
func TestT03ZlibResetDict(t *testing.T) {
	dict := []byte("the quick brown fox jumps over the lazy dog")
	var plain, withDict bytes.Buffer
	w := stdzlib.NewWriter(&plain)
	w.Write([]byte("plain"))
	w.Close()
	wd, _ := stdzlib.NewWriterLevelDict(&withDict, 6, dict)
	wd.Write([]byte("the quick brown fox jumps over the lazy dog again"))
	wd.Close()
	r, err := zlib.NewReader(bytes.NewReader(plain.Bytes()))
	if err != nil {
		t.Fatal(err)
	}
	io.ReadAll(r)
	if err := r.(zlib.Resetter).Reset(bytes.NewReader(withDict.Bytes()), dict); err != nil {
		t.Fatal(err)
	}
	got, err := io.ReadAll(r)
	if err != nil || string(got) != "the quick brown fox jumps over the lazy dog again" {
		t.Fatalf("dict stream after Reset: %q %v", got, err)
	}
}

type failAt struct {
	n, calls int
	buf      bytes.Buffer
}

var errBoom = errors.New("boom")

func (f *failAt) Write(p []byte) (int, error) {
	f.calls++
	if f.calls == f.n {
		return 0, errBoom
	}
	return f.buf.Write(p)
}

// 4: C14 a failure inside Flush/Close is not sticky.
func TestT04StickyFlushError(t *testing.T) {
	for _, lvl := range []int{1, 2, -2} {
		d := &failAt{n: 1}
		w, _ := flate.NewWriter(d, lvl)
		w.Write([]byte("some data"))
		if err := w.Flush(); err != errBoom {
			t.Fatalf("lvl %d Flush: %v", lvl, err)
		}
		calls := d.calls
		if _, err := w.Write([]byte("more")); err != errBoom {
			t.Errorf("lvl %d Write after failed Flush: %v", lvl, err)
		}
		if err := w.Flush(); err != errBoom {
			t.Errorf("lvl %d Flush after failed Flush: %v", lvl, err)
		}
		if err := w.Close(); err != errBoom {
			t.Errorf("lvl %d Close after failed Flush: %v", lvl, err)
		}
		if d.calls != calls {
			t.Errorf("lvl %d destination touched again (%d -> %d)", lvl, calls, d.calls)
		}
	}
}

// 5: C16 Close is not idempotent, write after close is accepted.
func TestT05CloseTwice(t *testing.T) {
	for _, lvl := range []int{1, 2, -2, -1} {
		func() {
			defer func() {
				if r := recover(); r != nil {
					t.Errorf("lvl %d panic: %v", lvl, r)
				}
			}()
			var b bytes.Buffer
			w, _ := flate.NewWriter(&b, lvl)
			w.Write([]byte("abc"))
			if err := w.Close(); err != nil {
				t.Fatal(err)
			}
			n := b.Len()
			if err := w.Close(); err != nil {
				t.Errorf("lvl %d second Close: %v", lvl, err)
			}
			if b.Len() != n {
				t.Errorf("lvl %d second Close emitted %d bytes", lvl, b.Len()-n)
			}
			if _, err := w.Write([]byte("x")); err == nil {
				t.Errorf("lvl %d Write after Close = nil", lvl)
			}
			if err := w.Flush(); err == nil {
				t.Errorf("lvl %d Flush after Close = nil", lvl)
			}
			if b.Len() != n {
				t.Errorf("lvl %d bytes after Close", lvl)
			}
			// std agrees
			var sb bytes.Buffer
			sw, _ := stdflate.NewWriter(&sb, lvl)
			sw.Write([]byte("abc"))
			sw.Close()
			if err := sw.Close(); err != nil {
				t.Fatalf("std second close %v", err)
			}
			if _, err := sw.Write([]byte("x")); err == nil {
				t.Fatalf("std write after close nil")
			}
		}()
	}
}

// 6+7: C10 Huffman-only Flush.
func TestT06HuffmanOnlyFlush(t *testing.T) {
	for _, n := range []int{0, 1, 2, 3, 7, 100, 65536, 65537, 131072} {
		for seed := int64(0); seed < 6; seed++ {
			data := randText(n, seed)
			var b bytes.Buffer
			w, _ := flate.NewWriter(&b, -2)
			w.Write(data)
			if err := w.Flush(); err != nil {
				t.Fatal(err)
			}
			// prefix must decode to data then want more input
			got, err := stdInflate(b.Bytes())
			if !bytes.Equal(got, data) || err != io.ErrUnexpectedEOF {
				t.Errorf("n=%d seed=%d after Flush: len %d err %v", n, seed, len(got), err)
				continue
			}
			w.Flush()
			w.Write([]byte("tail"))
			w.Close()
			got, err = stdInflate(b.Bytes())
			if err != nil || !bytes.Equal(got, append(data, "tail"...)) {
				t.Errorf("n=%d seed=%d whole stream: len %d err %v", n, seed, len(got), err)
			}
		}
	}
}

// 8: C07 gzip truncated trailer returns the trailer byte count as n.
func TestT08GzipTruncatedTrailer(t *testing.T) {
	var b bytes.Buffer
	w := gzip.NewWriter(&b)
	payload := []byte("payload payload payload")
	w.Write(payload)
	w.Close()
	cut := b.Bytes()[:b.Len()-3]
	r, err := gzip.NewReader(bytes.NewReader(cut))
	if err != nil {
		t.Fatal(err)
	}
	var got []byte
	p := make([]byte, 4096)
	for {
		n, err := r.Read(p)
		got = append(got, p[:n]...)
		if err != nil {
			if err != io.ErrUnexpectedEOF {
				t.Errorf("err %v", err)
			}
			break
		}
	}
	if !bytes.Equal(got, payload) {
		t.Errorf("handed out %q", got)
	}
}

type bitw struct {
	b    []byte
	acc  uint64
	nacc uint
}

func (w *bitw) bits(v uint64, n uint) {
	w.acc |= v << w.nacc
	w.nacc += n
	for w.nacc >= 8 {
		w.b = append(w.b, byte(w.acc))
		w.acc >>= 8
		w.nacc -= 8
	}
}
func (w *bitw) code(c uint64, n uint) { // huffman codes are msb first
	for i := int(n) - 1; i >= 0; i-- {
		w.bits((c>>uint(i))&1, 1)
	}
}
func (w *bitw) flush() []byte {
	if w.nacc > 0 {
		w.bits(0, 8-w.nacc)
	}
	return w.b
}
func (w *bitw) fixedLit(v int) {
	switch {
	case v < 144:
		w.code(uint64(0x30+v), 8)
	case v < 256:
		w.code(uint64(0x190+v-144), 9)
	case v < 280:
		w.code(uint64(v-256), 7)
	default:
		w.code(uint64(0xc0+v-280), 8)
	}
}

// 10: C03/C18 look-back beyond the data produced must be rejected without inventing bytes.
func TestT10InvalidLookBack(t *testing.T) {
	for _, nlit := range []int{20, 200, 3000} {
		w := &bitw{}
		w.bits(1, 1)
		w.bits(1, 2) // final, fixed
		for i := 0; i < nlit; i++ {
			w.fixedLit('a' + i%7)
		}
		w.fixedLit(257) // len 3
		w.code(29, 5)   // dist sym 29: 24577 + 13 extra bits
		w.bits(0, 13)
		for i := 0; i < 400; i++ { // enough trailing input for the asm loop slack
			w.fixedLit('z')
		}
		w.fixedLit(256)
		stream := w.flush()
		want, werr := stdInflate(stream)
		got, err := io.ReadAll(flate.NewReader(bytes.NewReader(stream)))
		var ce flate.CorruptInputError
		if !errors.As(err, &ce) {
			t.Errorf("nlit=%d: err=%v (std: %v)", nlit, err, werr)
		}
		if len(got) > len(want) || !bytes.Equal(got, want[:len(got)]) {
			t.Errorf("nlit=%d: handed out %d bytes, std %d", nlit, len(got), len(want))
		}
	}
}

// 9: C03 stale lookup-table entries from the previous block.
// block 1: dynamic, complete codes. block 2: dynamic with a single distance code of
// length 1 (incomplete), and a match that uses the unassigned distance code "1".
func TestT09StaleDistTable(t *testing.T) {
	// Build with the std-compatible hand encoder: code length code lengths etc. are
	// tedious; instead craft blocks with fixed structure using a tiny canonical builder.
	stream := buildStaleDistStream()
	want, werr := stdInflate(stream)
	if werr == nil {
		t.Fatalf("std accepted the crafted stream (%d bytes) - bad crafting", len(want))
	}
	got, err := io.ReadAll(flate.NewReader(bytes.NewReader(stream)))
	if err == nil {
		t.Errorf("accepted: %d bytes (std: %d bytes, %v)", len(got), len(want), werr)
	}
	if len(got) > len(want) || !bytes.Equal(got, want[:len(got)]) {
		t.Errorf("fabricated bytes: got %d std %d", len(got), len(want))
	}
}

// dynamic block writer for tiny alphabets: lit/len lengths ll (len 257..), dist lengths dl.
func dynHeader(w *bitw, final bool, ll []int, dl []int) (litCodes, distCodes []uint64) {
	if final {
		w.bits(1, 1)
	} else {
		w.bits(0, 1)
	}
	w.bits(2, 2)
	w.bits(uint64(len(ll)-257), 5)
	w.bits(uint64(len(dl)-1), 5)
	// code length code: give every symbol 0..18 length 5 (19 codes of len 5 <= 32: incomplete but std
	// rejects incomplete CL codes?) -> use lengths: symbols 0..15 len 4 => complete with 16 codes.
	order := []int{16, 17, 18, 0, 8, 7, 9, 6, 10, 5, 11, 4, 12, 3, 13, 2, 14, 1, 15}
	w.bits(uint64(19-4), 4)
	for _, s := range order {
		if s < 16 {
			w.bits(4, 3)
		} else {
			w.bits(0, 3)
		}
	}
	// canonical codes for 16 symbols of length 4: code = symbol
	all := append(append([]int{}, ll...), dl...)
	for _, l := range all {
		w.code(uint64(l), 4)
	}
	return canon(ll), canon(dl)
}

func canon(lens []int) []uint64 {
	var cnt [16]int
	for _, l := range lens {
		cnt[l]++
	}
	cnt[0] = 0
	var next [17]uint64
	code := uint64(0)
	for b := 1; b <= 15; b++ {
		code = (code + uint64(cnt[b-1])) << 1
		next[b] = code
	}
	out := make([]uint64, len(lens))
	for i, l := range lens {
		if l != 0 {
			out[i] = next[l]
			next[l]++
		}
	}
	return out
}

func buildStaleDistStream() []byte {
	w := &bitw{}
	// block 1: literals 'a','b' (len 2 each), EOB(len 2), len sym 257 (len 2); dist: syms 0,1 len 1 each
	ll := make([]int, 258)
	ll['a'], ll['b'], ll[256], ll[257] = 2, 2, 2, 2
	lc, dc := dynHeader(w, false, ll, []int{1, 1})
	for i := 0; i < 8; i++ {
		w.code(lc['a'], 2)
		w.code(lc['b'], 2)
	}
	w.code(lc[257], 2)
	w.code(dc[1], 1) // dist 2
	w.code(lc[256], 2)
	// block 2: same lit/len code; dist: single code sym 0 len 1 (code "0"); use code "1" (unassigned)
	lc, _ = dynHeader(w, true, ll, []int{1})
	w.code(lc['a'], 2)
	w.code(lc[257], 2)
	w.code(1, 1) // unassigned distance code
	w.code(lc[256], 2)
	return w.flush()
}

// 11: C05 NewReader must not re-wrap a small caller-supplied bufio.Reader.
func TestT11SmallBufio(t *testing.T) {
	var b bytes.Buffer
	w, _ := stdflate.NewWriter(&b, 6)
	data := randText(5000, 3)
	w.Write(data)
	w.Close()
	trailer := []byte("TRAILING-DATA-0123456789")
	src := append(b.Bytes(), trailer...)
	for _, size := range []int{16, 17, 64, 1000, 4096, 8192} {
		br := bufio.NewReaderSize(bytes.NewReader(src), size)
		got, err := io.ReadAll(flate.NewReader(br))
		if err != nil || !bytes.Equal(got, data) {
			t.Errorf("size %d: decode %d bytes err %v", size, len(got), err)
			continue
		}
		rest, _ := io.ReadAll(br)
		if !bytes.Equal(rest, trailer) {
			t.Errorf("size %d: %d trailing bytes left, want %d", size, len(rest), len(trailer))
		}
	}
}

// 13: C11 Reader must deliver data up to a sync flush without more input.
func TestT13NoWaiting(t *testing.T) {
	pr, pw := io.Pipe()
	var b bytes.Buffer
	w, _ := stdflate.NewWriter(&b, 6)
	w.Write([]byte("request-1"))
	w.Flush()
	go pw.Write(b.Bytes()) // and then the producer waits for the answer
	r := flate.NewReader(pr)
	done := make(chan string, 1)
	go func() {
		p := make([]byte, 100)
		n, _ := io.ReadAtLeast(r, p, 9)
		done <- string(p[:n])
	}()
	select {
	case s := <-done:
		if s != "request-1" {
			t.Errorf("got %q", s)
		}
	case <-time.After(2 * time.Second):
		t.Errorf("Read blocks although a complete sync-flushed prefix was delivered")
	}
}

// 9c: C03 stale long-table entries of the lit/len table.
func TestT09cStaleLongTable(t *testing.T) {
	lens := func(withM bool) []int {
		ll := make([]int, 257)
		for i := 0; i < 12; i++ {
			ll['a'+i] = i + 1
		}
		if withM {
			ll['m'] = 13
		}
		ll[256] = 13
		return ll
	}
	w := &bitw{}
	lc, _ := dynHeader(w, false, lens(true), []int{1, 1})
	for i := 0; i < 5; i++ {
		w.code(lc['a'], 1)
		w.code(lc['c'], 3)
		w.code(lc['m'], 13)
	}
	w.code(lc[256], 13)
	lc, _ = dynHeader(w, true, lens(false), []int{1, 1})
	w.code(lc['a'], 1)
	w.code(0x1fff, 13) // unassigned in this block; was EOB in the previous one
	w.code(lc['b'], 2)
	w.code(lc[256], 13)
	stream := w.flush()
	got, err := io.ReadAll(flate.NewReader(bytes.NewReader(stream)))
	if err == nil {
		t.Errorf("accepted a block that uses an unassigned code: %q", got)
	}
	if !bytes.HasPrefix([]byte("acmacmacmacmacma"), got) {
		t.Errorf("fabricated: %q", got)
	}
}

type chunkReader struct {
	data  []byte
	r     *rand.Rand
	max   int
	withE bool
}

func (c *chunkReader) Read(p []byte) (int, error) {
	if len(c.data) == 0 {
		return 0, io.EOF
	}
	n := 1 + c.r.Intn(c.max)
	if n > len(p) {
		n = len(p)
	}
	if n > len(c.data) {
		n = len(c.data)
	}
	copy(p, c.data[:n])
	c.data = c.data[n:]
	if len(c.data) == 0 && c.withE {
		return n, io.EOF
	}
	return n, nil
}

// differential sanity run for the input-acquisition repair (13): delivery schedule independence
func TestT13bChunkedSources(t *testing.T) {
	r := rand.New(rand.NewSource(7))
	for iter := 0; iter < 1500; iter++ {
		n := r.Intn(200000)
		data := randText(n, int64(iter))
		if iter%3 == 0 {
			r.Read(data[:n/2])
		}
		var b bytes.Buffer
		w, _ := stdflate.NewWriter(&b, []int{0, 1, 6, 9, -2}[iter%5])
		w.Write(data[:n/2])
		if iter%2 == 0 {
			w.Flush()
		}
		w.Write(data[n/2:])
		w.Close()
		stream := b.Bytes()
		cut := len(stream)
		if iter%4 == 1 {
			cut = r.Intn(len(stream))
		}
		want, werr := stdInflate(stream[:cut])
		var src io.Reader = &chunkReader{data: stream[:cut], r: r, max: 1 + r.Intn(5000), withE: iter%2 == 1}
		if iter%7 == 3 {
			src = bufio.NewReaderSize(src, 16+r.Intn(100))
		}
		fr := flate.NewReader(src)
		var got []byte
		var err error
		p := make([]byte, 1+r.Intn(70000))
		for err == nil {
			var k int
			k, err = fr.Read(p)
			got = append(got, p[:k]...)
		}
		if err == io.EOF {
			err = nil
		}
		if werr != nil && bytes.HasPrefix(want, got) && len(want)-len(got) <= 3 {
			// truncated stream: fastgo may withhold the symbols of a partly read table entry
			// (schedule dependent; observed on the pinned tree too - not decided by any static rule)
			got = want
		}
		if werr != nil && len(got) > len(want) {
			t.Logf("iter %d: MORE than std: %d vs %d; correct prefix of data: %v", iter, len(got), len(want), bytes.HasPrefix(data, got))
			got = want
		}
		if !bytes.Equal(got, want) || (err == nil) != (werr == nil) || (err != nil && err != werr) {
			t.Fatalf("iter %d: got %d bytes err %v; std %d bytes err %v", iter, len(got), err, len(want), werr)
		}
	}
}

// 12 (KNOWN FINDING, not repaired): a plain io.ByteReader source is drained beyond the stream end.
// Runs only with TRIAGE_KNOWN=1 and is expected to fail.
func TestK12ByteReaderSources(t *testing.T) {
	if os.Getenv("TRIAGE_KNOWN") == "" {
		t.Skip("known finding; set TRIAGE_KNOWN=1 to see it fail")
	}
	var b bytes.Buffer
	w, _ := stdflate.NewWriter(&b, 6)
	w.Write([]byte("hello"))
	w.Close()
	src := bytes.NewReader(append(b.Bytes(), "TRAILING"...))
	io.ReadAll(flate.NewReader(src))
	if src.Len() != len("TRAILING") {
		t.Errorf("flate.NewReader(bytes.Reader): %d bytes left, want 8", src.Len())
	}
	var g bytes.Buffer
	gw := gzip.NewWriter(&g)
	gw.Write([]byte("hello"))
	gw.Close()
	src = bytes.NewReader(append(g.Bytes(), "TRAILING"...))
	gr, _ := gzip.NewReader(src)
	gr.Multistream(false)
	io.ReadAll(gr)
	if src.Len() != len("TRAILING") {
		t.Errorf("gzip.NewReader(bytes.Reader): %d bytes left, want 8", src.Len())
	}
}

// 10b: C03/C18 an invalid distance symbol must not hand out an extra byte (AVX2 loop un-writes the length symbol).
func TestT10bInvalidDistSymbol(t *testing.T) {
	for _, nlit := range []int{10, 300} {
		w := &bitw{}
		w.bits(1, 1)
		w.bits(1, 2)
		for i := 0; i < nlit; i++ {
			w.fixedLit('a' + i%5)
		}
		w.fixedLit(257)
		w.code(30, 5) // distance symbol 30 does not exist
		for i := 0; i < 400; i++ {
			w.fixedLit('z')
		}
		w.fixedLit(256)
		stream := w.flush()
		want, _ := stdInflate(stream)
		got, err := io.ReadAll(flate.NewReader(bytes.NewReader(stream)))
		var ce flate.CorruptInputError
		if !errors.As(err, &ce) {
			t.Errorf("nlit=%d err=%v", nlit, err)
		}
		if !bytes.Equal(got, want) {
			t.Errorf("nlit=%d: handed out %d bytes (%q...), std %d", nlit, len(got), got[len(got)-3:], len(want))
		}
	}
}

// 14: C11 the end of the stream must be reported without the source delivering anything further
// (raw flate: a source that blocks right after the last byte; zlib: trailer delivered with the last bytes).
func TestT14EOFWithoutMoreInput(t *testing.T) {
	mkFlate := func() []byte {
		var b bytes.Buffer
		w, _ := stdflate.NewWriter(&b, 6)
		w.Write([]byte("the whole answer"))
		w.Close()
		return b.Bytes()
	}
	mkZlib := func() []byte {
		var b bytes.Buffer
		w := stdzlib.NewWriter(&b)
		w.Write([]byte("the whole answer"))
		w.Close()
		return b.Bytes()
	}
	run := func(name string, open func(io.Reader) (io.Reader, error), stream []byte) {
		pr, pw := io.Pipe()
		go pw.Write(stream) // never closed: the producer keeps the connection open
		type res struct {
			s   string
			err error
		}
		done := make(chan res, 1)
		go func() {
			r, err := open(pr)
			if err != nil {
				done <- res{"", err}
				return
			}
			b, err := io.ReadAll(r)
			done <- res{string(b), err}
		}()
		select {
		case g := <-done:
			if g.s != "the whole answer" || g.err != nil {
				t.Errorf("%s: got %q %v", name, g.s, g.err)
			}
		case <-time.After(2 * time.Second):
			t.Errorf("%s: the complete stream was delivered but io.EOF is not reported until the source delivers more", name)
		}
	}
	run("flate", func(r io.Reader) (io.Reader, error) { return flate.NewReader(r), nil }, mkFlate())
	run("zlib", func(r io.Reader) (io.Reader, error) { rc, err := zlib.NewReader(r); return rc, err }, mkZlib())
}

// 14b: sweep - every two-chunk split of flate, zlib and gzip streams; after the last chunk the source
// fails with its own error. All data and io.EOF must come out without that error ever surfacing
// (C11: "without requiring the source to deliver further bytes ... or to stay error-free afterwards").
type chunkThenFail struct {
	chunks [][]byte
	asked  int
}

var errSourceGone = errors.New("source gone")

func (c *chunkThenFail) Read(p []byte) (int, error) {
	for len(c.chunks) > 0 && len(c.chunks[0]) == 0 {
		c.chunks = c.chunks[1:]
	}
	if len(c.chunks) == 0 {
		c.asked++
		return 0, errSourceGone
	}
	n := copy(p, c.chunks[0])
	c.chunks[0] = c.chunks[0][n:]
	return n, nil
}

func TestT14bEOFSweep(t *testing.T) {
	payload := randText(3000, 7)
	var fl, zl, gz bytes.Buffer
	fw, _ := stdflate.NewWriter(&fl, 6)
	fw.Write(payload)
	fw.Close()
	zw := stdzlib.NewWriter(&zl)
	zw.Write(payload)
	zw.Close()
	gw := gzip.NewWriter(&gz)
	gw.Write(payload)
	gw.Close()
	type opener func(io.Reader) (io.Reader, error)
	cases := []struct {
		name   string
		stream []byte
		open   opener
	}{
		{"flate", fl.Bytes(), func(r io.Reader) (io.Reader, error) { return flate.NewReader(r), nil }},
		{"zlib", zl.Bytes(), func(r io.Reader) (io.Reader, error) { return zlib.NewReader(r) }},
		{"gzip1", gz.Bytes(), func(r io.Reader) (io.Reader, error) {
			g, err := gzip.NewReader(r)
			if err == nil {
				g.Multistream(false)
			}
			return g, err
		}},
	}
	for _, c := range cases {
		bad := 0
		for split := 1; split < len(c.stream); split++ {
			src := &chunkThenFail{chunks: [][]byte{append([]byte(nil), c.stream[:split]...), append([]byte(nil), c.stream[split:]...)}}
			r, err := c.open(src)
			if err != nil {
				bad++
				if bad < 4 {
					t.Errorf("%s split %d: open: %v", c.name, split, err)
				}
				continue
			}
			got, err := io.ReadAll(r)
			if err != nil || !bytes.Equal(got, payload) {
				bad++
				if bad < 4 {
					t.Errorf("%s split %d: %d bytes, err %v (source asked beyond the end %d times)", c.name, split, len(got), err, src.asked)
				}
			}
		}
		if bad > 0 {
			t.Errorf("%s: %d of %d splits fail", c.name, bad, len(c.stream)-1)
		}
	}
}

// 14c: sweep - prefixes ending at a sync-flush point, delivered in two chunks, then the source fails:
// everything written before the Flush must come out before the source's error.
func TestT14cFlushPrefixSweep(t *testing.T) {
	for _, lvl := range []int{1, 6, -2, 0} {
		for _, sz := range []int{1, 9, 300, 5000, 70000} {
			part1 := randText(sz, int64(sz))
			var b bytes.Buffer
			w, _ := stdflate.NewWriter(&b, lvl)
			w.Write(part1)
			w.Flush()
			prefix := append([]byte(nil), b.Bytes()...)
			step := 1
			if len(prefix) > 400 {
				step = len(prefix) / 200
			}
			bad := 0
			for split := 1; split < len(prefix); split += step {
				src := &chunkThenFail{chunks: [][]byte{append([]byte(nil), prefix[:split]...), append([]byte(nil), prefix[split:]...)}}
				r := flate.NewReader(src)
				got := make([]byte, 0, sz)
				buf := make([]byte, 777)
				var err error
				for err == nil {
					var n int
					n, err = r.Read(buf)
					got = append(got, buf[:n]...)
				}
				if !bytes.Equal(got, part1) || err != errSourceGone {
					bad++
					if bad < 3 {
						t.Errorf("level %d size %d split %d: got %d of %d bytes, err %v", lvl, sz, split, len(got), len(part1), err)
					}
				}
			}
			if bad > 0 {
				t.Errorf("level %d size %d: %d splits fail", lvl, sz, bad)
			}
		}
	}
}

// 15: mutation sweep against the reference inflater (C03): no panic; io.EOF only where the reference
// accepts, with the same bytes; bytes handed out before an error are a prefix of what the reference
// produces (the reference may stop a little earlier or later; only positions both produced are compared);
// the error is sticky.
func TestT15MutationSweep(t *testing.T) {
	seed, iters := int64(99), 6000
	if v := os.Getenv("T15_SEED"); v != "" {
		fmt.Sscan(v, &seed)
	}
	if v := os.Getenv("T15_ITERS"); v != "" {
		fmt.Sscan(v, &iters)
	}
	rng := rand.New(rand.NewSource(seed))
	var streams [][]byte
	mk := func(sz int, kind int, s int64) []byte {
		switch kind {
		case 0:
			return randText(sz, s)
		case 1:
			b := make([]byte, sz)
			rand.New(rand.NewSource(s)).Read(b)
			return b
		default:
			b := make([]byte, sz)
			for i := range b {
				b[i] = "ab"[(i/7)%2]
			}
			return b
		}
	}
	for _, lvl := range []int{1, 6, 9, -2, 0} {
		for _, sz := range []int{40, 700, 9000, 70000} {
			for kind := 0; kind < 3; kind++ {
				p := mk(sz, kind, int64(sz+lvl))
				var b bytes.Buffer
				w, _ := stdflate.NewWriter(&b, lvl)
				w.Write(p[:sz/2])
				if sz > 500 {
					w.Flush()
				}
				w.Write(p[sz/2:])
				w.Close()
				streams = append(streams, b.Bytes())
				if lvl == 1 || lvl == -2 {
					var fb bytes.Buffer
					fw, _ := flate.NewWriter(&fb, lvl)
					fw.Write(p[:sz/2])
					fw.Write(p[sz/2:])
					fw.Close()
					streams = append(streams, fb.Bytes())
				}
			}
		}
	}
	readAll := func(r io.Reader) (out []byte, err error, second error) {
		defer func() {
			if x := recover(); x != nil {
				err = errors.New("PANIC")
				if os.Getenv("T15_TRACE") != "" {
					fmt.Printf("panic: %v\n%s\n", x, debug.Stack())
				}
			}
		}()
		buf := make([]byte, 1000)
		for err == nil {
			var n int
			n, err = r.Read(buf)
			out = append(out, buf[:n]...)
		}
		n2, e2 := r.Read(buf)
		if n2 != 0 {
			e2 = errors.New("data after error")
		}
		return out, err, e2
	}
	fails := 0
	for it := 0; it < iters && fails < 8; it++ {
		s := append([]byte(nil), streams[rng.Intn(len(streams))]...)
		switch rng.Intn(4) {
		case 0:
			s[rng.Intn(len(s))] ^= 1 << uint(rng.Intn(8))
		case 1:
			s = s[:rng.Intn(len(s))]
		case 2:
			i := rng.Intn(len(s))
			s[i] = byte(rng.Intn(256))
			if i+1 < len(s) {
				s[i+1] = byte(rng.Intn(256))
			}
		case 3:
			i := rng.Intn(len(s))
			s = append(s[:i], s[i+1:]...)
		}
		want, werr, _ := readAll(stdflate.NewReader(bytes.NewReader(s)))
		got, gerr, again := readAll(flate.NewReader(bufio.NewReader(bytes.NewReader(s))))
		n := len(got)
		if len(want) < n {
			n = len(want)
		}
		switch {
		case gerr != nil && gerr.Error() == "PANIC":
			fails++
			t.Errorf("it %d: panic", it)
		case !bytes.Equal(got[:n], want[:n]):
			fails++
			t.Errorf("it %d: bytes differ from the reference within the common prefix (%d/%d) errs %v / %v", it, len(got), len(want), gerr, werr)
		case gerr == io.EOF && (werr != io.EOF || len(got) != len(want)):
			fails++
			t.Errorf("it %d: accepted (%d bytes) where the reference says %v (%d bytes)", it, len(got), werr, len(want))
		case werr == io.EOF && gerr != io.EOF:
			fails++
			t.Errorf("it %d: rejected a stream the reference accepts: %v", it, gerr)
		case again != gerr:
			fails++
			t.Errorf("it %d: error not sticky: %v then %v", it, gerr, again)
		case gerr != io.EOF && gerr != io.ErrUnexpectedEOF:
			if _, ok := gerr.(flate.CorruptInputError); !ok {
				fails++
				t.Errorf("it %d: error type %T %v", it, gerr, gerr)
			}
		}
	}
}

// 16: C03 an incomplete Huffman code in a dynamic header is accepted (found by TestT15MutationSweep:
// one flipped HDIST bit; compress/flate says corrupt, fastgo returned 39 bytes and io.EOF).
func TestT16IncompleteCode(t *testing.T) {
	base := []byte{0x04, 0xc0, 0x01, 0x01, 0x00, 0x30, 0x10, 0x41, 0xd1, 0xac, 0xf8, 0x73, 0xfa, 0x27, 0xd8, 0x83, 0x63, 0x8d, 0x67, 0xa4, 0x23, 0xf1, 0x22, 0x37, 0xf3, 0x53, 0xa6, 0x2b, 0xbc, 0x55, 0xfc, 0x00, 0x00, 0x00, 0xff, 0xff}
	if _, err := stdInflate(base); err != nil {
		t.Fatalf("base stream: %v", err)
	}
	bad := append([]byte(nil), base...)
	bad[1] ^= 1 // HDIST 0 -> 1: one more distance length is read, both codes become incomplete
	_, werr := stdInflate(bad)
	got, gerr := io.ReadAll(flate.NewReader(bytes.NewReader(bad)))
	if werr == nil {
		t.Fatalf("reference accepts the damaged stream")
	}
	if gerr == nil {
		t.Errorf("accepted %d bytes and io.EOF where compress/flate says %v", len(got), werr)
	}
}

// 17: C03 a symbol-16 repeat crossing from the literal/length lengths into the distance lengths may
// run past the declared count: index-out-of-range panic (reproducer by the round-4 C03 seeding agent,
// found independently by TestT15MutationSweep).
func TestT17RepeatAcrossBoundary(t *testing.T) {
	var out []byte
	var acc uint64
	var nacc uint
	put := func(v uint32, n uint) {
		acc |= uint64(v) << nacc
		nacc += n
		for nacc >= 8 {
			out = append(out, byte(acc))
			acc >>= 8
			nacc -= 8
		}
	}
	put(1, 1)  // BFINAL
	put(2, 2)  // dynamic
	put(0, 5)  // HLIT  -> 257 lit/len codes
	put(0, 5)  // HDIST -> 1 distance code
	put(15, 4) // HCLEN -> 19
	// code length code: symbols 8 and 16, one bit each (8 -> 0, 16 -> 1)
	order := []int{16, 17, 18, 0, 8, 7, 9, 6, 10, 5, 11, 4, 12, 3, 13, 2, 14, 1, 15}
	for _, s := range order {
		if s == 8 || s == 16 {
			put(1, 3)
		} else {
			put(0, 3)
		}
	}
	for i := 0; i < 256; i++ {
		put(0, 1) // length 8 for literals 0..255
	}
	put(1, 1) // symbol 16 ...
	put(3, 2) // ... repeat 6 times: 256, distance 0, and four entries that do not exist
	for i := 0; i < 40; i++ {
		put(0, 8)
	}
	defer func() {
		if p := recover(); p != nil {
			t.Fatalf("panic: %v", p)
		}
	}()
	_, err := io.ReadAll(flate.NewReader(bytes.NewReader(out)))
	if _, ok := err.(flate.CorruptInputError); !ok {
		t.Fatalf("err = %v, want CorruptInputError", err)
	}
}

// 18: C04 sweep - for valid and truncated streams the bytes and the final error must not depend on how the
// source delivers the data: all-at-once vs one byte at a time vs random chunks vs small bufio.
type fixedChunks struct {
	data        []byte
	size        func() int
	eofWithData bool
}

func (c *fixedChunks) Read(p []byte) (int, error) {
	if len(c.data) == 0 {
		return 0, io.EOF
	}
	n := c.size()
	if n > len(p) {
		n = len(p)
	}
	if n > len(c.data) {
		n = len(c.data)
	}
	copy(p, c.data[:n])
	c.data = c.data[n:]
	if len(c.data) == 0 && c.eofWithData {
		return n, io.EOF
	}
	return n, nil
}

func TestT18DeliveryIndependence(t *testing.T) {
	seed, iters := int64(5), 400
	if v := os.Getenv("T18_SEED"); v != "" {
		fmt.Sscan(v, &seed)
	}
	if v := os.Getenv("T18_ITERS"); v != "" {
		fmt.Sscan(v, &iters)
	}
	r := rand.New(rand.NewSource(seed))
	run := func(src io.Reader, bufsz int) ([]byte, error) {
		fr := flate.NewReader(src)
		var got []byte
		var err error
		p := make([]byte, bufsz)
		for err == nil {
			var k int
			k, err = fr.Read(p)
			got = append(got, p[:k]...)
		}
		return got, err
	}
	fails := 0
	for iter := 0; iter < iters && fails < 6; iter++ {
		n := 1 + r.Intn(100000)
		data := randText(n, int64(iter)+seed*1000)
		if iter%3 == 0 {
			r.Read(data[:n/2])
		}
		var b bytes.Buffer
		w, _ := stdflate.NewWriter(&b, []int{0, 1, 6, 9, -2}[iter%5])
		w.Write(data[:n/2])
		if iter%2 == 0 {
			w.Flush()
		}
		w.Write(data[n/2:])
		w.Close()
		stream := b.Bytes()
		cut := len(stream)
		if iter%4 != 0 {
			cut = r.Intn(len(stream))
		}
		s := stream[:cut]
		ref, referr := run(bufio.NewReaderSize(bytes.NewReader(s), 1<<20), 1<<16)
		variants := []struct {
			name string
			src  io.Reader
			buf  int
		}{
			{"one byte", &fixedChunks{data: s, size: func() int { return 1 }}, 1 << 16},
			{"random chunks", &fixedChunks{data: s, size: func() int { return 1 + r.Intn(700) }}, 1 + r.Intn(5000)},
			{"eof with data", &fixedChunks{data: s, size: func() int { return 1 + r.Intn(9000) }, eofWithData: true}, 4096},
			{"bufio16", bufio.NewReaderSize(&fixedChunks{data: s, size: func() int { return 1 + r.Intn(40) }}, 16), 333},
			{"small reads", bufio.NewReaderSize(bytes.NewReader(s), 4096), 1},
		}
		for _, v := range variants {
			got, err := run(v.src, v.buf)
			if !bytes.Equal(got, ref) || err != referr {
				fails++
				t.Errorf("iter %d (cut %d of %d) %s: %d bytes err %v; all-at-once: %d bytes err %v", iter, cut, len(stream), v.name, len(got), err, len(ref), referr)
			}
		}
	}
}

// 19: C14 at the delegated levels (0, 3..9) a failure first seen by Close is not sticky: the next Write
// returns nil (compress/flate's own behaviour - its close does not latch the bit writer's error).
type failFrom struct {
	n, k int
}

func (f *failFrom) Write(p []byte) (int, error) {
	f.n++
	if f.n >= f.k {
		return 0, errSourceGone
	}
	return len(p), nil
}

func TestT19DelegatedLevelsStickyError(t *testing.T) {
	for _, lvl := range []int{0, 3, 6, 9} {
		w, err := flate.NewWriter(&failFrom{k: 1}, lvl)
		if err != nil {
			t.Fatal(err)
		}
		w.Write([]byte("hello"))
		if err := w.Close(); err == nil {
			t.Fatalf("level %d: Close on a failing destination returned nil", lvl)
		}
		if _, err := w.Write([]byte("more")); err == nil {
			t.Errorf("level %d: Write after a failed Close returned nil", lvl)
		}
		if err := w.Flush(); err == nil {
			t.Errorf("level %d: Flush after a failed Close returned nil", lvl)
		}
	}
}

// 20: C16 - every call sequence up to length 5 over {Write(nil), Write(small), Flush, Close, Reset} on a healthy
// destination: each call fails exactly when the standard library's does; a Close after a successful
// Close emits nothing (zlib re-emitted its trailer before the fix, as compress/zlib itself does).
func TestT20SequenceParity(t *testing.T) {
	type wr interface {
		Write([]byte) (int, error)
		Flush() error
		Close() error
	}
	type pair struct {
		name  string
		mk    func(*bytes.Buffer, int) (wr, func(*bytes.Buffer))
		mkStd func(*bytes.Buffer, int) (wr, func(*bytes.Buffer))
	}
	pairs := []pair{
		{"zlib",
			func(b *bytes.Buffer, l int) (wr, func(*bytes.Buffer)) {
				w, _ := zlib.NewWriterLevel(b, l)
				return w, func(nb *bytes.Buffer) { w.Reset(nb) }
			},
			func(b *bytes.Buffer, l int) (wr, func(*bytes.Buffer)) {
				w, _ := stdzlib.NewWriterLevel(b, l)
				return w, func(nb *bytes.Buffer) { w.Reset(nb) }
			}},
		{"flate",
			func(b *bytes.Buffer, l int) (wr, func(*bytes.Buffer)) {
				w, _ := flate.NewWriter(b, l)
				return w, func(nb *bytes.Buffer) { w.Reset(nb) }
			},
			func(b *bytes.Buffer, l int) (wr, func(*bytes.Buffer)) {
				w, _ := stdflate.NewWriter(b, l)
				return w, func(nb *bytes.Buffer) { w.Reset(nb) }
			}},
	}
	ops := []string{"W0", "Ws", "F", "C", "R"}
	for _, pr := range pairs {
		for _, lvl := range []int{1, 6, -2, 0} {
			var seq []int
			var rec func(depth int)
			bad := 0
			rec = func(depth int) {
				if depth == 5 {
					var ba, bb bytes.Buffer
					a, ra := pr.mk(&ba, lvl)
					b, rb := pr.mkStd(&bb, lvl)
					closedOK := false
					for i, o := range seq {
						var ea, eb error
						before := ba.Len()
						switch ops[o] {
						case "W0":
							_, ea = a.Write(nil)
							_, eb = b.Write(nil)
						case "Ws":
							_, ea = a.Write([]byte("hello, hello, hello"))
							_, eb = b.Write([]byte("hello, hello, hello"))
						case "F":
							ea, eb = a.Flush(), b.Flush()
						case "C":
							ea, eb = a.Close(), b.Close()
							if closedOK && ea == nil && ba.Len() != before && bad < 5 {
								bad++
								t.Errorf("%s level %d %v: Close #%d after a successful Close emitted %d bytes", pr.name, lvl, seq, i, ba.Len()-before)
							}
							if ea == nil {
								closedOK = true
							}
						case "R":
							ba.Reset()
							bb.Reset()
							ra(&ba)
							rb(&bb)
							closedOK = false
						}
						if (ea == nil) != (eb == nil) && bad < 5 {
							bad++
							t.Errorf("%s level %d %v: call %d (%s): fastgo %v, std %v", pr.name, lvl, seq, i, ops[o], ea, eb)
						}
					}
					return
				}
				for o := range ops {
					seq = append(seq, o)
					rec(depth + 1)
					seq = seq[:len(seq)-1]
				}
			}
			rec(0)
		}
	}
}

// 21: C15 sweep - a source that fails with its own error after delivering a prefix (at every byte position,
// error alone or together with the last bytes): the Reader hands out a correct prefix of the data, then returns
// exactly that error, and keeps returning it without touching the source again.
type failingSrc struct {
	data     []byte
	chunk    int
	withData bool
	err      error
	after    int // calls after the failure
	failed   bool
}

func (f *failingSrc) Read(p []byte) (int, error) {
	if f.failed {
		f.after++
		return 0, f.err
	}
	n := f.chunk
	if n > len(p) {
		n = len(p)
	}
	if n >= len(f.data) {
		n = copy(p, f.data)
		f.data = nil
		if f.withData || n == 0 {
			f.failed = true
			return n, f.err
		}
		return n, nil
	}
	copy(p, f.data[:n])
	f.data = f.data[n:]
	return n, nil
}

func TestT21FailingSourceSweep(t *testing.T) {
	payload := randText(5000, 21)
	mk := map[string][]byte{}
	{
		var b bytes.Buffer
		w, _ := stdflate.NewWriter(&b, 6)
		w.Write(payload[:2500])
		w.Flush()
		w.Write(payload[2500:])
		w.Close()
		mk["flate"] = b.Bytes()
	}
	{
		var b bytes.Buffer
		w := stdzlib.NewWriter(&b)
		w.Write(payload)
		w.Close()
		mk["zlib"] = b.Bytes()
	}
	{
		var b bytes.Buffer
		for i := 0; i < 2; i++ {
			w := gzip.NewWriter(&b)
			w.Name = "a name"
			w.Write(payload[i*2500 : (i+1)*2500])
			w.Close()
		}
		mk["gzip"] = b.Bytes()
	}
	open := map[string]func(io.Reader) (io.Reader, error){
		"flate": func(r io.Reader) (io.Reader, error) { return flate.NewReader(r), nil },
		"zlib":  func(r io.Reader) (io.Reader, error) { return zlib.NewReader(r) },
		"gzip":  func(r io.Reader) (io.Reader, error) { return gzip.NewReader(r) },
	}
	for name, stream := range mk {
		bad := 0
		for cut := 0; cut < len(stream); cut++ {
			for _, withData := range []bool{false, true} {
				for _, chunk := range []int{1, 7, 4096} {
					src := &failingSrc{data: append([]byte(nil), stream[:cut]...), chunk: chunk, withData: withData, err: errSourceGone}
					r, err := open[name](src)
					var got []byte
					opened := err == nil
					if err == nil {
						buf := make([]byte, 300)
						for err == nil {
							var n int
							n, err = r.Read(buf)
							got = append(got, buf[:n]...)
						}
					}
					after := src.after
					var again error
					if opened {
						_, again = r.Read(make([]byte, 10))
					}
					switch {
					case err != errSourceGone:
						bad++
						if bad < 4 {
							t.Errorf("%s cut %d chunk %d withData %v: got error %v, want the source's error (after %d bytes)", name, cut, chunk, withData, err, len(got))
						}
					case !bytes.HasPrefix(payload, got):
						bad++
						if bad < 4 {
							t.Errorf("%s cut %d: bytes before the error are not a prefix of the data", name, cut)
						}
					case opened && (again != errSourceGone || src.after != after):
						bad++
						if bad < 4 {
							t.Errorf("%s cut %d chunk %d: after the error: %v, source touched %d more times", name, cut, chunk, again, src.after-after)
						}
					}
				}
			}
		}
		if bad > 0 {
			t.Errorf("%s: %d schedules fail", name, bad)
		}
	}
}

// 22: C05 sweep - with a caller-supplied *bufio.Reader the source is left exactly after the last byte of the
// stream (flate), the trailer (zlib) or the member (gzip, Multistream(false)), whatever the buffer size,
// the delivery and the shape of the stream's tail.
func TestT22ExactPositionSweep(t *testing.T) {
	r := rand.New(rand.NewSource(22))
	tail := []byte("TRAILING-DATA-0123456789-the-next-record-starts-here")
	fails := 0
	for iter := 0; iter < 3000 && fails < 6; iter++ {
		n := r.Intn(3000)
		if iter%5 == 0 {
			n = r.Intn(140000)
		}
		data := randText(n, int64(iter))
		if iter%3 == 0 {
			r.Read(data[:n/2])
		}
		lvl := []int{0, 1, 6, 9, -2}[iter%5]
		kind := iter % 3
		var b bytes.Buffer
		switch kind {
		case 0:
			w, _ := stdflate.NewWriter(&b, lvl)
			w.Write(data[:n/2])
			if iter%2 == 0 {
				w.Flush()
			}
			w.Write(data[n/2:])
			w.Close()
		case 1:
			w, _ := stdzlib.NewWriterLevel(&b, lvl)
			w.Write(data)
			w.Close()
		case 2:
			w, _ := gzip.NewWriterLevel(&b, lvl)
			w.Write(data)
			w.Close()
		}
		stream := append(b.Bytes(), tail...)
		br := bufio.NewReaderSize(&fixedChunks{data: stream, size: func() int { return 1 + r.Intn(300) }}, 16+r.Intn(5000))
		var rd io.Reader
		var err error
		switch kind {
		case 0:
			rd = flate.NewReader(br)
		case 1:
			rd, err = zlib.NewReader(br)
		case 2:
			var g *gzip.Reader
			g, err = gzip.NewReader(br)
			if err == nil {
				g.Multistream(false)
				rd = g
			}
		}
		if err != nil {
			t.Fatalf("iter %d: open: %v", iter, err)
		}
		got, err := io.ReadAll(rd)
		if err != nil || !bytes.Equal(got, data) {
			fails++
			t.Errorf("iter %d kind %d level %d: decode: %d bytes err %v", iter, kind, lvl, len(got), err)
			continue
		}
		rest, _ := io.ReadAll(br)
		if !bytes.Equal(rest, tail) {
			fails++
			t.Errorf("iter %d kind %d level %d n %d: source left at %q..., want the %d trailing bytes", iter, kind, lvl, n, rest[:minInt(len(rest), 20)], len(tail))
		}
	}
}

func minInt(a, b int) int {
	if a < b {
		return a
	}
	return b
}

// 23: C13 sweep - gzip and zlib Readers: after any history (partial read, truncated stream, corrupt stream,
// complete read) Reset(src) behaves like a new Reader on src, for valid and damaged next streams.
func TestT23ContainerResetSweep(t *testing.T) {
	r := rand.New(rand.NewSource(23))
	mkz := func(data []byte, lvl int) []byte {
		var b bytes.Buffer
		w, _ := stdzlib.NewWriterLevel(&b, lvl)
		w.Write(data)
		w.Close()
		return b.Bytes()
	}
	mkg := func(data []byte, lvl int) []byte {
		var b bytes.Buffer
		w, _ := gzip.NewWriterLevel(&b, lvl)
		w.Name = "n"
		w.Write(data)
		w.Close()
		return b.Bytes()
	}
	damage := func(s []byte) []byte {
		s = append([]byte(nil), s...)
		switch r.Intn(4) {
		case 0:
			return s
		case 1:
			return s[:r.Intn(len(s))]
		case 2:
			s[r.Intn(len(s))] ^= 1 << uint(r.Intn(8))
		case 3:
			s = append(s, s...)
		}
		return s
	}
	readSome := func(rd io.Reader, limit int) {
		buf := make([]byte, 1+r.Intn(3000))
		for limit > 0 {
			n, err := rd.Read(buf)
			limit -= n
			if err != nil || n == 0 {
				return
			}
		}
	}
	fails := 0
	for iter := 0; iter < 4000 && fails < 6; iter++ {
		lvl := []int{0, 1, 6, -2}[iter%4]
		first := damage(mkz(randText(r.Intn(100000), int64(iter)), lvl))
		next := damage(mkz(randText(r.Intn(60000), int64(iter)+7), lvl))
		isGzip := iter%2 == 1
		if isGzip {
			first = damage(mkg(randText(r.Intn(100000), int64(iter)), lvl))
			next = damage(mkg(randText(r.Intn(60000), int64(iter)+7), lvl))
		}
		var used io.Reader
		var reset func(io.Reader) error
		var fresh func(io.Reader) (io.Reader, error)
		if isGzip {
			g, err := gzip.NewReader(bytes.NewReader(first))
			if err != nil {
				continue
			}
			used = g
			reset = func(s io.Reader) error { return g.Reset(s) }
			fresh = func(s io.Reader) (io.Reader, error) { return gzip.NewReader(s) }
		} else {
			z, err := zlib.NewReader(bytes.NewReader(first))
			if err != nil {
				continue
			}
			used = z
			reset = func(s io.Reader) error { return z.(zlib.Resetter).Reset(s, nil) }
			fresh = func(s io.Reader) (io.Reader, error) { return zlib.NewReader(s) }
		}
		readSome(used, r.Intn(120000))
		e1 := reset(bufio.NewReader(bytes.NewReader(next)))
		f, e2 := fresh(bufio.NewReader(bytes.NewReader(next)))
		if (e1 == nil) != (e2 == nil) {
			fails++
			t.Errorf("iter %d gzip=%v: Reset %v, fresh %v", iter, isGzip, e1, e2)
			continue
		}
		if e1 != nil {
			continue
		}
		a, ea := io.ReadAll(used)
		b, eb := io.ReadAll(f)
		if !bytes.Equal(a, b) || (ea == nil) != (eb == nil) || (ea != nil && ea.Error() != eb.Error()) {
			fails++
			t.Errorf("iter %d gzip=%v level %d: after Reset %d bytes err %v; fresh %d bytes err %v", iter, isGzip, lvl, len(a), ea, len(b), eb)
		}
	}
}

// 24: C14 sweep - the destination fails at its k-th call (every k): the operation in progress returns that
// error, every later Write/Flush/Close fails too and the destination is not called again.
type dstFailAt struct {
	k, calls int
}

func (d *dstFailAt) Write(p []byte) (int, error) {
	d.calls++
	if d.calls >= d.k {
		return 0, errBoom
	}
	return len(p), nil
}

func TestT24FailingDestinationSweep(t *testing.T) {
	type wr interface {
		Write([]byte) (int, error)
		Flush() error
		Close() error
	}
	data := randText(150000, 24)
	mk := map[string]func(io.Writer, int) wr{
		"flate": func(w io.Writer, l int) wr { x, _ := flate.NewWriter(w, l); return x },
		"gzip":  func(w io.Writer, l int) wr { x, _ := gzip.NewWriterLevel(w, l); return x },
		"zlib":  func(w io.Writer, l int) wr { x, _ := zlib.NewWriterLevel(w, l); return x },
	}
	script := func(w wr, log *[]error) {
		step := func(e error) { *log = append(*log, e) }
		_, e := w.Write(data[:10])
		step(e)
		step(w.Flush())
		_, e = w.Write(data[10:90000])
		step(e)
		_, e = w.Write(data[90000:])
		step(e)
		step(w.Flush())
		step(w.Close())
		_, e = w.Write(data[:5])
		step(e)
		step(w.Flush())
		step(w.Close())
	}
	for name, f := range mk {
		for _, lvl := range []int{-2, 1, 2, 0, 6} {
			// how many destination calls does the fault-free run make?
			free := &dstFailAt{k: 1 << 30}
			var l0 []error
			script(f(free, lvl), &l0)
			bad := 0
			for k := 1; k <= free.calls; k++ {
				d := &dstFailAt{k: k}
				var log []error
				w := f(d, lvl)
				script(w, &log)
				first := -1
				for i, e := range log {
					if e != nil {
						first = i
						break
					}
				}
				ok := first >= 0 && first <= 5
				if ok {
					for _, e := range log[first:] {
						if e == nil {
							ok = false
						}
					}
				}
				if d.calls != k {
					ok = false
				}
				if !ok {
					bad++
					if bad < 3 {
						t.Errorf("%s level %d k=%d: results %v, destination called %d times", name, lvl, k, log, d.calls)
					}
				}
			}
			if bad > 0 {
				t.Errorf("%s level %d: %d of %d fault positions misbehave", name, lvl, bad, free.calls)
			}
		}
	}
}

// 25: C17 - independent Writers and Readers used from different goroutines do not interfere
// (run with -race: `go test -race -run TestT25`).
func TestT25ConcurrentInstances(t *testing.T) {
	done := make(chan string, 16)
	for g := 0; g < 16; g++ {
		go func(g int) {
			data := randText(200000+g*1000, int64(g))
			if g%3 == 0 {
				rand.New(rand.NewSource(int64(g))).Read(data[:50000])
			}
			for round := 0; round < 3; round++ {
				lvl := []int{-2, 1, 2, 6}[(g+round)%4]
				var b bytes.Buffer
				var w interface {
					Write([]byte) (int, error)
					Close() error
				}
				switch g % 3 {
				case 0:
					w, _ = flate.NewWriter(&b, lvl)
				case 1:
					w, _ = gzip.NewWriterLevel(&b, lvl)
				default:
					w, _ = zlib.NewWriterLevel(&b, lvl)
				}
				w.Write(data)
				w.Close()
				var rd io.Reader
				switch g % 3 {
				case 0:
					rd = flate.NewReader(bytes.NewReader(b.Bytes()))
				case 1:
					rd, _ = gzip.NewReader(bytes.NewReader(b.Bytes()))
				default:
					rd, _ = zlib.NewReader(bytes.NewReader(b.Bytes()))
				}
				got, err := io.ReadAll(rd)
				if err != nil || !bytes.Equal(got, data) {
					done <- fmt.Sprintf("goroutine %d round %d: %d bytes err %v", g, round, len(got), err)
					return
				}
			}
			done <- ""
		}(g)
	}
	for g := 0; g < 16; g++ {
		if s := <-done; s != "" {
			t.Error(s)
		}
	}
}

// 26: C11 - when a decoding step stops because the 64 KiB window is full and the input window happens to be
// empty, what is left (symbols, end of block, sync marker or final block) sits complete in the bit buffer; the
// next step must not wait for another source byte (reported by the round-5 C11 seeding agent).
func TestT26WindowFullThenNoMoreInput(t *testing.T) {
	for _, extra := range []int{257, 300, 1000} {
		for _, closeIt := range []bool{false, true} {
			data := make([]byte, 65536+extra)
			var b bytes.Buffer
			w, _ := stdflate.NewWriter(&b, 6)
			w.Write(data)
			if closeIt {
				w.Close()
			} else {
				w.Flush()
			}
			src := &chunkThenFail{chunks: [][]byte{b.Bytes()}}
			r := flate.NewReader(src)
			got := 0
			buf := make([]byte, 1<<17)
			var err error
			for err == nil {
				var n int
				n, err = r.Read(buf)
				got += n
			}
			want := io.EOF
			if !closeIt {
				want = errSourceGone
			}
			if got != len(data) || err != want {
				t.Errorf("extra %d close %v: got %d of %d bytes, err %v (want %v)", extra, closeIt, got, len(data), err, want)
			}
		}
	}
}

// 27: C15 - a source whose own error value is bufio.ErrBufferFull (reported by the round-5 C15 seeding agent).
func TestT27SourceReturnsErrBufferFull(t *testing.T) {
	var b bytes.Buffer
	w, _ := stdflate.NewWriter(&b, 6)
	w.Write(randText(5000, 27))
	w.Close()
	src := &failingSrc{data: b.Bytes()[:100], chunk: 4096, err: bufio.ErrBufferFull}
	r := flate.NewReader(src)
	done := make(chan error, 1)
	go func() {
		_, err := io.ReadAll(r)
		done <- err
	}()
	select {
	case err := <-done:
		if err != bufio.ErrBufferFull {
			t.Errorf("got %v, want the source's error bufio.ErrBufferFull", err)
		}
	case <-time.After(2 * time.Second):
		t.Errorf("Read spins: the source's error is swallowed")
	}
}

// 28: C03 - a dynamic header that is invalid *and* runs out of input leaves bitsLen negative; the error path then
// discards one byte too many, and the io.EOF of that Discard replaces the verdict: malformed input ends in io.EOF
// (reported by the round-6 C03 seeding agent).
func TestT28NegativeBitsOnErrorPath(t *testing.T) {
	in := []byte{0x14, 0x8d, 0x31, 0x15, 0x00, 0x51, 0x08, 0xc3, 0x76, 0x54, 0x60, 0x8d, 0x42, 0xa1, 0xfd, 0xfe, 0x24, 0x46}
	_, werr := stdInflate(in)
	got, gerr := io.ReadAll(flate.NewReader(bytes.NewReader(in)))
	if werr == nil {
		t.Fatalf("reference accepts the input")
	}
	if gerr == nil {
		t.Errorf("accepted (%d bytes, io.EOF) where compress/flate says %v", len(got), werr)
	}
}

// 29: C13 - zlib: once a stream with a preset dictionary has been served the Reader keeps compress/flate's
// inflater for ever; for later streams without dictionary a reset Reader then differs from a new one wherever
// the two inflaters differ (bytes delivered before io.ErrUnexpectedEOF on a truncated stream, error offsets).
func TestT29ZlibResetAfterDictStream(t *testing.T) {
	dict := []byte("the quick brown fox jumps over the lazy dog")
	var d bytes.Buffer
	dw, _ := stdzlib.NewWriterLevelDict(&d, 6, dict)
	dw.Write([]byte("the quick brown fox"))
	dw.Close()
	data := randText(150000, 1)
	var b bytes.Buffer
	w := stdzlib.NewWriter(&b)
	w.Write(data)
	w.Close()
	diffs := 0
	for _, cut := range []int{788, 1000, 5000, 17414, 20000, 30001} {
		s := b.Bytes()[:cut]
		fresh, _ := zlib.NewReader(bytes.NewReader(s))
		a, ea := io.ReadAll(fresh)
		used, err := zlib.NewReaderDict(bytes.NewReader(d.Bytes()), dict)
		if err != nil {
			t.Fatal(err)
		}
		io.ReadAll(used)
		if err := used.(zlib.Resetter).Reset(bytes.NewReader(s), nil); err != nil {
			t.Fatal(err)
		}
		c, ec := io.ReadAll(used)
		if len(a) != len(c) || (ea == nil) != (ec == nil) {
			diffs++
			t.Errorf("cut %d: new Reader %d bytes (%v), Reader reset after a dictionary stream %d bytes (%v)", cut, len(a), ea, len(c), ec)
		}
	}
}

// 30: C04 - a truncated stream whose Huffman block carries the final-block flag (what zlib and most encoders emit;
// compress/flate's own writer never does) must give the same bytes however it is delivered. The inflater used to
// choose its lookup-table flavour by the amount of input visible at header time (reported by the round-7 C04
// seeding agent).
func TestT30TruncatedFinalHuffmanBlock(t *testing.T) {
	r := rand.New(rand.NewSource(30))
	fails := 0
	for _, n := range []int{3000, 40000, 64000} {
		plain := randText(n, int64(n))
		var comp bytes.Buffer
		w, _ := stdflate.NewWriter(&comp, stdflate.HuffmanOnly)
		w.Write(plain)
		w.Close()
		s := comp.Bytes()
		s[0] |= 1
		for k := 0; k < 300 && fails < 6; k++ {
			cut := 50 + r.Intn(len(s)-60)
			run := func(src io.Reader, bufsz int) ([]byte, error) {
				fr := flate.NewReader(src)
				var got []byte
				var err error
				p := make([]byte, bufsz)
				for err == nil {
					var m int
					m, err = fr.Read(p)
					got = append(got, p[:m]...)
				}
				return got, err
			}
			ref, referr := run(bytes.NewReader(s[:cut]), 1<<16)
			for _, v := range []struct {
				name string
				src  io.Reader
			}{
				{"1-byte reads", &fixedChunks{data: s[:cut], size: func() int { return 1 }}},
				{"random chunks", &fixedChunks{data: s[:cut], size: func() int { return 1 + r.Intn(3000) }}},
				{"bufio 16", bufio.NewReaderSize(bytes.NewReader(s[:cut]), 16)},
				{"bufio 1MiB", bufio.NewReaderSize(bytes.NewReader(s[:cut]), 1<<20)},
			} {
				got, err := run(v.src, 1+r.Intn(9000))
				if !bytes.Equal(got, ref) || err != referr {
					fails++
					t.Errorf("n %d cut %d %s: %d bytes err %v; in one piece %d bytes err %v", n, cut, v.name, len(got), err, len(ref), referr)
				}
			}
		}
	}
}

// T31 (defect #27): for a truncated stream whose cut falls inside a table entry that packs several short codes,
// the bytes handed out before io.ErrUnexpectedEOF must not depend on the delivery. Skewed alphabets (1- and 2-bit
// codes), every cut position, four deliveries; each result must also be a prefix of the data.
func TestT31TruncatedPackedEntries(t *testing.T) {
	seeds := 24
	if v := os.Getenv("T31_SEEDS"); v != "" {
		fmt.Sscan(v, &seeds)
	}
	run := func(src io.Reader, bufsz int) ([]byte, error) {
		fr := flate.NewReader(src)
		var got []byte
		var err error
		p := make([]byte, bufsz)
		for err == nil {
			var k int
			k, err = fr.Read(p)
			got = append(got, p[:k]...)
		}
		return got, err
	}
	fails := 0
	for sd := 0; sd < seeds && fails < 8; sd++ {
		r := rand.New(rand.NewSource(int64(sd) + 1))
		n := 300 + r.Intn(4000)
		data := make([]byte, n)
		heavy := 600 + r.Intn(380)
		for i := range data {
			switch x := r.Intn(1000); {
			case x < heavy:
				data[i] = 'a'
			case x < heavy+(1000-heavy)*7/10:
				data[i] = 'b'
			case x < 995:
				data[i] = byte('c' + r.Intn(5))
			default:
				data[i] = byte(r.Intn(256))
			}
		}
		if sd%3 == 0 { // some long runs, so that matches follow packed literals
			copy(data[n/2:], bytes.Repeat([]byte("ab"), n/8))
		}
		if sd == 0 {
			// the stream on which the round-14 C04 agent first saw it (cuts 43, 92, 93)
			rg := rand.New(rand.NewSource(1))
			rg.Read(make([]byte, 70000))
			data = make([]byte, 2000)
			for i := range data {
				switch x := rg.Intn(1000); {
				case x < 900:
					data[i] = 'a'
				case x < 970:
					data[i] = 'b'
				case x < 990:
					data[i] = byte('c' + rg.Intn(4))
				default:
					data[i] = byte(rg.Intn(256))
				}
			}
		}
		var b bytes.Buffer
		w, _ := stdflate.NewWriter(&b, []int{9, 6, -2, 1}[sd%4])
		w.Write(data)
		w.Close()
		s := b.Bytes()
		for cut := 0; cut <= len(s) && fails < 8; cut++ {
			ref, referr := run(bytes.NewReader(s[:cut]), 1<<16)
			if !bytes.HasPrefix(data, ref) {
				fails++
				t.Errorf("seed %d cut %d: output is not a prefix of the data", sd, cut)
			}
			variants := []struct {
				name string
				src  io.Reader
				buf  int
			}{
				{"one byte", &fixedChunks{data: s[:cut], size: func() int { return 1 }}, 1 << 16},
				{"three bytes", &fixedChunks{data: s[:cut], size: func() int { return 3 }}, 7},
				{"random chunks", &fixedChunks{data: s[:cut], size: func() int { return 1 + r.Intn(40) }}, 1 + r.Intn(300)},
				{"bufio 16", bufio.NewReaderSize(&fixedChunks{data: s[:cut], size: func() int { return 1 + r.Intn(9) }}, 16), 1 << 12},
			}
			for _, v := range variants {
				got, err := run(v.src, v.buf)
				if !bytes.Equal(got, ref) || err != referr {
					fails++
					t.Errorf("seed %d, %d-byte stream cut at %d, %s: %d bytes err=%v; all at once: %d bytes err=%v", sd, len(s), cut, v.name, len(got), err, len(ref), referr)
				}
			}
		}
	}
}

// T32 (defect #28): a gzip header whose FEXTRA field is at least as large as the bufio buffer (4096) is read by one
// large Read that bufio passes straight to the source; an error the source returns together with the last bytes of
// the field (and never again) must still be what the Reader ends with.
type t32Src struct {
	data   []byte
	cuts   []int
	pos    int
	err    error
	failed bool
}

func (s *t32Src) Read(p []byte) (int, error) {
	if s.failed {
		return 0, io.EOF
	}
	for _, c := range s.cuts {
		if c > s.pos {
			n := copy(p, s.data[s.pos:c])
			s.pos += n
			if s.pos == s.cuts[len(s.cuts)-1] {
				s.failed = true
				return n, s.err
			}
			return n, nil
		}
	}
	s.failed = true
	return 0, s.err
}

func TestT32LargeExtraFieldKeepsSourceError(t *testing.T) {
	plain := bytes.Repeat([]byte("payload "), 100)
	for _, xlen := range []int{100, 4095, 4096, 5000, 65535} {
		var zb bytes.Buffer
		zw := stdgzip.NewWriter(&zb)
		zw.Extra = bytes.Repeat([]byte{0xAB}, xlen)
		zw.Write(plain)
		zw.Close()
		boom := errors.New("boom")
		src := &t32Src{data: zb.Bytes(), cuts: []int{12, 12 + xlen}, err: boom}
		r, err := gzip.NewReader(src)
		if err == nil {
			var got []byte
			got, err = io.ReadAll(r)
			if !bytes.HasPrefix(plain, got) {
				t.Fatalf("xlen %d: bytes returned are not a prefix of the data", xlen)
			}
		}
		if err != boom {
			t.Fatalf("xlen %d: Reader ended with %v; the source had reported %v", xlen, err, boom)
		}
	}
}

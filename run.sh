#!/bin/sh
# usage: run.sh <property-id> <quick|thorough>
# Rebuilds the checker if needed, then analyses /repo's current working tree from source.
set -u
VERIF=/verif
export GOFLAGS=-mod=vendor GOPROXY=off GOSUMDB=off GOTOOLCHAIN=local CGO_ENABLED=0
unset GOWORK
BIN=$VERIF/bin/fgcheck
need=0
[ -x "$BIN" ] || need=1
if [ $need -eq 0 ] && [ -n "$(find $VERIF/checker -maxdepth 1 -name '*.go' -newer $BIN 2>/dev/null | head -1)" ]; then need=1; fi
if [ $need -eq 1 ]; then
  mkdir -p $VERIF/bin
  (cd $VERIF/checker && go build -o $BIN .) || { echo "ERROR: cannot build fgcheck"; exit 2; }
fi
exec $BIN -root "${FG_ROOT:-/repo}" -verif $VERIF -prop "$1" -tier "${2:-${VERIF_TIER:-quick}}"

#!/bin/bash
# usage: benigneval.sh <patch file>  - applies a (claimed) behaviour-preserving patch to a scratch worktree of /repo HEAD
# and runs every property check on it; prints which rules raise an alarm (none expected).
set -u
P=$1
W=$(mktemp -d /tmp/ben.XXXXXX); E=$(mktemp -d /tmp/benv.XXXXXX)
trap 'git -C /repo worktree remove --force $W >/dev/null 2>&1; rm -rf $W $E' EXIT
git -C /repo worktree add -q --detach $W HEAD || exit 2
( cd $W && git apply $P ) || { echo "BENIGN $(basename $P) patch-does-not-apply"; exit 0; }
cp /verif/known_findings.json $E/
/verif/bin/fgcheck -root $W -verif $E -prop all > $E/out.txt 2>&1
fired=$(grep -E '^VIOLATION' $E/out.txt | sed 's/VIOLATION property=\([A-Z0-9]*\).*/\1/' | sort -u | tr '\n' ' ')
rules=$(grep -E '^(VIOLATED|UNDECIDED)' $E/out.txt | sed 's/.*rule=\([A-Z0-9.]*\).*/\1/' | sort -u | tr '\n' ' ')
echo "BENIGN $(basename $P) fired=[${fired}] rules=[${rules}]"
if [ -n "${VERBOSE:-}" ]; then grep -E '^(VIOLATED|UNDECIDED)' -A2 $E/out.txt | grep -v "^--" | awk 'NR%3==1 || NR%3==0' | sort -u | head -${VERBOSE_LINES:-20} | cut -c1-420; fi

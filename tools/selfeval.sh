#!/bin/bash
# usage: selfeval.sh <id>   - applies checker/selftest/<id>.patch to a scratch worktree and runs the checks:
# a mutant must be reported by each property in must_fire; a benign edit must leave every property silent.
set -u
ID=$1
CAT=/verif/checker/selftest/catalog.json
KIND=$(python3 -c "import json;e=[x for x in json.load(open('$CAT')) if x['id']=='$ID'][0];print(e['kind'])")
MUST=$(python3 -c "import json;e=[x for x in json.load(open('$CAT')) if x['id']=='$ID'][0];print(' '.join(e['must_fire']))")
W=$(mktemp -d /tmp/self.XXXXXX); E=$(mktemp -d /tmp/selfv.XXXXXX)
trap 'git -C /repo worktree remove --force $W >/dev/null 2>&1; rm -rf $W $E' EXIT
git -C /repo worktree add -q --detach $W HEAD || exit 2
( cd $W && git apply /verif/checker/selftest/$ID.patch ) || { echo "SELF $ID patch-does-not-apply (skipped)"; exit 0; }
cp /verif/known_findings.json $E/
PROPS=${MUST:-all}
[ "$KIND" = benign ] && PROPS=all
/verif/bin/fgcheck -root $W -verif $E -prop "$( [ "$PROPS" = all ] && echo all || echo $PROPS | awk '{print $1}')" > $E/out.txt 2>&1
if [ "$PROPS" != all ]; then for p in $(echo $PROPS | cut -d' ' -f2- -s); do /verif/bin/fgcheck -root $W -verif $E -prop $p >> $E/out.txt 2>&1; done; fi
fired=$(grep -E '^VIOLATION' $E/out.txt | sed 's/VIOLATION property=\([A-Z0-9]*\).*/\1/' | sort -u | tr '\n' ' ')
rules=$(grep -E '^(VIOLATED|UNDECIDED)' $E/out.txt | sed 's/.*rule=\([A-Z0-9.]*\).*/\1/' | sort -u | tr '\n' ' ')
ok=OK
if [ "$KIND" = mutant ]; then for p in $MUST; do echo " $fired" | grep -q " $p\| $p " || echo "$fired" | grep -qw "$p" || ok=MISS; done; else [ -z "$fired" ] || ok=FALSE-ALARM; fi
echo "SELF $ID $KIND expect=[${MUST}] fired=[${fired}] rules=[${rules}] => $ok"
if [ "$ok" != OK ] && [ -n "${VERBOSE:-}" ]; then grep -E '^(VIOLATED|UNDECIDED)' -A2 $E/out.txt | head -20; fi

#!/bin/bash
# usage: seedeval.sh <dir with patch.diff> [props...]
# Applies the patch to a scratch worktree of /repo HEAD and runs the checker on it (all properties by default);
# prints which properties raise a violation. Evidence of these runs goes to a scratch dir, never to /verif/evidence.
set -u
D=$1; shift
PROPS=${*:-all}
W=$(mktemp -d /tmp/eseed.XXXXXX)
E=$(mktemp -d /tmp/eseedv.XXXXXX)
trap 'git -C /repo worktree remove --force $W >/dev/null 2>&1; rm -rf $W $E' EXIT
git -C /repo worktree add -q --detach $W HEAD || exit 2
( cd $W && git apply $D/patch.diff ) || { echo "EVAL $D patch-does-not-apply"; exit 1; }
cp /verif/known_findings.json $E/ 2>/dev/null
out=""
for p in $PROPS; do
  /verif/bin/fgcheck -root $W -verif $E -prop $p -tier ${TIER:-quick} > $E/out.$p.txt 2>&1
  hits=$(grep -E '^VIOLATION' $E/out.$p.txt | sed 's/VIOLATION property=\([A-Z0-9]*\).*/\1/' | tr '\n' ' ')
  out="$out$hits"
  if [ -n "${VERBOSE:-}" ]; then grep -E '^(VIOLATED|UNDECIDED)' -A2 $E/out.$p.txt; fi
done
echo "EVAL $D fired: ${out:-none}"

#!/usr/bin/env python3
"""usage: round_table.py <matrix log> [suffix]
Rewrites /verif/seeded/expect.json from a seedmatrix log (lines 'EVAL /verif/seeded/<id> fired: C.. C..') and, when a
suffix is given, prints the DESIGN.md table of that round's seeds."""
import json, re, sys, os
log = open(sys.argv[1]).read()
suffix = sys.argv[2] if len(sys.argv) > 2 else None
res = {}
for m in re.finditer(r'EVAL /verif/seeded/(\S+) fired: (.*)', log):
    fired = [x for x in m.group(2).split() if x != 'none']
    res[m.group(1)] = fired
old = json.load(open('/verif/seeded/expect.json'))
lost = [k for k in old if old[k] and not res.get(k)]
if lost:
    print('REGRESSION: no longer reported:', lost, file=sys.stderr)
missing = [d for d in os.listdir('/verif/seeded') if os.path.isdir('/verif/seeded/' + d) and d not in res]
if missing:
    print('NOT EVALUATED:', missing, file=sys.stderr)
json.dump(dict(sorted(res.items())), open('/verif/seeded/expect.json', 'w'), indent=1)
print(f'{len(res)} seeds, {sum(1 for v in res.values() if v)} reported; not reported: {sorted(k for k, v in res.items() if not v)}', file=sys.stderr)
if suffix:
    print('| seed | change (agent\'s summary, truncated) | reported by |\n|---|---|---|')
    for k in sorted(res):
        if not re.fullmatch(r'C\d\d[a-z]' + suffix, k):
            continue
        s = (json.load(open(f'/verif/seeded/{k}/meta.json')).get('summary') or '').replace('\n', ' ').replace('|', '/')
        print(f"| {k} | {s[:150]}… | {', '.join(res[k]) if res[k] else '**missed**'} |")

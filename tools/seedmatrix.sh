#!/bin/bash
# Runs every registered property check against every kept seeded change (scratch worktrees, never /repo itself)
# and prints one line per seed: which properties raised a violation.
cd /verif/seeded || exit 1
ls -d */ | tr -d / | xargs -P ${JOBS:-6} -I{} /verif/tools/seedeval.sh /verif/seeded/{} "$@" | sort

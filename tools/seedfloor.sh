#!/bin/bash
# usage: seedfloor.sh <seed dir>  - reports whether the seed is reported by a real obligation or only by instance floors
D=$1
W=$(mktemp -d /tmp/fseed.XXXXXX); E=$(mktemp -d /tmp/fseedv.XXXXXX)
trap 'git -C /repo worktree remove --force $W >/dev/null 2>&1; rm -rf $W $E' EXIT
git -C /repo worktree add -q --detach $W HEAD || exit 2
( cd $W && git apply $D/patch.diff ) || { echo "FLOOR $(basename $D) patch-does-not-apply"; exit 0; }
cp /verif/known_findings.json $E/
/verif/bin/fgcheck -root $W -verif $E -prop all > $E/out.txt 2>&1
real=$(grep -E '^(VIOLATED|UNDECIDED)' $E/out.txt | grep -vc 'instance-floor')
floor=$(grep -E '^UNDECIDED' $E/out.txt | grep -c 'instance-floor')
echo "FLOOR $(basename $D) real=$real floor=$floor"

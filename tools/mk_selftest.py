#!/usr/bin/env python3
"""Builds the self-test catalogue: one-instance mutants (must be reported by the named property) and
behaviour-preserving edits (must stay silent). Each entry is applied to a scratch worktree of /repo HEAD,
must compile in both arms, and is saved as checker/selftest/<id>.patch + catalog.json.
Run by hand when /repo changes; the thorough tier only consumes the result."""
import json, os, subprocess, sys, tempfile

D = "compress/flate/internal/deflate/"
F = "compress/flate/"
G = "compress/gzip/"
Z = "compress/zlib/"

# (id, kind, properties that must fire ([] for benign), file, old, new)
E = [
 ("M01a", "mutant", ["C01"], D+"header.go", "16, 17, 18, 0, 8, 7, 9,", "16, 17, 18, 0, 7, 8, 9,"),
 ("M01b", "mutant", ["C01"], D+"dynamic.go", "c.litGen.Generate(15,", "c.litGen.Generate(16,"),
 ("M01c", "mutant", ["C01"], D+"lz77.go", "\t\t\t\t\t\thist.literalCodes[lengthSymbol] += repeat\n\t\t\t\t\t\thist.distanceCodes[distSymbol] += repeat\n\t\t\t\t\t\treturn offset, tokens", "\t\t\t\t\t\thist.literalCodes[lengthSymbol] += repeat\n\t\t\t\t\t\treturn offset, tokens"),
 ("M02a", "mutant", ["C02"], F+"inflate_table.go", "0x74000100, 0x84000050, 0x84000010, 0xc4000171,", "0x74000100, 0x84000051, 0x84000010, 0xc4000171,"),
 ("M02b", "mutant", ["C02", "C01"], F+"inflate_table.go", "0x0401, 0x0601, 0x0801, 0x0c01,", "0x0402, 0x0601, 0x0801, 0x0c01,"),
 ("M02c", "mutant", ["C02"], F+"inflate.go", "lookAhead = (maxMatch + 31) & ^31", "lookAhead = 256"),
 ("M03a", "mutant", ["C03"], F+"huffcode.go", "\tfor i := range t.shortCodeLookup[:copySize] {\n\t\tt.shortCodeLookup[i] = 0\n\t}\n", ""),
 ("M03b", "mutant", ["C03"], F+"reader.go", "err == errInvalidBlock || err == errInvalidSymbol || err == errInvalidLookBack", "err == errInvalidBlock || err == errInvalidSymbol"),
 ("M03d", "mutant", ["C03"], F+"reader.go", "\terr = nil\n\tif state.phase == phaseStreamEnd", "\tif state.phase == phaseStreamEnd"),
 ("M05b", "mutant", ["C05"], F+"reader.go", "\t\tdiscardSize := f.peekSize - len(f.state.input) - int(state.bitsLen/8)\n\t\tif discardSize > 0 {\n\t\t\t_, err := f.rBuf.Discard(discardSize)\n\t\t\tif err != nil {\n\t\t\t\treturn err\n\t\t\t}\n\t\t}\n\t\tf.state.input = nil\n\t}\n\treturn", "\t\tdiscardSize := f.peekSize - len(f.state.input)\n\t\tif discardSize > 0 {\n\t\t\t_, err := f.rBuf.Discard(discardSize)\n\t\t\tif err != nil {\n\t\t\t\treturn err\n\t\t\t}\n\t\t}\n\t\tf.state.input = nil\n\t}\n\treturn"),
 ("M06b", "mutant", ["C06"], Z+"writer.go", "z.scratch[1] |= 1 << 5", "z.scratch[1] |= 1 << 4"),
 ("M06c", "mutant", ["C06"], G+"gzip.go", "\tle.PutUint32(z.buf[:4], z.digest)\n\tle.PutUint32(z.buf[4:8], z.size)", "\tle.PutUint32(z.buf[:4], z.size)\n\tle.PutUint32(z.buf[4:8], z.digest)"),
 ("M07a", "mutant", ["C07"], G+"ungzip.go", "if digest != z.digest || size != z.size {", "if digest != z.digest {\n\t\t\t_ = size"),
 ("M07c", "mutant", ["C07"], G+"ungzip.go", "\t\t\tz.err = noEOF(err)\n\t\t\treturn n, z.err", "\t\t\tz.err = err\n\t\t\treturn n, z.err"),
 ("M07d", "mutant", ["C07"], G+"ungzip.go", "\t\tz.digest = crc32.Update(z.digest, crc32.IEEETable, p[:n])\n\t\tz.size += uint32(n)\n\t\tif z.err != io.EOF {\n\t\t\t// In the normal case we return here.\n\t\t\treturn n, z.err\n\t\t}", "\t\tif z.err != io.EOF {\n\t\t\t// In the normal case we return here.\n\t\t\treturn n, z.err\n\t\t}\n\t\tz.digest = crc32.Update(z.digest, crc32.IEEETable, p[:n])\n\t\tz.size += uint32(n)"),
 ("M08b", "mutant", ["C08"], G+"ungzip.go", "\t\tif !z.multistream {\n\t\t\treturn n, io.EOF\n\t\t}\n\t\tz.err = nil // Remove io.EOF\n\n\t\tif _, z.err = z.readHeader(); z.err != nil {\n\t\t\treturn n, z.err\n\t\t}", "\t\tz.err = nil // Remove io.EOF\n\n\t\tif _, z.err = z.readHeader(); z.err != nil {\n\t\t\treturn n, z.err\n\t\t}\n\t\tif !z.multistream {\n\t\t\treturn n, io.EOF\n\t\t}"),
 ("M09b", "mutant", ["C09"], D+"writer.go", "\t\tnum += accNum\n\t}", "\t\tnum += accNum\n\t\tif accNum > 1<<16 {\n\t\t\tw.lc.Compress()\n\t\t}\n\t}"),
 ("M10b", "mutant", ["C10"], D+"dynamic.go", "\t// write one zero length no compression block to align to bytes\n\tw.buf.writeEmptyBlock()\n\t_, err = w.w.Write(w.buf.output[:w.buf.idx])\n\tw.buf.idx = 0\n\treturn err\n}\n\nfunc (c *dynCompressor) Close", "\t_, err = w.w.Write(w.buf.output[:w.buf.idx])\n\tw.buf.idx = 0\n\treturn err\n}\n\nfunc (c *dynCompressor) Close"),
 ("M10c", "mutant", ["C10"], D+"dynamic.go", "err = w.compressBlock(true, false)", "err = w.compressBlock(false, false)"),
 ("M12b", "mutant", ["C12"], D+"dynamic.go", "\tw.buf.reset()\n\tw.lz77.reset()", "\tw.buf.reset()"),
 ("M12c", "mutant", ["C12"], D+"huffmanonly.go", "\th.buf.reset()\n\th.offset = 0", "\th.buf.reset()"),
 ("M13c", "mutant", ["C13"], F+"reader.go", "\tr.eof = false\n\tr.starved = true\n\tr.err = nil", "\tr.starved = true\n\tr.err = nil"),
 ("M14a", "mutant", ["C14"], D+"writer.go", "\t\t\tif err != nil {\n\t\t\t\tw.err = err\n\t\t\t\treturn num, err", "\t\t\tif err != nil {\n\t\t\t\treturn num, err"),
 ("M14c", "mutant", ["C14"], G+"gzip.go", "\tz.err = z.compressor.Close()\n\tif z.err != nil {\n\t\treturn z.err\n\t}", "\tz.compressor.Close()"),
 ("M15a", "mutant", ["C15"], F+"reader.go", "if err != nil && err != io.EOF {\n\t\t\treturn err\n\t\t}\n\t\tf.eof = err == io.EOF", "f.eof = err != nil"),
 ("M16a", "mutant", ["C16"], G+"gzip.go", "\tz.closed = true\n\tif !z.wroteHeader {", "\tif !z.wroteHeader {"),
 ("M16b", "mutant", ["C16"], D+"writer.go", "\tcase 1, 2:\n\t\tw.lc = NewDynCompressor(under, level, 32*1024)", "\tcase 1, 2, 10:\n\t\tw.lc = NewDynCompressor(under, level, 32*1024)"),
 ("M17a", "mutant", ["C17"], F+"header.go", "func (state *inflate) codeLenCodes(hclen int) error {\n\tvar codeHuff [codeLenCodes]huffCode", "var sharedCodeHuff [codeLenCodes]huffCode\n\nfunc (state *inflate) codeLenCodes(hclen int) error {\n\tcodeHuff := &sharedCodeHuff\n\t*codeHuff = [codeLenCodes]huffCode{}"),
 ("M18a", "mutant", ["C18"], F+"inflate.go", "\tbits    uint64 // Bits buffered to handle unaligned streams\n\tbitsLen int32  // Bits in readIn\n", "\tbitsLen int32  // Bits in readIn\n\tbits    uint64 // Bits buffered to handle unaligned streams\n"),
 ("M18b", "mutant", ["C18"], D+"level.go", "type level1context struct {\n\ttable       [1 << 12]uint16\n\thist        histogram", "type level1context struct {\n\ttable       [1 << 12]uint16\n\tgeneration  uint32\n\thist        histogram"),
 ("M18c", "mutant", ["C18"], D+"encode_amd64.go", "\tdefault:\n\t\tasmTokenEncoder = encodeTokens\n", ""),
 ("M18d", "mutant", ["C18"], F+"decode_amd64.go", "if cpu.ArchLevel < 3 {", "if cpu.ArchLevel < 2 {"),
 ("M19a", "mutant", ["C19"], D+"writer.go", "\tcase 1, 2:\n\t\tw.lc = NewDynCompressor(under, level, 4*1024)", "\tcase 1, 2:\n\t\tw.lc = NewDynCompressor(under, level, 8*1024)"),
 ("M19b", "mutant", ["C19"], D+"level_other.go", "return lz77(flush, c.table[:], 1<<12-1, 1<<c.windowLevel,", "return lz77(flush, c.table[:], 1<<12-1, 1<<(c.windowLevel+1),"),
 ("M19d", "mutant", ["C19"], D+"level_amd64.go", "\tif c.windowLevel == 12 {\n\t\tnOffset, ntokens = lz77Asm4kL12V1(", "\tif c.windowLevel != 12 {\n\t\tnOffset, ntokens = lz77Asm4kL12V1("),
 # behaviour-preserving edits: every check must stay silent
 ("B01", "benign", [], D+"lz77.go", "\trelative := processed - offset\n\tend := len(input) - 8\n\tfor offset < end {", "\trelative := processed - offset\n\tend := len(input) - 8\n\t// main loop\n\n\tfor offset < end {"),
 ("B02", "benign", [], D+"dynamic.go", "func (w *dynCompressor) Reset(under io.Writer) {\n\tw.w = under\n\tw.processed = 0\n\n\tw.idx = 0\n\tw.end = 0\n\tw.tokens = w.tokens[:0]\n", "func (w *dynCompressor) resetCursors() {\n\tw.processed = 0\n\tw.idx = 0\n\tw.end = 0\n\tw.tokens = w.tokens[:0]\n}\n\nfunc (w *dynCompressor) Reset(under io.Writer) {\n\tw.w = under\n\tw.resetCursors()\n"),
 ("B03", "benign", [], D+"level.go", "func (c *level1context) reset() {\n\tfor i := range c.table {\n\t\tc.table[i] = 0\n\t}", "func (c *level1context) reset() {\n\tc.table = [1 << 12]uint16{}"),
 ("B04", "benign", [], D+"writer.go", "func (w *Writer) Write(data []byte) (n int, err error) {\n\tif w.err != nil {", "func (w *Writer) Write(data []byte) (n int, err error) {\n\tif !(w.err == nil) {"),
 ("B05", "benign", [], F+"reader.go", "\t\tdiscardSize := f.peekSize - len(f.state.input) - int(state.bitsLen/8)\n\t\tif discardSize > 0 {\n\t\t\t_, err := f.rBuf.Discard(discardSize)\n\t\t\tif err != nil {\n\t\t\t\treturn err\n\t\t\t}\n\t\t}\n\t\tf.state.input = nil\n\t}\n\treturn", "\t\tdiscardSize := f.peekSize - (len(f.state.input) + int(state.bitsLen/8))\n\t\tif discardSize > 0 {\n\t\t\t_, err := f.rBuf.Discard(discardSize)\n\t\t\tif err != nil {\n\t\t\t\treturn err\n\t\t\t}\n\t\t}\n\t\tf.state.input = nil\n\t}\n\treturn"),
 ("B06", "benign", [], G+"gzip.go", "\tz.err = z.compressor.Close()\n\tif z.err != nil {\n\t\treturn z.err\n\t}\n\tle.PutUint32(z.buf[:4], z.digest)", "\tif z.err = z.compressor.Close(); z.err != nil {\n\t\treturn z.err\n\t}\n\tle.PutUint32(z.buf[:4], z.digest)"),
 ("B07", "benign", [], G+"ungzip.go", "func noEOF(err error) error {\n\tif err == io.EOF {\n\t\treturn io.ErrUnexpectedEOF\n\t}\n\treturn err\n}", "func noEOF(err error) error {\n\tswitch err {\n\tcase io.EOF:\n\t\treturn io.ErrUnexpectedEOF\n\t}\n\treturn err\n}"),
 ("B08", "benign", [], D+"huffmanonly.go", "\tif h.offset == 0 {\n\t\t// nothing pending: no block to emit\n\t\treturn nil\n\t}", "\tif h.offset <= 0 {\n\t\t// nothing pending: no block to emit\n\t\treturn nil\n\t}"),
 ("B09", "benign", [], F+"reader.go", "func (r *decompressor) Close() error {\n\treturn nil\n}", "// Close implements io.Closer; the decompressor holds no resources.\nfunc (r *decompressor) Close() error {\n\tvar err error\n\treturn err\n}"),
 ("B10", "benign", [], D+"lz77.go", "\t\tif uint32(dist-1) < uint32(historySize) {", "\t\tif dist >= 1 && dist <= uint32(historySize) {"),
 ("B11", "benign", [], Z+"reader.go", "\tif _, err := io.ReadFull(z.r, z.scratch[0:4]); err != nil {\n\t\tif err == io.EOF {\n\t\t\terr = io.ErrUnexpectedEOF\n\t\t}\n\t\tz.err = err\n\t\treturn n, z.err\n\t}", "\tif _, err := io.ReadFull(z.r, z.scratch[0:4]); err != nil {\n\t\tz.err = err\n\t\tif err == io.EOF {\n\t\t\tz.err = io.ErrUnexpectedEOF\n\t\t}\n\t\treturn n, z.err\n\t}"),
 ("B12", "benign", [], D+"dynamic.go", "\t\tif last && idx == len(c.tokens) {\n\t\t\tc.buf.flushLastByte()\n\t\t}", "\t\tif idx == len(c.tokens) && last {\n\t\t\tc.buf.flushLastByte()\n\t\t}"),
 ("M01d", "mutant", ["C01"], D+"writer.go", "\tif w.w != nil {\n\t\tw.err = w.w.Flush()\n\t\treturn w.err\n\t}\n", ""),
 ("M03e", "mutant", ["C03", "C18"], F+"decode_amd64.s", "invalid_look_back_distance:\n        SUBQ R15, R10\n        MOVQ $-3, AX", "invalid_look_back_distance:\n        SUBQ R15, R10\n        MOVQ $-4, AX"),
 ("M04c", "mutant", ["C04"], F+"inflate.go", "\t\tsize := copy(state.headerBuffer[state.headerBuffered:], input)", "\t\tsize := copy(state.headerBuffer[:], input)"),
 ("M04d", "mutant", ["C04"], F+"reader.go", "\t\t\t_, err := f.rBuf.Discard(discardSize)\n\t\t\tif err != nil {\n\t\t\t\treturn err\n\t\t\t}\n\t\t}\n\t\tf.state.input = nil\n\t}\n\treturn", "\t\t\tfor i := 0; i < discardSize; i++ {\n\t\t\t\tif _, err := f.rBuf.ReadByte(); err != nil {\n\t\t\t\t\treturn err\n\t\t\t\t}\n\t\t\t}\n\t\t}\n\t\tf.state.input = nil\n\t}\n\treturn"),
 ("M06a", "mutant", ["C06"], G+"gzip.go", "\t\tif z.Name != \"\" {\n\t\t\tz.err = z.writeString(z.Name)\n\t\t\tif z.err != nil {\n\t\t\t\treturn 0, z.err\n\t\t\t}\n\t\t}\n\t\tif z.Comment != \"\" {\n\t\t\tz.err = z.writeString(z.Comment)\n\t\t\tif z.err != nil {\n\t\t\t\treturn 0, z.err\n\t\t\t}\n\t\t}", "\t\tif z.Comment != \"\" {\n\t\t\tz.err = z.writeString(z.Comment)\n\t\t\tif z.err != nil {\n\t\t\t\treturn 0, z.err\n\t\t\t}\n\t\t}\n\t\tif z.Name != \"\" {\n\t\t\tz.err = z.writeString(z.Name)\n\t\t\tif z.err != nil {\n\t\t\t\treturn 0, z.err\n\t\t\t}\n\t\t}"),
 ("M06d", "mutant", ["C06"], Z+"writer.go", "\tz.digest.Write(p)\n\treturn", "\tz.digest.Write(p[:n/2])\n\treturn"),
 ("M07b", "mutant", ["C07"], G+"ungzip.go", "\t\tif _, err := io.ReadFull(z.r, z.buf[:8]); err != nil {", "\t\tif n, err := io.ReadFull(z.r, z.buf[:8]); err != nil {"),
 ("M08a", "mutant", ["C08"], G+"ungzip.go", "\t\tz.decompressor = flate.NewReader(z.r)\n\t} else {", "\t\tz.decompressor = flate.NewReader(bufio.NewReader(z.r))\n\t} else {"),
 ("M10d", "mutant", ["C10"], D+"bitbuf.go", "func (b *BitBuf) writeEmptyBlock() {\n\tb.WriteBit(0b000, 3)\n\tb.flushLastByte()\n\tb.output[b.idx+0] = 0x00\n\tb.output[b.idx+1] = 0x00\n\tb.output[b.idx+2] = 0xff", "func (b *BitBuf) writeEmptyBlock() {\n\tb.WriteBit(0b000, 3)\n\tb.flushLastByte()\n\tb.output[b.idx+0] = 0x00\n\tb.output[b.idx+1] = 0x00\n\tb.output[b.idx+2] = 0xfe"),
 ("M10e", "mutant", ["C10"], D+"dynamic.go", "\terr := c.compressBlock(true, true)", "\terr := c.compressBlock(true, false)"),
 ("M13d", "mutant", ["C13"], Z+"reader.go", "\t} else {\n\t\tz.decompressor.(flate.Resetter).Reset(z.r, nil)\n\t}", "\t}"),
 ("M14b", "mutant", ["C14"], D+"dynamic.go", "\t\t_, err := c.w.Write(c.buf.output[:c.buf.idx])\n\t\tif err != nil {\n\t\t\treturn err\n\t\t}\n\t\tc.buf.idx = 0", "\t\tc.w.Write(c.buf.output[:c.buf.idx])\n\t\tc.buf.idx = 0"),
 ("M14d", "mutant", ["C14"], G+"gzip.go", "func (z *Writer) Flush() error {\n\tif z.err != nil {\n\t\treturn z.err\n\t}\n", "func (z *Writer) Flush() error {\n"),
 ("M17b", "mutant", ["C17"], D+"header.go", "func newDynamicHeader() *dynamicHeader {\n\treturn &dynamicHeader{", "var sharedHeader = &dynamicHeader{\n\tgenerator:  huffman.NewLenLimitedCode(),\n\thistogram:  make([]uint32, 19),\n\trcodes:     make([]uint16, 19),\n\tsource:     make([]uint8, 286+30+1),\n\tcountCache: make([]uint32, (7+1)*2),\n}\n\nfunc newDynamicHeader() *dynamicHeader {\n\tif sharedHeader != nil {\n\t\treturn sharedHeader\n\t}\n\treturn &dynamicHeader{"),
 ("M18e", "mutant", ["C18"], F+"decode_amd64.s", "        MOVQ AX, errno+48(FP)\n        RET", "        MOVQ AX, errno+40(FP)\n        RET"),
 ("M18f", "mutant", ["C18"], F+"decode_amd64.s", "end:\n        MOVQ DI, 24(R9)\n        MOVL R8, 32(R9)", "end:\n        MOVQ DI, 24(R9)"),
 ("M19c", "mutant", ["C19"], D+"lz77.go", "\t\tif uint32(dist-1) < uint32(historySize) {", "\t\tif uint32(dist-1) <= uint32(historySize) {"),
 ("B13", "benign", [], G+"gzip.go", "\t\tif z.Extra != nil {\n\t\t\tz.buf[3] |= 0x04\n\t\t}", "\t\tif z.Extra != nil {\n\t\t\tz.buf[3] |= flagExtra\n\t\t}"),
 ("B14", "benign", [], D+"writer.go", "\tw.err = w.lc.Flush()\n\treturn w.err\n}", "\tif err := w.lc.Flush(); err != nil {\n\t\tw.err = err\n\t\treturn err\n\t}\n\treturn nil\n}"),
 ("B16", "benign", [], F+"reader.go", "\t\tif f.writePos-f.readPos > 0 {\n\t\t\tnum := copy(b,", "\t\tif f.writePos > f.readPos {\n\t\t\tnum := copy(b,"),
 ("B17", "benign", [], F+"reader.go", "\t\t_, err = f.rBuf.Peek(int(state.bitsLen/8) + 1)", "\t\tneed := int(state.bitsLen/8) + 1\n\t\t_, err = f.rBuf.Peek(need)"),
 ("B18", "benign", [], D+"dynamic.go", "\terr = w.compressBlock(true, false)\n\tif err != nil {\n\t\treturn err\n\t}\n\t// write one zero", "\tif err = w.compressBlock(true, false); err != nil {\n\t\treturn\n\t}\n\t// write one zero"),
 ("B19", "benign", [], F+"header.go", "\tfor i := range t.ShortCodeLookup[:copySize] {\n\t\tt.ShortCodeLookup[i] = 0\n\t}", "\tfor i := 0; i < copySize; i++ {\n\t\tt.ShortCodeLookup[i] = 0\n\t}"),
 ("B20", "benign", [], F+"reader.go", "\tif err == errInvalidBlock || err == errInvalidSymbol || err == errInvalidLookBack {\n\t\treturn true\n\t}\n\treturn false", "\tswitch err {\n\tcase errInvalidBlock, errInvalidSymbol, errInvalidLookBack:\n\t\treturn true\n\t}\n\treturn false"),
 ("B21", "benign", [], F+"decode_amd64.go", "\t\t\tswitch errno {\n\t\t\tcase errorNoInvalidBlock:\n\t\t\t\terr = errInvalidBlock\n\t\t\tcase errorNoInvalidSymbol:\n\t\t\t\terr = errInvalidSymbol\n\t\t\tcase errorNoInvalidLookback:\n\t\t\t\terr = errInvalidLookBack\n\t\t\tcase errorNoOutOverflow:\n\t\t\t\terr = errOutputOverflow\n\t\t\tdefault:\n\t\t\t\terr = errInvalidBlock\n\t\t\t}", "\t\t\tif errno == errorNoInvalidSymbol {\n\t\t\t\terr = errInvalidSymbol\n\t\t\t} else if errno == errorNoInvalidLookback {\n\t\t\t\terr = errInvalidLookBack\n\t\t\t} else if errno == errorNoOutOverflow {\n\t\t\t\terr = errOutputOverflow\n\t\t\t} else {\n\t\t\t\terr = errInvalidBlock\n\t\t\t}"),
 ("B22", "benign", [], F+"reader.go", "\trr.r = r\n\tif ur, ok := r.(*bufio.Reader); ok {\n\t\t// bufio.NewReader would put a second buffer in front of a small one\n\t\trr.rBuf = ur\n\t} else {\n\t\trr.own = bufio.NewReader(r)\n\t\trr.rBuf = rr.own\n\t}\n\treturn rr", "\trr.Reset(r, nil)\n\treturn rr"),
 ("B23", "benign", [], D+"lz77.go", "\t\ttokens = append(tokens, newToken(lit, InvalidDist, 0))\n\t\thist.literalCodes[lit]++\n\t\tif len(tokens) > maxToken {\n\t\t\treturn offset, tokens\n\t\t}\n\t}\n\tif flush {", "\t\ttokens = append(tokens, newToken(lit, InvalidDist, 0))\n\t\thist.literalCodes[lit] += 1\n\t\tif len(tokens) > maxToken {\n\t\t\treturn offset, tokens\n\t\t}\n\t}\n\tif flush {"),
 ("B24", "benign", [], D+"huffmanonly.go", "func (h *huffmanOnly) Accumulate(data []byte) (n int, trigger bool) {\n", "func (h *huffmanOnly) Accumulate(data []byte) (n int, trigger bool) {\n\tif len(data) == 0 {\n\t\treturn 0, false\n\t}\n"),
 ("B25", "benign", [], G+"ungzip.go", "\t\tif digest != z.digest || size != z.size {\n\t\t\tz.err = ErrChecksum\n\t\t\treturn n, z.err\n\t\t}", "\t\tif digest != z.digest {\n\t\t\tz.err = ErrChecksum\n\t\t\treturn n, z.err\n\t\t}\n\t\tif size != z.size {\n\t\t\tz.err = ErrChecksum\n\t\t\treturn n, z.err\n\t\t}"),
 ("B26", "benign", [], Z+"writer.go", "\tz.err = nil\n\tz.scratch = [4]byte{}\n\tz.wroteHeader = false", "\tz.wroteHeader = false\n\tz.scratch = [4]byte{}\n\tz.err = nil"),
 ("B27", "benign", [], D+"level_amd64.go", "func (c *level1context) generate(flush bool, input []byte, processed int, offset int, tokens []token, maxToken int) (nOffset int, ntokens []token) {\n\tif cpu.ArchLevel < 3 || len(tokens)+safeLZ77Boundary > cap(tokens) {", "func (c *level1context) generate(flush bool, input []byte, processed int, offset int, tokens []token, maxToken int) (nOffset int, ntokens []token) {\n\tuseAsm := cpu.ArchLevel >= 3 && len(tokens)+safeLZ77Boundary <= cap(tokens)\n\tif !useAsm {"),
 ("B29", "benign", [], D+"bitbuf.go", "func (b *BitBuf) reset() {\n\tb.idx = 0\n\tb.bits = 0\n\tb.bitLen = 0\n}", "func (b *BitBuf) reset() {\n\tb.idx, b.bits, b.bitLen = 0, 0, 0\n}"),
 ("B30", "benign", [], G+"gzip.go", "\tif z.err != nil {\n\t\treturn z.err\n\t}\n\tif z.closed {\n\t\treturn nil\n\t}\n\tz.closed = true", "\tif z.err != nil {\n\t\treturn z.err\n\t}\n\tif !z.closed {\n\t\tz.closed = true\n\t} else {\n\t\treturn nil\n\t}"),
 ("B31", "benign", [], D+"huffmanonly.go", "\t\tif num == h.offset && final {\n\t\t\th.buf.flushLastByte()\n\t\t}", "\t\tif final {\n\t\t\tif num == h.offset {\n\t\t\t\th.buf.flushLastByte()\n\t\t\t}\n\t\t}"),
 ("B32", "benign", [], F+"huffcode.go", "\tif codeListLen == 0 {\n\t\tfor i := range t.shortCodeLookup {\n\t\t\tt.shortCodeLookup[i] = 0\n\t\t}\n\t\treturn\n\t}", "\tif codeListLen == 0 {\n\t\tt.shortCodeLookup = [1 << 12]uint32{}\n\t\treturn\n\t}"),
 ("B33", "benign", [], F+"inflate.go", "\treturn kraft == 1<<maxHuffTreeDepth || kraft == 0 ||", "\treturn uint64(kraft) == 1<<maxHuffTreeDepth || kraft == 0 ||"),
 ("B34", "benign", [], F+"decode.go", "\t\t\t} else if nextLit <= maxLitLenSym {", "\t\t\t} else if nextLit < maxLitLenSym+1 {"),
 ("B35", "benign", [], F+"header.go", "\tstate.dynHdr.litCount = [maxLitLenCount]uint16{}\n", "\tfor i := range state.dynHdr.litCount {\n\t\tstate.dynHdr.litCount[i] = 0\n\t}\n"),
 ("B36", "benign", [], D+"dynamic.go", "\tn = copy(c.buffer[c.end:2*c.windowSize+maxMatchLength], data)\n\tc.end += n\n\tif c.end < 2*c.windowSize+maxMatchLength {\n\t\treturn\n\t}\n\treturn n, true", "\tlimit := 2*c.windowSize + maxMatchLength\n\tn = copy(c.buffer[c.end:limit], data)\n\tc.end += n\n\tif c.end >= limit {\n\t\treturn n, true\n\t}\n\treturn n, false"),
 ("B37", "benign", [], D+"huffmanonly.go", "\tif h.offset == h.max {\n\t\treturn n, true\n\t}\n\treturn n, false", "\tif h.offset >= h.max {\n\t\treturn n, true\n\t}\n\treturn n, false"),
 ("B38", "benign", [], D+"dynamic.go", "\tif len(w.tokens) < maxTokenSize && !flush {\n\t\treturn\n\t}", "\tif !flush && len(w.tokens) < maxTokenSize {\n\t\treturn\n\t}"),
 ("B39", "benign", [], F+"reader.go", "\tif ur, ok := under.(*bufio.Reader); ok {\n\t\tr.rBuf = ur\n\t} else {\n\t\tif r.own != nil {\n\t\t\tr.own.Reset(under)\n\t\t} else {\n\t\t\tr.own = bufio.NewReader(under)\n\t\t}\n\t\tr.rBuf = r.own\n\t}\n", "\tur, ok := under.(*bufio.Reader)\n\tswitch {\n\tcase ok:\n\t\tr.rBuf = ur\n\tcase r.own != nil:\n\t\tr.own.Reset(under)\n\t\tr.rBuf = r.own\n\tdefault:\n\t\tr.own = bufio.NewReader(under)\n\t\tr.rBuf = r.own\n\t}\n"),
 ("B40", "benign", [], Z+"writer.go", "\tz.wroteHeader = true\n\t// ZLIB has a two-byte header (as documented in RFC 1950).", "\t// ZLIB has a two-byte header (as documented in RFC 1950).\n\tz.wroteHeader = true"),
 ("B41", "benign", [], F+"decode_amd64.s", "invalid_look_back_distance:\n        SUBQ R15, R10\n        MOVQ $-3, AX", "invalid_look_back_distance:\n        MOVQ $-3, AX\n        SUBQ R15, R10"),
 ("B42", "benign", [], D+"encode_amd64.go", "\tif len(tokens) == 0 {\n\t\treturn 0\n\t}", "\tif len(tokens) < 1 {\n\t\treturn 0\n\t}"),
 ("B43", "benign", [], F+"decode.go", "\t\t\t\tif lookBackDist >= repeatLength {\n\t\t\t\t\tcopy(output[written:], output[written-lookBackDist:written-lookBackDist+repeatLength])\n\t\t\t\t} else {\n\t\t\t\t\tbyteCopy(output, written, lookBackDist, repeatLength)\n\t\t\t\t}", "\t\t\t\tif repeatLength > lookBackDist {\n\t\t\t\t\tbyteCopy(output, written, lookBackDist, repeatLength)\n\t\t\t\t} else {\n\t\t\t\t\tcopy(output[written:], output[written-lookBackDist:written-lookBackDist+repeatLength])\n\t\t\t\t}"),
 ("B44", "benign", [], F+"huffcode.go", "\tfor _, index := range ctx.codeList[start:end] {\n\t\tsym := indexToSym(index)", "\tfor _, index := range ctx.codeList[start:end] {\n\t\tsym := index\n\t\tif index == 513 {\n\t\t\tsym = 512\n\t\t}"),
 ("B45", "benign", [], F+"header.go", "\tstate.litLenTable = staticLitHuffCode\n\tstate.distTable = staticDistHuffCode", "\tstate.litLenTable.shortCodeLookup = staticLitHuffCode.shortCodeLookup\n\tstate.litLenTable.longCodeLookup = staticLitHuffCode.longCodeLookup\n\tstate.distTable = staticDistHuffCode"),
 ("B46", "benign", [], D+"huffmanonly.go", "\tif final && h.offset == 0 {\n\t\th.buf.writeFinalEmptyBlock()", "\tif h.offset == 0 && final {\n\t\th.buf.writeFinalEmptyBlock()"),
 ("M11c", "mutant", ["C11"], F+"reader.go", "\tif state.input == nil && state.phase == phaseStreamEnd {\n\t\t// the final block is decoded: what is left is handed out without asking the source for more\n\t\tf.peekSize = 0\n\t} else if state.input == nil {", "\tif state.input == nil {"),
 ("B47", "benign", [], F+"reader.go", "\tif state.input == nil && state.phase == phaseStreamEnd {\n\t\t// the final block is decoded: what is left is handed out without asking the source for more\n\t\tf.peekSize = 0\n\t} else if state.input == nil {", "\tif state.phase == phaseStreamEnd && state.input == nil {\n\t\tf.peekSize = 0\n\t}\n\tif state.phase != phaseStreamEnd && state.input == nil {"),
 ("B48", "benign", [], F+"reader.go", "\tif state.input == nil && state.phase == phaseStreamEnd {\n\t\t// the final block is decoded: what is left is handed out without asking the source for more\n\t\tf.peekSize = 0\n\t} else if state.input == nil {", "\tatEnd := state.phase == phaseStreamEnd\n\tif state.input == nil && atEnd {\n\t\tf.peekSize = 0\n\t} else if state.input == nil {"),
 ("B49", "benign", [], D+"writer.go", "\tif w.closed {\n\t\treturn nil\n\t}\n\tif w.err != nil {\n\t\treturn w.err\n\t}", "\tswitch {\n\tcase w.closed:\n\t\treturn nil\n\tcase w.err != nil:\n\t\treturn w.err\n\t}"),
 ("B50", "benign", [], Z+"reader.go", "\t\tif haveDict {\n\t\t\tz.decompressor = flate.NewReaderDict(z.r, dict)\n\t\t} else {\n\t\t\tz.decompressor = flate.NewReader(z.r)\n\t\t}\n\t\tz.dictInflater = haveDict", "\t\tz.dictInflater = haveDict\n\t\tif !haveDict {\n\t\t\tz.decompressor = flate.NewReader(z.r)\n\t\t} else {\n\t\t\tz.decompressor = flate.NewReaderDict(z.r, dict)\n\t\t}"),
 ("B51", "benign", [], F+"reader.go", "\t\tif f.starved {", "\t\tif wait := f.starved; wait {"),
 ("B52", "benign", [], D+"writer.go", "\tcase 1, 2:\n\t\tw.lc = NewDynCompressor(under, level, 32*1024)\n\tdefault:", "\tcase NoCompression:\n\t\tw.w, err = flate.NewWriter(under, level)\n\t\tif err != nil {\n\t\t\treturn nil, err\n\t\t}\n\tcase 1, 2:\n\t\tw.lc = NewDynCompressor(under, level, 32*1024)\n\tdefault:"),
]

def sh(cmd, cwd=None):
    return subprocess.run(cmd, shell=True, cwd=cwd, capture_output=True, text=True)

def main():
    env = "export GOFLAGS=-mod=mod GOPROXY=off GOSUMDB=off GOTOOLCHAIN=local; "
    out = "/verif/checker/selftest"
    os.makedirs(out, exist_ok=True)
    w = tempfile.mkdtemp(prefix="mkself.")
    sh("git -C /repo worktree add -q --detach %s HEAD" % w)
    cat = []
    try:
        for (i, kind, props, f, old, new) in E:
            src = open(os.path.join(w, f)).read()
            if src.count(old) != 1:
                print("SKIP %s: anchor text occurs %d times in %s" % (i, src.count(old), f)); continue
            open(os.path.join(w, f), "w").write(src.replace(old, new))
            sh("gofmt -w %s" % f, cwd=w)
            b1 = sh(env + "go build ./... && go vet ./compress/... >/dev/null 2>&1; go build ./...", cwd=w)
            b2 = sh(env + "go build -tags noasmtest ./...", cwd=w)
            if b1.returncode != 0 or b2.returncode != 0:
                print("SKIP %s: does not compile: %s %s" % (i, b1.stderr[-300:], b2.stderr[-300:]))
            else:
                d = sh("git diff", cwd=w).stdout
                open(os.path.join(out, i + ".patch"), "w").write(d)
                cat.append({"id": i, "kind": kind, "must_fire": props, "file": f})
                print("ok", i)
            sh("git checkout -q -- .", cwd=w)
        # patch-based behaviour-preserving edits written by an independent sub-agent (tools/benign_src)
        srcdir = "/verif/tools/benign_src"
        for k, name in enumerate(sorted(x for x in os.listdir(srcdir) if x.endswith(".patch"))):
            i = "B" + name[:-len(".patch")]  # BR01.. (small clean-ups), BS01.. (structural refactorings)
            a = sh("git apply %s/%s" % (srcdir, name), cwd=w)
            if a.returncode != 0:
                print("SKIP %s (%s): does not apply: %s" % (i, name, a.stderr[-200:])); sh("git checkout -q -- . && git clean -fdq", cwd=w); continue
            b1 = sh(env + "go build ./...", cwd=w)
            b2 = sh(env + "go build -tags noasmtest ./...", cwd=w)
            if b1.returncode != 0 or b2.returncode != 0:
                print("SKIP %s: does not compile" % i)
            else:
                sh("git add -A -N .", cwd=w)
                d = sh("git diff", cwd=w).stdout
                open(os.path.join(out, i + ".patch"), "w").write(d)
                files = sh("git diff --name-only", cwd=w).stdout.split()
                cat.append({"id": i, "kind": "benign", "must_fire": [], "file": files[0] if files else "", "source": name})
                print("ok", i, name)
            sh("git reset -q && git checkout -q -- . && git clean -fdq", cwd=w)
    finally:
        sh("git -C /repo worktree remove --force %s" % w)
    json.dump(cat, open(os.path.join(out, "catalog.json"), "w"), indent=1)
    print(len(cat), "entries")

main()

#!/bin/bash
# usage: ingest_seeds.sh <prefix dir e.g. /tmp/seed2-C14> <suffix e.g. 2>
# verifies each variant dir under it and, when GOOD, stores it as /verif/seeded/<Cxx><v><suffix>/
P=$1; SUF=$2
pid=$(basename $P | sed 's/seed[0-9]*-//')
for d in $P/*/; do
  d=${d%/}; v=$(basename $d)
  [ -f $d/patch.diff ] && [ -f $d/demo_test.go ] || continue
  res=$(/verif/tools/verify_seed.sh $d | grep RESULT)
  echo "$res"
  echo "$res" | grep -q "verdict=GOOD" || continue
  dst=/verif/seeded/$pid$v$SUF
  mkdir -p $dst; cp $d/patch.diff $d/demo_test.go $dst/
  python3 - "$d" "$dst" "$pid" "$v$SUF" "$res" <<'PY'
import json,sys
d,dst,pid,v,res=sys.argv[1:6]
try: meta=json.load(open(d+'/meta.json'))
except Exception: meta={}
kv=dict(p.split('=',1) for p in res.split() if '=' in p)
out={'id':pid+v,'property':pid,'origin':'independent sub-agent given only the property text, a scratch worktree and one-line summaries of earlier seeds to avoid','summary':meta.get('summary'),'needs':meta.get('needs'),'files':meta.get('files'),'agent_ran':meta.get('ran'),
 'confirmed_by_me':{'how':'/verif/tools/verify_seed.sh in a scratch worktree of /repo HEAD','builds_default':kv.get('build'),'builds_noasmtest':kv.get('build_noasm'),'pinned_suite_with_patch':kv.get('suite'),'suite_noasmtest_with_patch':kv.get('suite_noasm'),'demo_with_patch':kv.get('demo_with'),'demo_without_patch':kv.get('demo_without'),'demo_dir':kv.get('dir'),'demo_test':kv.get('test')}}
json.dump(out,open(dst+'/meta.json','w'),indent=1)
PY
done

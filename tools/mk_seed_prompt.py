#!/usr/bin/env python3
"""usage: mk_seed_prompt.py <Cxx> <round> -> prints the prompt given to a seeding sub-agent.
The agent is given the property record, its own scratch worktree and one-line summaries of the seeds already
kept for that property (so that it looks for different mechanisms); nothing else from /verif."""
import json, sys, glob, os
pid, rnd = sys.argv[1], sys.argv[2]
prop = [json.loads(l) for l in open('/verif/properties.jsonl') if l.strip()]
prop = [p for p in prop if p['id'] == pid][0]
W, OUT = f"/tmp/w{rnd}-{pid}", f"/tmp/seed{rnd}-{pid}"
earlier = []
for m in sorted(glob.glob(f'/verif/seeded/{pid}*/meta.json')):
    s = (json.load(open(m)).get('summary') or '').replace('\n', ' ')
    if s:
        earlier.append('- ' + s[:210])
q = prop['quantifier']['text'] if isinstance(prop['quantifier'], dict) else prop['quantifier']
print(f"""You are testing how well a verification effort catches regressions in a Go library. You work ONLY in the scratch git worktree {W} (a checkout of module github.com/intel/fastgo: assembly-accelerated DEFLATE compression/decompression with gzip and zlib wrappers). Do NOT read or touch /repo, /verif or any other /tmp directory. Write your results to {OUT}/.

Every shell call must begin with: export GOFLAGS=-mod=mod GOPROXY=off GOSUMDB=off GOTOOLCHAIN=local   (no network is available).
Existing test suite (must keep passing): from {W} run `go test -vet=off -count=1 ./...` and also `go test -vet=off -count=1 -tags noasmtest ./...` (the tag selects the portable Go code instead of the assembly; this host is an Intel CPU at acceleration level 4).

THE PROPERTY (this is all you are told):
id: {prop['id']}
title: {prop['title']}
statement: {prop['statement']}
quantifier: {q}
why the existing tests cannot settle it: {prop['why_tests_cant']}
anchors: {json.dumps(prop['anchors'], indent=1)}

YOUR TASK: produce THREE different, realistic source changes (a, b, c) to the library's non-test code (Go or assembly), each of which
 1. BREAKS the property above for some input / call history / schedule / configuration,
 2. still COMPILES in both configurations (default and -tags noasmtest) and still PASSES the whole existing test suite unchanged in both,
 3. needs something SPECIFIC to manifest (a particular input shape, size boundary, call order, delivery schedule, acceleration level ...) - i.e. it is the kind of bug that survives code review and a normal test run. Prefer changes that look like plausible refactorings, optimisations or clean-ups of a few lines.
 4. comes with a DEMONSTRATION: a Go test file (package-internal or external test, your choice) that FAILS with your change applied and PASSES on the unchanged tree.

The changes must use mechanisms DIFFERENT from these earlier ones (already known; do not repeat them or trivial variants of them):
{chr(10).join(earlier)}

Also avoid: changes whose only effect is a crash/hang in every use, changes to *_test.go files or go.mod, changes that merely edit a numeric table entry or an assembly constant, removing a bit-buffer refill from an unrolled loop, and packing more codes into one 64-bit accumulator.

DELIVERABLES, for each x in a, b, c, in {OUT}/<x>/ :
 - patch.diff : `git diff` of the change against the clean worktree (must apply with `git apply` to a clean checkout);
 - demo_test.go : the demonstration test. Its FIRST lines must be a comment of exactly this shape:
      // Place in: <directory relative to the repository root, e.g. compress/flate>
      // Run: go test -vet=off -count=1 -run '^<TestName>' ./<that directory>/
   (if the demonstration only fails in the portable configuration, say so in meta.json under "needs" and mention `-tags noasmtest`);
 - meta.json : {{"summary": "<what was changed, file and function, and why it breaks the property>", "needs": "<what it takes to manifest>", "files": [...], "ran": {{"suite_default": "ok|FAIL", "suite_noasmtest": "ok|FAIL", "demo_with_change": "FAIL|ok", "demo_without_change": "ok|FAIL"}}}}
Work on one change at a time: make it, run both suites, write and run the demo with the change, save the diff, then `git checkout -- . && git clean -fdq` and run the demo on the clean tree. Leave the worktree clean at the end. Keep any helper processes bounded and kill only processes you started yourself (never pkill by pattern: other people run tests on this machine). In your final message list the three changes with their outcomes, and mention separately anything you noticed on the UNCHANGED tree that already violates the property (a baseline defect), with how to reproduce it.""")

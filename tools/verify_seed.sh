#!/bin/bash
# usage: verify_seed.sh <dir with patch.diff demo_test.go>
# Confirms in a scratch worktree of /repo HEAD: patch applies; builds in both arms; pinned suite passes
# with the patch; demo FAILS (DEMO_TAGS=noasmtest runs the demo in the portable arm) with the patch; demo PASSES without it. Prints one summary line.
set -u
D=$1
export GOFLAGS=-mod=mod GOPROXY=off GOSUMDB=off GOTOOLCHAIN=local
W=$(mktemp -d /tmp/vseed.XXXXXX)
trap 'git -C /repo worktree remove --force $W >/dev/null 2>&1; rm -rf $W' EXIT
git -C /repo worktree add -q --detach $W HEAD || { echo "RESULT $D worktree-failed"; exit 2; }
head -12 $D/demo_test.go > $W/.hdr
dir=$(grep -oiE 'place in:? +[^ ]+' $W/.hdr | head -1 | awk '{print $NF}' | sed 's#/$##')
tname=$(grep -oE "\-run '?\^?[A-Za-z0-9_]+" $W/.hdr | head -1 | sed "s/-run '\?\^\?//")
rm -f $W/.hdr
[ -n "$dir" ] && [ -n "$tname" ] || { echo "RESULT $D cannot-parse-demo-header dir=$dir test=$tname"; exit 2; }
cd $W
git apply $D/patch.diff || { echo "RESULT $D patch-does-not-apply"; exit 1; }
if git diff --name-only | grep -qE '_test\.go$|go\.mod'; then echo "RESULT $D patch-touches-tests"; exit 1; fi
b1=ok; go build ./... >/dev/null 2>&1 || b1=FAIL
b2=ok; go build -tags noasmtest ./... >/dev/null 2>&1 || b2=FAIL
suite=ok; go test -vet=off -count=1 ./... >$W/.suite.log 2>&1 || suite=FAIL
suite2=ok; go test -vet=off -count=1 -tags noasmtest ./... >/dev/null 2>&1 || suite2=FAIL
cp $D/demo_test.go $dir/zz_seed_demo_test.go
with=pass; go test -vet=off -count=1 ${DEMO_TAGS:+-tags $DEMO_TAGS} -run "^$tname" ./$dir/ >$W/.with.log 2>&1 || with=fail
git checkout -q -- .
without=pass; go test -vet=off -count=1 ${DEMO_TAGS:+-tags $DEMO_TAGS} -run "^$tname" ./$dir/ >$W/.without.log 2>&1 || without=fail
verdict=BAD
[ $b1 = ok ] && [ $b2 = ok ] && [ $suite = ok ] && [ $with = fail ] && [ $without = pass ] && verdict=GOOD
echo "RESULT $D verdict=$verdict build=$b1 build_noasm=$b2 suite=$suite suite_noasm=$suite2 demo_with=$with demo_without=$without dir=$dir test=$tname"
[ $verdict = GOOD ] || { tail -5 $W/.suite.log; tail -5 $W/.without.log; }
